//! Replays of the defects D1..D17 (DESIGN.md §7) against the real code.
//! Each returns `Ok(())` when the property holds on that input and `Err(what)` when the defect shows.
use mila::*;
use std::panic::{catch_unwind, AssertUnwindSafe};

pub type R = Result<(), String>;

fn guard<F: FnOnce() -> R>(f: F) -> R {
    match catch_unwind(AssertUnwindSafe(f)) {
        Ok(r) => r,
        Err(e) => {
            let msg = if let Some(s) = e.downcast_ref::<String>() {
                s.clone()
            } else if let Some(s) = e.downcast_ref::<&str>() {
                s.to_string()
            } else {
                "?".into()
            };
            Err(format!("panic: {}", msg))
        }
    }
}

fn d1() -> R {
    let mut a = BinArchive::new(Endian::Little);
    a.allocate_at_end(8);
    a.write_string(0, Some("hello")).unwrap();
    a.write_c_string(4, "cstr".to_string()).unwrap();
    let bytes = a.serialize().map_err(|e| e.to_string())?;
    let b = BinArchive::from_bytes(&bytes, Endian::Little).map_err(|e| e.to_string())?;
    let s = b.read_string(0).map_err(|e| e.to_string())?;
    if s.as_deref() != Some("hello") {
        return Err(format!("string at 0 re-read as {:?}, pointer {:?}", s, b.read_pointer(0)));
    }
    let c = b.read_c_string(4).map_err(|e| e.to_string())?;
    if c.as_deref() != Some("cstr") {
        return Err(format!("c-string at 4 re-read as {:?}", c));
    }
    Ok(())
}

fn d2() -> R {
    let mut seen = std::collections::HashSet::new();
    for _ in 0..20 {
        let mut a = BinArchive::new(Endian::Big);
        a.allocate_at_end(16);
        for addr in [0usize, 4, 8, 12] {
            a.write_label(addr, "X").unwrap();
        }
        seen.insert(a.serialize().unwrap());
    }
    if seen.len() != 1 {
        return Err(format!("{} distinct images of the same content", seen.len()));
    }
    Ok(())
}

fn d3() -> R {
    let mut a = BinArchive::new(Endian::Little);
    a.allocate_at_end(8);
    a.write_c_string(4, "cs".to_string()).unwrap();
    a.allocate(0, 4, false).unwrap();
    let cs = a.verif_cstrings();
    if cs != vec![("cs".to_string(), vec![8usize])] {
        return Err(format!("pending c-strings after allocate(0,4): {:?}", cs));
    }
    Ok(())
}

fn d4() -> R {
    let mut a = BinArchive::new(Endian::Little);
    a.allocate_at_end(8);
    a.write_label(8, "end").unwrap();
    a.truncate(4).unwrap();
    let bytes = a.serialize().map_err(|e| e.to_string())?;
    BinArchive::from_bytes(&bytes, Endian::Little).map_err(|e| format!("re-parse: {}", e))?;
    if !a.all_labels().is_empty() {
        return Err(format!("labels beyond the cut survive: {:?}", a.all_labels()));
    }
    Ok(())
}

fn d5() -> R {
    let mut a = BinArchive::new(Endian::Little);
    a.allocate_at_end(8);
    if a.read_bytes(4, usize::MAX - 2).is_ok() {
        return Err("read_bytes ok".into());
    }
    if a.deallocate(4, usize::MAX - 3, false).is_ok() {
        return Err("deallocate ok".into());
    }
    Ok(())
}

fn bin_header(total: u32, data: u32, ptrs: u32, labels: u32, len: usize) -> Vec<u8> {
    let mut v = vec![0u8; len];
    v[0..4].copy_from_slice(&total.to_le_bytes());
    v[4..8].copy_from_slice(&data.to_le_bytes());
    v[8..12].copy_from_slice(&ptrs.to_le_bytes());
    v[12..16].copy_from_slice(&labels.to_le_bytes());
    v
}

fn d6() -> R {
    let v = bin_header(0x40, 0, 0x4000_0000, 0, 0x40);
    if BinArchive::from_bytes(&v, Endian::Little).is_ok() {
        return Err("accepted over-declared pointer count".into());
    }
    let v = bin_header(0x40, 0xFFFF_FFF0, 4, 0, 0x40);
    if BinArchive::from_bytes(&v, Endian::Little).is_ok() {
        return Err("accepted over-declared data size".into());
    }
    Ok(())
}

fn d7() -> R {
    let v = vec![0u8; 16];
    match fe9_arc::parse(&v) {
        Ok(_) => Err("accepted wrong magic".into()),
        Err(_) => Ok(()),
    }
}

fn d8() -> R {
    // one entry declaring a 4 GiB - 1 file
    let mut v = vec![0u8; 64];
    v[0..4].copy_from_slice(&0x7061636Bu32.to_be_bytes());
    v[4..6].copy_from_slice(&1u16.to_be_bytes());
    v[12..16].copy_from_slice(&40u32.to_be_bytes()); // name
    v[16..20].copy_from_slice(&48u32.to_be_bytes()); // file
    v[20..24].copy_from_slice(&0xFFFF_FFFFu32.to_be_bytes()); // size
    v[40] = b'a';
    let before = crate::alloc::max_request_reset();
    let _ = before;
    let r = fe9_arc::parse(&v);
    let max = crate::alloc::max_request_reset();
    if r.is_ok() {
        return Err("accepted over-declared file size".into());
    }
    if max > 16 * v.len() + 4096 {
        return Err(format!("requested a single buffer of {} bytes for a {}-byte input", max, v.len()));
    }
    Ok(())
}

pub fn arc_image(offset: u32, padded: bool) -> Vec<u8> {
    // spec-built arc with one file "a" of size 4
    let mut a = BinArchive::new(Endian::Little);
    let hdr = if padded { 0x60 } else { 0 };
    a.allocate_at_end(hdr + 8 + 4 + 16);
    if !padded {
        a.write_u32(0, 0x1234).unwrap();
    }
    // body at hdr+0..8 ; count at hdr+8 ; info at hdr+12
    a.write_bytes(hdr, &[1, 2, 3, 4, 5, 6, 7, 8]).unwrap();
    a.write_label(hdr + 8, "Count").unwrap();
    a.write_u32(hdr + 8, 1).unwrap();
    a.write_label(hdr + 12, "Info").unwrap();
    a.write_string(hdr + 12, Some("a")).unwrap();
    a.write_u32(hdr + 16, 0).unwrap();
    a.write_u32(hdr + 20, 4).unwrap();
    a.write_u32(hdr + 24, offset).unwrap();
    a.serialize().unwrap()
}

fn d9() -> R {
    let img = arc_image(0xFFFF_FFF0, true);
    match arc::from_bytes(&img) {
        Ok(m) => Err(format!("accepted a record whose range leaves the data: {:?}", m)),
        Err(_) => Ok(()),
    }
}

fn d10() -> R {
    let c = LZ13CompressionFormat {};
    let out = c.compress(&[]).map_err(|e| e.to_string());
    // Ok or Err are both fine; reaching here means no panic/abort.
    if let Ok(bytes) = out {
        match c.decompress(&bytes) {
            Ok(v) if v.is_empty() => {}
            other => return Err(format!("empty input does not round-trip: {:?}", other.map_err(|e| e.to_string()))),
        }
    }
    Ok(())
}

fn d11() -> R {
    let c = LZ13CompressionFormat {};
    for inp in [&[][..], &[0x13, 0, 0][..], &[0][..], &[0x11][..]] {
        if c.decompress(inp).is_ok() {
            return Err(format!("accepted {:?}", inp));
        }
    }
    Ok(())
}

fn d12() -> R {
    let s = [0x10u8, 4, 0, 0, 0x80, 0x00, 0x05];
    if (LZ10CompressionFormat {}).decompress(&s).is_ok() {
        return Err("lz10 accepted reference before start".into());
    }
    if (LZ13CompressionFormat {}).decompress(&s).is_ok() {
        return Err("lz13 accepted reference before start".into());
    }
    Ok(())
}

fn d13() -> R {
    let l = PathLocalizer::FE14(FE14PathLocalizer {});
    let r = l.localize(" /x", &Language::EnglishNA).map_err(|e| e.to_string())?;
    if r != " /@E/x" {
        return Err(format!("localize(\" /x\") = {:?}", r));
    }
    Ok(())
}

fn d14() -> R {
    // differential block, base 5, delta -1 on red.
    // Build via bit positions used in etc1.rs: diff bit 33, red1 at 59 (5 bits), red2 delta at 56 (3 bits).
    let mut block: u64 = 0;
    block |= 1 << 33;
    block |= 5u64 << 59;
    block |= 7u64 << 56; // -1
    let mut payload = Vec::new();
    for _ in 0..4 {
        payload.extend_from_slice(&block.to_le_bytes());
    }
    let r = mila::decode(&payload, 8, 8, false);
    r.map(|_| ()).map_err(|e| e.to_string())
}

fn d15() -> R {
    for msg in ["\u{FEFF}abc", "\u{FFFE}abc", "\u{BBEF}\u{41BF}abc"] {
        let mut t = TextArchive::new(TextArchiveFormat::Unicode, Endian::Little);
        t.set_message("K", msg);
        let bytes = t.serialize().map_err(|e| e.to_string())?;
        let u = TextArchive::from_bytes(&bytes, TextArchiveFormat::Unicode, Endian::Little)
            .map_err(|e| e.to_string())?;
        let got = u.get_entries().get("K").cloned();
        if got.as_deref() != Some(msg) {
            return Err(format!("message {:?} re-read as {:?}", msg, got));
        }
    }
    Ok(())
}

fn d16() -> R {
    let t = TextArchive::new(TextArchiveFormat::ShiftJIS, Endian::Big);
    let bytes = t.serialize().map_err(|e| format!("serialize: {}", e))?;
    let u = TextArchive::from_bytes(&bytes, TextArchiveFormat::ShiftJIS, Endian::Big)
        .map_err(|e| e.to_string())?;
    if !u.get_entries().is_empty() {
        return Err("entries appeared".into());
    }
    Ok(())
}

fn d17() -> R {
    for _ in 0..40 {
        let mut a = BinArchive::new(Endian::Little);
        a.allocate_at_end(64);
        for addr in [48usize, 4, 32, 16, 60, 8, 24] {
            a.write_label(addr, "T").unwrap();
        }
        if a.find_label_address("T") != Some(4) {
            return Err(format!("find_label_address = {:?}, lowest is 4", a.find_label_address("T")));
        }
    }
    Ok(())
}

fn d19() -> R {
    let mut a = BinArchive::new(Endian::Little);
    a.allocate_at_end(4);
    {
        let mut w = BinArchiveWriter::new(&mut a, 2);
        if w.write_bytes(&[0xAA, 0xBB, 0xCC]).is_ok() {
            return Err("write beyond the end accepted".into());
        }
        if w.tell() != 2 {
            return Err(format!("failed write_bytes moved the cursor to {}", w.tell()));
        }
    }
    if a.read_bytes(0, 4).unwrap() != [0, 0, 0, 0] {
        return Err(format!("failed write_bytes changed data to {:?}", a.read_bytes(0, 4).unwrap()));
    }
    let mut r = BinArchiveReader::new(&a, 2);
    if r.read_bytes(3).is_ok() {
        return Err("read beyond the end accepted".into());
    }
    if r.tell() != 2 {
        return Err(format!("failed read_bytes moved the cursor to {}", r.tell()));
    }
    Ok(())
}

pub fn all() -> Vec<(&'static str, &'static str, R)> {
    let list: Vec<(&'static str, &'static str, fn() -> R)> = vec![
        ("D1", "C01", d1),
        ("D2", "C02", d2),
        ("D3", "C03", d3),
        ("D4", "C03", d4),
        ("D5", "C04", d5),
        ("D6", "C05", d6),
        ("D7", "C05", d7),
        ("D8", "C05", d8),
        ("D9", "C16", d9),
        ("D10", "C09", d10),
        ("D11", "C11", d11),
        ("D12", "C11", d12),
        ("D13", "C14", d13),
        ("D14", "C19", d14),
        ("D15", "C06", d15),
        ("D16", "C06", d16),
        ("D17", "C17", d17),
        ("D19", "C04", d19),
    ];
    list.into_iter().map(|(d, p, f)| (d, p, guard(f))).collect()
}
