//! The executable sub-codec of Shift-JIS shared with the Lean model (`MilaModel/Model/Codec.lean`,
//! `Sjis.table`): ASCII, half-width katakana, hiragana, katakana, Greek and Cyrillic.  The last two are
//! the classes whose UTF-8 and Shift-JIS encodings have the same length (2 bytes), which is where
//! buffer-size arithmetic in an encoder has no slack.  `binser`'s codec self-check validates every
//! entry against `encoding_rs` in both directions on every run.

/// `(first code point, last code point, lead byte (0 = single-byte code), first trail/single byte)`
pub const TABLE: [(u32, u32, u8, u8); 13] = [
    (0xFF61, 0xFF9F, 0x00, 0xA1), // half-width katakana
    (0x3041, 0x3093, 0x82, 0x9F), // hiragana
    (0x30A1, 0x30DF, 0x83, 0x40), // katakana ァ..ミ
    (0x30E0, 0x30F6, 0x83, 0x80), // katakana ム..ヶ
    (0x0391, 0x03A1, 0x83, 0x9F), // Greek Α..Ρ
    (0x03A3, 0x03A9, 0x83, 0xB0), // Greek Σ..Ω
    (0x03B1, 0x03C1, 0x83, 0xBF), // Greek α..ρ
    (0x03C3, 0x03C9, 0x83, 0xD0), // Greek σ..ω
    (0x0410, 0x0415, 0x84, 0x40), // Cyrillic А..Е
    (0x0416, 0x042F, 0x84, 0x47), // Cyrillic Ж..Я
    (0x0430, 0x0435, 0x84, 0x70), // Cyrillic а..е
    (0x0436, 0x043D, 0x84, 0x77), // Cyrillic ж..н
    (0x043E, 0x044F, 0x84, 0x80), // Cyrillic о..я
];

pub fn in_alphabet(c: char) -> bool {
    let u = c as u32;
    (1..0x80).contains(&u) || TABLE.iter().any(|(lo, hi, _, _)| (*lo..=*hi).contains(&u))
}

pub fn all_in_alphabet(s: &str) -> bool {
    s.chars().all(in_alphabet)
}

/// Shift-JIS bytes of one character of the alphabet (NUL maps to a single 0 byte).
pub fn enc_char(c: char) -> Option<Vec<u8>> {
    let u = c as u32;
    if u < 0x80 {
        return Some(vec![u as u8]);
    }
    for (lo, hi, lead, base) in TABLE.iter() {
        if (*lo..=*hi).contains(&u) {
            let b = (*base as u32 + (u - lo)) as u8;
            return Some(if *lead == 0 { vec![b] } else { vec![*lead, b] });
        }
    }
    None
}

pub fn enc(s: &str) -> Option<Vec<u8>> {
    let mut out = Vec::new();
    for c in s.chars() {
        out.extend(enc_char(c)?);
    }
    Some(out)
}

/// Every non-ASCII character of the alphabet.
pub fn non_ascii() -> Vec<char> {
    let mut v = Vec::new();
    for (lo, hi, _, _) in TABLE.iter() {
        for cp in *lo..=*hi {
            v.push(char::from_u32(cp).unwrap());
        }
    }
    v
}
