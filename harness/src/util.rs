//! Shared helpers: splitmix64 PRNG, hex, panic capture.
use std::panic::{catch_unwind, AssertUnwindSafe};

#[derive(Clone)]
pub struct Rng(pub u64);
impl Rng {
    pub fn new(seed: u64) -> Self {
        // mix the seed first: with an affine map consecutive seeds would yield shifted copies of one stream
        let mut z = seed.wrapping_add(0x1234_5678_9ABC_DEF1);
        z = (z ^ (z >> 30)).wrapping_mul(0xBF58476D1CE4E5B9);
        z = (z ^ (z >> 27)).wrapping_mul(0x94D049BB133111EB);
        Rng(z ^ (z >> 31))
    }
    pub fn next(&mut self) -> u64 {
        self.0 = self.0.wrapping_add(0x9E3779B97F4A7C15);
        let mut z = self.0;
        z = (z ^ (z >> 30)).wrapping_mul(0xBF58476D1CE4E5B9);
        z = (z ^ (z >> 27)).wrapping_mul(0x94D049BB133111EB);
        z ^ (z >> 31)
    }
    /// uniform in 0..n (n > 0)
    pub fn below(&mut self, n: u64) -> u64 {
        self.next() % n
    }
    pub fn range(&mut self, lo: u64, hi_incl: u64) -> u64 {
        lo + self.below(hi_incl - lo + 1)
    }
    pub fn chance(&mut self, num: u64, den: u64) -> bool {
        self.below(den) < num
    }
    pub fn pick<'a, T>(&mut self, xs: &'a [T]) -> &'a T {
        &xs[self.below(xs.len() as u64) as usize]
    }
    pub fn bytes(&mut self, n: usize) -> Vec<u8> {
        (0..n).map(|_| self.next() as u8).collect()
    }
    pub fn shuffle<T>(&mut self, xs: &mut [T]) {
        for i in (1..xs.len()).rev() {
            let j = self.below(i as u64 + 1) as usize;
            xs.swap(i, j);
        }
    }
}

pub fn hex(b: &[u8]) -> String {
    if b.is_empty() {
        return "-".to_string();
    }
    let mut s = String::with_capacity(b.len() * 2);
    for x in b {
        s.push_str(&format!("{:02x}", x));
    }
    s
}
pub fn unhex(s: &str) -> Vec<u8> {
    if s == "-" {
        return Vec::new();
    }
    let b = s.as_bytes();
    (0..b.len() / 2)
        .map(|i| u8::from_str_radix(std::str::from_utf8(&b[2 * i..2 * i + 2]).unwrap(), 16).unwrap())
        .collect()
}
pub fn hexs(s: &str) -> String {
    hex(s.as_bytes())
}
pub fn unhexs(s: &str) -> String {
    String::from_utf8(unhex(s)).unwrap()
}

/// Runs `f`, mapping a panic to `Err(message)`.
pub fn no_panic<T, F: FnOnce() -> T>(f: F) -> Result<T, String> {
    match catch_unwind(AssertUnwindSafe(f)) {
        Ok(v) => Ok(v),
        Err(e) => Err(if let Some(s) = e.downcast_ref::<String>() {
            s.clone()
        } else if let Some(s) = e.downcast_ref::<&str>() {
            s.to_string()
        } else {
            "?".into()
        }),
    }
}

pub fn fnv(s: &str) -> u64 {
    let mut h: u64 = 0xcbf29ce484222325;
    for b in s.as_bytes() {
        h ^= *b as u64;
        h = h.wrapping_mul(0x100000001b3);
    }
    h
}
