//! Counting global allocator: records the largest single allocation request.
use std::alloc::{GlobalAlloc, Layout, System};
use std::sync::atomic::{AtomicUsize, Ordering};

pub struct Counting;
static MAX_REQ: AtomicUsize = AtomicUsize::new(0);
/// Requests at or above this size are refused (returns null => Rust aborts / handle_alloc_error);
/// 0 disables the cap.
static CAP: AtomicUsize = AtomicUsize::new(0);

unsafe impl GlobalAlloc for Counting {
    unsafe fn alloc(&self, l: Layout) -> *mut u8 {
        MAX_REQ.fetch_max(l.size(), Ordering::Relaxed);
        if refused(l.size()) {
            return std::ptr::null_mut();
        }
        System.alloc(l)
    }
    unsafe fn dealloc(&self, p: *mut u8, l: Layout) {
        System.dealloc(p, l)
    }
    unsafe fn alloc_zeroed(&self, l: Layout) -> *mut u8 {
        MAX_REQ.fetch_max(l.size(), Ordering::Relaxed);
        if refused(l.size()) {
            return std::ptr::null_mut();
        }
        System.alloc_zeroed(l)
    }
    unsafe fn realloc(&self, p: *mut u8, l: Layout, n: usize) -> *mut u8 {
        MAX_REQ.fetch_max(n, Ordering::Relaxed);
        if refused(n) {
            return std::ptr::null_mut();
        }
        System.realloc(p, l, n)
    }
}

fn refused(n: usize) -> bool {
    let cap = CAP.load(Ordering::Relaxed);
    cap != 0 && n >= cap
}

/// Returns the largest request since the last reset and resets the counter.
pub fn max_request_reset() -> usize {
    MAX_REQ.swap(0, Ordering::Relaxed)
}
#[allow(dead_code)]
pub fn set_cap(n: usize) {
    CAP.store(n, Ordering::Relaxed)
}
