//! mila-harness: runs the real mila code on generated cases, line protocol shared with the Lean driver.
//!   mila-harness defects                       replay D1..D17
//!   mila-harness gen  <FAMILY> <seed> <tier> <cases.txt>     write case lines
//!   mila-harness run  <FAMILY> <cases.txt> <impl.out>        run the implementation on every case line
mod alloc;
mod defects;
mod util;
mod subcodec;
mod fam;

#[global_allocator]
static GLOBAL: alloc::Counting = alloc::Counting;

fn main() {
    let args: Vec<String> = std::env::args().collect();
    // panics of the code under test are expected and caught per case; keep them quiet while running
    // cases, but let a panic of a *generator* be seen (it is a bug of this harness)
    if args.len() < 2 || args[1] != "gen" {
        std::panic::set_hook(Box::new(|_| {}));
    }
    if args.len() < 2 {
        eprintln!("usage: mila-harness defects | gen FAMILY seed tier out | run FAMILY cases out");
        std::process::exit(2);
    }
    match args[1].as_str() {
        "defects" => {
            let mut bad = 0;
            for (d, p, r) in defects::all() {
                match r {
                    Ok(()) => println!("{} {} holds", d, p),
                    Err(e) => {
                        bad += 1;
                        println!("{} {} DEFECT {}", d, p, e.replace('\n', " "))
                    }
                }
            }
            std::process::exit(if bad > 0 { 1 } else { 0 });
        }
        "sjis-table" => {
            // prints `cp=bytes` for every code point of [lo, hi] that encoding_rs encodes losslessly
            let lo = u32::from_str_radix(&args[2], 16).unwrap();
            let hi = u32::from_str_radix(&args[3], 16).unwrap();
            for cp in lo..=hi {
                if let Some(c) = char::from_u32(cp) {
                    let s = c.to_string();
                    let (b, _, bad) = encoding_rs::SHIFT_JIS.encode(&s);
                    let (back, _, bad2) = encoding_rs::SHIFT_JIS.decode(&b);
                    if !bad && !bad2 && back == s {
                        println!("{:04x}={}", cp, util::hex(&b));
                    }
                }
            }
        }
        "gen" => {
            let seed: u64 = args[3].parse().unwrap();
            let lines = fam::gen(&args[2], seed, &args[4]);
            std::fs::write(&args[5], lines.join("\n") + "\n").unwrap();
        }
        "run-isolated" => {
            // Stateless families only: the cases are run in child processes so that an abort (allocation
            // failure, stack overflow) is observed as `<id> abort` instead of killing the run.
            let text = std::fs::read_to_string(&args[3]).unwrap();
            let lines: Vec<&str> = text.lines().filter(|l| !l.is_empty() && !l.starts_with('#')).collect();
            let mut out = String::new();
            let mut start = 0usize;
            let mut timeouts = 0usize;
            let exe = std::env::current_exe().unwrap();
            while start < lines.len() {
                if timeouts >= 3 {
                    // three cases already failed to terminate: do not spend the run's time budget on the rest
                    for l in &lines[start..] {
                        let id = l.split(' ').next().unwrap_or("?");
                        out.push_str(&format!("{} not-run after-timeouts\n", id));
                    }
                    break;
                }
                let chunk = std::env::temp_dir().join(format!("mila-harness-{}-{}.cases", std::process::id(), start));
                let chunk_out = chunk.with_extension("out");
                std::fs::write(&chunk, lines[start..].join("\n") + "\n").unwrap();
                let _ = std::fs::remove_file(&chunk_out);
                let mut child = std::process::Command::new(&exe)
                    .args(["run-stream", &args[2], chunk.to_str().unwrap(), chunk_out.to_str().unwrap()])
                    .spawn()
                    .unwrap();
                // watchdog: a case that produces no output line for 10 s is killed and recorded as `timeout`
                let mut last_len = 0u64;
                let mut last_change = std::time::Instant::now();
                let mut timed_out = false;
                let status = loop {
                    if let Some(st) = child.try_wait().unwrap() {
                        break st;
                    }
                    std::thread::sleep(std::time::Duration::from_millis(50));
                    let len = std::fs::metadata(&chunk_out).map(|m| m.len()).unwrap_or(0);
                    if len != last_len {
                        last_len = len;
                        last_change = std::time::Instant::now();
                    } else if last_change.elapsed().as_secs() >= 10 {
                        let _ = child.kill();
                        timed_out = true;
                        break child.wait().unwrap();
                    }
                };
                let done = std::fs::read_to_string(&chunk_out).unwrap_or_default();
                let n_done = done.lines().count();
                out.push_str(&done);
                if !done.is_empty() && !done.ends_with('\n') {
                    out.push('\n');
                }
                let _ = std::fs::remove_file(&chunk);
                let _ = std::fs::remove_file(&chunk_out);
                start += n_done;
                if status.success() && start >= lines.len() {
                    break;
                }
                if start < lines.len() {
                    // the child died while running lines[start]
                    let id = lines[start].split(' ').next().unwrap_or("?");
                    if timed_out {
                        timeouts += 1;
                    }
                    out.push_str(&format!("{} {}\n", id, if timed_out { "timeout" } else { "abort" }));
                    start += 1;
                }
            }
            std::fs::write(&args[4], out).unwrap();
        }
        "run-stream" => {
            // like `run`, but appends and flushes each output line as soon as it is produced
            use std::io::Write;
            alloc::set_cap(1 << 30);
            let text = std::fs::read_to_string(&args[3]).unwrap();
            let mut f = std::fs::File::create(&args[4]).unwrap();
            let mut st = fam::State::default();
            for line in text.lines() {
                if line.is_empty() || line.starts_with('#') {
                    continue;
                }
                let r = fam::run_line(&args[2], &mut st, line);
                f.write_all(r.as_bytes()).unwrap();
                f.write_all(b"\n").unwrap();
                f.flush().unwrap();
            }
        }
        "run" => {
            let text = std::fs::read_to_string(&args[3]).unwrap();
            let mut out = String::new();
            let mut st = fam::State::default();
            for line in text.lines() {
                if line.is_empty() || line.starts_with('#') {
                    continue;
                }
                let r = fam::run_line(&args[2], &mut st, line);
                out.push_str(&r);
                out.push('\n');
            }
            std::fs::write(&args[4], out).unwrap();
        }
        _ => {
            eprintln!("unknown command");
            std::process::exit(2);
        }
    }
}
