//! mila-harness: runs the real mila code on generated cases, line protocol shared with the Lean driver.
//!   mila-harness defects                       replay D1..D17
//!   mila-harness gen  <FAMILY> <seed> <tier> <cases.txt>     write case lines
//!   mila-harness run  <FAMILY> <cases.txt> <impl.out>        run the implementation on every case line
mod alloc;
mod defects;
mod util;
mod fam;

#[global_allocator]
static GLOBAL: alloc::Counting = alloc::Counting;

fn main() {
    std::panic::set_hook(Box::new(|_| {}));
    let args: Vec<String> = std::env::args().collect();
    if args.len() < 2 {
        eprintln!("usage: mila-harness defects | gen FAMILY seed tier out | run FAMILY cases out");
        std::process::exit(2);
    }
    match args[1].as_str() {
        "defects" => {
            let mut bad = 0;
            for (d, p, r) in defects::all() {
                match r {
                    Ok(()) => println!("{} {} holds", d, p),
                    Err(e) => {
                        bad += 1;
                        println!("{} {} DEFECT {}", d, p, e.replace('\n', " "))
                    }
                }
            }
            std::process::exit(if bad > 0 { 1 } else { 0 });
        }
        "gen" => {
            let seed: u64 = args[3].parse().unwrap();
            let lines = fam::gen(&args[2], seed, &args[4]);
            std::fs::write(&args[5], lines.join("\n") + "\n").unwrap();
        }
        "run" => {
            let text = std::fs::read_to_string(&args[3]).unwrap();
            let mut out = String::new();
            let mut st = fam::State::default();
            for line in text.lines() {
                if line.is_empty() || line.starts_with('#') {
                    continue;
                }
                let r = fam::run_line(&args[2], &mut st, line);
                out.push_str(&r);
                out.push('\n');
            }
            std::fs::write(&args[4], out).unwrap();
        }
        _ => {
            eprintln!("unknown command");
            std::process::exit(2);
        }
    }
}
