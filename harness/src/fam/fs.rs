//! Family `fs`: C12 C13 (+ the filesystem clause of C14) — `LayeredFilesystem` over real temp directories.
//!
//! A case is a history: the first line creates 1-4 layer directories (or fails: unsupported game,
//! no layers), every later line is one filesystem call.  After every call the harness prints the
//! return value and a full sorted directory walk of every layer (layer roots appear only as L0..L3).
//!
//! Case lines (`~` = absent, `-` = empty, payloads are referenced by index into the case's table):
//!   <id> new <game> <lang> <n> <P> <A> <tree0> .. <tree{n-1}>
//!        P = `;`-separated payload records `hex,cz,dz,d0..d11`: payload bytes, mila's compress /
//!            decompress of it for the game's format (`!` = error, `o<hex>` = ok) and digests of the
//!            typed parsers applied to it (bin BE, bin LE, text SJIS/BE, SJIS/LE, UTF16/BE, UTF16/LE,
//!            fe9 pack, 3DS arc, tpl, bch, ctpk, cgfx).  The table is the graph of the *abstract*
//!            codecs of the model restricted to the byte strings that can occur in the case.
//!        A = `,`-separated: serialisation (payload index or `!`) of the four fixed typed archives
//!        tree = `,`-separated `hexpath:d` / `hexpath:f:p<i>` (parents listed before children)
//!   <id> write <path> p<i> <loc> | read <path> <loc> | exists|file_exists|directory_exists|resolve|create_dir <path> <loc>
//!   <id> list <path> <pat|~> <loc> | subdirs <path> <loc>
//!   <id> read_archive|read_text|read_fe9arc|read_arc|read_tpl|read_bch|read_ctpk|read_cgfx <path> <loc>
//!   <id> write_archive|write_text <path> a<k> <loc> | cfg
//! Implementation line: `<id> <outcome..> | <walk L0> <walk L1> ..` with walk = `,`-separated
//! `hexpath:d` / `hexpath:f:<hex>` sorted by path bytes.
#![allow(unused)]
use crate::util::*;
use indexmap::IndexMap;
use mila::*;
use std::collections::HashMap;
use std::path::{Path, PathBuf};

pub const GAMES: [&str; 7] = ["FE9", "FE10", "FE13", "FE14", "FE15", "FE11", "FE12"];
use super::loc::{language, localizer, LANGS};

fn game(name: &str) -> Game {
    match name {
        "FE9" => Game::FE9,
        "FE10" => Game::FE10,
        "FE11" => Game::FE11,
        "FE12" => Game::FE12,
        "FE13" => Game::FE13,
        "FE14" => Game::FE14,
        "FE15" => Game::FE15,
        _ => panic!("game {}", name),
    }
}

/// Which LZ format the *property statement* assigns to a game (used for the codec table only).
fn is_lz10_game(g: &str) -> bool {
    g == "FE9" || g == "FE10"
}
fn compress_for(g: &str, b: &[u8]) -> Option<Vec<u8>> {
    let r = no_panic(|| {
        if is_lz10_game(g) {
            LZ10CompressionFormat {}.compress(b).ok()
        } else {
            LZ13CompressionFormat {}.compress(b).ok()
        }
    });
    r.unwrap_or(None)
}
fn decompress_for(g: &str, b: &[u8]) -> Option<Vec<u8>> {
    let r = no_panic(|| {
        if is_lz10_game(g) {
            LZ10CompressionFormat {}.decompress(b).ok()
        } else {
            LZ13CompressionFormat {}.decompress(b).ok()
        }
    });
    r.unwrap_or(None)
}

// ---------------------------------------------------------------------------------------------
// digests of typed results (shared by the table in `gen` and by the typed reads in `run_line`)
// ---------------------------------------------------------------------------------------------

fn dig(s: &str) -> String {
    format!("o{:016x}", fnv(s))
}
fn dig_bin(a: &BinArchive) -> String {
    match a.serialize() {
        Ok(b) => dig(&format!("bin {} {}", a.size(), hex(&b))),
        Err(_) => dig(&format!("bin {} serr", a.size())),
    }
}
fn dig_text(t: &TextArchive) -> String {
    let mut s = format!("text title={}", hexs(t.get_title()));
    for (k, v) in t.get_entries() {
        s.push_str(&format!(" {}={}", hexs(k), hexs(v)));
    }
    dig(&s)
}
fn dig_pack(m: &IndexMap<String, Vec<u8>>) -> String {
    let mut s = "pack".to_string();
    for (k, v) in m {
        s.push_str(&format!(" {}={}", hexs(k), hex(v)));
    }
    dig(&s)
}
fn dig_arc(m: &HashMap<String, Vec<u8>>) -> String {
    let mut ks: Vec<&String> = m.keys().collect();
    ks.sort();
    let mut s = "arc".to_string();
    for k in ks {
        s.push_str(&format!(" {}={}", hexs(k), hex(&m[k])));
    }
    dig(&s)
}
fn dig_tex_vec(v: &[Texture]) -> String {
    let mut s = "texv".to_string();
    for t in v {
        s.push_str(&format!(" {}:{}:{}:{}", hexs(&t.filename), t.width, t.height, hex(&t.pixel_data)));
    }
    dig(&s)
}
fn dig_tex_map(m: &HashMap<String, Texture>) -> String {
    let mut ks: Vec<&String> = m.keys().collect();
    ks.sort();
    let mut s = "texm".to_string();
    for k in ks {
        let t = &m[k];
        s.push_str(&format!(" {}:{}:{}:{}", hexs(&t.filename), t.width, t.height, hex(&t.pixel_data)));
    }
    dig(&s)
}
fn tex_vec_to_map(v: Vec<Texture>) -> HashMap<String, Texture> {
    v.into_iter().map(|t| (t.filename.clone(), t)).collect()
}
fn wrap<T, E>(r: Result<Result<T, E>, String>, f: impl Fn(&T) -> String) -> String {
    match r {
        Err(_) => "p".to_string(),
        Ok(Err(_)) => "!".to_string(),
        Ok(Ok(v)) => f(&v),
    }
}

/// The twelve typed digests of one byte string, in table order.
fn typed_digests(b: &[u8]) -> Vec<String> {
    let mut d = Vec::new();
    for e in [Endian::Big, Endian::Little] {
        d.push(wrap(no_panic(|| BinArchive::from_bytes(b, e)), dig_bin));
    }
    for f in [TextArchiveFormat::ShiftJIS, TextArchiveFormat::Unicode] {
        for e in [Endian::Big, Endian::Little] {
            d.push(wrap(no_panic(|| TextArchive::from_bytes(b, f, e)), dig_text));
        }
    }
    d.push(wrap(no_panic(|| fe9_arc::parse(b)), dig_pack));
    d.push(wrap(no_panic(|| arc::from_bytes(b)), dig_arc));
    d.push(wrap(no_panic(|| tpl::Tpl::extract_textures(b)), |v| dig_tex_vec(v)));
    d.push(wrap(no_panic(|| bch::read(b).map(tex_vec_to_map)), dig_tex_map));
    d.push(wrap(no_panic(|| ctpk::read(b).map(tex_vec_to_map)), dig_tex_map));
    d.push(wrap(no_panic(|| cgfx::read(b).map(tex_vec_to_map)), dig_tex_map));
    d
}

// ---------------------------------------------------------------------------------------------
// the four fixed typed archives (built with the public API)
// ---------------------------------------------------------------------------------------------

fn bin_archive(k: usize) -> BinArchive {
    let e = if k == 0 { Endian::Big } else { Endian::Little };
    let mut a = BinArchive::new(e);
    a.allocate_at_end(8);
    a.write_u32(0, 0x01020304).unwrap();
    a.write_u16(4, 0xA1B2).unwrap();
    a.write_label(4, "Lbl").unwrap();
    a
}
fn text_archive(k: usize) -> TextArchive {
    let mut t = if k == 2 {
        TextArchive::new(TextArchiveFormat::ShiftJIS, Endian::Big)
    } else {
        TextArchive::new(TextArchiveFormat::Unicode, Endian::Little)
    };
    t.set_title("Ttl".to_string());
    t.set_message("MID_A", "Hi ｱ");
    t
}
fn archive_bytes(k: usize) -> Option<Vec<u8>> {
    let r = no_panic(|| {
        if k < 2 {
            bin_archive(k).serialize().ok()
        } else {
            text_archive(k).serialize().ok()
        }
    });
    r.unwrap_or(None)
}

// ---------------------------------------------------------------------------------------------
// generator
// ---------------------------------------------------------------------------------------------

const NAMES: [&str; 20] = [
    "a", "b", "c", "m", "f", ".h", ".hd", "g.txt", "x.lz", "y.cms", "z.cmp", "t.bin", "u.bin.lz", "a b", "é.txt", "@E",
    "E", "e_f", "e_y.cms", "lz",
];
/// Unusual but legal file-name characters (on Unix `\\` is an ordinary character).  Glob metacharacters
/// (`*`, `?`, `[`, `]`) are left out: the code pastes the listed directory into a glob pattern, and the
/// property's domain excludes them (DESIGN §6 C13 "!").
const ODD_NAMES: [&str; 22] = [
    "a\\b.bin", "b.bin", "d\\e", "\\", "x\\", "#h", "100%", "a+b", "it's", "-dash", "ｳﾏ.txt", "日本", "~t", "a,b;c",
    // code points whose low byte looks like a special ASCII byte (newline, backslash, NUL, 'n', '*')
    "上.txt", "乜", "一", "乮.bin", "Ċ", "Ā.lz", "《x》", "＊",
];
const EXTS: [&str; 8] = ["txt", "lz", "bin", "cms", "cmp", "TXT", "Txt", "LZ"];
/// Names that differ only in letter case (`glob::glob` matches case-sensitively; so must listings).
const CASE_SETS: [&[&str]; 5] = [
    &["readme.txt", "README.TXT", "Notes.Txt"],
    &["g.txt", "G.TXT", "g.Txt"],
    &["a", "A"],
    &["x.lz", "X.LZ", "x.Lz"],
    &["m", "M", "t.bin", "T.BIN"],
];
/// Pairs differing only in the case of the STEM (same extension): one pattern keeps both.
const STEM_SETS: [&[&str]; 3] = [&["Portrait.bin", "portrait.bin"], &["A.lz", "a.lz", "A.cms", "a.cms"], &["Zeta", "zeta", "zeta.bin", "Zeta.bin"]];

struct Table {
    recs: Vec<Vec<u8>>,
}
impl Table {
    fn idx(&mut self, b: &[u8]) -> usize {
        if let Some(i) = self.recs.iter().position(|x| x == b) {
            return i;
        }
        self.recs.push(b.to_vec());
        self.recs.len() - 1
    }
}

/// Base payloads S0 of a case; typed archive serialisations are payloads 6..9 (when they exist).
fn base_payloads(rng: &mut Rng) -> (Vec<Vec<u8>>, Vec<Option<usize>>) {
    let mut s0: Vec<Vec<u8>> = vec![
        vec![],
        vec![0x41],
        b"hello".to_vec(),
        vec![b'a'; 40],
        b"abcabcabcabcabcabcabcabcabcabcabcabc".to_vec(),
        rng.bytes(24),
    ];
    let mut arch = Vec::new();
    for k in 0..4 {
        match archive_bytes(k) {
            Some(b) => {
                if let Some(i) = s0.iter().position(|x| *x == b) {
                    arch.push(Some(i));
                } else {
                    s0.push(b);
                    arch.push(Some(s0.len() - 1));
                }
            }
            None => arch.push(None),
        }
    }
    let mut m: IndexMap<String, Vec<u8>> = IndexMap::new();
    m.insert("f.bin".to_string(), vec![1, 2, 3]);
    if let Ok(b) = fe9_arc::serialize(&m) {
        s0.push(b);
    }
    (s0, arch)
}

/// `P` and `A` fields of the `new` line. Records: S0 first (so that `p<i>` indexes S0), then the closure
/// under compress/decompress for the game's format.
fn table_fields(g: &str, s0: &[Vec<u8>], arch: &[Option<usize>]) -> (String, String) {
    let mut t = Table { recs: s0.to_vec() };
    let mut i = 0;
    // closure: compress(S0), decompress(S0 ∪ compress(S0)); one more round covers reads of stored files
    let n0 = s0.len();
    for j in 0..n0 {
        if let Some(c) = compress_for(g, &s0[j]) {
            t.idx(&c);
        }
    }
    let n1 = t.recs.len();
    for j in 0..n1 {
        let b = t.recs[j].clone();
        if let Some(d) = decompress_for(g, &b) {
            t.idx(&d);
        }
    }
    let mut recs = Vec::new();
    while i < t.recs.len() {
        let b = t.recs[i].clone();
        let cz = match compress_for(g, &b) {
            Some(c) => hex(&c),
            None => "!".to_string(),
        };
        let dz = match decompress_for(g, &b) {
            Some(d) => format!("o{}", hex(&d)),
            None => "!".to_string(),
        };
        let mut f = vec![hex(&b), cz, dz];
        f.extend(typed_digests(&b));
        recs.push(f.join(","));
        i += 1;
    }
    let a: Vec<String> = arch
        .iter()
        .map(|x| match x {
            Some(i) => format!("p{}", i),
            None => "!".to_string(),
        })
        .collect();
    (recs.join(";"), a.join(","))
}

#[derive(Clone)]
enum Ent {
    Dir,
    File(usize),
}

/// Builds a consistent tree from (path, entry) wishes: parents become directories, clashes are skipped.
fn build_tree(wishes: &[(String, Ent)]) -> Vec<(String, Ent)> {
    let mut tree: Vec<(String, Ent)> = Vec::new();
    'w: for (p, e) in wishes {
        let comps: Vec<&str> = p.split('/').filter(|c| !c.is_empty() && *c != ".").collect();
        if comps.is_empty() || comps.iter().any(|c| *c == "..") {
            continue;
        }
        // every proper prefix must be absent or a directory; the path itself must be absent
        for k in 1..=comps.len() {
            let q = comps[..k].join("/");
            if let Some((_, x)) = tree.iter().find(|(t, _)| *t == q) {
                if k == comps.len() {
                    continue 'w;
                }
                if let Ent::File(_) = x {
                    continue 'w;
                }
            }
        }
        for k in 1..comps.len() {
            let q = comps[..k].join("/");
            if !tree.iter().any(|(t, _)| *t == q) {
                tree.push((q, Ent::Dir));
            }
        }
        tree.push((comps.join("/"), e.clone()));
    }
    tree
}
fn tree_field(tree: &[(String, Ent)]) -> String {
    if tree.is_empty() {
        return "-".to_string();
    }
    tree.iter()
        .map(|(p, e)| match e {
            Ent::Dir => format!("{}:d", hexs(p)),
            Ent::File(i) => format!("{}:f:p{}", hexs(p), i),
        })
        .collect::<Vec<_>>()
        .join(",")
}

fn localized(g: &str, lang: &str, p: &str) -> Option<String> {
    if g == "FE11" || g == "FE12" {
        return None;
    }
    no_panic(|| localizer(g).localize(p, &language(lang)).ok()).unwrap_or(None)
}

fn new_line(id: &str, g: &str, lang: &str, s0: &[Vec<u8>], arch: &[Option<usize>], trees: &[Vec<(String, Ent)>]) -> String {
    let (p, a) = table_fields(g, s0, arch);
    let mut l = format!("{} new {} {} {} {} {}", id, g, lang, trees.len(), p, a);
    for t in trees {
        l.push(' ');
        l.push_str(&tree_field(t));
    }
    l
}

fn b01(b: bool) -> &'static str {
    if b {
        "1"
    } else {
        "0"
    }
}

/// Fixed scenario run for every game x language: configuration table through the typed helpers,
/// compressed suffixes, localized access.
fn config_case(rng: &mut Rng, id: &str, g: &str, lang: &str) -> Vec<String> {
    let (s0, arch) = base_payloads(rng);
    let trees = vec![
        build_tree(&[("t/low.bin".to_string(), Ent::File(2)), ("m/x".to_string(), Ent::Dir)]),
        build_tree(&[("t".to_string(), Ent::Dir)]),
    ];
    let mut l = vec![new_line(id, g, lang, &s0, &arch, &trees)];
    let mut op = |s: String| l.push(format!("{} {}", id, s));
    op("cfg".to_string());
    if g == "FE11" || g == "FE12" {
        // `new` fails (unsupported game): nothing else to run
        return l;
    }
    for k in 0..4 {
        let w = if k < 2 { "write_archive" } else { "write_text" };
        for name in ["t/r.bin", "t/z.bin.lz", "t/z.cms", "t/z.cmp"] {
            op(format!("{} {} a{} 0", w, hexs(name), k));
            op(format!("read {} 0", hexs(name)));
            op(format!("read_archive {} 0", hexs(name)));
            op(format!("read_text {} 0", hexs(name)));
        }
    }
    op(format!("write {} p{} 0", hexs("t/p.arc"), s0.len() - 1));
    for r in ["read_fe9arc", "read_arc", "read_tpl", "read_bch", "read_ctpk", "read_cgfx"] {
        op(format!("{} {} 0", r, hexs("t/p.arc")));
        op(format!("{} {} 0", r, hexs("t/none")));
    }
    // localized access
    for name in ["m/GameData.bin.lz", "m/x/y.cms", "m/plain.txt", "single.lz", "single.cms", "single"] {
        op(format!("write {} p3 1", hexs(name)));
        op(format!("read {} 1", hexs(name)));
        op(format!("exists {} 1", hexs(name)));
        op(format!("file_exists {} 1", hexs(name)));
        op(format!("resolve {} 1", hexs(name)));
        if let Some(q) = localized(g, lang, name) {
            op(format!("read {} 0", hexs(&q)));
            op(format!("resolve {} 0", hexs(&q)));
        }
    }
    op(format!("create_dir {} 1", hexs("m/newdir")));
    op(format!("directory_exists {} 1", hexs("m/newdir")));
    for d in ["m", "m/x", "", "single"] {
        op(format!("list {} ~ 1", hexs(d)));
        op(format!("subdirs {} 1", hexs(d)));
        if let Some(q) = localized(g, lang, d) {
            op(format!("list {} ~ 0", hexs(&q)));
            op(format!("subdirs {} 0", hexs(&q)));
        }
    }
    op(format!("list {} ~ 0", hexs("")));
    l
}

fn rand_path(rng: &mut Rng, names: &[&str]) -> String {
    let depth = match rng.below(10) {
        0..=2 => 1,
        3..=6 => 2,
        _ => 3,
    };
    let mut comps: Vec<&str> = Vec::new();
    for _ in 0..depth {
        comps.push(*rng.pick(names));
    }
    comps.join("/")
}

fn rand_pattern(rng: &mut Rng, names: &[&str]) -> String {
    match rng.below(9) {
        0 | 1 => "~".to_string(),
        2 => hexs("*"),
        3 => hexs("**/*"),
        4 => hexs(&format!("*.{}", rng.pick(&EXTS))),
        5 | 6 => hexs(&format!("**/*.{}", rng.pick(&EXTS))),
        _ => hexs(&format!("{}/*", rng.pick(names))),
    }
}

fn history_case(rng: &mut Rng, id: &str, g: &str, lang: &str, nlayers: usize, max_ops: usize) -> Vec<String> {
    let (s0, arch) = base_payloads(rng);
    // per-case name pool: small, so that paths collide (shadowing, file-vs-directory clashes)
    let mut names: Vec<&str> = Vec::new();
    let k = rng.range(3, 6) as usize;
    while names.len() < k {
        let n = *rng.pick(&NAMES);
        if !names.contains(&n) {
            names.push(n);
        }
    }
    // letter case: in one case out of three a set of names that differ only in case
    if rng.chance(1, 3) {
        for n in *rng.pick(&CASE_SETS) {
            if !names.contains(n) {
                names.push(*n);
            }
        }
    }
    if rng.chance(1, 4) {
        for n in *rng.pick(&STEM_SETS) {
            if !names.contains(n) {
                names.push(*n);
            }
        }
    }
    // unusual characters: one or two odd names in two cases out of three; in one of six the trio
    // `a`, `b.bin`, `a\b.bin` (names that differ only by `\` vs `/`)
    match rng.below(6) {
        0 | 1 => {}
        2 => {
            for n in ["a", "b.bin", "a\\b.bin"] {
                if !names.contains(&n) {
                    names.push(n);
                }
            }
        }
        _ => {
            for _ in 0..rng.range(1, 2) {
                let n = *rng.pick(&ODD_NAMES);
                if !names.contains(&n) {
                    names.push(n);
                }
            }
        }
    }
    // always one name with the game's compressed suffix
    let sfx = if is_lz10_game(g) { *rng.pick(&["y.cms", "z.cmp"]) } else { *rng.pick(&["x.lz", "u.bin.lz"]) };
    if !names.contains(&sfx) {
        names.push(sfx);
    }
    // logical (unlocalised) paths the history talks about
    let mut logical: Vec<String> = Vec::new();
    for _ in 0..rng.range(4, 9) {
        logical.push(rand_path(rng, &names));
    }
    let mut trees = Vec::new();
    for _ in 0..nlayers {
        let mut wishes = Vec::new();
        for _ in 0..rng.range(0, 7) {
            let mut p = if rng.chance(4, 5) { rng.pick(&logical).clone() } else { rand_path(rng, &names) };
            if rng.chance(1, 3) {
                if let Some(q) = localized(g, lang, &p) {
                    p = q;
                }
            }
            let e = if rng.chance(1, 4) { Ent::Dir } else { Ent::File(rng.below(s0.len() as u64) as usize) };
            wishes.push((p, e));
        }
        trees.push(build_tree(&wishes));
    }
    let mut l = vec![new_line(id, g, lang, &s0, &arch, &trees)];
    let nops = rng.range(6, max_ops as u64) as usize;
    let mut count = 0;
    while count < nops {
        // path: mostly a logical path or one of its prefixes, sometimes decorated
        let mut p = if rng.chance(5, 6) { rng.pick(&logical).clone() } else { rand_path(rng, &names) };
        if rng.chance(1, 5) {
            if let Some(i) = p.rfind('/') {
                p.truncate(i);
            }
        }
        match rng.below(40) {
            0 => p = String::new(),
            1 => p = ".".to_string(),
            2..=5 => p.push('/'),
            6 => p = format!("./{}", p),
            _ => {}
        }
        let loc = rng.chance(2, 5);
        let lb = b01(loc);
        let ph = hexs(&p);
        let mut ops: Vec<String> = Vec::new();
        match rng.below(100) {
            0..=21 => {
                let pi = rng.below(s0.len() as u64);
                ops.push(format!("write {} p{} {}", ph, pi, lb));
                if rng.chance(1, 2) {
                    ops.push(format!("read {} {}", ph, lb));
                }
                if rng.chance(1, 4) {
                    ops.push(format!("file_exists {} {}", ph, lb));
                }
                if !logical.contains(&p) && !p.is_empty() {
                    logical.push(p.clone());
                }
            }
            22..=35 => ops.push(format!("read {} {}", ph, lb)),
            36..=40 => ops.push(format!("exists {} {}", ph, lb)),
            41..=45 => ops.push(format!("file_exists {} {}", ph, lb)),
            46..=49 => ops.push(format!("directory_exists {} {}", ph, lb)),
            50..=54 => ops.push(format!("resolve {} {}", ph, lb)),
            55..=61 => {
                ops.push(format!("create_dir {} {}", ph, lb));
                if rng.chance(1, 3) {
                    ops.push(format!("directory_exists {} {}", ph, lb));
                }
            }
            62..=80 => ops.push(format!("list {} {} {}", ph, rand_pattern(rng, &names), lb)),
            81..=88 => ops.push(format!("subdirs {} {}", ph, lb)),
            89..=92 => {
                let k = rng.below(4);
                let w = if k < 2 { "write_archive" } else { "write_text" };
                ops.push(format!("{} {} a{} {}", w, ph, k, lb));
                ops.push(format!("{} {} {}", if k < 2 { "read_archive" } else { "read_text" }, ph, lb));
            }
            _ => {
                let r = *rng.pick(&["read_archive", "read_text", "read_fe9arc", "read_arc", "read_tpl", "read_bch", "read_ctpk", "read_cgfx"]);
                ops.push(format!("{} {} {}", r, ph, lb));
            }
        }
        // the path's ancestors, resolved (and existence-queried) before and after a write / create_dir
        if (ops[0].starts_with("write ") || ops[0].starts_with("create_dir ")) && rng.chance(1, 3) {
            let comps: Vec<&str> = p.split('/').filter(|c| !c.is_empty() && *c != ".").collect();
            let q = *rng.pick(&["resolve", "resolve", "exists", "directory_exists", "file_exists"]);
            let mut probes: Vec<String> = Vec::new();
            for k in 1..=comps.len() {
                probes.push(format!("{} {} {}", q, hexs(&comps[..k].join("/")), if k == comps.len() { lb } else { "0" }));
            }
            let mut v = probes.clone();
            v.extend(ops.drain(..));
            v.extend(probes);
            ops = v;
        }
        // the same call, unlocalised, on the localised path (C14: all operations apply the same mapping)
        if loc && rng.chance(1, 3) {
            if let Some(q) = localized(g, lang, &p) {
                let first: Vec<&str> = ops[0].split(' ').collect();
                if first[0] != "write" && !first[0].starts_with("write_") && first[0] != "create_dir" {
                    let mut f: Vec<String> = first.iter().map(|s| s.to_string()).collect();
                    f[1] = hexs(&q);
                    let last = f.len() - 1;
                    f[last] = "0".to_string();
                    ops.push(f.join(" "));
                }
            }
        }
        for o in ops {
            l.push(format!("{} {}", id, o));
            count += 1;
        }
    }
    l
}

/// Systematic listing block: one fixed three-layer tree, every directory (root, nested, empty, missing,
/// a file, file-in-one-layer/dir-in-another) x every pattern of the family, plus subdirectories.
fn listing_case(rng: &mut Rng, id: &str, g: &str, lang: &str) -> Vec<String> {
    let (s0, arch) = base_payloads(rng);
    let f = |i: usize| Ent::File(i);
    let trees = vec![
        build_tree(&[
            ("d/e/x.txt".to_string(), f(1)),
            ("d/.hd/y.txt".to_string(), f(2)),
            (".h".to_string(), f(0)),
            ("f".to_string(), f(2)),
            ("d/k.lz".to_string(), f(3)),
            ("q/only0".to_string(), Ent::Dir),
        ]),
        build_tree(&[
            ("d/z.txt".to_string(), f(1)),
            ("d/e/x.txt".to_string(), f(4)),
            ("g".to_string(), f(1)),
            ("f".to_string(), Ent::Dir),
            ("emp".to_string(), Ent::Dir),
            ("d/e.txt".to_string(), Ent::Dir),
        ]),
        build_tree(&[
            ("d/e".to_string(), f(1)),
            ("a b/é.txt".to_string(), f(2)),
            ("d/.txt".to_string(), f(0)),
            ("a\\b.bin".to_string(), f(1)),
            ("a/b.bin".to_string(), f(2)),
            ("d\\e/x\\y.txt".to_string(), f(1)),
            ("#h%+'".to_string(), f(0)),
            ("-x/~y".to_string(), f(1)),
            ("README.TXT".to_string(), f(1)),
            ("readme.txt".to_string(), f(2)),
            ("d/Notes.Txt".to_string(), f(0)),
            ("D/z.txt".to_string(), f(1)),
            ("D/E/X.TXT".to_string(), f(2)),
        ]),
    ];
    let mut l = vec![new_line(id, g, lang, &s0, &arch, &trees)];
    let dirs = ["", ".", "d", "d/", "d/e", "d/.hd", "f", "g", "emp", "nope", "nope/x", "q", "a b", "d/e/x.txt", "./d", "a", "d\\e", "-x", "D", "D/E", "D/e"];
    let pats = [
        "~", "*", "**/*", "*.txt", "**/*.txt", "*.lz", "**/*.lz", "e/*", "d/*", ".hd/*", "f/*", "nope/*", "*.TXT", "**/*.TXT", "**/*.Txt",
        "D/*", "E/*", "readme*", "**/x*",
    ];
    for d in dirs {
        for p in pats {
            let ph = if p == "~" { "~".to_string() } else { hexs(p) };
            l.push(format!("{} list {} {} 0", id, hexs(d), ph));
        }
        l.push(format!("{} subdirs {} 0", id, hexs(d)));
        l.push(format!("{} list {} ~ 1", id, hexs(d)));
        l.push(format!("{} subdirs {} 1", id, hexs(d)));
    }
    l
}

/// Bytes without short repeats (period 251 * 256): `n` literal tokens for n <= 4200.
fn distinct_bytes(n: usize, salt: usize) -> Vec<u8> {
    (0..n).map(|i| ((i * 37 + 11 + salt + (i / 251) * 101) & 0xFF) as u8 ^ ((i / 251) as u8).wrapping_mul(29)).collect()
}

/// Payloads at the codecs' boundaries (C12 on compressed paths; both formats):
/// * runs of `n` equal bytes: match lengths n-2 around 3 / 16-18 (LZ10 maximum, LZ11 two-byte form) /
///   272-273 (LZ11 three-/four-byte forms) / 4096;
/// * a block of `d` bytes, its first `m` bytes again, then a byte that stops the match: displacement `d`
///   in {2, 3, 4095, 4096, 4097} with match length exactly `m`;
/// * literal-only payloads and literal+reference payloads that end exactly on a flag group (8, 16, 24 tokens).
/// `big` = payloads of 4 KiB and more (sampled in the quick tier).
fn lz_boundary_payloads(rng: &mut Rng) -> (Vec<Vec<u8>>, Vec<Vec<u8>>) {
    let mut small: Vec<Vec<u8>> = Vec::new();
    let mut big: Vec<Vec<u8>> = Vec::new();
    let fill = (rng.below(200) + 20) as u8;
    for n in [0usize, 1, 2, 3, 4, 5, 6, 17, 18, 19, 20, 21, 22, 271, 272, 273, 274, 275, 276, 277] {
        small.push(vec![fill; n]);
        // the run embedded between other bytes
        if n >= 3 {
            let mut v = vec![fill ^ 0x55, fill ^ 0x33];
            v.extend(vec![fill; n]);
            v.push(fill ^ 0x0F);
            small.push(v);
        }
    }
    for n in [4095usize, 4096, 4097, 4098, 4099, 4100, 4101] {
        big.push(vec![fill; n]);
    }
    let block_repeat = |d: usize, m: usize, salt: usize| -> Vec<u8> {
        let block = distinct_bytes(d.max(m), salt);
        let mut v = block[..d].to_vec();
        // the first m bytes of the block again (periodic continuation when m > d)
        for i in 0..m {
            let b = v[i];
            v.push(b);
        }
        let stop = v[m] ^ 0xFF;
        v.push(stop);
        v.push(stop ^ 0x5A);
        v
    };
    for d in [2usize, 3] {
        for m in [2usize, 3, 4, 16, 17, 18, 19, 271, 272, 273, 274] {
            small.push(block_repeat(d, m, d));
        }
    }
    for m in [3usize, 17, 18, 19, 272, 273] {
        small.push(block_repeat(m, m, 7)); // a block repeated once
        small.push(block_repeat(m + 40, m, 9));
    }
    for d in [4095usize, 4096, 4097] {
        for m in [3usize, 18, 19, 272, 273] {
            big.push(block_repeat(d, m, d));
        }
    }
    for m in [4095usize, 4096, 4097] {
        big.push(block_repeat(2, m, m));
    }
    for n in [7usize, 8, 9, 15, 16, 17, 23, 24, 25] {
        small.push(distinct_bytes(n, n));
        // n - 1 literals and one reference: exactly n tokens
        if n >= 8 {
            let mut v = distinct_bytes(n - 1, n + 1);
            let head: Vec<u8> = v[..3].to_vec();
            v.extend(head);
            small.push(v);
        }
    }
    (small, big)
}

/// One history on a compressed path: every payload is written over the previous one (longer and
/// shorter), read back raw and through the existence query; a lower layer holds another file of the
/// same name; finally a short payload replaces the last one.
fn lz_case(rng: &mut Rng, id: &str, g: &str, lang: &str, payloads: &[Vec<u8>]) -> Vec<String> {
    let mut s0: Vec<Vec<u8>> = vec![b"hi".to_vec()];
    for p in payloads {
        if !s0.contains(p) {
            s0.push(p.clone());
        }
    }
    let name = if is_lz10_game(g) { *rng.pick(&["z/f.cms", "z/f.cmp", "z/q/f.bin.cms"]) } else { *rng.pick(&["z/f.lz", "z/f.bin.lz", "z/q/f.lz"]) };
    let loc = rng.chance(1, 3);
    // the lower layer has the file too (unlocalised and localised location)
    let mut wishes = vec![(name.to_string(), Ent::File(0))];
    if let Some(q) = localized(g, lang, name) {
        wishes.push((q, Ent::File(0)));
    }
    let trees = vec![build_tree(&wishes), build_tree(&[("z".to_string(), Ent::Dir)])];
    let mut l = vec![new_line(id, g, lang, &s0, &[None, None, None, None], &trees)];
    let ph = hexs(name);
    let lb = b01(loc);
    for i in 1..s0.len() {
        l.push(format!("{} write {} p{} {}", id, ph, i, lb));
        l.push(format!("{} read {} {}", id, ph, lb));
    }
    l.push(format!("{} file_exists {} {}", id, ph, lb));
    l.push(format!("{} write {} p0 {}", id, ph, lb));
    l.push(format!("{} read {} {}", id, ph, lb));
    l
}

/// Motif "query; query again; mutate under it; the very same query again" on one filesystem instance
/// (any cache or memo keyed by call arguments is exposed): list / subdirectories / exists / file_exists /
/// directory_exists / resolve / read of (path, pattern, localized) -> write or create_dir below it, localized
/// and unlocalized and through the already-localised spelling, or a write in another directory -> same query.
/// `qv` selects how the query addresses the directory: 0 = (d, localized), 1 = (localised spelling of d,
/// unlocalized), 2 = (d, unlocalized).
fn motif_case(rng: &mut Rng, id: &str, g: &str, lang: &str, d: &str, qv: usize, full: bool) -> Vec<String> {
    let (s0, arch) = base_payloads(rng);
    let lz = |p: &str| localized(g, lang, p);
    let mut low = vec![(format!("{}/old.txt", d), Ent::File(2)), (format!("{}/sub/deep.txt", d), Ent::File(1))];
    if let Some(q) = lz(&format!("{}/oldl.txt", d)) {
        low.push((q, Ent::File(1)));
    }
    if let Some(q) = lz(d) {
        low.push((format!("{}/inl.txt", q.trim_end_matches('/')), Ent::File(2)));
    }
    let trees = vec![build_tree(&low), build_tree(&[("other".to_string(), Ent::Dir)])];
    let mut l = vec![new_line(id, g, lang, &s0, &arch, &trees)];
    let addr = |p: &str| -> (String, &'static str) {
        match qv {
            0 => (p.to_string(), "1"),
            1 => (lz(p).unwrap_or_else(|| p.to_string()), "0"),
            _ => (p.to_string(), "0"),
        }
    };
    let mut k = 0;
    let mut fresh = |stem: &str| {
        k += 1;
        format!("{}{}", stem, k)
    };
    // mutations below `d` (or elsewhere), each on a fresh name
    let mutation = |kind: usize, name: &str| -> String {
        let f = format!("{}/{}.txt", d, name);
        let dir = format!("{}/{}", d, name);
        match kind {
            0 => format!("write {} p2 1", hexs(&f)),
            1 => format!("write {} p2 0", hexs(&f)),
            2 => format!("write {} p2 0", hexs(&lz(&f).unwrap_or(f.clone()))),
            3 => format!("create_dir {} 1", hexs(&dir)),
            4 => format!("create_dir {} 0", hexs(&dir)),
            5 => format!("create_dir {} 0", hexs(&lz(&dir).unwrap_or(dir.clone()))),
            _ => format!("write {} p1 1", hexs(&format!("other/{}.txt", name))),
        }
    };
    let (qd, ql) = addr(d);
    let rot = rng.below(3) as usize;
    for (pi, pat) in ["~", "*", "**/*.txt"].iter().enumerate() {
        let ph = if *pat == "~" { "~".to_string() } else { hexs(pat) };
        for kind in 0..7 {
            // quick: every mutation kind once, the pattern rotating; the localized write with every pattern
            if !full && kind != 0 && (kind + rot) % 3 != pi {
                continue;
            }
            let q = format!("{} list {} {} {}", id, hexs(&qd), ph, ql);
            l.push(q.clone());
            l.push(q.clone());
            l.push(format!("{} {}", id, mutation(kind, &fresh("B"))));
            l.push(q);
        }
    }
    for kind in 0..7 {
        let q = format!("{} subdirs {} {}", id, hexs(&qd), ql);
        l.push(q.clone());
        l.push(q.clone());
        l.push(format!("{} {}", id, mutation(kind, &fresh("S"))));
        l.push(q);
    }
    // point queries on a path that does not exist yet; the mutation creates it
    for (qop, make_dir) in [("exists", false), ("file_exists", false), ("directory_exists", true), ("resolve", false), ("resolve", true), ("read", false)] {
        for mloc in ["1", "0"] {
            let name = fresh("P");
            let p = if make_dir { format!("{}/{}", d, name) } else { format!("{}/{}.txt", d, name) };
            let (qp, qloc) = addr(&p);
            let q = format!("{} {} {} {}", id, qop, hexs(&qp), qloc);
            l.push(q.clone());
            l.push(q.clone());
            // the mutation addresses the same location as the query
            let target = if mloc == "1" { p.clone() } else if qv == 2 { p.clone() } else { lz(&p).unwrap_or(p.clone()) };
            let target_loc = if qv == 2 { "0" } else { mloc };
            if make_dir {
                l.push(format!("{} create_dir {} {}", id, hexs(&target), target_loc));
            } else {
                l.push(format!("{} write {} p2 {}", id, hexs(&target), target_loc));
            }
            l.push(q.clone());
            if qop == "read" {
                // replace the content (longer, then shorter) and read again
                l.push(format!("{} write {} p4 {}", id, hexs(&target), target_loc));
                l.push(q.clone());
                l.push(format!("{} write {} p1 {}", id, hexs(&target), target_loc));
                l.push(q.clone());
            }
        }
    }
    l
}

/// Components at the OS limit of 255 BYTES (ASCII, three-byte kana; 254 too).  Longer components give
/// ENAMETOOLONG, which the model does not express: they are left out.  FE9/FE10 prefix a localised file
/// name (`e_`), which would exceed the limit, so localized access is generated for FE13-FE15 only.
fn long_name_case(rng: &mut Rng, id: &str, g: &str, lang: &str) -> Vec<String> {
    let (s0, arch) = base_payloads(rng);
    let a255 = format!("{}.txt", "n".repeat(251));
    let a254 = format!("{}.TXT", "N".repeat(250));
    let kana = "ウ".repeat(85); // 255 bytes
    let kana_f = format!("{}.lz", "ﾏ".repeat(84)); // 255 bytes
    let trees = vec![
        build_tree(&[(format!("{}/{}", kana, a255), Ent::File(2)), (a254.clone(), Ent::File(1))]),
        build_tree(&[(format!("{}/{}", kana, a254), Ent::File(1)), ("k".to_string(), Ent::Dir)]),
    ];
    let mut l = vec![new_line(id, g, lang, &s0, &arch, &trees)];
    let locs: &[&str] = if is_lz10_game(g) { &["0"] } else { &["0", "1"] };
    for loc in locs {
        for p in [format!("{}/{}", kana, a255), a254.clone(), format!("k/{}", kana_f), format!("k/{}/{}", kana, a255)] {
            l.push(format!("{} file_exists {} {}", id, hexs(&p), loc));
            l.push(format!("{} write {} p3 {}", id, hexs(&p), loc));
            l.push(format!("{} read {} {}", id, hexs(&p), loc));
            l.push(format!("{} resolve {} {}", id, hexs(&p), loc));
        }
        for d in ["", kana.as_str(), "k"] {
            for pat in ["~", "*.txt", "**/*.txt", "**/*.TXT", "**/*.lz"] {
                let ph = if pat == "~" { "~".to_string() } else { hexs(pat) };
                l.push(format!("{} list {} {} {}", id, hexs(d), ph, loc));
            }
            l.push(format!("{} subdirs {} {}", id, hexs(d), loc));
        }
        l.push(format!("{} create_dir {} {}", id, hexs(&format!("k/{}/{}", kana, kana)), loc));
    }
    l
}

/// A tiny world for order / de-duplication flaws of the union: `masks[k]` says which names of `pool`
/// layer `k` holds — as files `d/<name>` and as directories `s/<name>`; the directory is listed once
/// (entries, immediate children, sub-directories).  Minimal codec table (one payload).
fn subset_world(id: &str, g: &str, lang: &str, pool: &[&str], masks: &[usize], loc: &str) -> Vec<String> {
    let s0 = vec![b"x".to_vec()];
    let trees: Vec<Vec<(String, Ent)>> = masks
        .iter()
        .map(|m| {
            let mut w = Vec::new();
            for (i, n) in pool.iter().enumerate() {
                if m & (1 << i) != 0 {
                    w.push((format!("d/{}", n), Ent::File(0)));
                    w.push((format!("s/{}", n), Ent::Dir));
                }
            }
            build_tree(&w)
        })
        .collect();
    let mut l = vec![new_line(id, g, lang, &s0, &[None, None, None, None], &trees)];
    l.push(format!("{} list {} ~ {}", id, hexs("d"), loc));
    l.push(format!("{} subdirs {} {}", id, hexs("s"), loc));
    l.push(format!("{} list {} {} {}", id, hexs("s"), hexs("*"), loc));
    l
}

/// Depth-first order vs string order: a directory `<d>` with children next to siblings `<d><c>…` for every
/// legal character `c` below '/' (0x20..0x2E without the glob metacharacter '*'): ascending string order puts
/// those siblings BEFORE `<d>/child`, a depth-first walk after.  `layers` = 1 (nothing to merge), or the
/// same content under / above an empty layer, or split over two layers.
fn sibling_world(id: &str, g: &str, lang: &str, d: &str, variant: usize) -> Vec<String> {
    let s0 = vec![b"x".to_vec()];
    let mut w: Vec<(String, Ent)> = vec![
        (format!("data/{}/anna.bin", d), Ent::File(0)),
        (format!("data/{}/sub/deep.arc", d), Ent::File(0)),
        (format!("{}/top.bin", d), Ent::File(0)),
    ];
    let tails = [" x", "!", "\"q", "#1", "$", "%", "&", "'", "(", ")", "+", ",", "-old.arc", ".arc", ".bin"];
    for (i, t) in tails.iter().enumerate() {
        let e = if i % 4 == 3 { Ent::Dir } else { Ent::File(0) };
        w.push((format!("data/{}{}", d, t), e.clone()));
        if i % 2 == 0 {
            w.push((format!("{}{}", d, t), e));
        }
    }
    let trees: Vec<Vec<(String, Ent)>> = match variant {
        0 => vec![build_tree(&w)],
        1 => vec![build_tree(&w), vec![]],
        2 => vec![vec![], build_tree(&w)],
        _ => {
            let a: Vec<(String, Ent)> = w.iter().cloned().enumerate().filter(|(i, _)| i % 2 == 0).map(|(_, e)| e).collect();
            let b: Vec<(String, Ent)> = w.iter().cloned().enumerate().filter(|(i, _)| i % 2 == 1).map(|(_, e)| e).collect();
            vec![build_tree(&a), build_tree(&b)]
        }
    };
    let mut l = vec![new_line(id, g, lang, &s0, &[None, None, None, None], &trees)];
    for dir in ["", "data", d] {
        for pat in ["~", "**/*", "**/*.arc", "**/*.bin", "*"] {
            let ph = if pat == "~" { "~".to_string() } else { hexs(pat) };
            l.push(format!("{} list {} {} 0", id, hexs(dir), ph));
        }
        l.push(format!("{} subdirs {} 0", id, hexs(dir)));
    }
    l.push(format!("{} list {} ~ 1", id, hexs("data")));
    l
}

/// Entries differing only in ASCII case of the stem, made neighbours by the pattern (`*.bin` drops what
/// sorts between `Portrait.bin` and `portrait.bin`); in one layer, or one spelling per layer.
fn casepair_world(id: &str, g: &str, lang: &str, variant: usize) -> Vec<String> {
    let s0 = vec![b"x".to_vec()];
    let up: Vec<(String, Ent)> = vec![
        ("k/Portrait.bin".to_string(), Ent::File(0)),
        ("k/A.lz".to_string(), Ent::File(0)),
        ("k/Zeta/In.bin".to_string(), Ent::File(0)),
        ("k/Q.txt".to_string(), Ent::File(0)),
        ("Top.bin".to_string(), Ent::File(0)),
    ];
    let lo: Vec<(String, Ent)> = vec![
        ("k/portrait.bin".to_string(), Ent::File(0)),
        ("k/a.lz".to_string(), Ent::File(0)),
        ("k/zeta/in.bin".to_string(), Ent::File(0)),
        ("k/mid.txt".to_string(), Ent::File(0)),
        ("top.bin".to_string(), Ent::File(0)),
    ];
    let both: Vec<(String, Ent)> = up.iter().cloned().chain(lo.iter().cloned()).collect();
    let trees = match variant {
        0 => vec![build_tree(&both)],
        1 => vec![build_tree(&up), build_tree(&lo)],
        2 => vec![build_tree(&lo), build_tree(&up), vec![]],
        _ => vec![build_tree(&both), build_tree(&up)],
    };
    let mut l = vec![new_line(id, g, lang, &s0, &[None, None, None, None], &trees)];
    for d in ["k", "", "k/Zeta", "k/zeta"] {
        for pat in ["*.bin", "**/*.bin", "*.lz", "*", "~", "Zeta/*", "zeta/*"] {
            let ph = if pat == "~" { "~".to_string() } else { hexs(pat) };
            l.push(format!("{} list {} {} 0", id, hexs(d), ph));
        }
        l.push(format!("{} subdirs {} 0", id, hexs(d)));
    }
    l
}

/// What the property's configuration for game `g` parses a text / bin archive with.
fn spec_cfg(g: &str) -> (TextArchiveFormat, Endian) {
    if is_lz10_game(g) {
        (TextArchiveFormat::ShiftJIS, Endian::Big)
    } else {
        (TextArchiveFormat::Unicode, Endian::Little)
    }
}
fn edit_text(t: &mut TextArchive, edit: usize) {
    match edit {
        1 => t.delete_message("MID_A"),
        2 => t.set_title("Nt".to_string()),
        3 => t.set_message("MID_B", "Zz"),
        _ => {}
    }
}
fn edit_bin(a: &mut BinArchive, edit: usize) {
    if edit == 1 {
        let _ = a.write_u8(0, 0x7F);
    }
}
/// parse -> edit -> serialize with the standalone codecs (the graph of the abstract codec for the table).
fn reencode(g: &str, kind: char, b: &[u8], edit: usize) -> Option<Option<Vec<u8>>> {
    let (fmt, e) = spec_cfg(g);
    let r = no_panic(|| {
        if kind == 't' {
            match TextArchive::from_bytes(b, fmt, e) {
                Ok(mut t) => {
                    edit_text(&mut t, edit);
                    Some(t.serialize().ok())
                }
                Err(_) => None,
            }
        } else {
            match BinArchive::from_bytes(b, e) {
                Ok(mut a) => {
                    edit_bin(&mut a, edit);
                    Some(a.serialize().ok())
                }
                Err(_) => None,
            }
        }
    });
    r.unwrap_or(None)
}

/// Typed read -> edit -> typed write: the archive is read from a file that exists only in a LOWER layer and
/// written back (a) unmodified, (b) after delete_message, (c) after set_title, (d) after set_message (bin:
/// unmodified / after write_u8); the top layer must then hold the re-encoded file.
fn rw_case(rng: &mut Rng, id: &str, g: &str, lang: &str) -> Vec<String> {
    let (mut s0, arch) = base_payloads(rng);
    let mut extra: Vec<String> = Vec::new();
    let mut low: Vec<(String, Ent)> = Vec::new();
    let mut ops: Vec<String> = Vec::new();
    for (k, a) in arch.iter().enumerate() {
        let i = match a {
            Some(i) => *i,
            None => continue,
        };
        let kind = if k < 2 { 'b' } else { 't' };
        let nedits = if kind == 't' { 4 } else { 2 };
        for edit in 0..nedits {
            let src = s0[i].clone();
            match reencode(g, kind, &src, edit) {
                None => {}
                Some(None) => extra.push(format!("r{}.{}{}=!", i, kind, edit)),
                Some(Some(b)) => {
                    let j = match s0.iter().position(|x| *x == b) {
                        Some(j) => j,
                        None => {
                            s0.push(b);
                            s0.len() - 1
                        }
                    };
                    extra.push(format!("r{}.{}{}=p{}", i, kind, edit, j));
                }
            }
            let path = format!("t/{}{}_{}.bin", kind, k, edit);
            low.push((path.clone(), Ent::File(i)));
            let loc = if edit % 2 == 1 { "1" } else { "0" };
            let (src_p, dst_p) = (path.clone(), path.clone());
            if loc == "1" {
                if let Some(q) = localized(g, lang, &path) {
                    low.push((q, Ent::File(i)));
                }
            }
            let opn = if kind == 't' { "rw_text" } else { "rw_bin" };
            ops.push(format!("{} {} {} {} {}", opn, hexs(&src_p), hexs(&dst_p), edit, loc));
            ops.push(format!("read {} {}", hexs(&dst_p), loc));
            ops.push(format!("{} {} {}", if kind == 't' { "read_text" } else { "read_archive" }, hexs(&dst_p), loc));
            // second use: the file now exists in the top layer
            // (read from the `_0` file, whose content is the unmodified archive in every layer)
            let src0 = format!("t/{}{}_0.bin", kind, k);
            ops.push(format!("{} {} {} {} 0", opn, hexs(&src0), hexs(&format!("t/copy{}{}.bin", k, edit)), (edit + 1) % nedits));
        }
    }
    let trees = vec![build_tree(&low), build_tree(&[("t".to_string(), Ent::Dir)])];
    let base = new_line(id, g, lang, &s0, &arch, &trees);
    // append the re-encoding graph to the `A` field
    let mut f: Vec<String> = base.split(' ').map(|x| x.to_string()).collect();
    if !extra.is_empty() {
        f[6] = format!("{},{}", f[6], extra.join(","));
    }
    let mut l = vec![f.join(" ")];
    for o in ops {
        l.push(format!("{} {}", id, o));
    }
    l
}

/// A path and each of its ancestor directories, queried (resolve / exists / directory_exists / file_exists)
/// before and after a write / create_dir below directories that so far exist only in a LOWER layer: the
/// mutation creates the ancestors in the top layer implicitly, so every answer about them may change.
fn ancestor_case(id: &str, g: &str, lang: &str, variant: usize) -> Vec<String> {
    let s0 = vec![b"x".to_vec(), b"yy".to_vec()];
    let low = build_tree(&[
        ("data/person/a.bin".to_string(), Ent::File(0)),
        ("data/deep/er/z.bin".to_string(), Ent::File(0)),
        ("other/k".to_string(), Ent::File(0)),
    ]);
    let mid = build_tree(&[("data/mid.bin".to_string(), Ent::File(1))]);
    let trees = match variant % 3 {
        0 => vec![low, vec![]],
        1 => vec![low, mid, vec![]],
        _ => vec![low, vec![], vec![]],
    };
    let mut l = vec![new_line(id, g, lang, &s0, &[None, None, None, None], &trees)];
    let loc = if variant % 2 == 0 { "0" } else { "1" };
    let muts: [(&str, &str); 5] = [
        ("write", "data/person/b.bin"),
        ("create_dir", "data/deep/er/new/dir"),
        ("write", "data/deep/er/z.bin"),
        ("write", "other/sub/f.bin"),
        ("create_dir", "data/person"),
    ];
    for (mop, target) in muts {
        // the target, every ancestor, and the localised spelling's ancestors
        let mut probes: Vec<(String, &str)> = Vec::new();
        let comps: Vec<&str> = target.split('/').collect();
        for k in 1..=comps.len() {
            probes.push((comps[..k].join("/"), "0"));
            probes.push((comps[..k].join("/"), loc));
        }
        if let Some(q) = localized(g, lang, target) {
            let qc: Vec<&str> = q.trim_end_matches('/').split('/').collect();
            for k in 1..=qc.len() {
                probes.push((qc[..k].join("/"), "0"));
            }
        }
        probes.dedup();
        let ask = |l: &mut Vec<String>| {
            for (p, lc) in &probes {
                for q in ["resolve", "exists", "directory_exists", "file_exists"] {
                    l.push(format!("{} {} {} {}", id, q, hexs(p), lc));
                }
            }
        };
        ask(&mut l);
        if mop == "write" {
            l.push(format!("{} write {} p1 {}", id, hexs(target), loc));
        } else {
            l.push(format!("{} create_dir {} {}", id, hexs(target), loc));
        }
        ask(&mut l);
    }
    l
}

/// Exact counts: a directory holding exactly `c` entries (spread over two layers, some in both, every
/// fifth a directory), listed once; one tiny world per count.
fn count_world(id: &str, g: &str, lang: &str, c: usize) -> Vec<String> {
    let s0 = vec![b"x".to_vec()];
    let mut low = vec![("c".to_string(), Ent::Dir)];
    let mut top = Vec::new();
    for i in 0..c {
        let e = (format!("c/e{:03}", i), if i % 5 == 0 { Ent::Dir } else { Ent::File(0) });
        if i % 3 != 0 {
            low.push(e.clone());
        }
        if i % 3 != 1 {
            top.push(e);
        }
    }
    let trees = vec![build_tree(&low), build_tree(&top)];
    let mut l = vec![new_line(id, g, lang, &s0, &[None, None, None, None], &trees)];
    l.push(format!("{} list {} ~ 0", id, hexs("c")));
    l.push(format!("{} subdirs {} 0", id, hexs("c")));
    l
}

/// Exact lengths: file names of every length 1..130 bytes in one directory (ASCII, and with a three-byte
/// character at the end), spread over two layers.
fn length_count_case(rng: &mut Rng, id: &str, g: &str, lang: &str) -> Vec<String> {
    let s0 = vec![b"x".to_vec()];
    let mut low = Vec::new();
    let mut top = Vec::new();
    for len in 1..=130usize {
        let name = if len % 3 == 0 && len >= 3 { format!("{}上", "k".repeat(len - 3)) } else { "n".repeat(len) };
        if len % 2 == 0 {
            low.push((format!("w/{}", name), Ent::File(0)));
        } else {
            top.push((format!("w/{}", name), Ent::File(0)));
        }
    }
    let trees = vec![build_tree(&low), build_tree(&top)];
    let mut l = vec![new_line(id, g, lang, &s0, &[None, None, None, None], &trees)];
    l.push(format!("{} list {} ~ 0", id, hexs("w")));
    l.push(format!("{} list {} {} 0", id, hexs("w"), hexs("*")));
    let _ = rng;
    l
}

/// The POSIX / std behaviours the model fixes (DESIGN §6 C12 modelling notes), each determined by
/// experiment against the real code; also kept as corpus cases `corpus/C12/posix-*.case`.
fn posix_cases(rng: &mut Rng, id_q: &str, id_w: &str) -> Vec<String> {
    let (s0, arch) = base_payloads(rng);
    let f = |i: usize| Ent::File(i);
    let trees = vec![
        build_tree(&[("d/e/x.txt".to_string(), f(2)), ("f".to_string(), f(1)), (".h".to_string(), f(0))]),
        build_tree(&[
            ("d/z.txt".to_string(), f(2)),
            ("g".to_string(), f(1)),
            ("f".to_string(), Ent::Dir),
            ("emp".to_string(), Ent::Dir),
        ]),
    ];
    let mut l = vec![new_line(id_q, "FE14", "EnglishNA", &s0, &arch, &trees)];
    // queries: trailing slash makes `exists` true only for directories and `file_exists` false; a path
    // through a regular file does not exist; a file below a directory of the same name is still read
    for p in ["", ".", "d", "d/", "d/.", "f", "f/", "g", "g/", "g/x", "nope", "nope/", "d/e/x.txt", "d/e/x.txt/", "./d", "d//e", "emp", "emp/"] {
        for op in ["exists", "file_exists", "directory_exists", "resolve", "read"] {
            l.push(format!("{} {} {} 0", id_q, op, hexs(p)));
        }
    }
    // listing a path that is a file / missing / empty yields the empty list
    for p in ["f", "g", "nope", "emp", "", ".", "d/", "d/e/x.txt", "./d", "d/."] {
        l.push(format!("{} list {} ~ 0", id_q, hexs(p)));
        l.push(format!("{} list {} {} 0", id_q, hexs(p), hexs("*")));
        l.push(format!("{} subdirs {} 0", id_q, hexs(p)));
    }
    l.push(new_line(id_w, "FE14", "EnglishNA", &s0, &arch, &trees));
    // writes: through a file => err, nothing created; onto a directory => err; trailing slash => err but
    // the parent directories have been created; a directory may be created where a lower layer has a file
    for (i, p) in ["g/x", "d", "d/", "", "n1/n2/", "n3/n4/t", "f", "f/q", "g", "emp", "m1/m2", "m1/m2/m3/", "m1/m2/m3/m4", "d/e/x.txt/k/j", ".", "k/.", "./w"]
        .iter()
        .enumerate()
    {
        l.push(format!("{} write {} p{} 0", id_w, hexs(p), 1 + (i % 4)));
    }
    for p in ["", "c1/c2/", "g", "g/x", "d", "c1", ".", "m1/m2/z", "c3/./c4"] {
        l.push(format!("{} create_dir {} 0", id_w, hexs(p)));
    }
    l
}

pub fn gen(seed: u64, tier: &str) -> Vec<String> {
    let mut rng = Rng::new(seed ^ 0xF5F5);
    let thorough = tier == "thorough";
    let mut lines = Vec::new();
    let mut n = 0;
    let mut next_id = |n: &mut usize| {
        *n += 1;
        format!("fs.{:06}", *n - 1)
    };
    // 0. the modelled POSIX behaviours
    {
        let (a, b) = (next_id(&mut n), next_id(&mut n));
        lines.extend(posix_cases(&mut rng, &a, &b));
    }
    // A. configuration: every game (incl. the two unsupported ones) x every language (quick: all games x
    //    a rotating half of the languages)
    for (gi, g) in GAMES.iter().enumerate() {
        for (li, lang) in LANGS.iter().enumerate() {
            if !thorough && (li + gi + seed as usize) % 2 == 1 {
                continue;
            }
            let id = next_id(&mut n);
            lines.extend(config_case(&mut rng, &id, g, lang));
        }
    }
    // no layers at all
    {
        let id = next_id(&mut n);
        let (s0, arch) = base_payloads(&mut rng);
        lines.push(new_line(&id, "FE14", "EnglishNA", &s0, &arch, &[]));
        lines.push(format!("{} read {} 0", id, hexs("a")));
    }
    // B. systematic listing block
    for (g, lang) in [("FE14", "EnglishNA"), ("FE10", "EnglishEU")] {
        let id = next_id(&mut n);
        lines.extend(listing_case(&mut rng, &id, g, lang));
    }
    // B0. unions over 3-5 layers: every assignment of the pool {a, m, z} to three layers (8^3 tiny worlds),
    //     and random subsets of a 5-8 name pool over 3, 4 and 5 layers (incl. empty layers and singletons)
    let prop0 = std::env::var("VERIF_PROP").unwrap_or_default();
    for code in 0..512usize {
        // C13 is the home of this sweep; C12 and C14 take a rotating quarter in quick
        if !thorough && (prop0 == "C12" || prop0 == "C14") && code % 4 != (seed as usize) % 4 {
            continue;
        }
        let id = next_id(&mut n);
        lines.extend(subset_world(&id, "FE14", "EnglishNA", &["a", "m", "z"], &[code & 7, (code >> 3) & 7, (code >> 6) & 7], "0"));
    }
    // one- and two-layer versions of the subset worlds, and the depth-first-vs-string-order worlds
    for code in 0..8usize {
        let id = next_id(&mut n);
        lines.extend(subset_world(&id, "FE14", "EnglishNA", &["a", "m", "z"], &[code], "0"));
    }
    for code in 0..64usize {
        if !thorough && code % 4 != (seed as usize) % 4 {
            continue;
        }
        let id = next_id(&mut n);
        lines.extend(subset_world(&id, "FE10", "EnglishNA", &["a", "m", "z"], &[code & 7, code >> 3], "0"));
    }
    for variant in 0..4 {
        let id = next_id(&mut n);
        lines.extend(casepair_world(&id, GAMES[variant % 5], "EnglishNA", variant));
    }
    for variant in 0..6 {
        if !thorough && variant >= 2 && (variant + seed as usize) % 2 == 0 {
            continue;
        }
        let id = next_id(&mut n);
        lines.extend(ancestor_case(&id, GAMES[variant % 5], if variant < 3 { "EnglishNA" } else { "Japanese" }, variant));
    }
    for (gi, g) in GAMES.iter().take(5).enumerate() {
        if !thorough && gi % 2 == (seed as usize) % 2 && gi != 3 {
            continue;
        }
        let id = next_id(&mut n);
        lines.extend(rw_case(&mut rng, &id, g, if gi % 2 == 0 { "EnglishNA" } else { "French" }));
    }
    for (di, d) in ["face", "a", "x.lz", "é"].iter().enumerate() {
        for variant in 0..4 {
            if !thorough && di >= 1 && (di + variant + seed as usize) % 4 != 0 {
                continue;
            }
            let id = next_id(&mut n);
            lines.extend(sibling_world(&id, GAMES[(di + variant) % 5], "EnglishNA", d, variant));
        }
    }
    {
        let big_pool = ["a", "c", "m", "q", "z", "B", "m.txt", "é"];
        let worlds = if thorough { 1500 } else if prop0 == "C12" || prop0 == "C14" { 30 } else { 90 };
        for w in 0..worlds {
            let k = if w % 7 == 6 { 1 + w % 2 } else { 3 + w % 3 };
            let pn = 5 + (rng.below(4) as usize);
            let masks: Vec<usize> = (0..k)
                .map(|_| match rng.below(6) {
                    0 => 0,
                    1 => 1 << rng.below(pn as u64),
                    _ => (rng.below(1 << pn)) as usize,
                })
                .collect();
            let g = GAMES[w % 5];
            let loc = if rng.chance(1, 4) { "1" } else { "0" };
            let id = next_id(&mut n);
            lines.extend(subset_world(&id, g, "EnglishNA", &big_pool[..pn], &masks, loc));
        }
    }
    {
        let id = next_id(&mut n);
        lines.extend(length_count_case(&mut rng, &id, "FE14", "EnglishNA"));
        for c in [0usize, 1, 2, 7, 8, 9, 15, 16, 17, 31, 32, 33, 63, 64, 65, 127, 128, 129] {
            let id = next_id(&mut n);
            lines.extend(count_world(&id, "FE14", "EnglishNA", c));
        }
    }
    // B1. components at the 255-byte limit
    for (g, lang) in [("FE14", "EnglishNA"), ("FE10", "EnglishNA")] {
        let id = next_id(&mut n);
        lines.extend(long_name_case(&mut rng, &id, g, lang));
    }
    // B2. codec boundaries on compressed paths (C12), both formats
    let prop = std::env::var("VERIF_PROP").unwrap_or_default();
    if prop.is_empty() || prop == "C12" {
        let (small, big) = lz_boundary_payloads(&mut rng);
        for fmt in 0..2 {
            let games: &[&str] = if fmt == 0 { &["FE9", "FE10"] } else { &["FE13", "FE14", "FE15"] };
            for chunk in small.chunks(8) {
                let g = *rng.pick(games);
                let lang = *rng.pick(&["EnglishNA", "Japanese", "French", "German"]);
                let id = next_id(&mut n);
                lines.extend(lz_case(&mut rng, &id, g, lang, chunk));
            }
            // big payloads: all of them in thorough, a rotating sample in quick
            let mut picks: Vec<&Vec<u8>> = big.iter().collect();
            if !thorough {
                rng.shuffle(&mut picks);
                picks.truncate(4);
            }
            for chunk in picks.chunks(2) {
                let g = *rng.pick(games);
                let id = next_id(&mut n);
                let v: Vec<Vec<u8>> = chunk.iter().map(|p| (*p).clone()).collect();
                lines.extend(lz_case(&mut rng, &id, g, "EnglishNA", &v));
            }
        }
    }
    // B3. query / mutate / same query again, on one instance: every localisation class (component-inserting,
    //     prefix-inserting, identity, unsupported), every way of addressing the directory
    {
        let mut k = 0usize;
        for g in GAMES.iter().take(5) {
            for (li, lang) in LANGS.iter().enumerate() {
                // quick: English (NA) and Japanese per game (FE9, where both are the identity: a rotating
                // prefix language instead of Japanese)
                let second = if *g == "FE9" { 3 + (seed as usize) % 4 } else { 2 };
                if !thorough && !(li == 0 || li == second) {
                    continue;
                }
                for qv in 0..3 {
                    k += 1;
                    for (di, d) in ["m", "m/s"].iter().enumerate() {
                        // quick: one of the two directories per (game, language, addressing), alternating
                        if !thorough && (k + seed as usize) % 2 != di {
                            continue;
                        }
                        let id = next_id(&mut n);
                        lines.extend(motif_case(&mut rng, &id, g, lang, d, qv, thorough));
                    }
                }
            }
        }
    }
    // C. random histories; games x languages round-robin so that every pair occurs
    let cases = if thorough { 12000 } else if prop == "C12" { 340 } else { 400 };
    for i in 0..cases {
        let g = GAMES[(i + seed as usize) % 5];
        let lang = LANGS[((i / 5) + seed as usize) % 8];
        let nl = 1 + (rng.below(4) as usize);
        let id = next_id(&mut n);
        lines.extend(history_case(&mut rng, &id, g, lang, nl, 30));
    }
    lines
}

// ---------------------------------------------------------------------------------------------
// runner
// ---------------------------------------------------------------------------------------------

struct FsState {
    id: String,
    base: PathBuf,
    roots: Vec<String>,
    fs: Option<LayeredFilesystem>,
    payloads: Vec<Vec<u8>>,
}
impl Drop for FsState {
    fn drop(&mut self) {
        let _ = std::fs::remove_dir_all(&self.base);
        if let Some(p) = self.base.parent() {
            let _ = std::fs::remove_dir(p); // only succeeds when no other run is using it
        }
    }
}

fn work_dir() -> PathBuf {
    // <worktree>/work/target/<profile>/mila-harness  ->  <worktree>/work
    if let Ok(exe) = std::env::current_exe() {
        if let Some(w) = exe.ancestors().nth(3) {
            if w.file_name().map(|n| n == "work").unwrap_or(false) {
                return w.to_path_buf();
            }
        }
    }
    Path::new(env!("CARGO_MANIFEST_DIR")).join("../work")
}

fn err_class(e: &LayeredFilesystemError) -> &'static str {
    use LayeredFilesystemError as E;
    match e {
        E::NoLayers | E::NoWriteableLayers | E::OtherError(_) => "Other",
        E::FileNotFound(..) => "NotFound",
        E::ReadError(..) | E::WriteError(..) | E::IOError(_) => "Io",
        E::UnsupportedGame => "Unsupported",
        E::PatternError(_) => "Invalid",
        E::LocalizationError(l) => match l {
            LocalizationError::UnsupportedLanguage => "Unsupported",
            LocalizationError::MissingParent(_) => "MissingParent",
            LocalizationError::MissingFileName(_) => "MissingFileName",
            _ => "Io",
        },
        E::CompressionError(_) => "Decoding",
        E::ArchiveError(_) | E::TextArchiveError(_) | E::TextureParseError(_) | E::ArcError(_) => "Invalid",
    }
}

fn walk_dir(root: &Path, rel: &str, out: &mut Vec<(String, Option<Vec<u8>>)>) {
    let dir = if rel.is_empty() { root.to_path_buf() } else { root.join(rel) };
    let rd = match std::fs::read_dir(&dir) {
        Ok(r) => r,
        Err(_) => return,
    };
    for e in rd.flatten() {
        let name = e.file_name().to_string_lossy().to_string();
        let r = if rel.is_empty() { name } else { format!("{}/{}", rel, name) };
        let is_dir = e.file_type().map(|t| t.is_dir()).unwrap_or(false);
        if is_dir {
            out.push((r.clone(), None));
            walk_dir(root, &r, out);
        } else {
            out.push((r, Some(std::fs::read(e.path()).unwrap_or_default())));
        }
    }
}
fn walks(roots: &[String]) -> String {
    let mut s = String::new();
    for r in roots {
        let mut es = Vec::new();
        walk_dir(Path::new(r), "", &mut es);
        es.sort_by(|a, b| a.0.as_bytes().cmp(b.0.as_bytes()));
        s.push(' ');
        if es.is_empty() {
            s.push('-');
        } else {
            let v: Vec<String> = es
                .iter()
                .map(|(p, c)| match c {
                    None => format!("{}:d", hexs(p)),
                    Some(b) => format!("{}:f:{}", hexs(p), hex(b)),
                })
                .collect();
            s.push_str(&v.join(","));
        }
    }
    s
}

fn res_unit(r: Result<Result<(), LayeredFilesystemError>, String>) -> String {
    match r {
        Err(_) => "panic".to_string(),
        Ok(Ok(())) => "ok".to_string(),
        Ok(Err(e)) => format!("err {}", err_class(&e)),
    }
}
fn res_bool(r: Result<Result<bool, LayeredFilesystemError>, String>) -> String {
    match r {
        Err(_) => "panic".to_string(),
        Ok(Ok(b)) => format!("ok {}", b01(b)),
        Ok(Err(e)) => format!("err {}", err_class(&e)),
    }
}
fn res_dig<T>(r: Result<Result<T, LayeredFilesystemError>, String>, f: impl Fn(&T) -> String) -> String {
    match r {
        Err(_) => "panic".to_string(),
        Ok(Ok(v)) => format!("ok {}", f(&v)),
        Ok(Err(e)) => format!("err {}", err_class(&e)),
    }
}

fn parse_pidx(s: &str) -> usize {
    s[1..].parse().unwrap()
}

pub fn run_line(st: &mut super::State, line: &str) -> String {
    let f: Vec<&str> = line.split(' ').collect();
    let id = f[0];
    if f.len() >= 2 && f[1] == "new" {
        st.any = None; // drops (and removes) the previous case's directories
        return format!("{} {}", id, run_new(st, &f));
    }
    let s = match st.any.as_mut().and_then(|a| a.downcast_mut::<FsState>()) {
        Some(s) if s.id == id && s.fs.is_some() => s,
        _ => return format!("{} nostate", id),
    };
    let fs = s.fs.as_ref().unwrap();
    let arg = |i: usize| -> &str { f.get(i).copied().unwrap_or("-") };
    let loc_at = |i: usize| arg(i) == "1";
    let out = match f[1] {
        "write" => {
            let p = unhexs(arg(2));
            let b = s.payloads.get(parse_pidx(arg(3))).cloned().unwrap_or_default();
            res_unit(no_panic(|| fs.write(&p, &b, loc_at(4))))
        }
        "read" => {
            let p = unhexs(arg(2));
            match no_panic(|| fs.read(&p, loc_at(3))) {
                Err(_) => "panic".to_string(),
                Ok(Ok(b)) => format!("ok {}", hex(&b)),
                Ok(Err(e)) => format!("err {}", err_class(&e)),
            }
        }
        "exists" => res_bool(no_panic(|| fs.exists(&unhexs(arg(2)), loc_at(3)))),
        "file_exists" => res_bool(no_panic(|| fs.file_exists(&unhexs(arg(2)), loc_at(3)))),
        "directory_exists" => res_bool(no_panic(|| fs.directory_exists(&unhexs(arg(2)), loc_at(3)))),
        "create_dir" => res_unit(no_panic(|| fs.create_dir(&unhexs(arg(2)), loc_at(3)))),
        "resolve" => match no_panic(|| fs.resolve(&unhexs(arg(2)), loc_at(3))) {
            Err(_) => "panic".to_string(),
            Ok(None) => "ok ~".to_string(),
            Ok(Some(pb)) => {
                let full = pb.display().to_string();
                let mut r = format!("ok ?:{}", hexs(&full.replace(s.base.to_str().unwrap_or("?"), "BASE")));
                // highest layer first: a root is never a prefix of another root followed by '/'
                for (i, root) in s.roots.iter().enumerate() {
                    if let Some(rest) = full.strip_prefix(root.as_str()) {
                        if let Some(rest) = rest.strip_prefix('/') {
                            r = format!("ok L{}:{}", i, hexs(rest));
                        }
                    }
                }
                r
            }
        },
        "list" | "subdirs" => {
            let p = unhexs(arg(2));
            let r = if f[1] == "list" {
                let pat = if arg(3) == "~" { None } else { Some(unhexs(arg(3))) };
                no_panic(|| fs.list(&p, pat.as_deref(), loc_at(4)))
            } else {
                no_panic(|| fs.subdirectories(&p, loc_at(3)))
            };
            match r {
                Err(_) => "panic".to_string(),
                Ok(Err(e)) => format!("err {}", err_class(&e)),
                Ok(Ok(v)) => {
                    if v.is_empty() {
                        "ok - -".to_string()
                    } else {
                        // "every listed path exists according to the filesystem's own existence queries"
                        let bits: String = v
                            .iter()
                            .map(|x| match no_panic(|| fs.exists(x, false)) {
                                Ok(Ok(true)) => '1',
                                _ => '0',
                            })
                            .collect();
                        // (a correct listing is layer-relative; never print a temp-dir name)
                        let base = s.base.to_str().unwrap_or("?").to_string();
                        format!("ok {} {}", v.iter().map(|x| hexs(&x.replace(&base, "BASE"))).collect::<Vec<_>>().join(","), bits)
                    }
                }
            }
        }
        "read_archive" => res_dig(no_panic(|| fs.read_archive(&unhexs(arg(2)), loc_at(3))), dig_bin),
        "read_text" => res_dig(no_panic(|| fs.read_text_archive(&unhexs(arg(2)), loc_at(3))), dig_text),
        "read_fe9arc" => res_dig(no_panic(|| fs.read_fe9_arc(&unhexs(arg(2)), loc_at(3))), dig_pack),
        "read_arc" => res_dig(no_panic(|| fs.read_arc(&unhexs(arg(2)), loc_at(3))), dig_arc),
        "read_tpl" => res_dig(no_panic(|| fs.read_tpl_textures(&unhexs(arg(2)), loc_at(3))), |v| dig_tex_vec(v)),
        "read_bch" => res_dig(no_panic(|| fs.read_bch_textures(&unhexs(arg(2)), loc_at(3))), dig_tex_map),
        "read_ctpk" => res_dig(no_panic(|| fs.read_ctpk_textures(&unhexs(arg(2)), loc_at(3))), dig_tex_map),
        "read_cgfx" => res_dig(no_panic(|| fs.read_cgfx_textures(&unhexs(arg(2)), loc_at(3))), dig_tex_map),
        "write_archive" => {
            let k = parse_pidx(arg(3));
            res_unit(no_panic(|| fs.write_archive(&unhexs(arg(2)), &bin_archive(k), loc_at(4))))
        }
        "write_text" => {
            let k = parse_pidx(arg(3));
            res_unit(no_panic(|| fs.write_text_archive(&unhexs(arg(2)), &text_archive(k), loc_at(4))))
        }
        "rw_text" | "rw_bin" => {
            let (src, dst) = (unhexs(arg(2)), unhexs(arg(3)));
            let edit: usize = arg(4).parse().unwrap_or(0);
            let loc = loc_at(5);
            if f[1] == "rw_text" {
                match no_panic(|| fs.read_text_archive(&src, loc)) {
                    Err(_) => "panic".to_string(),
                    Ok(Err(e)) => format!("err {}", err_class(&e)),
                    Ok(Ok(mut t)) => {
                        edit_text(&mut t, edit);
                        res_unit(no_panic(|| fs.write_text_archive(&dst, &t, loc)))
                    }
                }
            } else {
                match no_panic(|| fs.read_archive(&src, loc)) {
                    Err(_) => "panic".to_string(),
                    Ok(Err(e)) => format!("err {}", err_class(&e)),
                    Ok(Ok(mut a)) => {
                        edit_bin(&mut a, edit);
                        res_unit(no_panic(|| fs.write_archive(&dst, &a, loc)))
                    }
                }
            }
        }
        "cfg" => {
            let e = match fs.endian() {
                Endian::Big => "Big",
                Endian::Little => "Little",
            };
            let t = match fs.text_archive_format() {
                TextArchiveFormat::ShiftJIS => "ShiftJIS",
                TextArchiveFormat::Unicode => "Unicode",
            };
            // the localizer in use, observed through a probe path and the filesystem's own language
            let l = match no_panic(|| fs.localizer().localize("p/q", &fs.language())) {
                Err(_) => "panic".to_string(),
                Ok(Ok(x)) => hexs(&x),
                Ok(Err(_)) => "!".to_string(),
            };
            format!("ok {} {} {}", e, t, l)
        }
        _ => "bad-op".to_string(),
    };
    format!("{} {} |{}", id, out, walks(&s.roots))
}

/// Directory name of layer `i` of a case: multi-byte UTF-8 in four cases out of five (the layer root is
/// part of every path the implementation globs and strips again).
fn layer_dir_name(id: &str, i: usize) -> String {
    let stems = ["l", "层", "données", "ウマ", "mixé层x"];
    format!("{}{}", stems[(fnv(&format!("{}@{}", id, i)) % 5) as usize], i)
}

fn run_new(st: &mut super::State, f: &[&str]) -> String {
    let id = f[0];
    let g = f[2];
    let lang = f[3];
    let n: usize = f[4].parse().unwrap();
    let payloads: Vec<Vec<u8>> = if f[5] == "-" { vec![] } else { f[5].split(';').map(|r| unhex(r.split(',').next().unwrap())).collect() };
    let base = work_dir().join("fsrun").join(format!("{}-{}", std::process::id(), id.replace('.', "_")));
    let _ = std::fs::remove_dir_all(&base);
    std::fs::create_dir_all(&base).unwrap();
    let mut roots = Vec::new();
    for i in 0..n {
        let r = base.join(layer_dir_name(id, i));
        std::fs::create_dir_all(&r).unwrap();
        let tree = f[7 + i];
        if tree != "-" {
            for e in tree.split(',') {
                let p: Vec<&str> = e.split(':').collect();
                let path = r.join(unhexs(p[0]));
                if p[1] == "d" {
                    std::fs::create_dir_all(&path).unwrap();
                } else {
                    std::fs::write(&path, &payloads[parse_pidx(p[2])]).unwrap();
                }
            }
        }
        roots.push(r.display().to_string());
    }
    // The roots are handed to `new` in non-canonical spellings chosen per layer from the case id (the
    // property speaks about layer contents, not about how a root is spelled): `l1/../l1`, `./l1`,
    // trailing slash, doubled slash, through a symlink (exercised, not modelled).
    let mut given = Vec::new();
    for (i, r) in roots.iter().enumerate() {
        let b = base.display().to_string();
        let k = fnv(&format!("{}#{}", id, i)) % 7;
        let ln = layer_dir_name(id, i);
        let sp = match k {
            1 => format!("{}/{}/../{}", b, ln, ln),
            2 => format!("{}/./{}", b, ln),
            3 => format!("{}/", r),
            4 => format!("{}//{}", b, ln),
            5 => {
                let link = base.join(format!("s{}", i));
                match std::os::unix::fs::symlink(&ln, &link) {
                    Ok(()) => link.display().to_string(),
                    Err(_) => r.clone(),
                }
            }
            6 => format!("{}/{}/./../{}/", b, ln, ln),
            _ => r.clone(),
        };
        given.push(sp);
    }
    let r = no_panic(|| LayeredFilesystem::new(given.clone(), language(lang), game(g)));
    let (fs, out) = match r {
        Err(_) => (None, "panic".to_string()),
        Ok(Err(e)) => (None, format!("err {}", err_class(&e))),
        Ok(Ok(fs)) => (Some(fs), "ok".to_string()),
    };
    let w = walks(&roots);
    st.any = Some(Box::new(FsState { id: id.to_string(), base, roots, fs, payloads }));
    format!("{} |{}", out, w)
}
