//! C14: path localisation. Case line: `<id> loc <localizer> <language> <path-hex>`.
use crate::util::*;
use mila::*;

pub const LOCALIZERS: [&str; 6] = ["NoOp", "FE9", "FE10", "FE13", "FE14", "FE15"];
pub const LANGS: [&str; 8] = [
    "EnglishNA", "EnglishEU", "Japanese", "Spanish", "French", "Italian", "German", "Dutch",
];

pub fn localizer(name: &str) -> PathLocalizer {
    match name {
        "NoOp" => PathLocalizer::NoOp(NoOpPathLocalizer {}),
        "FE9" => PathLocalizer::FE9(FE9PathLocalizer {}),
        "FE10" => PathLocalizer::FE10(FE10PathLocalizer {}),
        "FE13" => PathLocalizer::FE13(FE13PathLocalizer {}),
        "FE14" => PathLocalizer::FE14(FE14PathLocalizer {}),
        "FE15" => PathLocalizer::FE15(FE15PathLocalizer {}),
        _ => panic!("localizer {}", name),
    }
}
pub fn language(name: &str) -> Language {
    match name {
        "EnglishNA" => Language::EnglishNA,
        "EnglishEU" => Language::EnglishEU,
        "Japanese" => Language::Japanese,
        "Spanish" => Language::Spanish,
        "French" => Language::French,
        "Italian" => Language::Italian,
        "German" => Language::German,
        "Dutch" => Language::Dutch,
        _ => panic!("language {}", name),
    }
}

const COMPS: [&str; 30] = [
    "a", "m", "GameData.bin.lz", " ", "a b", ".x", "é", "@E", "e_", "x.y.z", "日本", "..",
    // unusual but legal characters in a Unix file name (everything except '/' and NUL)
    "a\\b", "\\", "c:d", "%41", "#x", "~", "a*", "q?", "[x]", "{y}", "$H", "a&b", "'", "\"", ";", "-r", "\t", "x\u{7f}",
];

pub fn gen(seed: u64, tier: &str) -> Vec<String> {
    let mut rng = Rng::new(seed);
    let mut paths: Vec<String> = Vec::new();
    // degenerate paths
    for p in ["", "/", "..", "a/..", ".", "./a", "a/.", "//", "a//b", "/a", "/a/b", "a/", "a/b/", " /x", "x/ ", " "] {
        paths.push(p.to_string());
    }
    // component and path lengths around 2^8 and 2^16 (bytes and characters): pure string functions have no
    // business with NAME_MAX / PATH_MAX / u8 / u16 lengths
    for n in [254usize, 255, 256, 257, 300, 1000, 4096, 65535, 65536, 65537] {
        let ascii: String = (0..n).map(|i| (b'a' + (i % 26) as u8) as char).collect();
        if n >= 65535 && tier != "thorough" {
            // quick: one path at 2^16 (the neighbours and the other shapes in thorough)
            if n == 65536 {
                paths.push(format!("m/{}", ascii));
            }
            continue;
        }
        paths.push(ascii.clone());
        paths.push(format!("m/{}", ascii));
        paths.push(format!("{}/x.bin", ascii));
        if n <= 4096 {
            let kana: String = (0..n).map(|i| char::from_u32(0x30A1 + (i % 80) as u32).unwrap()).collect();
            paths.push(format!("d/{}", kana)); // n characters = 3n bytes
            let k3: String = kana.chars().take((n + 2) / 3).collect(); // about n bytes
            paths.push(k3.clone());
            paths.push(format!("{}.bin.lz", k3));
        }
    }
    for depth in [64usize, 300, 5000] {
        paths.push(vec!["d"; depth].join("/"));
    }
    // exhaustive depth 1..2 over the component alphabet, sampled depth 3..4
    let plain: Vec<&str> = COMPS.iter().cloned().filter(|c| *c != "..").collect();
    for (i, a) in plain.iter().enumerate() {
        paths.push(a.to_string());
        for (j, b) in plain.iter().enumerate() {
            // exhaustive over the first 11 components, every unusual one as directory and as last
            // component against a rotating partner
            if (i < 11 && j < 11) || (i + j) % 5 == 0 || i == j {
                paths.push(format!("{}/{}", a, b));
            }
        }
    }
    let deep = if tier == "thorough" { 4000 } else { 300 };
    for _ in 0..deep {
        let depth = rng.range(3, 4) as usize;
        let mut comps: Vec<String> = Vec::new();
        for _ in 0..depth {
            comps.push(rng.pick(&COMPS).to_string());
        }
        let mut p = comps.join("/");
        if rng.chance(1, 5) {
            p.push('/');
        }
        paths.push(p);
    }
    let mut lines = Vec::new();
    let mut n = 0;
    for p in &paths {
        for l in LOCALIZERS.iter() {
            for g in LANGS.iter() {
                // quick: all 48 pairs for the first 200 paths, then a sampled pair
                if tier != "thorough" && n >= 260 * 48 && !rng.chance(1, 8) {
                    continue;
                }
                lines.push(format!("c14.{:06} loc {} {} {}", n, l, g, hexs(p)));
                n += 1;
            }
        }
    }
    lines
}

pub fn run_line(_st: &mut super::State, line: &str) -> String {
    let f: Vec<&str> = line.split(' ').collect();
    let id = f[0];
    let loc = localizer(f[2]);
    let lang = language(f[3]);
    let path = unhexs(f[4]);
    let r = no_panic(|| loc.localize(&path, &lang));
    let out = match r {
        Err(_) => "panic".to_string(),
        Ok(Ok(s)) => format!("ok {}", hexs(&s)),
        Ok(Err(LocalizationError::UnsupportedLanguage)) => "err Unsupported".to_string(),
        Ok(Err(LocalizationError::MissingParent(_))) => "err MissingParent".to_string(),
        Ok(Err(LocalizationError::MissingFileName(_))) => "err MissingFileName".to_string(),
        Ok(Err(_)) => "err Other".to_string(),
    };
    format!("{} {}", id, out)
}
