//! Family `lz`: C08 C09 C10 C11 — LZ10 / LZ13 compression and decompression.
//!
//! Case lines
//!   `<id> c10 <period> <input-hex>`      LZ10CompressionFormat::compress  -> `ok <hex> rt=ok|bad`
//!   `<id> c13 <period> <input-hex>`      LZ13CompressionFormat::compress  -> `ok <hex> rt=ok|bad alloc=ok|big`
//!   `<id> d10|d13|f10|f13 <stream-hex>`  decompress (f* = through CompressionFormat) -> `ok <hex> x=ok|diff` | `err Invalid x=…` | `panic`
//!   `<id> h10|h13|hf13 <stream-hex>`         as d10 / d13 / f13, output printed as `ok n=<len>,fnv=<FNV-1a 64>` (expansions >= 16 MiB)
//!   `<id> e10|e13 <stream-hex>`               a (usually failing) decompress used as a *setup step* of a second-use sequence
//!                                          (several lines with one id run back to back in one thread); printed like d10 / d13
//!   `<id> t10|t13 <kind> <n> s<seed>`           C08 / C09 clauses on a generated input at the top of the domain (`gen_top`)
//!   `<id> g10|g13 <kind> <r> <m> s<seed> <n>`  C10 bounds on a *generated* periodic input (sent as parameters, not
//!                                        as hex; both sides rebuild it with the same splitmix64): see `gen_pattern`
//! `period` = a period of the input claimed by the generator (0 = none claimed).
//!   `<id> n10|n13 <filename-hex>`             is_compressed_filename -> `ok 0|1 w=same`
//! every line ends with `w=same` when the same call through the other public entry point (the `CompressionFormat`
//! enum wrapper for the struct ops, the struct for f10/f13) returned exactly the same, else `w=<that result>`.
//! `rt` = the library's own decompress(compress(x)) == x; `alloc` = largest single allocation request
//! during compress <= max(64, 13 + n + n/8); `x` = cross-check of LZ10 decompress against the third-party
//! `nintendo_lz::decompress_arr` on streams that crate decodes without panicking.
#![allow(unused)]
use crate::util::*;
use mila::*;

// ------------------------------------------------------------------------------------------------
// input generators for the compressors
// ------------------------------------------------------------------------------------------------

fn periodic(pattern: &[u8], n: usize) -> Vec<u8> {
    (0..n).map(|i| pattern[i % pattern.len()]).collect()
}

fn fib_word(n: usize, a: u8, b: u8) -> Vec<u8> {
    let mut s0 = vec![a];
    let mut s1 = vec![a, b];
    while s1.len() < n {
        let mut s2 = s1.clone();
        s2.extend_from_slice(&s0);
        s0 = s1;
        s1 = s2;
    }
    s1.truncate(n);
    s1
}

fn low_entropy(rng: &mut Rng, n: usize, k: u64) -> Vec<u8> {
    (0..n).map(|_| rng.below(k) as u8).collect()
}

const LEN_CLASSES: [usize; 22] = [1, 2, 3, 4, 15, 16, 17, 18, 19, 20, 271, 272, 273, 274, 275, 300, 1000, 4094, 4095, 4096, 4097, 5000];
const DIST_CLASSES: [usize; 14] = [1, 2, 3, 4, 17, 18, 19, 255, 256, 257, 4094, 4095, 4096, 4097];

/// LZ-structured data: literal stretches and back-copies with distances/lengths from the boundary classes.
fn lz_structured(rng: &mut Rng, target: usize, alphabet: u64) -> Vec<u8> {
    let mut d: Vec<u8> = Vec::new();
    while d.len() < target {
        if d.is_empty() || rng.chance(2, 5) {
            let k = rng.range(1, 24) as usize;
            for _ in 0..k {
                d.push(rng.below(alphabet) as u8);
            }
        } else {
            let dist = if rng.chance(2, 3) { *rng.pick(&DIST_CLASSES) } else { rng.range(1, 4200) as usize };
            let dist = dist.min(d.len()).max(1);
            let len = if rng.chance(2, 3) { *rng.pick(&LEN_CLASSES) } else { rng.range(1, 600) as usize };
            let start = d.len() - dist;
            for i in 0..len {
                let v = d[start + i];
                d.push(v);
            }
        }
    }
    d
}

/// splitmix64 byte stream shared with `Driver/Lz.lean` (`smBytes`): state starts at `seed`, one byte per step.
pub fn sm_bytes(seed: u64, len: usize) -> Vec<u8> {
    let mut st = seed;
    (0..len)
        .map(|_| {
            st = st.wrapping_add(0x9E3779B97F4A7C15);
            let mut z = st;
            z = (z ^ (z >> 30)).wrapping_mul(0xBF58476D1CE4E5B9);
            z = (z ^ (z >> 27)).wrapping_mul(0x94D049BB133111EB);
            (z ^ (z >> 31)) as u8
        })
        .collect()
}

/// Patterns for generated periodic inputs (period = pattern length), R = `sm_bytes(seed, r)`:
///   kind 0  R                                  incompressible period: the p + 2 literal allowance is really used
///   kind 1  R ++ R[0..m]                       self-overlapping: an internal partial repeat of m bytes at distance r
///   kind 2  R ++ R[0..m] ++ R[r-m..r]          two internal repeats
/// (R[m] is made different from R[0] so that the partial repeat of kind 1 stops after exactly m bytes.)
pub fn gen_pattern(kind: usize, r: usize, m: usize, seed: u64) -> Vec<u8> {
    let mut pat = sm_bytes(seed, r);
    if kind == 0 {
        return pat;
    }
    if m < r && pat[m] == pat[0] {
        pat[m] ^= 0x55;
    }
    let head: Vec<u8> = pat[0..m].to_vec();
    let tail: Vec<u8> = pat[r - m..r].to_vec();
    pat.extend_from_slice(&head);
    if kind == 2 {
        pat.extend_from_slice(&tail);
    }
    pat
}

/// Inputs at the top of the domain (ops t10 / t13 `<kind> <n> s<seed>`), cheap to compress:
///   kind 0  a run with distinct bytes at both ends: a, b, b, …, b, c
///   kind 1  a short random pattern (period 3..40) repeated
///   kind 2  a run (the compressible bulk) followed by an incompressible tail of t = 20 + seed % 1981 bytes: the
///           0x13 wrapper value (in-place buffer size) then exceeds the input length and crosses 2^24 for inputs
///           that are themselves shorter than 16 MiB
///   kind 3  the reverse: the incompressible bytes first, then the run
pub fn gen_top(kind: usize, n: usize, seed: u64) -> Vec<u8> {
    if kind >= 2 {
        let t = (20 + (seed % 1981) as usize).min(n);
        let noise = sm_bytes(seed, t);
        let run = vec![(seed >> 8) as u8; n - t];
        return if kind == 2 { [run, noise].concat() } else { [noise, run].concat() };
    }
    if kind == 0 {
        let a = seed as u8;
        let mut v = vec![a.wrapping_add(1); n];
        if n > 0 {
            v[0] = a;
            v[n - 1] = a.wrapping_add(2);
        }
        v
    } else {
        let q = 3 + (seed % 38) as usize;
        periodic(&sm_bytes(seed, q), n)
    }
}

struct Out {
    lines: Vec<String>,
    n: usize,
    /// compress ops emitted for every generated input (c10/c13: C08/C09 clauses, b10/b13: C10 bounds)
    ops: Vec<&'static str>,
    /// quick-tier size divisor for the expensive random inputs (2 for the LZ13 stream: two passes, two profiles)
    shrink: usize,
}
impl Out {
    fn compress(&mut self, period: usize, data: &[u8]) {
        for op in self.ops.clone() {
            self.one(op, period, data);
        }
    }
    fn one(&mut self, op: &str, period: usize, data: &[u8]) {
        self.lines.push(format!("lz.{:06} {} {} {}", self.n, op, period, hex(data)));
        self.n += 1;
    }
    fn generated(&mut self, op: &str, kind: usize, r: usize, m: usize, seed: u64, n: usize) {
        // the seed is written as `s<decimal>` so that the generic shrinker does not mistake it for a hex payload
        self.lines.push(format!("lz.{:06} {} {} {} {} s{} {}", self.n, op, kind, r, m, seed, n));
        self.n += 1;
    }
    fn top(&mut self, op: &str, kind: usize, n: usize, seed: u64) {
        self.lines.push(format!("lz.{:06} {} {} {} s{}", self.n, op, kind, n, seed));
        self.n += 1;
    }
    /// A stateful case: several lines with one id, run back to back in the same process and thread.
    /// Each step is `(op, period, bytes)`; `e*` / `d*` ops ignore the period.
    fn seq(&mut self, steps: &[(&str, Vec<u8>)]) {
        for (op, b) in steps {
            if op.starts_with('c') || op.starts_with('b') {
                self.lines.push(format!("lz.{:06} {} 0 {}", self.n, op, hex(b)));
            } else {
                self.lines.push(format!("lz.{:06} {} {}", self.n, op, hex(b)));
            }
        }
        self.n += 1;
    }
    fn dec(&mut self, op: &str, s: &[u8]) {
        self.lines.push(format!("lz.{:06} {} {}", self.n, op, hex(s)));
        self.n += 1;
    }
}

fn exhaustive(out: &mut Out, alphabet: u8, max_len: usize) {
    for len in 0..=max_len {
        let total = (alphabet as usize).pow(len as u32);
        for mut code in 0..total {
            let mut v = Vec::with_capacity(len);
            for _ in 0..len {
                v.push((code % alphabet as usize) as u8);
                code /= alphabet as usize;
            }
            out.compress(0, &v);
        }
    }
}

fn gen_compress(out: &mut Out, rng: &mut Rng, thorough: bool, scale: usize) {
    // the empty input and tiny inputs
    out.compress(0, &[]);
    // exhaustive small alphabets
    if thorough {
        exhaustive(out, 2, 14);
        exhaustive(out, 3, 9);
    } else {
        exhaustive(out, 2, 10 + scale.min(2));
        exhaustive(out, 3, 6 + scale.min(4) / 2);
    }
    // runs: lengths around the 8-token, 16/17/18, 272/273 and 4096 boundaries (+2: the first two bytes are literals)
    for base in [1usize, 2, 3, 4, 5, 8, 9, 10, 16, 17, 18, 19, 20, 21, 22, 34, 35, 36, 37, 38, 272, 273, 274, 275, 276, 277, 4096, 4097, 4098, 4099, 4100, 4101] {
        let b = rng.next() as u8;
        out.compress(1, &vec![b; base]);
    }
    let run_extra = if thorough { 60 } else { 6 * scale };
    for _ in 0..run_extra {
        let n = rng.range(1, if thorough { 70000 } else { 20000 }) as usize;
        out.compress(1, &vec![rng.next() as u8; n]);
    }
    // runs followed by / preceded by noise, so that the flag group ends at different places
    for k in 0..(if thorough { 64 } else { 24 * scale }) {
        let mut v = rng.bytes(k % 9);
        let b = rng.next() as u8;
        v.extend(std::iter::repeat(b).take(*rng.pick(&LEN_CLASSES) + 2));
        v.extend(rng.bytes((k / 3) % 11));
        out.compress(0, &v);
    }
    // incompressible data
    for n in [1usize, 2, 3, 7, 8, 9, 15, 16, 17, 63, 64, 65, 100, 1000] {
        out.compress(0, &rng.bytes(n));
    }
    out.compress(0, &rng.bytes(if thorough { 20000 } else { 8000 / out.shrink }));
    // low entropy random data (many short and medium matches at all distances)
    let le = if thorough { 40 } else { 8 * scale };
    for _ in 0..le {
        let k = rng.range(2, 5);
        let n = rng.range(20, if thorough { 12000 } else { 6000 / out.shrink as u64 }) as usize;
        out.compress(0, &low_entropy(rng, n, k));
    }
    // Fibonacci words (self-similar)
    for n in [5usize, 13, 34, 89, 233, 610, 1597, 4181] {
        out.compress(0, &fib_word(n, 0x61, 0x62));
    }
    if thorough {
        out.compress(0, &fib_word(28657, 1, 2));
        out.compress(0, &fib_word(75025, 7, 9));
    } else {
        out.compress(0, &fib_word(6765, 1, 2));
    }
    // LZ-structured data with boundary distances and lengths
    let ls = if thorough { 150 } else { 14 * scale };
    for i in 0..ls {
        let target = if thorough { rng.range(10, 60000) } else { rng.range(10, 20000 / out.shrink as u64) } as usize;
        let alpha = *rng.pick(&[2u64, 4, 16, 256]);
        let d = lz_structured(rng, target, alpha);
        out.compress(0, &d);
    }
    if thorough {
        // a few large inputs
        let big = lz_structured(rng, 300_000, 16);
        out.compress(0, &big);
        let big = rng.bytes(150_000);
        out.compress(0, &big);
        let big = low_entropy(rng, 100_000, 2);
        out.compress(0, &big);
        let big = lz_structured(rng, 150_000, 2);
        out.compress(0, &big);
    }
    // far repeats: a random block of d bytes followed by its own prefix (match exactly at distance d)
    for d in [4093usize, 4094, 4095, 4096, 4097, 4098] {
        if !thorough && rng.chance(1, 2) {
            continue;
        }
        let r = rng.bytes(d);
        let m = *rng.pick(&[3usize, 17, 18, 19, 273, 600]);
        let mut v = r.clone();
        v.extend_from_slice(&r[0..m.min(d)]);
        let tail = rng.below(4) as usize;
        v.extend(rng.bytes(tail));
        out.compress(0, &v);
    }
}

fn gen_periodic(out: &mut Out, rng: &mut Rng, thorough: bool, few: bool) {
    let mut periods: Vec<usize> = Vec::new();
    if thorough && !few {
        periods.extend(1..=4096);
    } else {
        periods.extend([1usize, 2, 3, 4, 8, 16, 17, 18, 19, 20, 36, 255, 256, 257, 272, 273]);
        let (small, mid) = if few { (4, 1) } else if thorough { (200, 40) } else { (24, 4) };
        for _ in 0..small {
            periods.push(rng.range(5, 600) as usize);
        }
        for _ in 0..mid {
            periods.push(rng.range(600, 4090) as usize);
        }
        // window edge
        periods.extend([4094usize, 4095, 4096]);
    }
    for &p in &periods {
        let kind = rng.below(3);
        let pattern: Vec<u8> = match kind {
            0 => rng.bytes(p),
            1 => low_entropy(rng, p, 2),
            _ => {
                let mut v = vec![0u8; p];
                v[p - 1] = 1;
                v
            }
        };
        let long = if thorough { 20000 } else { 6000 };
        let lens: Vec<usize> = if p <= 600 {
            if few {
                vec![p + 1, *rng.pick(&[2 * p, 3 * p + 7, long])]
            } else {
                vec![p + 1, 2 * p, 3 * p + 7, long]
            }
        } else if thorough && !few && p % 64 == 0 {
            vec![p + 1, 2 * p, 3 * p + 7, 20000]
        } else {
            // the expensive ones: one length that reaches well past the first period
            vec![*rng.pick(&[2 * p, 2 * p + 300, 3 * p + 7])]
        };
        // thorough sweep over every period: beyond 600 the first period costs ~p^2/2 comparisons per pass, so each
        // period goes to one of the two formats (alternating), and every 64th to both
        let saved = out.ops.clone();
        if thorough && !few && p > 600 && p % 64 != 0 && out.ops.len() == 2 {
            out.ops = vec![saved[p % 2]];
        }
        for n in lens {
            out.compress(p, &periodic(&pattern, n));
        }
        out.ops = saved;
    }
}

/// "cap, break, resume": a block T repeated so that `j` consecutive matches hit the format's length cap exactly
/// (periodic part of b + j*cap bytes), then `k` foreign bytes (literals), then `r` bytes that resume the periodic
/// data at the phase where the capped match stopped (variant 0), k bytes later (variant 1) or at the block
/// start (variant 2), then a short random tail.  A compressor that carries state from a capped match across
/// the literals (remembered source / displacement) goes wrong exactly here.
fn cap_break_resume(rng: &mut Rng, cap: usize, b: usize, j: usize, k: usize, variant: usize, r: usize) -> Vec<u8> {
    let t = rng.bytes(b);
    let mut v: Vec<u8> = (0..b + j * cap).map(|i| t[i % b]).collect();
    for i in 0..k {
        let mut f = rng.next() as u8;
        if f == t[(v.len()) % b] || (i == 0 && f == t[(b + j * cap) % b]) {
            f ^= 0x5A;
        }
        v.push(f);
    }
    let start = match variant {
        0 => b + j * cap,
        1 => b + j * cap + k,
        _ => 0,
    };
    v.extend((start..start + r).map(|i| t[i % b]));
    // half of the inputs end with the resumed data (the look-ahead then is what is left of the input)
    let tail = if rng.chance(1, 2) { 0 } else { rng.range(1, 3) as usize };
    v.extend(rng.bytes(tail));
    v
}

fn gen_cap_break(out: &mut Out, rng: &mut Rng, lz13: bool, thorough: bool) {
    if !lz13 {
        // LZ10: cap 18, everything is tiny: all combinations
        for &b in &[9usize, 18, 19, 36] {
            for j in 1..=3 {
                for k in 1..=3 {
                    for variant in 0..3 {
                        for &r in &[5usize, 18, 25] {
                            if thorough || rng.chance(1, 2) {
                                let v = cap_break_resume(rng, 18, b, j, k, variant, r);
                                out.compress(0, &v);
                            }
                        }
                    }
                }
            }
        }
    } else {
        // LZ13: cap 4096; quick takes a sample that always contains the effective block sizes 2048 and 4096
        let mut combos: Vec<(usize, usize, usize, usize, usize)> = Vec::new();
        for &b in &[2048usize, 4096, 4097, 8192, 1024, 1365] {
            for j in 1..=3 {
                for k in 1..=3 {
                    for variant in 0..3 {
                        for &r in &[100usize, 4096, 4150, 8200] {
                            combos.push((b, j, k, variant, r));
                        }
                    }
                }
            }
        }
        if thorough {
            // the full grid is 648 inputs of 10-30 KB with random blocks (search cost ~b^2/2 per pass, two passes,
            // two profiles): thorough takes every (block, variant) pair three times with random j, k, r, and
            // every k for the effective blocks
            rng.shuffle(&mut combos);
            let mut picked: Vec<(usize, usize, usize, usize, usize)> = Vec::new();
            for &b in &[2048usize, 4096, 4097, 8192, 1024, 1365] {
                for variant in 0..3 {
                    let n = if b == 8192 { 1 } else { 3 };
                    picked.extend(combos.iter().filter(|c| c.0 == b && c.3 == variant).take(n).cloned());
                }
            }
            for &b in &[2048usize, 4096] {
                for k in 1..=3 {
                    for j in 1..=3 {
                        picked.extend(combos.iter().filter(|c| c.0 == b && c.1 == j && c.2 == k && c.3 == 0 && c.4 >= 4096).take(1).cloned());
                    }
                }
            }
            combos = picked;
        } else {
            // the search cost of a random block is ~b^2/2 per pass: quick keeps to a few cheap combinations
            rng.shuffle(&mut combos);
            let mut picked: Vec<(usize, usize, usize, usize, usize)> = Vec::new();
            let mut take = |pred: &dyn Fn(&(usize, usize, usize, usize, usize)) -> bool, n: usize| {
                let sel: Vec<_> = combos.iter().filter(|c| pred(c)).take(n).cloned().collect();
                picked.extend(sel);
            };
            for k in 1..=3 {
                // resume where the cap stopped, for the whole look-ahead, every k
                take(&|c| c.0 == 2048 && c.2 == k && c.3 == 0 && c.4 >= 4096, 1);
            }
            take(&|c| c.0 == 4096 && c.3 == 0 && c.4 >= 4096, 1);
            take(&|c| c.0 == 2048 && c.3 == 0 && c.4 == 100, 1);
            take(&|c| c.0 == 2048 && c.3 == 1, 1);
            take(&|c| c.0 == 2048 && c.3 == 2, 1);
            take(&|c| c.0 == 1024 || c.0 == 1365, 4);
            take(&|c| c.0 == 4097 && c.4 <= 4150, 1);
            combos = picked;
        }
        for (b, j, k, variant, r) in combos {
            let v = cap_break_resume(rng, 4096, b, j, k, variant, r);
            out.compress(0, &v);
        }
    }
}

/// A stream the decoder rejects: `kind` 0 = truncated after at least one decoded token, 1 = back-reference before
/// the start after some output, 2 = shorter than a header, 3 = truncated inside the last token of a long stream.
fn bad_stream(rng: &mut Rng, kind: usize, lz13_wrapped: bool) -> Vec<u8> {
    let ext = rng.chance(1, 2);
    let ntoks = rng.range(12, 60) as usize;
    let toks = gen_tokens(rng, ext, ntoks, false);
    let n = expand(&toks).len();
    let s = match kind {
        0 => {
            let full = encode(ext, n, &toks, 0);
            let cut = rng.range(8, full.len() as u64 - 1) as usize;
            full[0..cut].to_vec()
        }
        1 => {
            let mut bad = toks.clone();
            let at = rng.range(4, bad.len() as u64) as usize;
            bad.truncate(at);
            let have = expand(&bad).len();
            bad.push(Tok::Ref(3, (have + 1 + rng.below(20) as usize).min(4096).max(have + 1)));
            encode(ext, have + 3, &bad, 0)
        }
        2 => vec![if ext { 0x11 } else { 0x10 }, 5, 0][0..rng.range(0, 3) as usize].to_vec(),
        _ => {
            let full = encode(ext, n, &toks, 0);
            full[0..full.len() - 1].to_vec()
        }
    };
    if lz13_wrapped && s.len() >= 4 {
        wrap13(rng, &s)
    } else {
        s
    }
}

/// "Second use" sequences (same process, same thread, one case id): a failing decompress followed by an
/// ordinary compress + round trip judged by the ordinary oracle; two failures then a round trip; long then
/// short and short then long round trips.  Catches decoder / encoder state that survives a call.
fn gen_second_use(out: &mut Out, rng: &mut Rng, cop: &'static str, thorough: bool) {
    let is13 = cop.ends_with("13");
    let eop = if is13 { "e13" } else { "e10" };
    let reps = if thorough { 12 } else { 3 };
    for _ in 0..reps {
        for kind in 0..4 {
            let (len, alpha, wrapped) = (rng.range(1, 1500) as usize, *rng.pick(&[2u64, 16, 256]), rng.chance(1, 2));
            let x = lz_structured(rng, len, alpha);
            let bad = bad_stream(rng, kind, is13 && wrapped);
            out.seq(&[(eop, bad), (cop, x)]);
        }
        // two failures, then two round trips of different lengths
        let b1 = bad_stream(rng, 0, is13);
        let b2 = bad_stream(rng, 1, false);
        let (ll, sl) = (rng.range(3000, 6000) as usize, rng.range(1, 20) as usize);
        let long = lz_structured(rng, ll, 4);
        let short = rng.bytes(sl);
        out.seq(&[(eop, b1), (eop, b2), (cop, short.clone()), (cop, long.clone())]);
        let b3 = bad_stream(rng, 3, false);
        out.seq(&[(cop, long), (cop, short), (eop, b3), (cop, vec![7u8; 40])]);
    }
}

/// Maximum-ratio conforming streams: `q` literals, then only maximal references (18 / 65808 bytes) at displacement
/// `q` until `n` bytes are produced, i.e. period-q data encoded as tightly as the format allows (LZ10: 144 output
/// bytes per 17 stream bytes).  A decoder that second-guesses "implausible" headers fails exactly on these.
fn max_ratio_stream(ext: bool, q: usize, n: usize, rng: &mut Rng) -> Vec<u8> {
    let maxlen = if ext { 65808 } else { 18 };
    let mut toks: Vec<Tok> = (0..q.min(n)).map(|_| Tok::Lit(rng.next() as u8)).collect();
    let mut have = q.min(n);
    while n - have >= 3 {
        let len = (n - have).min(maxlen);
        // never leave a remainder of 1 or 2 bytes that would need literals, unless unavoidable
        let len = if n - have - len > 0 && n - have - len < 3 && len > 5 { len - 3 } else { len };
        toks.push(Tok::Ref(len, q));
        have += len;
    }
    for _ in have..n {
        let b = match &toks[0] {
            Tok::Lit(b) => *b,
            _ => 0,
        };
        toks.push(Tok::Lit(b));
    }
    let n = expand(&toks).len();
    encode(ext, n, &toks, rng.next() as u8)
}

fn gen_max_ratio(out: &mut Out, rng: &mut Rng, thorough: bool) {
    let lens: Vec<usize> = if thorough {
        vec![19, 255, 256, 257, 288, 289, 290, 1000, 4096, 0x2000, 65535, 65536, 65537, 70000, 200_000]
    } else {
        vec![19, 256, 289, 290, 0x2000, 65536, 70000]
    };
    for &n in &lens {
        for ext in [false, true] {
            let qs: Vec<usize> = if thorough { (1..=8).collect() } else { vec![1, rng.range(2, 8) as usize] };
            for q in qs {
                let s = max_ratio_stream(ext, q, n, rng);
                match rng.below(4) {
                    0 => out.dec("d10", &s),
                    1 => out.dec("d13", &s),
                    2 => out.dec("f10", &s),
                    _ => {
                        let w = wrap13(rng, &s);
                        out.dec("d13", &w)
                    }
                }
                if !ext && q == 1 {
                    out.dec("d10", &s); // the LZ10 entry point on the LZ10 stream, always
                }
            }
        }
    }
}

/// is_compressed_filename: suffix dispatch of both formats, through the struct and the enum.
fn gen_names(out: &mut Out, rng: &mut Rng) {
    let names = [
        "", "a", ".lz", ".cms", ".cmp", "a.lz", "a.cms", "a.cmp", "a.LZ", "a.lz ", "a.lzx", "alz", "a.cm", "a.cmpp", "x/y.bin.lz",
        "日本.lz", "é.cmp", "a.lz.cmp", "a.cmp.lz", "lz", "cmp", ".lz.", "a..lz", "GameData.bin.lz", "face.cms",
    ];
    for n in names.iter() {
        out.lines.push(format!("lz.{:06} n10 {}", out.n, hexs(n)));
        out.n += 1;
        out.lines.push(format!("lz.{:06} n13 {}", out.n, hexs(n)));
        out.n += 1;
    }
    let _ = rng;
}

/// Size thresholds: lengths crossing 2^8 and 2^16, long runs and short-period data of 256..70 000 bytes.
fn gen_thresholds(out: &mut Out, rng: &mut Rng, thorough: bool) {
    for &n in &[255usize, 256, 257, 65535, 65536, 65537] {
        let nl = rng.range(0, 40) as usize;
        let noise = rng.bytes(nl);
        let mut v = vec![rng.next() as u8; n - noise.len().min(n)];
        v.extend_from_slice(&noise[0..noise.len().min(n)]);
        out.compress(1, &v[0..n]);
        if n < 1000 || thorough {
            out.compress(0, &rng.bytes(n));
        }
    }
    let lens: Vec<usize> = if thorough { vec![256, 289, 290, 1000, 4096, 0x2000, 20000, 70000] } else { vec![289, 0x2000, 70000] };
    for &n in &lens {
        let qs: Vec<usize> = if thorough { (1..=8).collect() } else { vec![1, rng.range(2, 8) as usize] };
        for q in qs {
            let pat = rng.bytes(q);
            out.compress(q, &periodic(&pat, n));
        }
    }
}

/// Second-use sequences for the decoders alone: a rejected stream, then a conforming one (same id, same thread).
fn gen_second_use_dec(out: &mut Out, rng: &mut Rng, thorough: bool) {
    let reps = if thorough { 12 } else { 3 };
    for _ in 0..reps {
        for kind in 0..4 {
            for op in ["d10", "d13"] {
                let ext = rng.chance(1, 2);
                let ntoks = rng.range(1, 60) as usize;
                let toks = gen_tokens(rng, ext, ntoks, false);
                let n = expand(&toks).len();
                let good = encode(ext, n, &toks, rng.next() as u8);
                let wrapped = op == "d13" && rng.chance(1, 2);
                let bad = bad_stream(rng, kind, wrapped);
                let good = if wrapped { wrap13(rng, &good) } else { good };
                out.seq(&[(op, bad), (op, good.clone()), (op, good)]);
            }
        }
    }
}

/// Lengths around multiples of 64 KiB with content that makes the 0x13 wrapper value (the in-place buffer size
/// computed by calculate_lz13_header) and the input length differ in their third byte: a compressible run
/// followed by an incompressible tail (wrapper = length + overhang, length = 65536 k - d) and the reverse
/// (wrapper below the length, length = 65536 k + d).
fn gen_header_straddle(out: &mut Out, rng: &mut Rng, thorough: bool) {
    let mut plan: Vec<(usize, usize, bool)> = Vec::new(); // (k, d, reverse)
    if thorough {
        for k in 1..=4usize {
            for d in 1..=64usize {
                if k <= 2 || d % 8 == 1 {
                    plan.push((k, d, false));
                    if d % 4 == 1 {
                        plan.push((k, d, true));
                    }
                }
            }
        }
    } else {
        plan.push((1, rng.range(1, 64) as usize, false));
        plan.push((1, rng.range(1, 8) as usize, false));
        plan.push((2, rng.range(1, 64) as usize, false));
        plan.push((1, rng.range(1, 64) as usize, true));
    }
    for (k, d, reverse) in plan {
        let n = if reverse { 65536 * k + d } else { 65536 * k - d };
        // incompressible part: overhang ~ t/8 + 9 > 64 (the sweep uses shorter tails: the search cost is 4096 t)
        let t = if thorough { rng.range(520, 700) } else { rng.range(900, 1600) } as usize;
        let q = rng.range(1, 9) as usize;
        let pat = rng.bytes(q);
        let run: Vec<u8> = (0..n - t).map(|i| pat[i % q]).collect();
        let noise = rng.bytes(t);
        let v: Vec<u8> = if reverse { [noise, run].concat() } else { [run, noise].concat() };
        out.compress(0, &v);
    }
}

/// The top of the domain: 2^24 - 1 is the largest input the property speaks about (and the largest length the
/// 24-bit header field holds); 2^24 and 2^24 + 1 are included for the model tie only (the oracle asks for
/// "Ok or Err, no panic" there).
fn gen_top_of_domain(out: &mut Out, rng: &mut Rng, op: &'static str, thorough: bool) {
    const B: usize = 1 << 24;
    // quick: three 16 MiB inputs (each needs several 128 MiB arrays in the Lean driver); the rest in thorough
    // quick keeps to the largest legal input, 2^24 - 1 (each 16 MiB input costs several seconds of page
    // faults on 128 MiB arrays in the driver); its neighbours and the >= 2^24 tie-only cases run in thorough
    let k = rng.below(2) as usize;
    out.top(op, k, B - 1, rng.next());
    // compressible bulk + incompressible tail just below 16 MiB: the LZ13 wrapper value (in-place buffer size)
    // crosses 2^24 although the input is inside the domain
    if op == "t13" {
        out.top(op, 2, B - *rng.pick(&[10usize, 160]), rng.next());
    }
    if thorough {
        for &k in &[1usize, 10, 160, 1000] {
            out.top(op, 2, B - k, rng.next());
            if k == 10 || k == 1000 {
                out.top(op, 3, B - k, rng.next());
            }
        }
        out.top(op, 1 - k, B - 2, rng.next());
        out.top(op, rng.below(2) as usize, B, rng.next());
        out.top(op, rng.below(2) as usize, B + 1, rng.next());
        out.top(op, 1, B - 1, rng.next());
        out.top(op, 0, B - 2, rng.next());
        out.top(op, 1, B - 257, rng.next());
        out.top(op, 0, B + 65_536, rng.next());
    }
}

/// Long periodic inputs whose pattern has internal partial repeats (and long incompressible-pattern ones).
///
/// Why these shapes: the window is scanned farthest-first, so a search that settles for a far *partial* match
/// (instead of going on to the nearer full-length one) is only visible when such a partial match lies farther
/// away than the largest multiple of p in the window.  For pattern kind 1 (R ++ R[0..m], p = r + m) a token
/// that starts at phase a < m has a partial match of m - a bytes at distance m + k p, which is beyond k p when
/// 4096 mod p >= m.  After it the encoder is at phase m, takes a full 4096-byte match and lands at phase
/// a' = (4096 + m) mod p.  Choosing p = (4096 + m - a') / j (j = 2..5, a' small) makes the process return to
/// the same phase for ever: every full-length reference is followed by a short one.  The cost is only ~4 bytes
/// per 4 KB and the literal allowance p + 2 hides `m` bytes of it (the internal repeat compresses), so the totals
/// must be several hundred KB: n ~ 1400 m + 100 KB.
fn gen_overlap(out: &mut Out, rng: &mut Rng, thorough: bool) {
    let count = if thorough { 40 } else { 6 };
    for i in 0..count {
        let kind = if i % 3 == 2 { 2 } else { 1 };
        let (r, m, p) = loop {
            let j = rng.range(2, 5) as usize;
            let m = if i % 2 == 0 { rng.range(273, 340) } else { rng.range(273, 620) } as usize;
            let a = (4096 + m) % j;
            if a + 273 > m {
                continue;
            }
            let p = (4096 + m - a) / j;
            let copies = if kind == 2 { 2 } else { 1 };
            if p <= (copies + 1) * m + 1 || 4096 % p < copies * m {
                continue;
            }
            break (p - copies * m, m, p);
        };
        let n = (1400 * m + 100_000 + rng.below(50_000) as usize).min(1_150_000);
        let seed = rng.next();
        out.generated("g13", kind, r, m, seed, n);
        if i % 3 == 0 {
            out.generated("g10", kind, r, m, seed, 60_000 + p);
        }
        if kind == 2 {
            // two internal repeats are much more sensitive: moderate totals as well
            out.generated("g13", kind, r, m, seed ^ 1, 40_000 + 20 * p);
        }
    }
    // the coordinator's witness shape: p = 2198 = 1898 + 300 (4096 mod 2198 = 1898)
    out.generated("g13", 1, 1898, 300, rng.next(), 564_886);
    // incompressible periods, long totals: no slack in the literal allowance
    let count = if thorough { 24 } else { 6 };
    for i in 0..count {
        let p = *rng.pick(&[2usize, 3, 17, 19, 273, 1000, 2047, 2048, 2049, 3000, 4095, 4096]);
        let n = rng.range(100_000, if thorough { 900_000 } else { 400_000 }) as usize;
        out.generated(if i % 2 == 0 { "g13" } else { "g10" }, 0, p, 0, rng.next(), n);
    }
}

// ------------------------------------------------------------------------------------------------
// spec-side token streams for the decoders
// ------------------------------------------------------------------------------------------------

#[derive(Clone, Debug)]
enum Tok {
    Lit(u8),
    Ref(usize, usize), // len, disp (1 = previous byte)
}

fn expand(toks: &[Tok]) -> Vec<u8> {
    let mut out = Vec::new();
    for t in toks {
        match t {
            Tok::Lit(b) => out.push(*b),
            Tok::Ref(len, disp) => {
                for _ in 0..*len {
                    let v = out[out.len() - disp];
                    out.push(v);
                }
            }
        }
    }
    out
}

fn tok_bytes(ext: bool, t: &Tok, s: &mut Vec<u8>) {
    match t {
        Tok::Lit(b) => s.push(*b),
        Tok::Ref(len, disp) => {
            let d = disp - 1;
            if !ext {
                s.push((((len - 3) << 4) | (d >> 8)) as u8);
                s.push(d as u8);
            } else if *len <= 16 {
                s.push((((len - 1) << 4) | (d >> 8)) as u8);
                s.push(d as u8);
            } else if *len <= 272 {
                let v = len - 17;
                s.push((v >> 4) as u8);
                s.push((((v & 15) << 4) | (d >> 8)) as u8);
                s.push(d as u8);
            } else {
                let v = len - 273;
                s.push((0x10 | (v >> 12)) as u8);
                s.push((v >> 4) as u8);
                s.push((((v & 15) << 4) | (d >> 8)) as u8);
                s.push(d as u8);
            }
        }
    }
}

fn header(ext: bool, n: usize, s: &mut Vec<u8>) {
    s.push(if ext { 0x11 } else { 0x10 });
    if ext && (n == 0 || n >= 1 << 24) {
        s.extend_from_slice(&[0, 0, 0]);
        s.extend_from_slice(&(n as u32).to_le_bytes());
    } else {
        s.extend_from_slice(&(n as u32).to_le_bytes()[0..3]);
    }
}

/// Spec encoder: header with announced length `n`, flag groups of eight, junk in the unused flag bits.
fn encode(ext: bool, n: usize, toks: &[Tok], junk: u8) -> Vec<u8> {
    let mut s = Vec::new();
    header(ext, n, &mut s);
    for g in toks.chunks(8) {
        let mut f: u8 = 0;
        for (i, t) in g.iter().enumerate() {
            if let Tok::Ref(..) = t {
                f |= 0x80 >> i;
            }
        }
        if g.len() < 8 {
            f |= junk & (0xFFu16 >> g.len()) as u8;
        }
        s.push(f);
        for t in g {
            tok_bytes(ext, t, &mut s);
        }
    }
    s
}

fn gen_tokens(rng: &mut Rng, ext: bool, ntoks: usize, big: bool) -> Vec<Tok> {
    let mut toks = Vec::new();
    let mut have = 0usize;
    for _ in 0..ntoks {
        if have == 0 || rng.chance(2, 5) {
            toks.push(Tok::Lit(rng.next() as u8));
            have += 1;
        } else {
            let reach = have.min(4096);
            let disp = match rng.below(6) {
                0 => 1,
                1 => 2.min(reach),
                2 => reach,
                3 => reach.saturating_sub(1).max(1),
                _ => rng.range(1, reach as u64) as usize,
            };
            let len = if !ext {
                match rng.below(4) {
                    0 => 3,
                    1 => 18,
                    _ => rng.range(3, 18) as usize,
                }
            } else {
                match rng.below(12) {
                    0 => 3,
                    1 => 16,
                    2 => 17,
                    3 => 272,
                    4 => 273,
                    5 => rng.range(274, 1200) as usize,
                    6 => {
                        if big {
                            *rng.pick(&[4096usize, 4369, 65807, 65808])
                        } else {
                            rng.range(17, 272) as usize
                        }
                    }
                    7 => rng.range(17, 272) as usize,
                    _ => rng.range(3, 16) as usize,
                }
            };
            toks.push(Tok::Ref(len, disp));
            have += len;
        }
    }
    toks
}

fn wrap13(rng: &mut Rng, s: &[u8]) -> Vec<u8> {
    let mut w = vec![0x13, rng.next() as u8, rng.next() as u8, rng.next() as u8];
    w.extend_from_slice(s);
    w
}

fn gen_decode(out: &mut Out, rng: &mut Rng, thorough: bool, scale: usize) {
    // conforming streams
    let nstreams = if thorough { 3000 } else { 400 * scale };
    for i in 0..nstreams {
        let ext = rng.chance(1, 2);
        let ntoks = match rng.below(5) {
            0 => rng.range(0, 9) as usize,
            1 => rng.range(7, 17) as usize,
            _ => rng.range(0, 80) as usize,
        };
        let toks = gen_tokens(rng, ext, ntoks, i % 20 == 0);
        let n = expand(&toks).len();
        let s = encode(ext, n, &toks, rng.next() as u8);
        match rng.below(6) {
            0 => out.dec("d10", &s),
            1 => out.dec("f10", &s),
            2 => out.dec("d13", &s),
            3 => out.dec("f13", &wrap13(rng, &s)),
            _ => out.dec("d13", &wrap13(rng, &s)),
        }
    }
    // the empty streams and the stored form
    out.dec("d10", &encode(false, 0, &[], 0));
    out.dec("d10", &encode(true, 0, &[], 0));
    out.dec("d13", &encode(true, 0, &[], 0));
    out.dec("d13", &wrap13(rng, &encode(true, 0, &[], 0)));
    out.dec("d13", &wrap13(rng, &encode(false, 0, &[], 0)));
    for n in [0usize, 1, 2, 5, 100] {
        let mut s = vec![0u8, rng.next() as u8, rng.next() as u8, rng.next() as u8];
        s.extend(rng.bytes(n));
        out.dec(if n % 2 == 0 { "d13" } else { "f13" }, &s);
    }
    // malformed: every truncation point and single-byte corruptions of small streams
    let nmal = if thorough { 300 } else { 36 * scale };
    for _ in 0..nmal {
        let ext = rng.chance(1, 2);
        let ntoks = rng.range(1, 14) as usize;
        let toks = gen_tokens(rng, ext, ntoks, false);
        let n = expand(&toks).len();
        let s = encode(ext, n, &toks, rng.next() as u8);
        let wrapped = rng.chance(1, 2);
        let full = if wrapped { wrap13(rng, &s) } else { s.clone() };
        let op = if wrapped { "d13" } else if rng.chance(1, 2) { "d10" } else { "d13" };
        for cut in 0..full.len() {
            out.dec(op, &full[0..cut]);
        }
        let ncorr = if thorough { full.len() } else { 6 };
        for _ in 0..ncorr {
            let mut c = full.clone();
            let pos = rng.below(c.len() as u64) as usize;
            let rb = rng.next() as u8;
            c[pos] = *rng.pick(&[0u8, 1, 0x0f, 0x10, 0x11, 0x13, 0x1f, 0x7f, 0x80, 0xf0, 0xff, rb]);
            out.dec(op, &c);
        }
        // wrong announced length (too long -> truncated; too short -> leftover / overshoot)
        for dn in [1usize, 2, 17, 300] {
            out.dec(op, &if wrapped { wrap13(rng, &encode(ext, n + dn, &toks, 0)) } else { encode(ext, n + dn, &toks, 0) });
            if n >= dn {
                out.dec(op, &if wrapped { wrap13(rng, &encode(ext, n - dn, &toks, 0)) } else { encode(ext, n - dn, &toks, 0) });
            }
        }
        // a back-reference that reaches before the start of the output
        let mut bad = toks.clone();
        let at = rng.below(bad.len() as u64 + 1) as usize;
        bad.truncate(at);
        let have = expand(&bad).len();
        if have < 4096 {
            let rd = rng.range(have as u64 + 1, 4096) as usize;
            let disp = *rng.pick(&[have + 1, have + 2, 4096, rd]);
            let len = if ext { *rng.pick(&[3usize, 16, 17, 273]) } else { 3 };
            bad.push(Tok::Ref(len, disp));
            let s = encode(ext, have + len, &bad, 0);
            out.dec(op, &if wrapped { wrap13(rng, &s) } else { s });
        }
    }
    // unknown type bytes: conforming streams whose type byte is replaced by every other value
    let ntype = if thorough { 12 } else { 3 * scale };
    for k in 0..ntype {
        let ext = k % 2 == 1;
        let ntoks = rng.range(0, 12) as usize;
        let toks = gen_tokens(rng, ext, ntoks, false);
        let n = expand(&toks).len();
        let s = encode(ext, n, &toks, rng.next() as u8);
        for t in 0..=255u8 {
            let mut c = s.clone();
            c[0] = t;
            match (k + t as usize) % 3 {
                0 => out.dec("d10", &c),
                1 => out.dec("d13", &c),
                _ => out.dec("d13", &wrap13(rng, &c)),
            }
        }
    }
    // D12 witness and friends
    out.dec("d10", &[0x10, 0x04, 0, 0, 0x80, 0x00, 0x05]);
    out.dec("d13", &[0x10, 0x04, 0, 0, 0x80, 0x00, 0x05]);
    out.dec("d13", &[0x13, 0, 0]);
    out.dec("d13", &[]);
    out.dec("d10", &[]);
    // random bytes
    let nrand = if thorough { 20000 } else { 1500 * scale };
    for _ in 0..nrand {
        let n = rng.range(0, 40) as usize;
        let mut s = rng.bytes(n);
        if n > 0 && rng.chance(3, 4) {
            s[0] = *rng.pick(&[0x10u8, 0x11, 0x13, 0x00]);
            if n > 3 && rng.chance(3, 4) {
                s[1] = rng.below(60) as u8;
                s[2] = 0;
                s[3] = 0;
            }
            if n > 7 && s[0] == 0x13 && rng.chance(3, 4) {
                s[4] = *rng.pick(&[0x10u8, 0x11]);
                s[5] = rng.below(60) as u8;
                s[6] = 0;
                s[7] = 0;
            }
        }
        out.dec(*rng.pick(&["d10", "d13", "f10", "f13"]), &s);
    }
    // all byte strings of length 0..=k over a 6-byte alphabet
    let alpha = [0x00u8, 0x01, 0x10, 0x11, 0x13, 0x80];
    let maxlen = if thorough { 7 } else { 5 };
    for len in 0..=maxlen {
        let total = 6usize.pow(len as u32);
        for mut code in 0..total {
            let mut v = Vec::with_capacity(len);
            for _ in 0..len {
                v.push(alpha[code % 6]);
                code /= 6;
            }
            // quick: alternate the entry point; thorough: both
            if thorough || code_parity(&v) {
                out.dec("d10", &v);
            }
            if thorough || !code_parity(&v) {
                out.dec("d13", &v);
            }
        }
    }
}

fn fnv_bytes(b: &[u8]) -> u64 {
    let mut h: u64 = 0xcbf29ce484222325;
    for x in b {
        h ^= *x as u64;
        h = h.wrapping_mul(0x100000001b3);
    }
    h
}

/// Conforming LZ11 streams around and above the 2^24 boundary of the 24-bit length field: `k` literals, then
/// references of length `len` at displacement `disp` until exactly `target` bytes are produced (the stream is
/// ~1 KB; the 16+ MiB output is printed as length + hash: ops h10 / h13 / hf13).
fn big_stream(rng: &mut Rng, k: usize, len: usize, disp: usize, target: usize) -> Vec<u8> {
    let mut toks: Vec<Tok> = (0..k).map(|_| Tok::Lit(rng.next() as u8)).collect();
    let mut have = k;
    while target - have >= len + 3 {
        toks.push(Tok::Ref(len, disp.min(have)));
        have += len;
    }
    let mut rem = target - have;
    if rem > 65808 {
        toks.push(Tok::Ref(3, disp.min(have)));
        have += 3;
        rem -= 3;
    }
    if rem >= 3 {
        toks.push(Tok::Ref(rem, disp.min(have)));
    } else {
        for _ in 0..rem {
            toks.push(Tok::Lit(rng.next() as u8));
        }
    }
    encode(true, target, &toks, rng.next() as u8)
}

fn gen_big(out: &mut Out, rng: &mut Rng, thorough: bool) {
    const B: usize = 1 << 24;
    // (entry point, wrapped, literals, reference length, displacement, total)
    // quick: the three boundary sizes (each costs ~1.5 s in the Lean driver: two 16 MiB expansions, model and spec);
    // thorough: more shapes and larger totals
    let k0 = rng.range(1, 400) as usize;
    let mut plan: Vec<(&str, bool, usize, usize, usize, usize)> = vec![
        ("h13", false, 5, 65808, 5, B - 1),             // largest length the 24-bit field holds (4-byte header)
        ("h10", false, 1, 65808, 1, B),                 // smallest length that needs the extended word
        ("hf13", true, k0, 65807, k0.min(4096), B + 1), // low byte of the extended word != 0, 0x13 wrapper
    ];
    let extra = rng.range(2, 2_000_000) as usize;
    plan.push(("h13", true, 4096, 4096, 4096, B + extra)); // a random total of 16-18 MiB, window-edge displacement
    if thorough {
        plan.push(("hf13", true, 4096, 273, 4095, B + 3 * extra));
        plan.push(("h10", false, 2, 65807, 2, B + 256));
        plan.push(("h13", true, 7, 273, 3, B + 65_536));
        plan.push(("h13", false, 100, 65808, 64, 3 * B + 12_345));
        plan.push(("h10", false, 9, 4369, 9, B - 1));
        plan.push(("hf13", true, 1, 65808, 1, 2 * B));
    }
    for (op, wrapped, k, len, disp, target) in plan {
        let s = big_stream(rng, k, len, disp, target);
        if wrapped {
            let w = wrap13(rng, &s);
            out.dec(op, &w);
        } else {
            out.dec(op, &s);
        }
    }
}

fn code_parity(v: &[u8]) -> bool {
    v.iter().fold(0u32, |a, b| a.wrapping_mul(31).wrapping_add(*b as u32)) % 2 == 0
}

/// The four properties share this family.  The orchestrator exports `VERIF_PROP=<ID>` (fallback: the id
/// in the output path `work/<ID>/…`); it selects the part of the stream (and, through the op names, the
/// oracle clauses) that belongs to that property.  Without an id: everything.
fn property_from_args() -> Option<&'static str> {
    if let Ok(v) = std::env::var("VERIF_PROP") {
        for id in ["C08", "C09", "C10", "C11"] {
            if v == id {
                return Some(id);
            }
        }
    }
    for a in std::env::args() {
        for id in ["C08", "C09", "C10", "C11"] {
            if a.contains(&format!("/{}/", id)) {
                return Some(id);
            }
        }
    }
    None
}

pub fn gen(seed: u64, tier: &str) -> Vec<String> {
    gen_for(property_from_args(), seed, tier)
}

pub fn gen_for(pid: Option<&str>, seed: u64, tier: &str) -> Vec<String> {
    let mut rng = Rng::new(seed ^ 0x4c5a_0000);
    let thorough = tier == "thorough";
    let mut out = Out { lines: Vec::new(), n: 0, ops: Vec::new(), shrink: 1 };
    match pid {
        Some("C08") => {
            out.ops = vec!["c10"];
            gen_compress(&mut out, &mut rng, thorough, 4);
            gen_periodic(&mut out, &mut rng, thorough, true);
            gen_cap_break(&mut out, &mut rng, false, thorough);
            gen_thresholds(&mut out, &mut rng, thorough);
            gen_second_use(&mut out, &mut rng, "c10", thorough);
            gen_top_of_domain(&mut out, &mut rng, "t10", thorough);
        }
        Some("C09") => {
            out.ops = vec!["c13"];
            out.shrink = 3;
            gen_compress(&mut out, &mut rng, thorough, 3);
            gen_periodic(&mut out, &mut rng, thorough, true);
            gen_cap_break(&mut out, &mut rng, true, thorough);
            gen_thresholds(&mut out, &mut rng, thorough);
            gen_second_use(&mut out, &mut rng, "c13", thorough);
            gen_header_straddle(&mut out, &mut rng, thorough);
            gen_top_of_domain(&mut out, &mut rng, "t13", thorough);
        }
        Some("C10") => {
            out.ops = vec!["b10", "b13"];
            out.shrink = 2; // two ops, two profiles
            gen_compress(&mut out, &mut rng, thorough, 2);
            gen_periodic(&mut out, &mut rng, thorough, false);
            gen_overlap(&mut out, &mut rng, thorough);
            gen_thresholds(&mut out, &mut rng, thorough);
            gen_second_use(&mut out, &mut rng, "b10", false);
            gen_second_use(&mut out, &mut rng, "b13", false);
            let ops = std::mem::replace(&mut out.ops, vec!["b13"]);
            gen_header_straddle(&mut out, &mut rng, false);
            out.ops = ops;
        }
        Some("C11") => {
            gen_decode(&mut out, &mut rng, thorough, 6);
            gen_second_use_dec(&mut out, &mut rng, thorough);
            gen_max_ratio(&mut out, &mut rng, thorough);
            gen_names(&mut out, &mut rng);
            gen_big(&mut out, &mut rng, thorough);
        }
        _ => {
            out.ops = vec!["c10", "c13", "b10", "b13"];
            gen_compress(&mut out, &mut rng, thorough, 1);
            gen_cap_break(&mut out, &mut rng, false, thorough);
            gen_cap_break(&mut out, &mut rng, true, thorough);
            gen_periodic(&mut out, &mut rng, thorough, true);
            gen_overlap(&mut out, &mut rng, thorough);
            gen_decode(&mut out, &mut rng, thorough, 1);
            gen_big(&mut out, &mut rng, thorough);
        }
    }
    out.lines
}

// ------------------------------------------------------------------------------------------------
// running the implementation
// ------------------------------------------------------------------------------------------------

fn declared_len(s: &[u8]) -> Option<usize> {
    if s.len() < 4 {
        return None;
    }
    let n = s[1] as usize | (s[2] as usize) << 8 | (s[3] as usize) << 16;
    if n == 0 && s[0] == 0x11 {
        if s.len() < 8 {
            return None;
        }
        return Some(u32::from_le_bytes([s[4], s[5], s[6], s[7]]) as usize);
    }
    Some(n)
}

/// LZ10 decompress == decompress_lz: cross-check with the third-party decoder where that one does not panic.
fn cross_check(s: &[u8], got: &Result<Vec<u8>, CompressionError>) -> &'static str {
    match declared_len(s) {
        Some(n) if n <= 1 << 24 => {}
        _ => return "x=ok",
    }
    match no_panic(|| nintendo_lz::decompress_arr(s).map_err(|_| ())) {
        Err(_) => "x=ok", // third-party decoder panics here (reference before start)
        Ok(Ok(v)) => match got {
            Ok(w) if *w == v => "x=ok",
            _ => "x=diff",
        },
        Ok(Err(())) => match got {
            Err(_) => "x=ok",
            _ => "x=diff",
        },
    }
}

pub fn run_line(_st: &mut super::State, line: &str) -> String {
    let f: Vec<&str> = line.split(' ').collect();
    let id = f[0];
    let out = match f[1] {
        "c10" | "c13" | "b10" | "b13" | "g10" | "g13" | "t10" | "t13" => {
            let data = if f[1].starts_with('t') {
                gen_top(f[2].parse().unwrap(), f[3].parse().unwrap(), f[4].trim_start_matches('s').parse().unwrap())
            } else if f[1].starts_with('g') {
                let pat = gen_pattern(f[2].parse().unwrap(), f[3].parse().unwrap(), f[4].parse().unwrap(), f[5].trim_start_matches('s').parse().unwrap());
                periodic(&pat, f[6].parse().unwrap())
            } else {
                unhex(f[3])
            };
            let is13 = f[1].ends_with("13");
            crate::alloc::max_request_reset();
            let r = no_panic(|| {
                if is13 {
                    (LZ13CompressionFormat {}).compress(&data)
                } else {
                    (LZ10CompressionFormat {}).compress(&data)
                }
            });
            let req = crate::alloc::max_request_reset();
            // the same call through the `CompressionFormat` enum wrapper (what LayeredFilesystem uses): `w=same`
            // when it returns exactly what the format struct returned, otherwise the wrapper's own result
            let rw = no_panic(|| {
                if is13 {
                    CompressionFormat::LZ13(LZ13CompressionFormat {}).compress(&data)
                } else {
                    CompressionFormat::LZ10(LZ10CompressionFormat {}).compress(&data)
                }
            });
            let w = match (&r, &rw) {
                (Err(_), Err(_)) => "w=same".to_string(),
                (Ok(Err(_)), Ok(Err(_))) => "w=same".to_string(),
                (Ok(Ok(a)), Ok(Ok(b))) if a == b => "w=same".to_string(),
                (_, Err(_)) => "w=panic".to_string(),
                (_, Ok(Err(_))) => "w=err".to_string(),
                (_, Ok(Ok(b))) => format!("w=ok:{}", hex(b)),
            };
            match r {
                Err(_) => "panic".to_string(),
                Ok(Err(_)) => format!("err Invalid {}", w),
                Ok(Ok(c)) => {
                    let back = no_panic(|| {
                        if is13 {
                            (LZ13CompressionFormat {}).decompress(&c)
                        } else {
                            (LZ10CompressionFormat {}).decompress(&c)
                        }
                    });
                    let rt = match back {
                        Ok(Ok(d)) if d == data => "rt=ok",
                        _ => "rt=bad",
                    };
                    if is13 {
                        let n = data.len();
                        let alloc = if req <= std::cmp::max(64, 13 + n + n / 8) { "alloc=ok" } else { "alloc=big" };
                        format!("ok {} {} {} {}", hex(&c), rt, alloc, w)
                    } else {
                        format!("ok {} {} {}", hex(&c), rt, w)
                    }
                }
            }
        }
        "d10" | "d13" | "f10" | "f13" | "h10" | "h13" | "hf13" | "e10" | "e13" => {
            let s = unhex(f[2]);
            let summ = f[1].starts_with('h');
            let r = no_panic(|| match f[1] {
                "d10" | "h10" | "e10" => (LZ10CompressionFormat {}).decompress(&s),
                "d13" | "h13" | "e13" => (LZ13CompressionFormat {}).decompress(&s),
                "f10" => CompressionFormat::LZ10(LZ10CompressionFormat {}).decompress(&s),
                _ => CompressionFormat::LZ13(LZ13CompressionFormat {}).decompress(&s),
            });
            // the other public way to the same behaviour (enum wrapper for the struct ops, struct for f10 / f13)
            let lz10 = f[1].ends_with("10");
            let via_enum = !f[1].contains('f');
            let rw = no_panic(|| match (lz10, via_enum) {
                (true, true) => CompressionFormat::LZ10(LZ10CompressionFormat {}).decompress(&s),
                (false, true) => CompressionFormat::LZ13(LZ13CompressionFormat {}).decompress(&s),
                (true, false) => (LZ10CompressionFormat {}).decompress(&s),
                (false, false) => (LZ13CompressionFormat {}).decompress(&s),
            });
            let w = match (&r, &rw) {
                (Err(_), Err(_)) => "w=same".to_string(),
                (Ok(Err(_)), Ok(Err(_))) => "w=same".to_string(),
                (Ok(Ok(a)), Ok(Ok(b))) if a == b => "w=same".to_string(),
                (_, Err(_)) => "w=panic".to_string(),
                (_, Ok(Err(_))) => "w=err".to_string(),
                (_, Ok(Ok(b))) if summ => format!("w=ok:n={},fnv={}", b.len(), fnv_bytes(b)),
                (_, Ok(Ok(b))) => format!("w=ok:{}", hex(b)),
            };
            match r {
                Err(_) => "panic".to_string(),
                Ok(res) => {
                    let x = if f[1] == "d10" || f[1] == "f10" || f[1] == "h10" { cross_check(&s, &res) } else { "x=ok" };
                    match res {
                        Ok(d) if summ => format!("ok n={},fnv={} {} {}", d.len(), fnv_bytes(&d), x, w),
                        Ok(d) => format!("ok {} {} {}", hex(&d), x, w),
                        Err(_) => format!("err Invalid {} {}", x, w),
                    }
                }
            }
        }
        "n10" | "n13" => {
            // is_compressed_filename through the struct and through the enum
            let name = unhexs(f[2]);
            let (a, b) = if f[1] == "n10" {
                ((LZ10CompressionFormat {}).is_compressed_filename(&name), CompressionFormat::LZ10(LZ10CompressionFormat {}).is_compressed_filename(&name))
            } else {
                ((LZ13CompressionFormat {}).is_compressed_filename(&name), CompressionFormat::LZ13(LZ13CompressionFormat {}).is_compressed_filename(&name))
            };
            format!("ok {} {}", a as u8, if a == b { "w=same".to_string() } else { format!("w=ok:{}", b as u8) })
        }
        _ => "bad-case".to_string(),
    };
    format!("{} {}", id, out)
}
