//! Family `lz`: C08 C09 C10 C11 — LZ10 / LZ13.  (stub)
#![allow(unused)]
use crate::util::*;

pub fn gen(_seed: u64, _tier: &str) -> Vec<String> {
    Vec::new()
}

pub fn run_line(_st: &mut super::State, line: &str) -> String {
    let id = line.split(' ').next().unwrap_or("?");
    format!("{} unimplemented", id)
}
