//! Family `aset`: C17 — animation-set files.
//! Case line: `<id> aset <meta> c:<clip,…> s:<label,slot1,…>*`
//! (names: `~` absent, `-` empty, else hex of UTF-8).
//! Output: `panic` | `err` | `ok <size|?> <bytes> rr-err|rr-panic`
//!       | `ok <size> <bytes> rr-ok <re-read value> <same|hex|err|panic>`.
use crate::util::*;
use mila::{ASetFile, BinArchive, Endian};

type Name = Option<String>;

fn show_opt(n: &Name) -> String {
    match n {
        None => "~".to_string(),
        Some(s) => hexs(s),
    }
}
fn opt_of(s: &str) -> Name {
    if s == "~" {
        None
    } else {
        Some(unhexs(s))
    }
}
fn show_list(tag: &str, l: &[Name]) -> String {
    format!("{}{}", tag, l.iter().map(show_opt).collect::<Vec<_>>().join(","))
}
fn list_of(s: &str) -> Vec<Name> {
    let body = &s[2..];
    if body.is_empty() {
        Vec::new()
    } else {
        body.split(',').map(opt_of).collect()
    }
}
pub fn show_file(f: &ASetFile) -> String {
    let mut parts = vec![show_opt(&f.meta), show_list("c:", &f.anim_clip_table)];
    for s in &f.sets {
        parts.push(show_list("s:", s));
    }
    parts.join("/")
}

/// Characters of the sub-codec shared with the Lean model: ASCII (NUL-free), half-width
/// katakana, hiragana, katakana, Greek, Cyrillic (`subcodec::TABLE`).
pub fn rand_char(rng: &mut Rng) -> char {
    match rng.below(10) {
        0..=5 => char::from_u32(rng.range(0x20, 0x7E) as u32).unwrap(),
        6 => char::from_u32(rng.range(0x01, 0x7F) as u32).unwrap(),
        7 => char::from_u32(rng.range(0xFF61, 0xFF9F) as u32).unwrap(),
        8 => {
            if rng.chance(1, 2) {
                char::from_u32(rng.range(0x3041, 0x3093) as u32).unwrap()
            } else {
                // Greek / Cyrillic: as long in Shift-JIS as in UTF-8
                let t = &crate::subcodec::TABLE[4 + rng.below(9) as usize];
                char::from_u32(rng.range(t.0 as u64, t.1 as u64) as u32).unwrap()
            }
        }
        _ => char::from_u32(rng.range(0x30A1, 0x30F6) as u32).unwrap(),
    }
}

const POOL: [&str; 17] = [
    "", "a", "b", "idle", "run", "attack_1", "AnimClipNameTable", "label", "ウマ", "よろける", "ｱﾆﾒ", "x y",
    "A", "none1", "Ω2", "часть1", "αβγ",
];

pub fn rand_name(rng: &mut Rng) -> String {
    if rng.chance(1, 2) {
        rng.pick(&POOL).to_string()
    } else {
        let n = rng.range(0, 9) as usize;
        (0..n).map(|_| rand_char(rng)).collect()
    }
}

/// Characters the Shift-JIS encoder cannot encode at all (`to_shift_jis` must refuse the string).
pub const UNENCODABLE: [&str; 7] =
    ["\u{00E9}", "\u{2713}", "\u{1F600}", "\u{20AC}", "\u{00FC}", "\u{010A}", "\u{0100}"];
/// Code points outside the sub-codec that real Shift-JIS may encode (kanji / full-width forms whose
/// low byte looks like a special ASCII byte: '\n', '\\', NUL, 'n').  The model cannot encode them
/// (correspondence skip); the oracle demands refusal or an exact round trip.
pub const FOREIGN: [&str; 6] = ["\u{4E0A}", "\u{300A}", "\u{FF0A}", "\u{4E5C}", "\u{4E00}", "\u{4E6E}"];
pub const COUNTS: [usize; 18] = [0, 1, 2, 7, 8, 9, 15, 16, 17, 31, 32, 33, 63, 64, 65, 127, 128, 129];

/// An in-alphabet, NUL-free string of exactly `k` Shift-JIS bytes (single- and double-byte mixed).
pub fn sized_name(rng: &mut Rng, k: usize) -> String {
    let mut s = String::new();
    let mut left = k;
    while left > 0 {
        if left >= 2 && rng.chance(1, 3) {
            let t = &crate::subcodec::TABLE[1 + rng.below(12) as usize];
            s.push(char::from_u32(rng.range(t.0 as u64, t.1 as u64) as u32).unwrap());
            left -= 2;
        } else {
            if rng.chance(1, 8) {
                s.push(char::from_u32(rng.range(0xFF61, 0xFF9F) as u32).unwrap());
            } else {
                s.push(char::from_u32(rng.range(0x21, 0x7E) as u32).unwrap());
            }
            left -= 1;
        }
    }
    s
}
/// Code points Shift-JIS encodes lossily (\u{00A5} -> 0x5C, \u{203E} -> 0x7E, \u{2212} -> U+FF0D): outside the
/// property's quantifier; the model cannot predict the bytes (correspondence skip, oracle skip).
pub const LOSSY: [&str; 3] = ["\u{00A5}", "\u{203E}", "\u{2212}"];

fn nonempty_name(rng: &mut Rng) -> String {
    loop {
        let s = rand_name(rng);
        if !s.is_empty() {
            return s;
        }
    }
}

/// A string with the character `c` planted: 0 = last, 1 = first, 2 = middle, 3 = the only character;
/// every other character is inside the codec's domain.
pub fn plant(rng: &mut Rng, c: &str, placement: usize) -> String {
    let pre = nonempty_name(rng);
    let post = nonempty_name(rng);
    match placement {
        0 => format!("{}{}", pre, c),
        1 => format!("{}{}", c, post),
        2 => format!("{}{}{}", pre, c, post),
        _ => c.to_string(),
    }
}

/// A string of exactly `total` Shift-JIS bytes whose only double-byte character `db` starts at
/// encoded byte offset `d` (ASCII elsewhere).
pub fn long_string(total: usize, d: usize, db: char) -> String {
    assert!(d + 2 <= total);
    let mut s = String::with_capacity(total + 2);
    for i in 0..d {
        s.push((b'a' + (i % 26) as u8) as char);
    }
    s.push(db);
    for i in 0..(total - d - 2) {
        s.push((b'A' + (i % 26) as u8) as char);
    }
    s
}

/// `head` ASCII bytes followed by `n` double-byte characters.
pub fn run_string(head: usize, n: usize, db: char) -> String {
    let mut s = String::new();
    for _ in 0..head {
        s.push('x');
    }
    for _ in 0..n {
        s.push(db);
    }
    s
}

/// Long strings around the size thresholds 2^8, 2^9 (and 2^16 in the thorough tier): total encoded
/// lengths B-2..=B+2 with a double-byte character at every offset B-5..=B+1 around the boundary
/// (it straddles bytes B-1|B when it starts at B-1), plus runs of double-byte characters at odd and
/// even offsets.  Quick keeps a representative handful.
pub fn long_strings(thorough: bool) -> Vec<String> {
    let dbs = ['\u{3042}', '\u{30A2}', '\u{03A9}', '\u{FF71}'];
    let mut v = Vec::new();
    v.push(run_string(1, 300, '\u{30A2}'));
    v.push(run_string(0, 300, '\u{3042}'));
    v.push(long_string(257, 255, '\u{3042}'));
    v.push(long_string(258, 255, '\u{03A9}'));
    v.push(long_string(256, 254, '\u{30A2}'));
    v.push(long_string(258, 256, '\u{3042}'));
    v.push(long_string(513, 511, '\u{30A2}'));
    v.push(long_string(255, 100, '\u{3042}'));
    if thorough {
        let mut k = 0;
        for b in [256usize, 512, 65536] {
            for total in (b - 2)..=(b + 2) {
                for d in (b - 5)..=(b + 1) {
                    if d + 2 <= total && !(b == 65536 && total == 65538) {
                        v.push(long_string(total, d, dbs[k % 3]));
                        k += 1;
                    }
                }
            }
            v.push(run_string(1, b / 2 + 2, '\u{30A2}'));
            v.push(run_string(0, b / 2 + 2, '\u{3042}'));
        }
        // half-width katakana (single byte >= 0x80) on the boundary
        v.push(long_string(300, 254, '\u{3042}').replace('A', "\u{FF71}"));
    }
    let _ = dbs[3];
    v
}

fn rand_label(rng: &mut Rng) -> Name {
    match rng.below(8) {
        0 | 1 => None,
        2 => Some("AnimClipNameTable".to_string()),
        3 => Some(String::new()),
        _ => Some(rand_name(rng)),
    }
}

/// One set of `len` entries (entry 0 = label) following a presence pattern.
fn rand_set(rng: &mut Rng, len: usize) -> Vec<Name> {
    let mut set: Vec<Name> = vec![None; len];
    if len == 0 {
        return set;
    }
    set[0] = rand_label(rng);
    let pattern = rng.below(9);
    let group_mask: u32 = match rng.below(4) {
        0 => 0xFF,
        1 => rng.below(256) as u32,
        2 => 1 << rng.below(8),
        _ => (rng.below(256) & rng.below(256)) as u32,
    };
    for k in 1..len {
        let g = (k - 1) / 32;
        let j = (k - 1) % 32;
        let on = match pattern {
            0 => true,                                          // dense
            1 => rng.chance(1, 16),                             // sparse
            2 => false,                                         // all absent
            3 => group_mask & (1 << (g % 8)) != 0 && rng.chance(1, 2), // some groups empty
            4 => j == 31 && group_mask & (1 << (g % 8)) != 0,   // last slot of a group only
            5 => j == 0 && group_mask & (1 << (g % 8)) != 0,    // first slot of a group only
            6 => group_mask & (1 << (g % 8)) != 0,              // whole groups
            7 => rng.chance(1, 2),
            _ => rng.chance(15, 16),
        };
        if on {
            set[k] = Some(rand_name(rng));
        }
    }
    set
}

fn single_slot_set(rng: &mut Rng, slot: usize) -> Vec<Name> {
    let mut set: Vec<Name> = vec![None; 257];
    set[0] = rand_label(rng);
    set[slot] = Some(rand_name(rng));
    set
}

fn rand_table(rng: &mut Rng, len: usize) -> Vec<Name> {
    let density = *rng.pick(&[0u64, 1, 4, 8, 8]);
    (0..len).map(|_| if rng.below(8) < density { Some(rand_name(rng)) } else { None }).collect()
}

fn line(n: usize, meta: &Name, clip: &[Name], sets: &[Vec<Name>]) -> String {
    let mut s = format!("c17.{:06} aset {} {}", n, show_opt(meta), show_list("c:", clip));
    for set in sets {
        s.push(' ');
        s.push_str(&show_list("s:", set));
    }
    s
}

pub fn gen(seed: u64, tier: &str) -> Vec<String> {
    let mut rng = Rng::new(seed ^ 0xC17);
    let thorough = tier == "thorough";
    let mut lines = Vec::new();
    let push = |lines: &mut Vec<String>, meta: &Name, clip: &[Name], sets: &[Vec<Name>]| {
        let n = lines.len();
        lines.push(line(n, meta, clip, sets));
    };
    // fixed corner cases
    let none_table: Vec<Name> = vec![None; 257];
    push(&mut lines, &None, &none_table, &[]);
    push(&mut lines, &Some(String::new()), &none_table, &[vec![None; 257]]);
    push(&mut lines, &Some("m".into()), &none_table, &[vec![None; 257], vec![None; 257]]);
    {
        // a set labelled with the reserved table name (D17), followed and preceded by others
        let mut s1: Vec<Name> = vec![None; 257];
        s1[0] = Some("AnimClipNameTable".into());
        s1[1] = Some("x".into());
        let mut s2: Vec<Name> = vec![None; 257];
        s2[0] = Some("AnimClipNameTable".into());
        s2[256] = Some("".into());
        let t = rand_table(&mut rng, 257);
        push(&mut lines, &Some("AnimClipNameTable".into()), &t, &[s1.clone()]);
        push(&mut lines, &None, &t, &[s2.clone(), s1.clone(), vec![None; 257]]);
    }
    {
        // all 256 slots present, all empty strings
        let mut s: Vec<Name> = vec![Some(String::new()); 257];
        s[0] = None;
        push(&mut lines, &None, &vec![Some(String::new()); 257], &[s]);
    }
    // every slot alone (thorough: all 256; quick: a rotating sample incl. group borders)
    let singles: Vec<usize> = if thorough {
        (1..=256).collect()
    } else {
        let mut v = vec![1, 32, 33, 64, 224, 225, 255, 256];
        for _ in 0..8 {
            v.push(rng.range(1, 256) as usize);
        }
        v
    };
    for slot in singles {
        let t = rand_table(&mut rng, 257);
        let s = single_slot_set(&mut rng, slot);
        let meta = if rng.chance(1, 2) { Some(rand_name(&mut rng)) } else { None };
        push(&mut lines, &meta, &t, &[s]);
    }
    // random files
    let count = if thorough { 2500 } else { 45 };
    for _ in 0..count {
        let meta = match rng.below(4) {
            0 => None,
            1 => Some(String::new()),
            _ => Some(rand_name(&mut rng)),
        };
        let t = rand_table(&mut rng, 257);
        let nsets = *rng.pick(&[0usize, 1, 1, 2, 3, 5]);
        let sets: Vec<Vec<Name>> = (0..nsets).map(|_| rand_set(&mut rng, 257)).collect();
        push(&mut lines, &meta, &t, &sets);
    }
    // strings outside the codec's domain, in every string-bearing position (0 meta, 1 clip name,
    // 2 slot name, 3 set label) x placement of the offending character (last, first, middle, only):
    // `serialize` must refuse them — or, if it accepts, re-read exactly the value (oracle).
    let planted = |rng: &mut Rng, lines: &mut Vec<String>, position: usize, bad: String| {
        let mut meta: Name = if rng.chance(1, 2) { Some(rand_name(rng)) } else { None };
        let mut t = rand_table(rng, 257);
        let nsets = rng.range(1, 2) as usize;
        let mut sets: Vec<Vec<Name>> = (0..nsets).map(|_| rand_set(rng, 257)).collect();
        let k = rng.below(nsets as u64) as usize;
        match position {
            0 => meta = Some(bad),
            1 => t[*rng.pick(&[0usize, 1, 128, 255, 256])] = Some(bad),
            2 => sets[k][*rng.pick(&[1usize, 32, 33, 200, 256])] = Some(bad),
            _ => sets[k][0] = Some(bad),
        }
        push(lines, &meta, &t, &sets);
    };
    let mut ci = 0;
    let rounds = if thorough { 6 } else { 2 };
    for _ in 0..rounds {
        for position in 0..4 {
            for placement in 0..4 {
                let c = UNENCODABLE[ci % UNENCODABLE.len()];
                ci += 1;
                let bad = plant(&mut rng, c, placement);
                planted(&mut rng, &mut lines, position, bad);
            }
        }
    }
    for position in 0..4 {
        for c in LOSSY.iter() {
            let placement = rng.below(4) as usize;
            let bad = plant(&mut rng, c, placement);
            planted(&mut rng, &mut lines, position, bad);
        }
    }
    // code points outside the sub-codec that real Shift-JIS may encode (model: correspondence skip)
    for (k, c) in FOREIGN.iter().enumerate() {
        let placement = rng.below(4) as usize;
        let bad = plant(&mut rng, c, placement);
        planted(&mut rng, &mut lines, k % 4, bad);
    }
    // files without any text string: labels drawn from {None, Some("")} in every combination for
    // 1..=4 sets (the empty label name is then the very last byte of the image); the same with
    // exactly one string somewhere (control)
    let none_set: Vec<Name> = vec![None; 257];
    for nsets in 1..=4usize {
        for mask in 0..(1u32 << nsets) {
            if !thorough && nsets == 4 && mask % 3 != 1 {
                continue;
            }
            let sets: Vec<Vec<Name>> = (0..nsets)
                .map(|k| {
                    let mut s = none_set.clone();
                    if mask & (1 << k) != 0 {
                        s[0] = Some(String::new());
                    }
                    s
                })
                .collect();
            push(&mut lines, &None, &none_table, &sets);
            if thorough || mask % 2 == 1 {
                // control: exactly one string somewhere
                let mut meta: Name = None;
                let mut t = none_table.clone();
                let mut sets2 = sets.clone();
                let one = if rng.chance(1, 3) { String::new() } else { nonempty_name(&mut rng) };
                match rng.below(3) {
                    0 => meta = Some(one),
                    1 => t[*rng.pick(&[0usize, 100, 256])] = Some(one),
                    _ => sets2[rng.below(nsets as u64) as usize][*rng.pick(&[1usize, 256])] = Some(one),
                }
                push(&mut lines, &meta, &t, &sets2);
            }
        }
    }
    // every string length 0..=130 (encoded bytes) in every string-bearing position:
    // clip names and slot names in one file each, labels over 131 all-absent sets, meta over 131
    // minimal files (thorough; quick keeps a handful of meta lengths)
    {
        let mut t = none_table.clone();
        for k in 0..=130usize {
            t[k * 257 / 131] = Some(sized_name(&mut rng, k));
        }
        push(&mut lines, &None, &t, &[]);
        let mut s1 = none_set.clone();
        let mut s2 = none_set.clone();
        for k in 0..=130usize {
            s1[1 + k] = Some(sized_name(&mut rng, k));
            s2[256 - k] = Some(sized_name(&mut rng, k));
        }
        push(&mut lines, &None, &none_table, &[s1, s2]);
        let labelled: Vec<Vec<Name>> = (0..=130usize)
            .map(|k| {
                let mut s = none_set.clone();
                s[0] = Some(sized_name(&mut rng, k));
                s
            })
            .collect();
        push(&mut lines, &None, &none_table, &labelled);
        for k in 0..=130usize {
            if thorough || k < 6 || [7, 8, 9, 15, 16, 17, 31, 32, 33, 63, 64, 65, 127, 128, 129, 130].contains(&k) {
                let m = sized_name(&mut rng, k);
                push(&mut lines, &Some(m), &none_table, &[]);
            }
        }
    }
    // numbers of sets at the count thresholds (all-absent or single-slot sets, optional labels)
    for (i, n) in COUNTS.iter().enumerate() {
        if thorough || i % 3 == (seed % 3) as usize || *n >= 127 {
            let sets: Vec<Vec<Name>> = (0..*n)
                .map(|k| {
                    let mut s = none_set.clone();
                    if k % 3 == 0 {
                        s[0] = Some(rand_name(&mut rng));
                    }
                    if k % 5 == 1 {
                        s[1 + (k * 37) % 256] = Some(rand_name(&mut rng));
                    }
                    s
                })
                .collect();
            push(&mut lines, &None, &none_table, &sets);
        }
    }
    // long strings (size thresholds; `from_bytes` reads strings and labels through the cursor
    // string reader) in every string-bearing position, rotating
    for (k, long) in long_strings(thorough).into_iter().enumerate() {
        planted(&mut rng, &mut lines, k % 4, long);
    }
    // outside the property's domain (model correspondence only; the oracle skips them):
    // other set / table lengths, the empty set (`set[0]` panics)
    let odd = if thorough { 200 } else { 14 };
    for k in 0..odd {
        let tl = if k % 3 == 0 { *rng.pick(&[0usize, 1, 5, 256, 258, 300]) } else { 257 };
        let t = rand_table(&mut rng, tl);
        let nsets = rng.range(1, 3) as usize;
        let sets: Vec<Vec<Name>> = (0..nsets)
            .map(|_| {
                let len = *rng.pick(&[0usize, 1, 2, 32, 33, 34, 100, 256, 257, 258, 300]);
                rand_set(&mut rng, len)
            })
            .collect();
        push(&mut lines, &Some("odd".into()), &t, &sets);
    }
    // second use: the ordinary round trip right after failing parses of damaged copies of the same
    // image (and after a successful parse of another file) on the same thread
    {
        let count = if thorough { 150 } else { 10 };
        for k in 0..count {
            let meta = match k % 3 {
                0 => None,
                _ => Some(nonempty_name(&mut rng)),
            };
            let t = if k % 4 == 0 { none_table.clone() } else { rand_table(&mut rng, 257) };
            let nsets = *rng.pick(&[0usize, 1, 2]);
            let sets: Vec<Vec<Name>> = (0..nsets).map(|_| rand_set(&mut rng, 257)).collect();
            let n = lines.len();
            lines.push(line(n, &meta, &t, &sets).replacen(" aset ", " aset-after ", 1));
        }
    }
    // interleave refused / panicking / odd-shaped calls with ordinary ones (second use on one thread)
    rng.shuffle(&mut lines);
    lines
}

/// Calls made on the same thread right before the ordinary parse of `bytes` ("second use"):
/// 0 nothing; 1..=5 a FAILING `from_bytes` of a damaged copy (cut 3 bytes short = inside the last
/// pooled name, 1 byte short, cut in the middle of the text pool, cut inside the tables, first
/// pointer-table entry pointing outside the data); 6 a successful parse of a different file.
pub fn pre_call(variant: usize, bytes: &[u8]) {
    let cut = |n: usize| {
        let k = bytes.len().saturating_sub(n);
        let _ = no_panic(|| BinArchive::from_bytes(&bytes[..k], Endian::Little).map(|_| ()));
    };
    let word = |o: usize| -> usize {
        if o + 4 <= bytes.len() {
            u32::from_le_bytes([bytes[o], bytes[o + 1], bytes[o + 2], bytes[o + 3]]) as usize
        } else {
            0
        }
    };
    match variant {
        0 => {}
        1 => cut(3),
        2 => cut(1),
        3 => {
            let tables = 0x20 + word(4) + 4 * word(8) + 8 * word(12);
            let pool = bytes.len().saturating_sub(tables);
            cut(pool / 2 + 1);
        }
        4 => {
            let tables = 0x20 + word(4) + 4 * word(8) + 8 * word(12);
            cut(bytes.len().saturating_sub(tables) + 6);
        }
        5 => {
            let mut b = bytes.to_vec();
            let o = 0x20 + word(4);
            if word(8) > 0 && o + 4 <= b.len() {
                b[o..o + 4].copy_from_slice(&0xFFFF_FFF0u32.to_le_bytes());
            } else {
                b.truncate(0x1F);
            }
            let _ = no_panic(|| BinArchive::from_bytes(&b, Endian::Little).map(|_| ()));
        }
        _ => {
            let other = ASetFile {
                meta: Some("other_meta".to_string()),
                anim_clip_table: vec![Some("clip".to_string()); 257],
                sets: vec![vec![Some("\u{30A2}set".to_string()); 257]],
            };
            let _ = no_panic(|| {
                let b = other.serialize().unwrap();
                let a = BinArchive::from_bytes(&b, Endian::Little).unwrap();
                ASetFile::from_archive(&a).map(|_| ())
            });
        }
    }
}

fn round_trip(file: &ASetFile, variant: usize) -> String {
    match no_panic(|| file.serialize()) {
        Err(_) => "panic".to_string(),
        Ok(Err(_)) => "err".to_string(),
        Ok(Ok(bytes)) => {
            pre_call(variant, &bytes);
            match no_panic(|| BinArchive::from_bytes(&bytes, Endian::Little)) {
                Err(_) => format!("ok ? {} rr-panic", hex(&bytes)),
                Ok(Err(_)) => format!("ok ? {} rr-err", hex(&bytes)),
                Ok(Ok(archive)) => {
                    let head = format!("ok {} {}", archive.size(), hex(&bytes));
                    match no_panic(|| ASetFile::from_archive(&archive)) {
                        Err(_) => format!("{} rr-panic", head),
                        Ok(Err(_)) => format!("{} rr-err", head),
                        Ok(Ok(again)) => {
                            let re = match no_panic(|| again.serialize()) {
                                Err(_) => "panic".to_string(),
                                Ok(Err(_)) => "err".to_string(),
                                Ok(Ok(b2)) => {
                                    if b2 == bytes {
                                        "same".to_string()
                                    } else {
                                        hex(&b2)
                                    }
                                }
                            };
                            format!("{} rr-ok {} {}", head, show_file(&again), re)
                        }
                    }
                }
            }
        }
    }
}

/// `aset`: the ordinary round trip.  `aset-after`: the same round trip performed once after each
/// kind of preceding call on this thread (`pre_call` 1..=6); the line is the first result, with
/// ` unstable` appended if the results are not all equal (the oracle judges it as an ordinary case).
pub fn run_line(_st: &mut super::State, line: &str) -> String {
    let f: Vec<&str> = line.split(' ').collect();
    let id = f[0];
    let file = ASetFile {
        meta: opt_of(f[2]),
        anim_clip_table: list_of(f[3]),
        sets: f[4..].iter().map(|s| list_of(s)).collect(),
    };
    let out = if f[1] == "aset-after" {
        let outs: Vec<String> = (1..=6).map(|v| round_trip(&file, v)).collect();
        if outs.iter().all(|o| *o == outs[0]) {
            outs[0].clone()
        } else {
            format!("{} unstable", outs[0])
        }
    } else {
        round_trip(&file, 0)
    };
    format!("{} {}", id, out)
}
