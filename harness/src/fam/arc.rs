//! Family `arc`: C16 — 3DS arc.  (stub)
#![allow(unused)]
use crate::util::*;

pub fn gen(_seed: u64, _tier: &str) -> Vec<String> {
    Vec::new()
}

pub fn run_line(_st: &mut super::State, line: &str) -> String {
    let id = line.split(' ').next().unwrap_or("?");
    format!("{} unimplemented", id)
}
