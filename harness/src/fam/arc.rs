//! Family `arc`: C16 — 3DS arc extraction (`arc::from_bytes`).
//!
//! The library has no arc writer: images are *spec-built* here by constructing a `BinArchive`
//! through the public API exactly as `Spec.ArcImage` prescribes and calling `serialize()`.
//!
//! Case line
//!   `<id> arc <img-hex> <expect> <padded> <countAddr> <infoAddr>
//!        D <data-hex> S <k> (<addr> <string-hex>)* L <k> (<addr> <label-hex>)* F <n> (<name-hex> <body-hex>)*`
//!   id      = `c16c.<n>` | `c16w.<n>`: overflow checks of the running harness binary on (`checked`) / off (`wrapping`);
//!             the driver runs the model in that profile (kept out of the payload so that the same image
//!             under two profiles is not counted as two distinct cases)
//!   expect  = `ok` | `NoCount` | `NoInfo` | `MissingName` | `OutOfRange` | `~` (malformed: only "no panic")
//!   D/S/L   = the content the image was built from (data region as serialized incl. the c-string pool,
//!             string cells, labels); ordinary pointers and c-strings planted in spare cells (destination 0,
//!             == data size, anywhere) are not part of the arc content and must not disturb extraction;
//!             a nameless record = name cell that is a plain word / an ordinary pointer into the data /
//!             a pointer exactly to the end of the data / a c-string cell
//!   F       = the files in record order
//! Implementation line: `ok <n> (<name-hex> <body-hex>)*` sorted by name | `err <Class>` | `panic`
//!   Class = NoCount | NoInfo | MissingName | OutOfBounds | Other
use crate::util::*;
use mila::{arc, ArcError, ArchiveError, BinArchive, Endian};

fn overflow_checks_on() -> bool {
    let x: u8 = std::hint::black_box(255);
    let one: u8 = std::hint::black_box(1);
    no_panic(move || x + one).is_err()
}

struct Built {
    img: Vec<u8>,
    data_len: usize,
    strings: Vec<(usize, String)>,
    labels: Vec<(usize, String)>,
    files: Vec<(String, Vec<u8>)>,
    padded: bool,
    count_addr: usize,
    info_addr: usize,
}

#[derive(Clone, Copy, PartialEq, Debug)]
enum Kind {
    Ok,
    NoCount,
    NoInfo,
    NoBoth,
    MissingName,
    OutOfRange,
}

fn align4(x: usize) -> usize {
    (x + 3) / 4 * 4
}

/// Lays out and builds one image. Sections (count cell, record table, bodies) are placed in a
/// random order with random gaps after the optional zero header.
#[derive(Default)]
struct Opts {
    /// number of records (default: random 0..12)
    n: Option<usize>,
    /// file names (default: random distinct names)
    names: Option<Vec<String>>,
    /// decoy labels to plant somewhere
    labels: Vec<String>,
}

fn build(rng: &mut Rng, kind: Kind) -> Built {
    build_with(rng, kind, &Opts::default())
}

fn build_with(rng: &mut Rng, kind: Kind, opts: &Opts) -> Built {
    let n = match rng.below(8) {
        0 => 0,
        1 => 1,
        _ => rng.range(0, 12),
    } as usize;
    let n = opts.n.unwrap_or(n);
    let n = if matches!(kind, Kind::MissingName | Kind::OutOfRange) { n.max(1) } else { n };
    let padded = rng.chance(1, 2);
    let mut names = match &opts.names {
        Some(v) => v.clone(),
        None => super::pack::distinct_names(rng, n),
    };
    if opts.names.is_none() && n > 0 && rng.chance(1, 6) {
        // a long name around the 64 / 128 / 256 byte marks with a double-byte character whose trail
        // byte looks like a lead byte near the mark (block-wise string decoders)
        let b = *rng.pick(&[64usize, 128, 256]);
        let cands = super::pack::boundary_names(rng, b, 2);
        let i = rng.below(n as u64) as usize;
        let c = rng.pick(&cands).clone();
        if !names.contains(&c) {
            names[i] = c;
        }
    }
    let mut files: Vec<(String, Vec<u8>)> = Vec::new();
    for name in names {
        let l = match rng.below(6) {
            0 => 0,
            1 => rng.range(1, 5),
            2 => rng.range(0, 3) * 4,
            _ => rng.range(0, 70),
        } as usize;
        let b = if !files.is_empty() && rng.chance(1, 8) {
            files[rng.below(files.len() as u64) as usize].1.clone() // equal content → may be shared
        } else {
            rng.bytes(l)
        };
        files.push((name, b));
    }
    if n >= 2 && rng.chance(1, 20) {
        // duplicated name: outside the property's quantifier (later record wins); model vs code only
        files[n - 1].0 = files[0].0.clone();
    }

    // sections: 0 = count cell, 1 = table, 2+i = body i, n+2+j = spare cell j (a 4-byte cell that
    // will carry an ordinary pointer or a pending c-string: annotations the arc reader must ignore)
    let n_spare = match rng.below(4) {
        0 => 0,
        1 => 1,
        _ => rng.range(1, 3),
    } as usize;
    let mut sections: Vec<usize> = (0..n + 2 + n_spare).collect();
    rng.shuffle(&mut sections);
    let mut spares: Vec<usize> = Vec::new();
    let base = if padded { 0x60 } else { 0 };
    let mut pos = base;
    let mut data: Vec<u8> = vec![0; base];
    let mut count_addr = 0;
    let mut info_addr = 0;
    let mut offs = vec![0usize; n];
    // unpadded: the first data word must not be 0 → the data starts with the count cell (n > 0,
    // half of the time) or with a non-zero marker word
    if !padded {
        if n > 0 && rng.chance(1, 2) {
            count_addr = 0;
            data.extend((n as u32).to_le_bytes());
            sections.retain(|s| *s != 0);
        } else {
            let mut w = rng.bytes(4);
            // boundary: a non-zero word whose low byte(s) are zero must still count as "no header"
            match rng.below(4) {
                0 => w[0] = 0,
                1 => {
                    w[0] = 0;
                    w[1] = 0;
                    w[2] = 0;
                }
                _ => {}
            }
            if w == [0, 0, 0, 0] {
                w[3] = 1;
            }
            data.extend(w);
        }
        pos += 4;
    }
    let share = rng.chance(1, 3);
    for s in sections {
        // gap
        if rng.chance(1, 3) {
            let g = if rng.chance(1, 2) { 4 * rng.range(1, 3) as usize } else { rng.range(1, 7) as usize };
            data.extend(rng.bytes(g));
            pos += g;
        }
        match s {
            0 | 1 => {
                // cells: 4-aligned most of the time
                if pos % 4 != 0 && !rng.chance(1, 6) {
                    let p = align4(pos) - pos;
                    data.extend(vec![0xEE; p]);
                    pos += p;
                }
                if s == 0 {
                    count_addr = pos;
                    data.extend((n as u32).to_le_bytes());
                    pos += 4;
                } else {
                    info_addr = pos;
                    data.extend(vec![0u8; 16 * n]);
                    pos += 16 * n;
                }
            }
            _ if s >= n + 2 => {
                if pos % 4 != 0 && !rng.chance(1, 6) {
                    let p = align4(pos) - pos;
                    data.extend(vec![0xEE; p]);
                    pos += p;
                }
                spares.push(pos);
                data.extend([0u8; 4]);
                pos += 4;
            }
            _ => {
                let i = s - 2;
                let body = &files[i].1;
                let mut placed = false;
                if share && !body.is_empty() {
                    // an identical byte range that already exists after the header (other body, gap bytes)
                    if let Some(p) = data[base..].windows(body.len()).position(|w| w == &body[..]) {
                        // not inside the table / count cell (their bytes change when cells are written)
                        let a = base + p;
                        let clash = |lo: usize, len: usize| a < lo + len && lo < a + body.len();
                        if !clash(info_addr, 16 * n) && !clash(count_addr, 4) && !spares.iter().any(|sp| clash(*sp, 4)) {
                            offs[i] = a - base;
                            placed = true;
                        }
                    }
                }
                if body.is_empty() && rng.chance(1, 2) {
                    // an empty file may point anywhere, also beyond the data
                    offs[i] = *rng.pick(&[0usize, 1, 0x1000, 0xFFFF_FFFF, 0xFFFF_FFA0]);
                    placed = true;
                }
                if !placed {
                    offs[i] = pos - base;
                    data.extend(body);
                    pos += body.len();
                }
            }
        }
    }
    if rng.chance(1, 2) {
        let g = rng.range(1, 9) as usize;
        data.extend(rng.bytes(g));
    }
    // half of the images end on a word boundary; the others keep whatever length the last section
    // left (data lengths in every residue class mod 4, e.g. an unaligned body last, no padding)
    if rng.chance(1, 2) {
        while data.len() % 4 != 0 {
            data.push(0xDD);
        }
    }
    let data_len = data.len();
    let bad = if n > 0 { rng.below(n as u64) as usize } else { 0 };

    // annotations that are not part of the arc content, planned before the records are final
    // because pending c-strings are serialized into a pool appended to the data region:
    // spare cells get an ordinary pointer (destination 0 / end of data / anywhere) or a c-string
    let spare_plan: Vec<(u64, String)> =
        spares.iter().map(|_| (rng.below(5), super::pack::sub_name(rng, 6))).collect();
    // the nameless record (kind MissingName): (a) plain word, (b) pointer into the data,
    // (c) pointer exactly to the end of the data, (d) c-string cell
    let mn_variant = rng.below(4);
    let mut cstrs: Vec<Vec<u8>> = Vec::new();
    for (k, t) in &spare_plan {
        if *k == 4 {
            cstrs.push(super::pack::sjis_sub(t));
        }
    }
    if kind == Kind::MissingName && mn_variant == 3 {
        cstrs.push(super::pack::sjis_sub(&files[bad].0));
    }
    cstrs.sort();
    cstrs.dedup();
    let pool = align4(cstrs.iter().map(|c| c.len() + 1).sum::<usize>());
    // size of the data region of the serialized image (what the parser will see)
    let final_len = data_len + pool;

    // error variants that change the records
    let mut sizes: Vec<usize> = files.iter().map(|f| f.1.len()).collect();
    if kind == Kind::OutOfRange {
        let avail = final_len - base; // bytes after the header
        match rng.below(6) {
            0 => {
                // offset far away, near 2^32 (D9: must not wrap around)
                offs[bad] = *rng.pick(&[0xFFFF_FFF0usize, 0xFFFF_FFFF, 0xFFFF_FFA0, 0xFFFF_FF9F, 0x8000_0000]);
                sizes[bad] = sizes[bad].max(1);
            }
            1 => {
                // size far too large
                sizes[bad] = *rng.pick(&[0xFFFF_FFFFusize, 0x8000_0000, 0x1_0000]);
            }
            2 => {
                // range ends exactly one byte after the data
                let sz = rng.range(1, 8) as usize;
                let sz = sz.min(avail.max(1));
                sizes[bad] = sz;
                offs[bad] = avail + 1 - sz;
            }
            3 => {
                // starts at the end
                offs[bad] = avail;
                sizes[bad] = rng.range(1, 4) as usize;
            }
            4 => {
                // wraps to a valid range if added in 32 bits (only meaningful with the header)
                offs[bad] = 0xFFFF_FFFF - 0x5F + rng.below(8) as usize; // + 0x60 ≡ small
                sizes[bad] = rng.range(1, 4) as usize;
            }
            _ => {
                offs[bad] = avail + rng.range(1, 100) as usize;
                sizes[bad] = sizes[bad].max(1);
            }
        }
    }

    // build through the public API
    let mut a = BinArchive::new(Endian::Little);
    a.allocate_at_end(data_len);
    a.write_bytes(0, &data).unwrap(); // data_len >= 4
    let mut strings: Vec<(usize, String)> = Vec::new();
    let mut labels: Vec<(usize, String)> = Vec::new();
    a.write_u32(count_addr, n as u32).unwrap();
    for i in 0..n {
        let r = info_addr + 16 * i;
        if !(kind == Kind::MissingName && i == bad) {
            a.write_string(r, Some(&files[i].0)).unwrap();
            strings.push((r, files[i].0.clone()));
        } else {
            // a record without a name: its name cell is not a string cell
            match mn_variant {
                // (a) the cell is a plain data word (absent from the pointer table)
                0 => {}
                // (b) the cell holds an ordinary pointer into the data region
                1 => a.write_pointer(r, Some(rng.below(final_len as u64) as usize)).unwrap(),
                // (c) ... a pointer exactly to the end of the data region (a legal destination;
                //     value == data size is the boundary between "pointer" and "text offset")
                2 => a.write_pointer(r, Some(final_len)).unwrap(),
                // (d) the cell carries a pending c-string (serialized as a pointer into the pool
                //     appended to the data), not a string
                _ => a.write_c_string(r, files[i].0.clone()).unwrap(),
            }
        }
        // the index word is not interpreted: any value, special ones included
        let index = match rng.below(6) {
            0 => 0,
            1 => 0x8000_0000,
            2 => 0xFFFF_FFFF,
            3 => i as u32,
            _ => rng.next() as u32,
        };
        a.write_u32(r + 4, index).unwrap();
        a.write_u32(r + 8, sizes[i] as u32).unwrap();
        a.write_u32(r + 12, offs[i] as u32).unwrap();
    }
    // spare cells: pointers with destination 0, == data size (end of the data region), anywhere
    // up to the end, or a c-string; none of them may disturb extraction
    for (sp, (k, t)) in spares.iter().zip(spare_plan.iter()) {
        match *k {
            0 => a.write_pointer(*sp, Some(0)).unwrap(),
            1 | 2 => a.write_pointer(*sp, Some(final_len)).unwrap(),
            3 => a.write_pointer(*sp, Some(rng.below(final_len as u64 + 1) as usize)).unwrap(),
            _ => a.write_c_string(*sp, t.clone()).unwrap(),
        }
    }
    // labels (in a random order of calls)
    let mut want: Vec<(usize, String)> = Vec::new();
    if !matches!(kind, Kind::NoCount | Kind::NoBoth) {
        want.push((count_addr, "Count".to_string()));
    } else if rng.chance(1, 2) {
        want.push((count_addr, rng.pick(&["count", "Counts", "Coun", "COUNT"]).to_string()));
    }
    if !matches!(kind, Kind::NoInfo | Kind::NoBoth) {
        want.push((info_addr, "Info".to_string()));
    } else if rng.chance(1, 2) {
        want.push((info_addr, rng.pick(&["info", "Infos", "Inf", "INFO"]).to_string()));
    }
    // decoys: other labels anywhere (also sharing a bucket with Count / Info), and the reserved
    // names again at *higher* addresses (the lowest address wins)
    for _ in 0..rng.below(4) {
        let addr = 4 * rng.below(data_len as u64 / 4 + 1) as usize;
        want.push((addr, rng.pick(&["Data", "X", "Count2", "InfoX", "カウント"]).to_string()));
    }
    if rng.chance(1, 4) {
        want.push((count_addr, "Extra".to_string()));
    }
    for l in &opts.labels {
        let addr = rng.below(data_len as u64 + 1) as usize;
        want.push((addr, l.clone()));
    }
    // labels on the record addresses (as real arc files have them): "Data" and the record's own file
    // name; the first record's address is the Info address, so these share the Info bucket
    if rng.chance(1, 2) {
        for i in 0..n {
            if rng.chance(2, 3) && files[i].0 != "Count" && files[i].0 != "Info" {
                want.push((info_addr + 16 * i, files[i].0.clone()));
            }
            if rng.chance(1, 4) {
                want.push((info_addr + 16 * i, "Data".to_string()));
            }
        }
        if rng.chance(1, 4) {
            let cands = super::pack::boundary_names(rng, 64, 1);
            want.push((info_addr, rng.pick(&cands).clone()));
        }
    }
    if rng.chance(1, 5) && !matches!(kind, Kind::NoCount | Kind::NoBoth) && count_addr + 4 <= data_len {
        let hi = count_addr + 4 * rng.range(1, ((data_len - count_addr) / 4) as u64) as usize;
        want.push((hi, "Count".to_string()));
    }
    if rng.chance(1, 5) && !matches!(kind, Kind::NoInfo | Kind::NoBoth) && info_addr + 4 <= data_len {
        let hi = info_addr + 4 * rng.range(1, ((data_len - info_addr) / 4) as u64) as usize;
        want.push((hi, "Info".to_string()));
    }
    rng.shuffle(&mut want);
    for (addr, l) in want {
        if a.write_label(addr, &l).is_ok() {
            labels.push((addr, l));
        }
    }
    let mut img = a.serialize().unwrap();
    // `serialize` writes the label table sorted by address; a conforming image may list the rows in
    // any order (rows of one address need not be adjacent): by name, reversed, random
    permute_label_rows(&mut img, rng.below(5), rng);
    // ... and may hold the pool strings in any order (names before label strings, reversed, random)
    relayout_pool(&mut img, rng.below(6), rng);
    // the data block as serialized: the c-string pool (if any) has been appended to the data
    let data_len = u32::from_le_bytes([img[4], img[5], img[6], img[7]]) as usize;
    assert_eq!(data_len, final_len, "c-string pool size mispredicted");
    Built { img, data_len, strings, labels, files, padded, count_addr, info_addr }
}

/// A tiny arc WITHOUT the 0x60-byte header whose first data word is 0 and whose data region has
/// exactly `len` bytes (4 ≤ len): no file has a body, so no offset is ever used and the missing
/// header is immaterial.  variant 0: no records, the count word (0) is the first word, `Info` right
/// behind it; variant 1/2: a zero marker word, then count cell and a table of 1 / 2 empty files.
fn build_tiny(rng: &mut Rng, len: usize, variant: usize) -> Option<Built> {
    let n = variant;
    let need = if n == 0 { 4 } else { 8 + 16 * n };
    if len < need {
        return None;
    }
    let mut data = vec![0u8; need];
    data.extend(rng.bytes(len - need));
    let (count_addr, info_addr) = if n == 0 { (0, 4.min(len)) } else { (4, 8) };
    let names = super::pack::distinct_names(rng, n);
    let files: Vec<(String, Vec<u8>)> = names.into_iter().map(|nm| (nm, Vec::new())).collect();
    let mut a = BinArchive::new(Endian::Little);
    a.allocate_at_end(len);
    a.write_bytes(0, &data).unwrap();
    a.write_u32(count_addr, n as u32).unwrap();
    let mut strings = Vec::new();
    for i in 0..n {
        let r = info_addr + 16 * i;
        a.write_string(r, Some(&files[i].0)).unwrap();
        strings.push((r, files[i].0.clone()));
        a.write_u32(r + 4, *rng.pick(&[0u32, 0x8000_0000, 0xFFFF_FFFF, 7])).unwrap();
        a.write_u32(r + 8, 0).unwrap();
        a.write_u32(r + 12, *rng.pick(&[0u32, 4, 0x60, 0xFFFF_FFFF, 0xFFFF_FFA0])).unwrap();
    }
    let mut labels = Vec::new();
    let mut want = vec![(count_addr, "Count".to_string()), (info_addr, "Info".to_string())];
    if rng.chance(1, 2) {
        want.push((len, "End".to_string()));
    }
    rng.shuffle(&mut want);
    for (addr, l) in want {
        a.write_label(addr, &l).unwrap();
        labels.push((addr, l));
    }
    let mut img = a.serialize().unwrap();
    permute_label_rows(&mut img, rng.below(5), rng);
    Some(Built { img, data_len: len, strings, labels, files, padded: false, count_addr, info_addr })
}

/// Re-lays out the text pool of a serialized image in place: `serialize` stores the label names
/// first and the cell strings behind them; a conforming image may hold the pool strings in any
/// order. Cell words (offset from the start of the data region) and label rows (offset from the
/// start of the pool) are patched accordingly.
/// mode 0..=2: unchanged; 3: strings referenced by cells first, label-only strings behind them (in
/// random order); 4: reversed; 5: random.  Returns false (image untouched) if the pool is not a
/// plain sequence of referenced NUL-terminated strings.
pub fn relayout_pool(img: &mut Vec<u8>, mode: u64, rng: &mut Rng) -> bool {
    if mode < 3 {
        return false;
    }
    let w = |img: &Vec<u8>, p: usize| u32::from_le_bytes([img[p], img[p + 1], img[p + 2], img[p + 3]]) as usize;
    let (ds, np, nl) = (w(img, 4), w(img, 8), w(img, 12));
    let ptrs = 0x20 + ds;
    let lo = ptrs + 4 * np;
    let text = lo + 8 * nl; // file offset of the pool
    let text_start = ds + 4 * np + 8 * nl; // the same, counted from the end of the file header
    let pool: Vec<u8> = img[text..].to_vec();
    // references: (is_cell, location of the word to patch, pool offset)
    let mut refs: Vec<(bool, usize, usize)> = Vec::new();
    for i in 0..np {
        let cell = w(img, ptrs + 4 * i);
        let v = w(img, 0x20 + cell);
        if v > ds {
            if v < text_start {
                return false;
            }
            refs.push((true, 0x20 + cell, v - text_start));
        }
    }
    for i in 0..nl {
        refs.push((false, lo + 8 * i + 4, w(img, lo + 8 * i + 4)));
    }
    let mut starts: Vec<usize> = refs.iter().map(|r| r.2).collect();
    starts.sort();
    starts.dedup();
    // the pool must be exactly these strings, back to back
    let mut strings: Vec<(usize, Vec<u8>, bool)> = Vec::new(); // (old offset, bytes incl. NUL, referenced by a cell)
    let mut at = 0usize;
    for st in &starts {
        if *st != at {
            return false;
        }
        let end = match pool[at..].iter().position(|b| *b == 0) {
            Some(e) => at + e + 1,
            None => return false,
        };
        let by_cell = refs.iter().any(|r| r.0 && r.2 == *st);
        strings.push((*st, pool[at..end].to_vec(), by_cell));
        at = end;
    }
    if at != pool.len() {
        return false;
    }
    match mode {
        3 => {
            rng.shuffle(&mut strings);
            strings.sort_by_key(|s| !s.2); // stable: cell strings first
        }
        4 => strings.reverse(),
        _ => rng.shuffle(&mut strings),
    }
    let mut new_pool: Vec<u8> = Vec::new();
    let mut moved: Vec<(usize, usize)> = Vec::new(); // old offset -> new offset
    for (old, bytes, _) in &strings {
        moved.push((*old, new_pool.len()));
        new_pool.extend(bytes);
    }
    for (is_cell, loc, old) in refs {
        let new = moved.iter().find(|m| m.0 == old).unwrap().1;
        let v = if is_cell { text_start + new } else { new } as u32;
        img[loc..loc + 4].copy_from_slice(&v.to_le_bytes());
    }
    img.truncate(text);
    img.extend(new_pool);
    true
}

/// A small arc with the simplest data layout (optional zero header, count cell, table, bodies)
/// whose pool holds the `n` file names — `total` encoded bytes altogether — IN FRONT of the two
/// label strings, so that the label offsets (counted from the pool start) run through the range of
/// the values stored in the name cells (counted from the start of the data region) as `total` is
/// swept.  A reader that confuses the two bases (e.g. one cache keyed by the stored number) breaks
/// exactly when they coincide.
fn build_pool(rng: &mut Rng, n: usize, total: usize, padded: bool) -> Built {
    // split `total` bytes over n distinct names
    let mut names: Vec<String> = Vec::new();
    let mut left = total;
    for i in 0..n {
        let l = if i + 1 == n { left } else { rng.below(left as u64 + 1) as usize };
        left -= l;
        let mut nm = super::pack::exact_len_name(rng, l);
        let mut tries = 0;
        while (names.contains(&nm) || nm == "Count" || nm == "Info") && tries < 50 {
            nm = super::pack::exact_len_name(rng, l);
            tries += 1;
        }
        names.push(nm);
    }
    if n >= 2 {
        // at most one empty name; equal names are possible only for tiny lengths: make them distinct
        for i in 0..n {
            for j in 0..i {
                if names[i] == names[j] {
                    names[i].push('~');
                }
            }
        }
    }
    let base = if padded { 0x60 } else { 0 };
    let mut data = vec![0u8; base];
    let count_addr = data.len();
    data.extend((n as u32).to_le_bytes());
    // (n >= 1: in the unpadded layout the count word is the non-zero first word)
    let info_addr = data.len();
    data.extend(vec![0u8; 16 * n]);
    let mut files: Vec<(String, Vec<u8>)> = Vec::new();
    let mut offs: Vec<usize> = Vec::new();
    for nm in &names {
        let bl = rng.range(0, 5) as usize;
        let body = rng.bytes(bl);
        offs.push(data.len() - base);
        data.extend(&body);
        files.push((nm.clone(), body));
    }
    let data_len = data.len();
    let mut a = BinArchive::new(Endian::Little);
    a.allocate_at_end(data_len);
    a.write_bytes(0, &data).unwrap();
    let mut strings = Vec::new();
    for i in 0..n {
        let r = info_addr + 16 * i;
        a.write_string(r, Some(&files[i].0)).unwrap();
        strings.push((r, files[i].0.clone()));
        a.write_u32(r + 4, i as u32).unwrap();
        a.write_u32(r + 8, files[i].1.len() as u32).unwrap();
        a.write_u32(r + 12, offs[i] as u32).unwrap();
    }
    a.write_label(count_addr, "Count").unwrap();
    a.write_label(info_addr, "Info").unwrap();
    let labels = vec![(count_addr, "Count".to_string()), (info_addr, "Info".to_string())];
    let mut img = a.serialize().unwrap();
    let ok = relayout_pool(&mut img, 3, rng);
    assert!(ok, "pool relayout refused a plain image");
    if rng.chance(1, 2) {
        permute_label_rows(&mut img, 3, rng);
    }
    Built { img, data_len, strings, labels, files, padded, count_addr, info_addr }
}

/// Reorders the 8-byte rows `(address, name offset)` of the label table in place.
/// mode 0, 1: unchanged; 2: sorted by label name; 3: reversed; 4: random.
pub fn permute_label_rows(img: &mut Vec<u8>, mode: u64, rng: &mut Rng) {
    let w = |img: &Vec<u8>, p: usize| u32::from_le_bytes([img[p], img[p + 1], img[p + 2], img[p + 3]]) as usize;
    let (ds, np, nl) = (w(img, 4), w(img, 8), w(img, 12));
    let lo = 0x20 + ds + 4 * np;
    let text = lo + 8 * nl;
    if mode < 2 || nl < 2 {
        return;
    }
    let mut rows: Vec<[u8; 8]> = (0..nl).map(|i| img[lo + 8 * i..lo + 8 * i + 8].try_into().unwrap()).collect();
    match mode {
        2 => {
            let name = |r: &[u8; 8]| -> Vec<u8> {
                let off = u32::from_le_bytes([r[4], r[5], r[6], r[7]]) as usize;
                img[text + off..].iter().cloned().take_while(|b| *b != 0).collect()
            };
            rows.sort_by_key(|r| name(r));
        }
        3 => rows.reverse(),
        _ => rng.shuffle(&mut rows),
    }
    for (i, r) in rows.iter().enumerate() {
        img[lo + 8 * i..lo + 8 * i + 8].copy_from_slice(r);
    }
}

fn fmt_case(b: &Built, expect: &str) -> String {
    // (for damaged images the content fields are not used by the oracle)
    let data: &[u8] = if b.img.len() >= 0x20 + b.data_len { &b.img[0x20..0x20 + b.data_len] } else { &[] };
    let mut s = format!(
        "arc {} {} {} {} {} D {}",
        hex(&b.img),
        expect,
        if b.padded { 1 } else { 0 },
        b.count_addr,
        b.info_addr,
        hex(data)
    );
    s.push_str(&format!(" S {}", b.strings.len()));
    for (a, t) in &b.strings {
        s.push_str(&format!(" {} {}", a, hexs(t)));
    }
    s.push_str(&format!(" L {}", b.labels.len()));
    for (a, t) in &b.labels {
        s.push_str(&format!(" {} {}", a, hexs(t)));
    }
    s.push_str(&format!(" F {}", b.files.len()));
    for (k, v) in &b.files {
        s.push_str(&format!(" {} {}", hexs(k), hex(v)));
    }
    s
}

pub fn gen(seed: u64, tier: &str) -> Vec<String> {
    match no_panic(|| gen_inner(seed, tier)) {
        Ok(v) => v,
        Err(e) => {
            eprintln!("arc generator panicked: {}", e);
            std::process::exit(3);
        }
    }
}

/// Case-line sink: one id per case; a sequence (several calls on the same thread, in order) shares
/// one id so that the checker replays and shrinks it as a whole.
struct Out {
    lines: Vec<String>,
    n: usize,
    profile: &'static str,
}
impl Out {
    fn push(&mut self, rest: String) {
        self.push_seq(vec![rest]);
    }
    fn push_seq(&mut self, rests: Vec<String>) {
        for r in rests {
            self.lines.push(format!("c16{}.{:06} {}", self.profile, self.n, r));
        }
        self.n += 1;
    }
}

fn gen_inner(seed: u64, tier: &str) -> Vec<String> {
    let mut rng = Rng::new(seed ^ 0xC16);
    let thorough = tier == "thorough";
    let profile = if overflow_checks_on() { "c" } else { "w" };
    let mut out = Out { lines: Vec::new(), n: 0, profile };
    let ok_cases = if thorough { 6000 } else { 400 };
    for _ in 0..ok_cases {
        let b = build(&mut rng, Kind::Ok);
        out.push(fmt_case(&b, "ok"));
    }
    // tiny unpadded arcs with a zero first word and no bodies: data regions of every length 4..=0x70
    // (below, at and above the 0x60 bytes a header would need), 0 / 1 / 2 records
    for len in 4..=0x70usize {
        let variants: Vec<usize> = if thorough { vec![0, 1, 2] } else { vec![len % 3] };
        for v in variants {
            let b = build_tiny(&mut rng, len, v).or_else(|| build_tiny(&mut rng, len, 0)).unwrap();
            out.push(fmt_case(&b, "ok"));
        }
    }
    // names in front of the label strings, total name bytes swept in steps of 1: the label offsets
    // (pool-relative) pass through every value stored in a name cell (data-relative), in both
    // header layouts, 1-3 files
    let top = if thorough { 330 } else { 235 };
    for total in 0..=top {
        for padded in [false, true] {
            let ns: Vec<usize> = if thorough { vec![1, 2, 3] } else { vec![1 + (total + padded as usize) % 3] };
            for k in ns {
                let b = build_pool(&mut rng, k, total, padded);
                out.push(fmt_case(&b, "ok"));
            }
        }
    }
    // exact counts and lengths: record counts around the powers of two; every name length and
    // every label length 0..=130 encoded bytes once
    for k in [7usize, 8, 9, 15, 16, 17, 31, 32, 33, 63, 64, 65, 127, 128, 129] {
        if thorough || k % 2 == 1 || k == 8 || k == 64 {
            let b = build_with(&mut rng, Kind::Ok, &Opts { n: Some(k), ..Opts::default() });
            out.push(fmt_case(&b, "ok"));
        }
    }
    {
        let mut lens: Vec<usize> = (0..=130).collect();
        rng.shuffle(&mut lens);
        for chunk in lens.chunks(10) {
            let mut names: Vec<String> = Vec::new();
            for &l in chunk {
                let mut nm = super::pack::exact_len_name(&mut rng, l);
                while names.contains(&nm) {
                    nm = super::pack::exact_len_name(&mut rng, l);
                }
                names.push(nm);
            }
            let labels: Vec<String> = chunk
                .iter()
                .map(|&l| {
                    let mut t = super::pack::exact_len_name(&mut rng, l);
                    if t == "Count" || t == "Info" {
                        t = "Coumt".to_string();
                    }
                    t
                })
                .collect();
            let b = build_with(&mut rng, Kind::Ok, &Opts { n: Some(names.len()), names: Some(names), labels });
            out.push(fmt_case(&b, "ok"));
        }
    }
    let err_cases = if thorough { 800 } else { 60 };
    for (kind, expect) in [
        (Kind::NoCount, "NoCount"),
        (Kind::NoInfo, "NoInfo"),
        (Kind::NoBoth, "NoCount"),
        (Kind::MissingName, "MissingName"),
        (Kind::MissingName, "MissingName"),
        (Kind::OutOfRange, "OutOfRange"),
        (Kind::OutOfRange, "OutOfRange"),
    ] {
        for _ in 0..err_cases {
            let b = build(&mut rng, kind);
            out.push(fmt_case(&b, expect));
        }
    }
    // second use on the same thread: a FAILING extraction (image cut inside its last string: the
    // Shift-JIS reader runs off the end), then an ordinary conforming image; same case id, replayed
    // as a whole. State left behind by the failed call must not leak into the next one.
    let second = if thorough { 400 } else { 30 };
    for _ in 0..second {
        let mut seq: Vec<String> = Vec::new();
        for _ in 0..rng.range(1, 2) {
            let mut b = build(&mut rng, Kind::Ok);
            let cut = rng.range(1, 3) as usize;
            let l = b.img.len();
            b.img.truncate(l - cut);
            seq.push(fmt_case(&b, "~"));
        }
        let b = build(&mut rng, Kind::Ok);
        seq.push(fmt_case(&b, "ok"));
        out.push_seq(seq);
    }
    // malformed: mutations of conforming images (bin-archive level damage)
    let mal = if thorough { 2000 } else { 150 };
    for j in 0..mal {
        let mut b = build(&mut rng, Kind::Ok);
        match j % 5 {
            0 => {
                let cut = rng.below(b.img.len() as u64 + 1) as usize;
                b.img.truncate(cut);
            }
            1 => {
                // header field boundary values
                let f = 4 + 4 * rng.below(3) as usize;
                let v: u32 = *rng.pick(&[0u32, 1, 0xFFFF_FFFF, 0x8000_0000, b.img.len() as u32, b.data_len as u32 + 4]);
                if b.img.len() >= f + 4 {
                    b.img[f..f + 4].copy_from_slice(&v.to_le_bytes());
                }
            }
            2 => {
                // count word damaged: more records than the table holds
                let p = 0x20 + b.count_addr;
                let v: u32 = *rng.pick(&[b.files.len() as u32 + 1, 0xFFFF_FFFF, 0x1000]);
                if b.img.len() >= p + 4 && b.data_len >= b.count_addr + 4 {
                    b.img[p..p + 4].copy_from_slice(&v.to_le_bytes());
                }
            }
            3 => {
                // bit flip in the tables after the data (pointer table, label table); the text
                // pool is left alone (the sub-codec of the model does not cover damaged text)
                let lo = 0x20 + b.data_len;
                let np = u32::from_le_bytes([b.img[8], b.img[9], b.img[10], b.img[11]]) as usize;
                let hi = lo + 4 * np + 8 * b.labels.len();
                if hi > lo && hi <= b.img.len() {
                    let p = lo + rng.below((hi - lo) as u64) as usize;
                    b.img[p] ^= 1 << rng.below(8);
                }
            }
            _ => {
                let l = rng.range(0, 0x30) as usize;
                b.img = rng.bytes(l);
            }
        }
        out.push(fmt_case(&b, "~"));
    }
    out.lines
}

pub fn run_line(_st: &mut super::State, line: &str) -> String {
    let f: Vec<&str> = line.split(' ').collect();
    let id = f[0];
    let img = unhex(f[2]);
    let out = match no_panic(|| arc::from_bytes(&img)) {
        Err(_) => "panic".to_string(),
        Ok(Ok(files)) => {
            let mut v: Vec<(&String, &Vec<u8>)> = files.iter().collect();
            v.sort();
            // a name outside the sub-codec alphabet (damaged images only) cannot be reproduced by
            // the model's sub-codec: such results are compared as `ok ?`
            if v.iter().all(|(k, _)| k.chars().all(|c| super::pack::sjis_sub_char(c).is_some())) {
                let mut s = format!("ok {}", v.len());
                for (k, b) in v {
                    s.push_str(&format!(" {} {}", hexs(k), hex(b)));
                }
                s
            } else {
                "ok ?".to_string()
            }
        }
        Ok(Err(ArcError::NoCount)) => "err NoCount".to_string(),
        Ok(Err(ArcError::NoInfo)) => "err NoInfo".to_string(),
        Ok(Err(ArcError::MissingName)) => "err MissingName".to_string(),
        Ok(Err(ArcError::ArchiveError(ArchiveError::OutOfBoundsAddress(_, _)))) => "err OutOfBounds".to_string(),
        Ok(Err(_)) => "err Other".to_string(),
    };
    format!("{} {}", id, out)
}
