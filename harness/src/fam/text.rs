//! Family `text`: C06 (text archive round trip, layout) and C07 (ordered map, escaping, dirty flag).
//!
//! Case lines
//!   c06.* rt <S|U> <L|B> <title> <k:m,k:m,...|~>      build through set_title/set_message, serialize, from_bytes
//!   c06.* fa <S|U> <L|B> <data> <off:label,...|~>     TextArchive::from_archive on a hand-built BinArchive
//!   c06.* hs <S|U> <L|B> <title> <k:m,..|~> <P|N> <op,op,..|~>
//!                                                      build as rt; P: serialize + from_bytes first (a *parsed* archive),
//!                                                      N: keep the built one; apply the history (t:<title> = set_title,
//!                                                      d:<key> = delete_message, s:<key>:<msg> = set_message); then
//!                                                      serialize and re-parse
//!   c07.* rtd ... (as rt)                              same run as rt; prints `ok parsed dirty=<0|1>` | `ok unparsed` only
//!   c06.* sec <S|U> <L|B> <title> <k:m,..|~> <dmg,dmg,..|~>
//!                                                      "second use": as rt, but before the round trip damaged copies of the
//!                                                      image (tr:<k> | w:<pos>:<u32> | b:<pos>:<byte> | be:<k-from-end>:<byte>) are parsed in the same
//!                                                      process and thread; the line ends with ` pre=<o|e per damage>`
//!   c07.* new <S|U> <L|B>                              stateful: first line creates the archive
//!   c07.* frombytes|fromarchive <S|U> <L|B> <title> <k:m,..|~>
//!                                                      first line: the archive is built, serialized and obtained through
//!                                                      `from_bytes` / `BinArchive::from_bytes` + `from_archive`
//!   c07.* set <k> <m> | del <k> | has <k> | get <k> | title <t> | setget <k>
//!   c07.* sets <count> <nkeys> <delevery>              `count` set_message calls over `nkeys` rotating keys (a delete after
//!                                                      every `delevery`-th, 0 = none); r=clean:<indices of calls after which
//!                                                      is_dirty() was false | ->
//! Strings are hex of UTF-8 (`-` = empty), lists are comma separated (`~` = empty list).
//!
//! Implementation lines
//!   rt : `ok stored=<k:v,..> bytes=<hex> parsed title=<hex> entries=<k:v,..> reser=<same|diff|err:Class>`
//!        (reser: the parsed archive serialised again, compared with `bytes`)
//!        | `ok stored=.. bytes=<hex> parse-err <Class>` | `err <Class>` (serialize failed) | `panic`
//!   fa : `ok title=<hex> entries=<k:v,..>` | `err <Class>` | `panic`
//!   hs : `ok ctitle=<hex> centries=<k:v,..> bytes=<hex> parsed title=<hex> entries=<k:v,..>` (ctitle/centries =
//!        get_title/get_entries just before the final serialize) | `ok ctitle=.. centries=.. bytes=.. parse-err <Class>`
//!        | `ok ctitle=.. centries=.. ser-err <Class>` | `err0 <Class>` (the preparatory serialize/from_bytes failed)
//!   c07: `ok r=<unit|true|false|none|some:<hex>> title=<hex> dirty=<0|1> entries=<k:v:g,..>` with
//!        v the stored value and g = get_message(k).
use crate::util::*;
use mila::*;

// ------------------------------------------------------------------------------------------------
// helpers
// ------------------------------------------------------------------------------------------------

fn fmt_of(s: &str) -> TextArchiveFormat {
    match s {
        "S" => TextArchiveFormat::ShiftJIS,
        "U" => TextArchiveFormat::Unicode,
        _ => panic!("format {}", s),
    }
}
fn endian_of(s: &str) -> Endian {
    match s {
        "L" => Endian::Little,
        "B" => Endian::Big,
        _ => panic!("endian {}", s),
    }
}

fn es_class(e: &EncodedStringsError) -> &'static str {
    match e {
        EncodedStringsError::UnterminatedString => "Unterminated",
        EncodedStringsError::EncodingFailed(_, _) => "Encoding",
        EncodedStringsError::DecodingFailed(_) => "Decoding",
        _ => "Io",
    }
}
fn ar_class(e: &ArchiveError) -> &'static str {
    match e {
        ArchiveError::OutOfBoundsAddress(_, _) => "OutOfBounds",
        ArchiveError::ArchiveTooSmall => "TooSmall",
        ArchiveError::UnalignedValue(_, _) => "Unaligned",
        ArchiveError::EncodingStringsError(e) => es_class(e),
        ArchiveError::IOError(_) | ArchiveError::EndianAwareIOError(_) => "Io",
        _ => "Other",
    }
}
fn ta_class(e: &TextArchiveError) -> &'static str {
    match e {
        TextArchiveError::ArchiveError(e) => ar_class(e),
        TextArchiveError::EncodingStringsError(e) => es_class(e),
        TextArchiveError::IOError(_) => "Io",
        _ => "Other",
    }
}

fn pairs<'a, I: Iterator<Item = (&'a String, &'a String)>>(it: I) -> String {
    let v: Vec<String> = it.map(|(k, v)| format!("{}:{}", hexs(k), hexs(v))).collect();
    if v.is_empty() {
        "~".to_string()
    } else {
        v.join(",")
    }
}

fn parse_pairs(s: &str) -> Vec<(String, String)> {
    if s == "~" {
        return Vec::new();
    }
    s.split(',')
        .map(|p| {
            let mut it = p.split(':');
            let a = it.next().unwrap();
            let b = it.next().unwrap();
            (a.to_string(), b.to_string())
        })
        .collect()
}

// ------------------------------------------------------------------------------------------------
// run
// ------------------------------------------------------------------------------------------------

/// Damage `bytes` as described by one `sec` damage item (`tr:<k>` drop the last k bytes, `w:<pos>:<v>` store the
/// u32 `v` at `pos` in the archive's byte order, `b:<pos>:<v>` store the byte `v` at `pos`, `be:<k>:<v>` store
/// the byte `v` at `len-1-k`).
fn damage(bytes: &[u8], item: &str, big: bool) -> Vec<u8> {
    let mut d = bytes.to_vec();
    let p: Vec<&str> = item.split(':').collect();
    match p[0] {
        "tr" => {
            let k: usize = p[1].parse().unwrap();
            d.truncate(d.len().saturating_sub(k));
        }
        "w" => {
            let pos: usize = p[1].parse().unwrap();
            let v: u32 = p[2].parse().unwrap();
            if pos + 4 <= d.len() {
                let w = if big { v.to_be_bytes() } else { v.to_le_bytes() };
                d[pos..pos + 4].copy_from_slice(&w);
            }
        }
        "b" => {
            let pos: usize = p[1].parse().unwrap();
            if pos < d.len() {
                d[pos] = p[2].parse().unwrap();
            }
        }
        "be" => {
            // byte counted from the end of the image
            let k: usize = p[1].parse().unwrap();
            if k < d.len() {
                let pos = d.len() - 1 - k;
                d[pos] = p[2].parse().unwrap();
            }
        }
        _ => {}
    }
    d
}

fn run_rt(f: &[&str]) -> String {
    let dirty_only = f[1] == "rtd";
    let second_use = f[1] == "sec";
    let (fmt, endian) = (fmt_of(f[2]), endian_of(f[3]));
    let title = unhexs(f[4]);
    let entries: Vec<(String, String)> = parse_pairs(f[5]).into_iter().map(|(k, m)| (unhexs(&k), unhexs(&m))).collect();
    let r = no_panic(|| {
        let mut t = TextArchive::new(fmt, endian);
        t.set_title(title.clone());
        for (k, m) in &entries {
            t.set_message(k, m);
        }
        let stored = pairs(t.get_entries().iter());
        let bytes = match t.serialize() {
            Ok(b) => b,
            Err(_) if dirty_only => return "ok unparsed".to_string(),
            Err(e) => return format!("err {}", ta_class(&e)),
        };
        // `sec`: first parse damaged copies of the image (mostly failing, in this same process and
        // thread), then do the ordinary round trip, which must not be affected by what came before
        let mut pre = String::new();
        if second_use && f[6] != "~" {
            for item in f[6].split(',') {
                let d = damage(&bytes, item, f[3] == "B");
                pre.push(match TextArchive::from_bytes(&d, fmt, endian) {
                    Ok(_) => 'o',
                    Err(_) => 'e',
                });
            }
        }
        let pre = if second_use { format!(" pre={}", if pre.is_empty() { "-" } else { &pre }) } else { String::new() };
        if dirty_only {
            return match TextArchive::from_bytes(&bytes, fmt, endian) {
                Ok(p) => format!("ok parsed dirty={}", p.is_dirty() as u8),
                Err(_) => "ok unparsed".to_string(),
            };
        }
        match TextArchive::from_bytes(&bytes, fmt, endian) {
            Ok(p) => format!(
                "ok stored={} bytes={} parsed title={} entries={} reser={}{}",
                stored,
                hex(&bytes),
                hexs(p.get_title()),
                pairs(p.get_entries().iter()),
                match p.serialize() {
                    Ok(b2) if b2 == bytes => "same".to_string(),
                    Ok(_) => "diff".to_string(),
                    Err(e) => format!("err:{}", ta_class(&e)),
                },
                pre
            ),
            Err(e) => format!("ok stored={} bytes={} parse-err {}{}", stored, hex(&bytes), ta_class(&e), pre),
        }
    });
    r.unwrap_or_else(|_| "panic".to_string())
}

fn run_hs(f: &[&str]) -> String {
    let (fmt, endian) = (fmt_of(f[2]), endian_of(f[3]));
    let title = unhexs(f[4]);
    let entries: Vec<(String, String)> = parse_pairs(f[5]).into_iter().map(|(k, m)| (unhexs(&k), unhexs(&m))).collect();
    let parsed_first = f[6] == "P";
    let ops: Vec<Vec<String>> = if f[7] == "~" { Vec::new() } else { f[7].split(',').map(|o| o.split(':').map(|x| x.to_string()).collect()).collect() };
    let r = no_panic(|| {
        let mut t = TextArchive::new(fmt, endian);
        t.set_title(title.clone());
        for (k, m) in &entries {
            t.set_message(k, m);
        }
        if parsed_first {
            let b0 = match t.serialize() {
                Ok(b) => b,
                Err(e) => return format!("err0 {}", ta_class(&e)),
            };
            t = match TextArchive::from_bytes(&b0, fmt, endian) {
                Ok(p) => p,
                Err(e) => return format!("err0 {}", ta_class(&e)),
            };
        }
        for o in &ops {
            match o[0].as_str() {
                "t" => t.set_title(unhexs(&o[1])),
                "d" => t.delete_message(&unhexs(&o[1])),
                "s" => t.set_message(&unhexs(&o[1]), &unhexs(&o[2])),
                _ => return "bad-case".to_string(),
            }
        }
        let head = format!("ok ctitle={} centries={}", hexs(t.get_title()), pairs(t.get_entries().iter()));
        let bytes = match t.serialize() {
            Ok(b) => b,
            Err(e) => return format!("{} ser-err {}", head, ta_class(&e)),
        };
        match TextArchive::from_bytes(&bytes, fmt, endian) {
            Ok(p) => format!("{} bytes={} parsed title={} entries={}", head, hex(&bytes), hexs(p.get_title()), pairs(p.get_entries().iter())),
            Err(e) => format!("{} bytes={} parse-err {}", head, hex(&bytes), ta_class(&e)),
        }
    });
    r.unwrap_or_else(|_| "panic".to_string())
}

fn run_fa(f: &[&str]) -> String {
    let (fmt, endian) = (fmt_of(f[2]), endian_of(f[3]));
    let data = unhex(f[4]);
    let labels: Vec<(usize, String)> = parse_pairs(f[5]).into_iter().map(|(o, l)| (o.parse().unwrap(), unhexs(&l))).collect();
    let r = no_panic(|| {
        let mut a = BinArchive::new(endian);
        a.allocate_at_end(data.len());
        if !data.is_empty() {
            if let Err(e) = a.write_bytes(0, &data) {
                return format!("err {}", ar_class(&e));
            }
        }
        for (o, l) in &labels {
            if let Err(e) = a.write_label(*o, l) {
                return format!("err {}", ar_class(&e));
            }
        }
        match TextArchive::from_archive(&a, fmt, endian) {
            Ok(p) => format!("ok title={} entries={}", hexs(p.get_title()), pairs(p.get_entries().iter())),
            Err(e) => format!("err {}", ta_class(&e)),
        }
    });
    r.unwrap_or_else(|_| "panic".to_string())
}

fn state_line(t: &TextArchive, ret: &str) -> String {
    let v: Vec<String> = t
        .get_entries()
        .iter()
        .map(|(k, v)| format!("{}:{}:{}", hexs(k), hexs(v), t.get_message(k).map(|g| hexs(&g)).unwrap_or("~".to_string())))
        .collect();
    format!(
        "ok r={} title={} dirty={} entries={}",
        ret,
        hexs(t.get_title()),
        t.is_dirty() as u8,
        if v.is_empty() { "~".to_string() } else { v.join(",") }
    )
}

fn run_c07(st: &mut super::State, f: &[&str]) -> String {
    if f[1] == "new" {
        st.any = Some(Box::new(TextArchive::new(fmt_of(f[2]), endian_of(f[3]))));
    }
    if f[1] == "frombytes" || f[1] == "fromarchive" {
        // the other public constructors: build, serialize, then `from_bytes`, or
        // `BinArchive::from_bytes` + `from_archive`
        st.any = None;
        let (fmt, endian) = (fmt_of(f[2]), endian_of(f[3]));
        let title = unhexs(f[4]);
        let entries: Vec<(String, String)> = parse_pairs(f[5]).into_iter().map(|(k, m)| (unhexs(&k), unhexs(&m))).collect();
        let via_archive = f[1] == "fromarchive";
        let built = no_panic(|| {
            let mut t = TextArchive::new(fmt, endian);
            t.set_title(title.clone());
            for (k, m) in &entries {
                t.set_message(k, m);
            }
            let bytes = t.serialize().map_err(|e| ta_class(&e).to_string())?;
            if via_archive {
                let bin = BinArchive::from_bytes(&bytes, endian).map_err(|e| ar_class(&e).to_string())?;
                TextArchive::from_archive(&bin, fmt, endian).map_err(|e| ta_class(&e).to_string())
            } else {
                TextArchive::from_bytes(&bytes, fmt, endian).map_err(|e| ta_class(&e).to_string())
            }
        });
        match built {
            Ok(Ok(t)) => st.any = Some(Box::new(t)),
            Ok(Err(_)) => return "err".to_string(),
            Err(_) => return "panic".to_string(),
        }
    }
    let t: &mut TextArchive = match st.any.as_mut().and_then(|b| b.downcast_mut::<TextArchive>()) {
        Some(t) => t,
        None => return "bad-case".to_string(),
    };
    let r = no_panic(|| {
        let ret = match f[1] {
            "new" | "frombytes" | "fromarchive" => "unit".to_string(),
            "set" => {
                t.set_message(&unhexs(f[2]), &unhexs(f[3]));
                "unit".to_string()
            }
            "del" => {
                t.delete_message(&unhexs(f[2]));
                "unit".to_string()
            }
            "title" => {
                t.set_title(unhexs(f[2]));
                "unit".to_string()
            }
            "has" => t.has_message(&unhexs(f[2])).to_string(),
            "get" => match t.get_message(&unhexs(f[2])) {
                Some(m) => format!("some:{}", hexs(&m)),
                None => "none".to_string(),
            },
            "setget" => {
                let k = unhexs(f[2]);
                match t.get_message(&k) {
                    Some(m) => {
                        t.set_message(&k, &m);
                        format!("some:{}", hexs(&m))
                    }
                    None => "none".to_string(),
                }
            }
            "sets" => {
                // a long run of set_message calls (keys k<i mod nkeys>, messages m<i mod 7>), optionally a
                // delete_message after every `delevery`-th set; is_dirty() is observed after EVERY call and the
                // indices of the calls after which it was false are reported
                let count: usize = f[2].parse().unwrap();
                let nkeys: usize = f[3].parse().unwrap();
                let delevery: usize = f[4].parse().unwrap();
                let mut clean: Vec<String> = Vec::new();
                for i in 0..count {
                    t.set_message(&format!("k{}", i % nkeys), &format!("m{}", i % 7));
                    if !t.is_dirty() {
                        clean.push(format!("{}", i));
                    }
                    if delevery > 0 && i % delevery == delevery - 1 {
                        t.delete_message(&format!("k{}", (i + 1) % nkeys));
                        if !t.is_dirty() {
                            clean.push(format!("{}d", i));
                        }
                    }
                }
                clean.truncate(20);
                format!("clean:{}", if clean.is_empty() { "-".to_string() } else { clean.join("+") })
            }
            _ => return "bad-case".to_string(),
        };
        state_line(t, &ret)
    });
    r.unwrap_or_else(|_| "panic".to_string())
}

/// Every string field of the line is valid UTF-8 (a shrunk replay may cut a multi-byte character in half;
/// such a line is not a case of the API, which takes `&str`).
fn strings_ok(f: &[&str]) -> bool {
    let ok = |h: &str| h == "-" || h == "~" || String::from_utf8(unhex(h)).is_ok();
    let pairs_ok = |l: &str, from: usize| l == "~" || l.split(',').all(|p| p.split(':').skip(from).all(|x| ok(x)));
    if f.len() < 2 {
        return false;
    }
    match f[1] {
        "rt" | "rtd" | "sec" | "frombytes" | "fromarchive" => f.len() >= 6 && ok(f[4]) && pairs_ok(f[5], 0),
        "hs" => f.len() >= 8 && ok(f[4]) && pairs_ok(f[5], 0) && pairs_ok(f[7], 1),
        "fa" => f.len() >= 6 && pairs_ok(f[5], 1),
        "set" => f.len() >= 4 && ok(f[2]) && ok(f[3]),
        "del" | "has" | "get" | "title" | "setget" => f.len() >= 3 && ok(f[2]),
        _ => true,
    }
}

pub fn run_line(st: &mut super::State, line: &str) -> String {
    let f: Vec<&str> = line.split(' ').collect();
    let id = f[0];
    if !strings_ok(&f) {
        return format!("{} bad-case not-utf8", id);
    }
    let out = if id.starts_with("c07") && f[1] != "rtd" {
        run_c07(st, &f)
    } else {
        match f[1] {
            "rt" | "rtd" | "sec" => run_rt(&f),
            "hs" => run_hs(&f),
            "fa" => run_fa(&f),
            _ => "bad-case".to_string(),
        }
    };
    format!("{} {}", id, out)
}

// ------------------------------------------------------------------------------------------------
// generators
// ------------------------------------------------------------------------------------------------

/// A character of the executable Shift-JIS sub-codec (ASCII without NUL, half-width katakana,
/// hiragana, katakana).
fn sjis_char(rng: &mut Rng) -> char {
    let c = match rng.below(10) {
        0..=4 => rng.range(0x20, 0x7E) as u32,
        5 => rng.range(0x01, 0x7F) as u32,
        6 => rng.range(0xFF61, 0xFF9F) as u32,
        7 => rng.range(0x3041, 0x3093) as u32,
        _ => rng.range(0x30A1, 0x30F6) as u32,
    };
    char::from_u32(c).unwrap()
}
fn sjis_string(rng: &mut Rng, len: usize) -> String {
    (0..len).map(|_| sjis_char(rng)).collect()
}

const SPECIAL: [u32; 43] = [
    // code points whose low byte / UTF-16 bytes look like '\n', '\\', 'n', NUL, or the other way round
    0x4E0A, 0x300A, 0xFF0A, 0x010A, 0x0A0A, 0x4E5C, 0x5C5C, 0xFF5C, 0x4E00, 0x4E6E, 0x6E00, 0x0A00, 0x5C00,
    0xFEFF, 0xFFFE, 0xBBEF, 0x41BF, 0xBFBB, 0xEFBB, 0x0100, 0x0001, 0x00FF, 0x00E9, 0x07FF, 0x0800, 0xD7FF, 0xE000, 0xFFFD, 0xFFFF, 0x10000,
    0x1F600, 0x10FFFF, 0xFFFFF, 0x100000, 0x2028, 0x5C, 0x6E, 0x0A, 0x0D, 0x7F, 0x80, 0x3042, 0xFF71,
];

/// Any NUL-free scalar value, biased to boundaries, BOM look-alikes, astral planes, backslashes.
fn uni_char(rng: &mut Rng) -> char {
    loop {
        let c = match rng.below(10) {
            0..=2 => *rng.pick(&SPECIAL),
            3..=4 => rng.range(0x20, 0x7E) as u32,
            5 => rng.range(1, 0x7FF) as u32,
            6 => rng.range(0x800, 0xFFFF) as u32,
            7 => rng.range(0x10000, 0x10FFFF) as u32,
            8 => *rng.pick(&[0x5Cu32, 0x6E, 0x0A]),
            _ => sjis_char(rng) as u32,
        };
        if let Some(ch) = char::from_u32(c) {
            return ch;
        }
    }
}
fn uni_string(rng: &mut Rng, len: usize) -> String {
    (0..len).map(|_| uni_char(rng)).collect()
}

fn rt_line(n: &mut usize, fmt: &str, endian: &str, title: &str, entries: &[(String, String)]) -> String {
    let e: Vec<String> = entries.iter().map(|(k, m)| format!("{}:{}", hexs(k), hexs(m))).collect();
    let l = format!("c06.{:06} rt {} {} {} {}", *n, fmt, endian, hexs(title), if e.is_empty() { "~".to_string() } else { e.join(",") });
    *n += 1;
    l
}

fn distinct_keys(rng: &mut Rng, count: usize) -> Vec<String> {
    let mut keys: Vec<String> = Vec::new();
    while keys.len() < count {
        let k = match rng.below(12) {
            0 => String::new(),
            1 => "MID_".to_string() + &sjis_string(rng, 3),
            _ => {
                let len = rng.range(1, 6) as usize;
                sjis_string(rng, len)
            }
        };
        if !keys.contains(&k) {
            keys.push(k);
        }
    }
    keys
}

fn gen_c06(rng: &mut Rng, tier: &str, lines: &mut Vec<String>) {
    let thorough = tier == "thorough";
    let mut n = 0usize;
    let combos = [("S", "L"), ("S", "B"), ("U", "L"), ("U", "B")];
    let s = |x: &str| x.to_string();
    // --- fixed boundary cases, all four format x endian combinations
    for (f, e) in combos {
        lines.push(rt_line(&mut n, f, e, "", &[])); // the empty archive (D16)
        lines.push(rt_line(&mut n, f, e, "T", &[]));
        lines.push(rt_line(&mut n, f, e, "", &[(s("k"), s(""))])); // one empty message
        lines.push(rt_line(&mut n, f, e, "", &[(s(""), s(""))])); // empty key, empty message
        lines.push(rt_line(&mut n, f, e, "ti", &[(s("a"), s("")), (s("b"), s("")), (s("c"), s("x"))]));
        // every message length 0..9 (every length mod 4 in both encodings)
        for len in 0..10usize {
            let m: String = "abcdefghij"[..len].to_string();
            lines.push(rt_line(&mut n, f, e, &"tttttttttt"[..(len * 3) % 10], &[(s("k1"), m.clone()), (s("k2"), m)]));
        }
        // escapes are stored as newlines; lone backslashes survive
        lines.push(rt_line(&mut n, f, e, "t", &[(s("e"), s("a\\nb\\\\n\\")), (s("n"), s("x\ny\\"))]));
        // keys out of lexicographic order (big-endian label table is sorted by name)
        lines.push(rt_line(&mut n, f, e, "t", &[(s("zz"), s("1")), (s("a"), s("22")), (s("m"), s("333")), (s("B"), s(""))]));
    }
    // --- UTF-16 specials: D15 witnesses, astral, boundaries
    for e in ["L", "B"] {
        for m in [
            "\u{FEFF}abc", "\u{FFFE}abc", "\u{BBEF}\u{41BF}abc", "\u{FEFF}", "\u{FFFE}", "\u{FEFF}\u{FEFF}x", "\u{EFBB}\u{BF00}", "a\u{FEFF}",
            "\u{10000}", "\u{10FFFF}", "\u{1F600}x", "x\u{1F600}", "\u{D7FF}\u{E000}", "\u{FFFF}\u{100}\u{1}", "\u{100}", "é", "\\", "\\\\", "n\\",
        ] {
            lines.push(rt_line(&mut n, "U", e, "t", &[(s("k"), m.to_string())]));
            lines.push(rt_line(&mut n, "U", e, "", &[(s("a"), s("x")), (s("k"), m.to_string()), (s("z"), s("yy"))]));
        }
    }
    // --- encoder error paths: a character Shift-JIS cannot represent (e-acute, check mark, emoji) at the
    // last / first / middle position and as the only character of a key, of the title, of a message.
    // `serialize` may refuse; if it accepts, the oracle demands the round trip of what it accepted.
    for (f, e) in combos {
        for bad in ["\u{E9}", "\u{2713}", "\u{1F600}"] {
            let shapes = [format!("Caf{}", bad), format!("{}afe", bad), format!("Ca{}fe", bad), bad.to_string()];
            for sh in &shapes {
                lines.push(rt_line(&mut n, f, e, "t", &[(sh.clone(), s("m"))]));
                lines.push(rt_line(&mut n, f, e, "t", &[(s("a"), s("x")), (sh.clone(), s("m")), (s("z"), s("y"))]));
                lines.push(rt_line(&mut n, f, e, sh, &[(s("k"), s("m"))]));
                lines.push(rt_line(&mut n, f, e, "t", &[(s("k"), sh.clone())]));
                lines.push(rt_line(&mut n, f, e, "t", &[(s("k"), s("m")), (s("l"), sh.clone())]));
            }
        }
        lines.push(rt_line(&mut n, f, e, "t", &[(s("k"), s("m\u{E9}\u{1F600}"))]));
        // NUL and the three lossy-but-encodable code points: outside the quantifier (oracle and
        // correspondence skip the lossy ones; the model follows the code on NUL)
        lines.push(rt_line(&mut n, f, e, "t", &[(s("k"), s("a\0b")), (s("l"), s("c"))]));
        lines.push(rt_line(&mut n, f, e, "t\0u", &[(s("k"), s("ab"))]));
        lines.push(rt_line(&mut n, f, e, "\u{A5}", &[(s("k\u{203E}"), s("m\u{2212}"))]));
    }
    // --- random archives
    let count = if thorough { 60000 } else { 10000 };
    for _ in 0..count {
        let (f, e) = *rng.pick(&combos);
        let tl = rng.range(0, 9) as usize;
        let title = if rng.chance(1, 4) { String::new() } else { sjis_string(rng, tl) };
        let ne = match rng.below(10) {
            0 => 0,
            1 => 1,
            _ => rng.range(1, if thorough { 12 } else { 7 }) as usize,
        };
        let keys = distinct_keys(rng, ne);
        let mut entries = Vec::new();
        for k in keys {
            let len = rng.range(0, 9) as usize;
            let m = if f == "S" { sjis_string(rng, len) } else { uni_string(rng, len) };
            entries.push((k, m));
        }
        lines.push(rt_line(&mut n, f, e, &title, &entries));
    }
    // --- archives that went through a history before being serialised: parsed (`P`: from_bytes of a
    // serialised archive) or built (`N`), then set_title / delete_message / set_message calls —
    // including histories without any set_message, histories whose last calls are deletes / title
    // changes, and histories that restore the original content
    let hs_line = |n: &mut usize, f: &str, e: &str, title: &str, entries: &[(String, String)], src: &str, ops: &[String]| -> String {
        let es: Vec<String> = entries.iter().map(|(k, m)| format!("{}:{}", hexs(k), hexs(m))).collect();
        let l = format!(
            "c06.{:06} hs {} {} {} {} {} {}",
            *n,
            f,
            e,
            hexs(title),
            if es.is_empty() { "~".to_string() } else { es.join(",") },
            src,
            if ops.is_empty() { "~".to_string() } else { ops.join(",") }
        );
        *n += 1;
        l
    };
    let abc = vec![(s("MID_A"), s("first")), (s("MID_B"), s("second")), (s("MID_C"), s("third"))];
    for (f, e) in combos {
        for src in ["P", "N"] {
            let fixed: Vec<Vec<String>> = vec![
                vec![],
                vec![format!("t:{}", hexs("Renamed"))],
                vec![format!("d:{}", hexs("MID_B"))],
                vec![format!("d:{}", hexs("MID_A")), format!("d:{}", hexs("MID_B")), format!("d:{}", hexs("MID_C"))],
                vec![format!("t:{}", hexs("")), format!("d:{}", hexs("MID_C"))],
                vec![format!("d:{}", hexs("nokey"))],
                vec![format!("t:{}", hexs("X")), format!("t:{}", hexs("Title"))],
                vec![format!("d:{}", hexs("MID_C")), format!("s:{}:{}", hexs("MID_C"), hexs("third"))],
                vec![format!("s:{}:{}", hexs("MID_B"), hexs("2nd")), format!("d:{}", hexs("MID_A")), format!("t:{}", hexs("T2"))],
                vec![format!("s:{}:{}", hexs("MID_D"), hexs("")), format!("d:{}", hexs("MID_D"))],
            ];
            for ops in &fixed {
                lines.push(hs_line(&mut n, f, e, "Title", &abc, src, ops));
            }
            lines.push(hs_line(&mut n, f, e, "Title", &[], src, &[format!("t:{}", hexs("Other"))]));
        }
    }
    let count = if thorough { 30000 } else { 3000 };
    for i in 0..count {
        let (f, e) = *rng.pick(&combos);
        let src = if i % 3 == 2 { "N" } else { "P" };
        let tl = rng.range(0, 6) as usize;
        let title = sjis_string(rng, tl);
        let ne = rng.range(0, 4) as usize;
        let keys = distinct_keys(rng, ne);
        let mut entries = Vec::new();
        for k in &keys {
            let len = rng.range(0, 6) as usize;
            entries.push((k.clone(), if f == "S" { sjis_string(rng, len) } else { uni_string(rng, len) }));
        }
        let class = rng.below(4); // 0: no set_message; 1: sets first, deletes / titles last; 2: mixed; 3: restore
        let nops = rng.range(1, 4) as usize;
        let mut ops: Vec<String> = Vec::new();
        let some_key = |rng: &mut Rng| -> String {
            if !keys.is_empty() && !rng.chance(1, 5) { rng.pick(&keys).clone() } else { sjis_string(rng, 2) }
        };
        let mk_set = |rng: &mut Rng, k: String| -> String {
            let len = rng.range(0, 5) as usize;
            format!("s:{}:{}", hexs(&k), hexs(&if f == "S" { sjis_string(rng, len) } else { uni_string(rng, len) }))
        };
        let mk_quiet = |rng: &mut Rng, k: String| -> String {
            if rng.chance(1, 2) {
                let l = rng.range(0, 5) as usize;
                format!("t:{}", hexs(&sjis_string(rng, l)))
            } else {
                format!("d:{}", hexs(&k))
            }
        };
        match class {
            0 => {
                for _ in 0..nops {
                    let k = some_key(rng);
                    ops.push(mk_quiet(rng, k));
                }
            }
            1 => {
                let k = some_key(rng);
                ops.push(mk_set(rng, k));
                for _ in 0..nops {
                    let k = some_key(rng);
                    ops.push(mk_quiet(rng, k));
                }
            }
            2 => {
                for _ in 0..nops {
                    let k = some_key(rng);
                    if rng.chance(1, 2) {
                        ops.push(mk_set(rng, k));
                    } else {
                        ops.push(mk_quiet(rng, k));
                    }
                }
            }
            _ => {
                // change, then restore: title back to the original, a deleted last key set again
                let l = rng.range(0, 5) as usize;
                ops.push(format!("t:{}", hexs(&sjis_string(rng, l))));
                if let Some((k, m)) = entries.last() {
                    if rng.chance(1, 2) {
                        ops.push(format!("d:{}", hexs(k)));
                        ops.push(format!("s:{}:{}", hexs(k), hexs(m)));
                    }
                }
                ops.push(format!("t:{}", hexs(&title)));
            }
        }
        lines.push(hs_line(&mut n, f, e, &title, &entries, src, &ops));
    }
    // --- exact lengths and counts: every encoded length 0..130 for the title, a key and the messages (ASCII, and a
    // mix with double-byte characters / surrogate pairs), both formats; entry counts around powers of two
    {
        let fill = |len: usize, salt: usize| -> String { (0..len).map(|i| (b'a' + ((i + salt) % 23) as u8) as char).collect() };
        // exactly `bytes` Shift-JIS bytes, double-byte katakana interleaved with ASCII
        let sj_mix = |bytes: usize, salt: usize| -> String {
            let mut out = String::new();
            let mut left = bytes;
            let mut i = salt;
            while left > 0 {
                if left >= 2 && i % 3 != 2 {
                    out.push(char::from_u32(0x30A1 + (i % 80) as u32).unwrap());
                    left -= 2;
                } else {
                    out.push((b'A' + (i % 26) as u8) as char);
                    left -= 1;
                }
                i += 1;
            }
            out
        };
        // exactly `units` UTF-16 units, surrogate pairs and BMP characters interleaved with ASCII
        let u_mix = |units: usize, salt: usize| -> String {
            let mut out = String::new();
            let mut left = units;
            let mut i = salt;
            while left > 0 {
                if left >= 2 && i % 4 == 0 {
                    out.push(char::from_u32(0x1F600 + (i % 40) as u32).unwrap());
                    left -= 2;
                } else if i % 4 == 1 {
                    out.push(char::from_u32(0x4E00 + (i % 200) as u32).unwrap());
                    left -= 1;
                } else {
                    out.push((b'A' + (i % 26) as u8) as char);
                    left -= 1;
                }
                i += 1;
            }
            out
        };
        let max_len = 130usize;
        for len in 0..=max_len {
            let e = if len % 2 == 0 { "L" } else { "B" };
            let e2 = if len % 2 == 0 { "B" } else { "L" };
            // ASCII: title, key and message all of this length
            lines.push(rt_line(&mut n, "S", e, &fill(len, 0), &[(fill(len, 1), fill(len, 2)), (s("zz"), fill(len, 3))]));
            lines.push(rt_line(&mut n, "U", e2, &fill(len, 0), &[(fill(len, 1), fill(len, 2)), (s("zz"), fill(len, 3))]));
            // mixes: double-byte characters in the Shift-JIS strings, surrogate pairs in the UTF-16 messages
            lines.push(rt_line(&mut n, "S", e2, "t", &[(s("a"), s("x")), (sj_mix(len, 1), sj_mix(len, 2)), (s("zz"), s(""))]));
            lines.push(rt_line(&mut n, "U", e, &sj_mix(len, 0), &[(sj_mix(len, 1), u_mix(len, 2)), (s("zz"), u_mix(len, 5))]));
        }
        for &count in &[0usize, 1, 2, 7, 8, 9, 15, 16, 17, 31, 32, 33, 63, 64, 65, 127, 128, 129] {
            for (f, e) in [("S", "L"), ("U", "B")] {
                let entries: Vec<(String, String)> = (0..count).map(|i| (format!("K{:03}", (i * 37) % 131), fill(i % 9, i))).collect();
                lines.push(rt_line(&mut n, f, e, "cnt", &entries));
            }
        }
    }
    // --- image sizes whose big-endian header words read SMALLER than the file when byte-swapped (total size exactly
    // 0x00020100 / 0x00030100 / 0x00030200; data size 0x00020100; 256 labels in a > 64 KiB file), with little-endian
    // controls: one 3-byte key (4-byte name pool) and one long message of the tuned length.
    // total = 0x20 + data + 8 * labels + name pool = data + 0x2C
    {
        let fill = |len: usize| -> String { (0..len).map(|i| (b'a' + (i % 23) as u8) as char).collect() };
        let mut sized = |lines: &mut Vec<String>, n: &mut usize, f: &str, e: &str, data: usize| {
            // legacy: data = pad4(len + 1); UTF-16: data = 4 (title "t") + 2 * units + 2
            let m = if f == "S" { fill(data - 1) } else { fill((data - 6) / 2) };
            lines.push(rt_line(n, f, e, "t", &[(s("key"), m)]));
        };
        let totals: Vec<usize> = if thorough { vec![0x20100, 0x30100, 0x30200] } else { vec![0x20100] };
        for &total in &totals {
            for f in ["S", "U"] {
                sized(lines, &mut n, f, "B", total - 0x2C);
                sized(lines, &mut n, f, "L", total - 0x2C);
            }
        }
        if thorough {
            for f in ["S", "U"] {
                sized(lines, &mut n, f, "B", 0x20100); // the data-size word
                let mut entries: Vec<(String, String)> = (0..255).map(|i| (format!("K{:03}", i), fill(i % 5))).collect();
                entries.push((s("long"), fill(70000)));
                lines.push(rt_line(&mut n, f, "B", "t", &entries)); // label count 0x100 reads 0x10000 swapped
            }
        }
    }
    // --- size thresholds (2^8, 2^15 UTF-16 units = 2^16 bytes, 2^16 Shift-JIS bytes): messages, titles and keys whose
    // encoded length is just below / at / above them, incl. a double-byte character (or a surrogate pair)
    // straddling the boundary, as first / middle / last entry; archives with more than 255 entries.
    // quick: a representative handful; thorough: the sweep.
    {
        // ASCII filler with a visible period, so that a shifted window is not masked by a uniform string
        let fill = |len: usize| -> String { (0..len).map(|i| (b'a' + (i % 23) as u8) as char).collect() };
        // legacy message / title / key of exactly `bytes` Shift-JIS bytes whose last character is double-byte and
        // starts at byte `bytes - 2` (straddles `bytes - 1`)
        let sj_straddle = |bytes: usize| -> String { fill(bytes - 2) + "\u{30DE}" };
        // UTF-16 message of exactly `units` units whose last scalar is a surrogate pair starting at unit `units - 2`
        let u_straddle = |units: usize| -> String { fill(units - 2) + "\u{1F600}" };
        let small: Vec<usize> = vec![255, 256, 257];
        let big_units: Vec<usize> = if thorough { vec![32766, 32767, 32768, 32769, 65535, 65536, 65537] } else { vec![32767, 32768] };
        let big_bytes: Vec<usize> = if thorough { vec![65534, 65535, 65536, 65537, 65538] } else { vec![65535, 65536] };
        let mut k = 0usize;
        let mut push = |lines: &mut Vec<String>, n: &mut usize, f: &str, title: &str, long_key: Option<&str>, m: &str| {
            // rotate endianness and the position of the long message
            let e = if k % 2 == 0 { "L" } else { "B" };
            let key = long_key.unwrap_or("long").to_string();
            let entries = match k % 3 {
                0 => vec![(key, m.to_string()), (s("z"), s("tail"))],
                1 => vec![(s("a"), s("head")), (key, m.to_string()), (s("z"), s(""))],
                _ => vec![(s("a"), s("")), (key, m.to_string())],
            };
            k += 1;
            lines.push(rt_line(n, f, e, title, &entries));
        };
        for &len in &small {
            push(lines, &mut n, "S", "t", None, &fill(len));
            push(lines, &mut n, "U", "t", None, &fill(len));
            push(lines, &mut n, "S", "t", None, &sj_straddle(len + 1));
            push(lines, &mut n, "U", "t", None, &u_straddle(len + 1));
            push(lines, &mut n, "U", &fill(len), None, "m");
            push(lines, &mut n, "U", &sj_straddle(len + 1), None, "m");
            push(lines, &mut n, "S", "t", Some(&fill(len)), "m");
            push(lines, &mut n, "U", "t", Some(&sj_straddle(len + 1)), "m");
        }
        for &units in &big_units {
            push(lines, &mut n, "U", "t", None, &fill(units));
            if thorough || units == 32768 {
                push(lines, &mut n, "U", "t", None, &u_straddle(units + 1));
            }
        }
        for &bytes in &big_bytes {
            push(lines, &mut n, "S", "t", None, &fill(bytes));
            if thorough || bytes == 65536 {
                push(lines, &mut n, "S", "t", None, &sj_straddle(bytes + 1));
                push(lines, &mut n, "U", &fill(bytes), None, "m");
            }
            if thorough {
                push(lines, &mut n, "U", &sj_straddle(bytes + 1), None, "m");
                push(lines, &mut n, "S", "t", Some(&fill(bytes)), "m");
                push(lines, &mut n, "U", "t", Some(&fill(bytes)), "m");
            }
        }
        // a second use: the long message parsed after a failing parse of its own truncated image
        {
            let es = [(s("long"), fill(300)), (s("z"), s("tail"))];
            let esx: Vec<String> = es.iter().map(|(k, m)| format!("{}:{}", hexs(k), hexs(m))).collect();
            lines.push(format!("c06.{:06} sec U B {} {} tr:1,tr:300", n, hexs("t"), esx.join(",")));
            n += 1;
        }
        // many entries: 256 / 257 (and 1000 in thorough) small messages
        for &count in if thorough { &[255usize, 256, 257, 1000][..] } else { &[256usize, 257][..] } {
            for (f, e) in [("S", "B"), ("U", "L")] {
                let entries: Vec<(String, String)> = (0..count).map(|i| (format!("MID_{:04}", (i * 7919) % 10007), fill(i % 6))).collect();
                lines.push(rt_line(&mut n, f, e, "many", &entries));
            }
        }
    }
    // --- second use: failing parses of damaged images (lost label terminator, truncated label table / data,
    // over-declared counts, a bogus pointer entry, an unterminated last name) in the same process and thread,
    // then the ordinary round trip, judged by the ordinary oracle
    let sec_line = |n: &mut usize, f: &str, e: &str, title: &str, entries: &[(String, String)], dmg: &[String]| -> String {
        let es: Vec<String> = entries.iter().map(|(k, m)| format!("{}:{}", hexs(k), hexs(m))).collect();
        let l = format!(
            "c06.{:06} sec {} {} {} {} {}",
            *n,
            f,
            e,
            hexs(title),
            if es.is_empty() { "~".to_string() } else { es.join(",") },
            if dmg.is_empty() { "~".to_string() } else { dmg.join(",") }
        );
        *n += 1;
        l
    };
    let mids = vec![(s("MID_FIRST"), s("Hello")), (s("MID_SECOND"), s("")), (s("MID_THIRD"), s("Good\\nbye"))];
    for (f, e) in combos {
        for dmg in [
            vec!["tr:1"],
            vec!["be:0:65"],
            vec!["tr:1", "tr:2", "tr:5"],
            vec!["tr:11"],
            vec!["tr:40"],
            vec!["w:12:1000"],
            vec!["w:4:100000"],
            vec!["w:8:1"],
            vec!["w:8:2", "tr:1"],
            vec!["tr:3", "w:12:0", "be:0:66", "tr:1"],
            vec![],
        ] {
            let d: Vec<String> = dmg.iter().map(|x| x.to_string()).collect();
            lines.push(sec_line(&mut n, f, e, "Title", &mids, &d));
        }
        lines.push(sec_line(&mut n, f, e, "", &[(s("k"), s("m"))], &[s("tr:1")]));
    }
    let count = if thorough { 15000 } else { 1500 };
    for _ in 0..count {
        let (f, e) = *rng.pick(&combos);
        let tl = rng.range(0, 5) as usize;
        let title = sjis_string(rng, tl);
        let ne = rng.range(1, 4) as usize;
        let keys = distinct_keys(rng, ne);
        let mut entries = Vec::new();
        for k in keys {
            let len = rng.range(0, 5) as usize;
            entries.push((k, if f == "S" { sjis_string(rng, len) } else { uni_string(rng, len) }));
        }
        let nd = rng.range(1, 3);
        let mut dmg = Vec::new();
        for _ in 0..nd {
            dmg.push(match rng.below(8) {
                0..=2 => format!("tr:{}", rng.range(1, 3)),
                3 => format!("tr:{}", rng.range(4, 40)),
                4 => format!("be:{}:{}", rng.range(0, 6), rng.range(0x41, 0x5A)),
                5 => format!("w:{}:{}", 4 * rng.range(1, 3), *rng.pick(&[0u32, 1, 5, 1000, 0x7fff_ffff])),
                6 => format!("w:{}:{}", 0x20 + 4 * rng.range(0, 16), *rng.pick(&[0u32, 3, 0xffff, 0x7fff_ffff])),
                _ => format!("b:{}:{}", rng.range(0x20, 0x60), rng.range(0, 255)),
            });
        }
        lines.push(sec_line(&mut n, f, e, &title, &entries, &dmg));
    }
    // --- from_archive on hand-built bin archives (reader model, not produced by the writer)
    let count = if thorough { 40000 } else { 6000 };
    for _ in 0..count {
        let (f, e) = *rng.pick(&combos);
        let mut data: Vec<u8> = Vec::new();
        let mut labels: Vec<(usize, String)> = Vec::new();
        let pad = |d: &mut Vec<u8>, rng: &mut Rng, exact: bool| {
            while d.len() % 4 != 0 {
                d.push(0);
            }
            if !exact && rng.chance(1, 10) {
                d.extend([0u8; 4]);
            }
        };
        if f == "U" {
            // the title is read with the Shift-JIS decoder: keep its bytes inside the sub-codec
            // (`SHIFT_JIS.decode` sniffs BOMs, which the shared codec model does not)
            let l = rng.range(0, 6) as usize;
            let t = sjis_string(rng, l);
            data.extend(encoding_sjis(&t));
            data.push(0);
            pad(&mut data, rng, false);
        }
        let nb = rng.range(0, 5) as usize;
        let keypool = ["a", "b", "MID_X", "", "ｱ"];
        for _ in 0..nb {
            let off = data.len();
            // labels: usually one, sometimes none / several / duplicates of earlier keys
            match rng.below(8) {
                0 => {}
                1 => {
                    labels.push((off, rng.pick(&keypool).to_string()));
                    labels.push((off, rng.pick(&keypool).to_string()));
                }
                _ => labels.push((off, rng.pick(&keypool).to_string())),
            }
            let len = rng.range(0, 5) as usize;
            if f == "S" {
                data.extend(encoding_sjis(&sjis_string(rng, len)));
                data.push(0);
            } else {
                for _ in 0..len {
                    // code units incl. lone surrogates (DecodingFailed) and units with a zero byte
                    let u: u16 = match rng.below(12) {
                        0 => rng.range(0xD800, 0xDBFF) as u16,
                        1 => rng.range(0xDC00, 0xDFFF) as u16,
                        2 => rng.range(1, 0xFF) as u16,
                        3 => (rng.range(1, 0xFF) as u16) << 8,
                        4 => 0xFEFF,
                        5 => 0xFFFE,
                        _ => rng.range(0x20, 0x7E) as u16,
                    };
                    if rng.chance(1, 12) {
                        // a valid pair
                        data.extend((0xD800u16 + rng.below(0x400) as u16).to_le_bytes());
                        data.extend((0xDC00u16 + rng.below(0x400) as u16).to_le_bytes());
                    }
                    data.extend(u.to_le_bytes());
                }
                data.extend([0u8, 0]);
            }
            pad(&mut data, rng, false);
        }
        // tail perturbations: unterminated string, size not a multiple of 4, stray label
        match rng.below(10) {
            0 => data.extend([0x41u8, 0x42, 0x43, 0x44]),
            1 => data.push(0x41),
            2 => {
                data.pop();
            }
            3 => {
                data.extend([0x41u8, 0]);
            }
            4 => {
                data.extend([0u8, 0, 0]);
            }
            _ => {}
        }
        if rng.chance(1, 8) {
            labels.push((data.len(), "end".to_string()));
        }
        if rng.chance(1, 8) && !data.is_empty() {
            labels.push((rng.below(data.len() as u64) as usize, "stray".to_string()));
        }
        if rng.chance(1, 30) {
            labels.push((data.len() + 1 + rng.below(4) as usize, "oob".to_string()));
        }
        let ls: Vec<String> = labels.iter().map(|(o, l)| format!("{}:{}", o, hexs(l))).collect();
        lines.push(format!("c06.{:06} fa {} {} {} {}", n, f, e, hex(&data), if ls.is_empty() { "~".to_string() } else { ls.join(",") }));
        n += 1;
    }
}

/// Shift-JIS bytes of a sub-codec string (generator side only; the implementation under test uses
/// encoding_rs through mila).
fn encoding_sjis(s: &str) -> Vec<u8> {
    let mut out = Vec::new();
    for ch in s.chars() {
        let c = ch as u32;
        match c {
            0..=0x7F => out.push(c as u8),
            0xFF61..=0xFF9F => out.push((c - 0xFF61 + 0xA1) as u8),
            0x3041..=0x3093 => {
                out.push(0x82);
                out.push((0x9F + (c - 0x3041)) as u8)
            }
            0x30A1..=0x30DF => {
                out.push(0x83);
                out.push((0x40 + (c - 0x30A1)) as u8)
            }
            0x30E0..=0x30F6 => {
                out.push(0x83);
                out.push((0x80 + (c - 0x30E0)) as u8)
            }
            _ => panic!("not in the sub-codec"),
        }
    }
    out
}

const C07_KEYS: [&str; 3] = ["a", "b", "c"];
// plain (2-byte char), escape sequence, real newline between a 3-byte and a 4-byte char, backslash mix
// plus code points whose low byte is 0x0A / 0x5C (U+4E0A, U+010A, U+4E5C) next to and away from real ones
const C07_MSGS: [&str; 4] = ["\u{4E0A}\u{E9}", "\\n", "\u{30DE}\n\u{1F600}\u{010A}", "\\\\nn\\\u{4E5C}"];

fn gen_c07(rng: &mut Rng, tier: &str, lines: &mut Vec<String>) {
    let thorough = tier == "thorough";
    let mut n = 0usize;
    // --- bounded-exhaustive: every history of exactly `depth` calls over set(3 keys x 4 messages) and
    // del(3 keys); the state after every call is printed, so all shorter histories are covered as prefixes.
    let mut ops: Vec<String> = Vec::new();
    for k in C07_KEYS {
        for m in C07_MSGS {
            ops.push(format!("set {} {}", hexs(k), hexs(m)));
        }
        ops.push(format!("del {}", hexs(k)));
    }
    let depth = 4; // all 5-call histories (759 375) are sampled below: the thorough outputs stay under ~50 MB
    let total = ops.len().pow(depth as u32);
    for h in 0..total {
        let id = format!("c07.{:07}", n);
        n += 1;
        lines.push(format!("{} new U L", id));
        let mut x = h;
        for _ in 0..depth {
            lines.push(format!("{} {}", id, ops[x % ops.len()]));
            x /= ops.len();
        }
    }
    // quick: a random sample of the depth-5 histories on top of all depth-4 ones
    {
        for _ in 0..(if thorough { 30000 } else { 3000 }) {
            let id = format!("c07.{:07}", n);
            n += 1;
            lines.push(format!("{} new {} {}", id, rng.pick(&["U", "S"]), rng.pick(&["L", "B"])));
            for _ in 0..5 {
                lines.push(format!("{} {}", id, rng.pick(&ops)));
            }
        }
    }
    // --- the parsing constructors (`from_bytes`, `BinArchive::from_bytes` + `from_archive`): the state right
    // after construction (dirty flag!) and after every history of exactly 2 calls, all 4 format x endian combinations
    for ctor in ["frombytes", "fromarchive"] {
        for (ci, (cf, ce)) in [("S", "L"), ("S", "B"), ("U", "L"), ("U", "B")].iter().enumerate() {
            let base = format!("{} {} {} {}:{},{}:{}", cf, ce, hexs("T"), hexs("a"), hexs("x"), hexs("b"), hexs("\\n"));
            let id = format!("c07.{:07}", n);
            n += 1;
            lines.push(format!("{} {} {} {} {} ~", id, ctor, cf, ce, hexs("")));
            for (i, o1) in ops.iter().enumerate() {
                for (j, o2) in ops.iter().enumerate() {
                    // all pairs for one combination per constructor, a third of them for the others
                    if ci != 0 && (i + j) % 3 != ci - 1 {
                        continue;
                    }
                    let id = format!("c07.{:07}", n);
                    n += 1;
                    lines.push(format!("{} {} {}", id, ctor, base));
                    lines.push(format!("{} {}", id, o1));
                    lines.push(format!("{} {}", id, o2));
                }
            }
        }
    }
    // --- multi-byte characters around line breaks: the published witnesses, and every order of
    // {ASCII, 2-byte, 3-byte, 4-byte character, newline} (120 messages), each set, looked up, stored back
    {
        let mut msgs: Vec<String> = vec![
            "caf\u{E9} au lait\nplease".to_string(),
            "\u{30DE}ab\nc".to_string(),
            "\u{30DE}\u{30EB}\u{30B9}\n\u{30B7}\u{30FC}\u{30C0}".to_string(),
            "\u{1F600}\n\u{1F600}\n\n\u{E9}".to_string(),
            "\u{E9}\\n\u{30DE}\\\u{1F600}n\n".to_string(),
        ];
        // code points whose low byte looks like a special ASCII byte: alone, next to a real newline /
        // backslash / n, and away from them
        for cp in ['\u{4E0A}', '\u{300A}', '\u{FF0A}', '\u{010A}', '\u{0A0A}', '\u{4E5C}', '\u{FF5C}', '\u{4E6E}', '\u{4E00}', '\u{0100}'] {
            msgs.push(cp.to_string());
            msgs.push(format!("{}\n{}", cp, cp));
            msgs.push(format!("\\{}n{}\\n", cp, cp));
            msgs.push(format!("ab{}cd\nef\\", cp));
        }
        let atoms = ['A', '\u{E9}', '\u{30DE}', '\u{1F600}', '\n'];
        let mut idx = [0usize, 1, 2, 3, 4];
        // Heap's algorithm, iterative
        let mut c = [0usize; 5];
        msgs.push(idx.iter().map(|i| atoms[*i]).collect());
        let mut i = 0;
        while i < 5 {
            if c[i] < i {
                if i % 2 == 0 {
                    idx.swap(0, i);
                } else {
                    idx.swap(c[i], i);
                }
                msgs.push(idx.iter().map(|i| atoms[*i]).collect());
                c[i] += 1;
                i = 0;
            } else {
                c[i] = 0;
                i += 1;
            }
        }
        for (mi, m) in msgs.iter().enumerate() {
            let id = format!("c07.{:07}", n);
            n += 1;
            lines.push(format!("{} new {} {}", id, if mi % 2 == 0 { "U" } else { "S" }, if mi % 4 < 2 { "L" } else { "B" }));
            lines.push(format!("{} set {} {}", id, hexs("k"), hexs(m)));
            lines.push(format!("{} get {}", id, hexs("k")));
            lines.push(format!("{} setget {}", id, hexs("k")));
            lines.push(format!("{} set {} {}", id, hexs("\u{30DE}\u{E9}"), hexs(m)));
            lines.push(format!("{} get {}", id, hexs("\u{30DE}\u{E9}")));
        }
    }
    // --- long histories: the dirty flag after EVERY one of 255 / 256 / 257 / 511 / 512 / 513 set_message calls
    // (thorough: also 65 535 / 65 536 / 65 537), on one key, a few rotating keys, all-distinct keys, with and without
    // interleaved deletes, starting from every constructor
    {
        let counts: Vec<usize> = vec![255, 256, 257, 511, 512, 513];
        let mut v = 0usize;
        for &count in &counts {
            // (nkeys, delete after every k-th set)
            let mut shapes: Vec<(usize, usize)> = vec![(1, 0), (3, 0), (3, 5), (1, 256)];
            if count <= 257 || (thorough && count <= 600) {
                shapes.push((count, 0)); // all keys distinct
                shapes.push((count, 7));
            } else {
                shapes.push((64, 9));
            }
            for (nkeys, delevery) in shapes {
                let id = format!("c07.{:07}", n);
                n += 1;
                let (f, e) = [("U", "L"), ("S", "B"), ("U", "B"), ("S", "L")][v % 4];
                match v % 3 {
                    0 => lines.push(format!("{} new {} {}", id, f, e)),
                    1 => lines.push(format!("{} frombytes {} {} {} {}:{}", id, f, e, hexs("T"), hexs("k0"), hexs("x"))),
                    _ => lines.push(format!("{} fromarchive {} {} {} {}:{},{}:{}", id, f, e, hexs("T"), hexs("q"), hexs("x"), hexs("k1"), hexs("y"))),
                }
                v += 1;
                lines.push(format!("{} sets {} {} {}", id, count, nkeys, delevery));
                // the state keeps being observed afterwards: one more set makes 256 -> 257 etc.
                lines.push(format!("{} has {}", id, hexs("k0")));
                lines.push(format!("{} sets 1 1 0", id));
                lines.push(format!("{} del {}", id, hexs("k0")));
            }
        }
        if thorough {
            // one u16-sized run: 65 536 sets of a single one-character key (compact state), then one more
            let id = format!("c07.{:07}", n);
            n += 1;
            lines.push(format!("{} new U L", id));
            lines.push(format!("{} sets 65535 1 0", id));
            lines.push(format!("{} sets 1 1 0", id));
            lines.push(format!("{} sets 1 1 0", id));
        }
        // the same through ordinary one-call lines (full state and oracle after every call): 257 sets of one key
        let id = format!("c07.{:07}", n);
        n += 1;
        lines.push(format!("{} new U L", id));
        for i in 0..257 {
            lines.push(format!("{} set {} {}", id, hexs("k"), hexs(&format!("m{}", i % 5))));
        }
    }
    // --- random long histories over a 5-key pool, messages over {'\\','n','\n','x'}
    let keys = ["a", "b", "c", "MID_キイ", ""];
    // messages mix ASCII, 2-, 3- and 4-byte UTF-8 characters with newlines, backslashes and `n`
    // and code points whose low byte equals '\n' / '\\' / 'n' / NUL
    let alpha = ['\\', 'n', '\n', '\n', 'x', '\u{E9}', '\u{30DE}', '\u{1F600}', '\u{4E0A}', '\u{300A}', '\u{FF0A}', '\u{010A}', '\u{4E5C}', '\u{4E6E}', '\u{4E00}', '\u{0100}'];
    // what a constructor serialises must stay inside the Shift-JIS sub-codec
    let calpha = ['\\', 'n', '\n', 'x', '\u{30DE}'];
    let count = if thorough { 4000 } else { 300 };
    for _ in 0..count {
        let id = format!("c07.{:07}", n);
        n += 1;
        let (cf, ce) = (*rng.pick(&["U", "S"]), *rng.pick(&["L", "B"]));
        // every public constructor: new / from_bytes / from_archive
        match rng.below(3) {
            0 => lines.push(format!("{} new {} {}", id, cf, ce)),
            c => {
                let tl = rng.range(0, 3);
                let t: String = (0..tl).map(|_| *rng.pick(&calpha)).collect();
                let ne = rng.range(0, 3) as usize;
                let es: Vec<String> = (0..ne)
                    .map(|_| {
                        let ml = rng.range(0, 4);
                        let m: String = (0..ml).map(|_| *rng.pick(&calpha)).collect();
                        format!("{}:{}", hexs(*rng.pick(&keys)), hexs(&m))
                    })
                    .collect();
                lines.push(format!(
                    "{} {} {} {} {} {}",
                    id,
                    if c == 1 { "frombytes" } else { "fromarchive" },
                    cf,
                    ce,
                    hexs(&t),
                    if es.is_empty() { "~".to_string() } else { es.join(",") }
                ));
            }
        }
        let len = rng.range(1, 60);
        let nk = rng.range(1, 5) as usize;
        for _ in 0..len {
            let k = hexs(keys[rng.below(nk as u64) as usize]);
            let l = match rng.below(20) {
                0..=8 => {
                    let ml = rng.range(0, 6);
                    let m: String = (0..ml).map(|_| *rng.pick(&alpha)).collect();
                    format!("set {} {}", k, hexs(&m))
                }
                9..=12 => format!("del {}", k),
                13..=14 => format!("get {}", k),
                15 => format!("has {}", k),
                16..=18 => format!("setget {}", k),
                _ => {
                    let tl = rng.range(0, 4);
                    let t: String = (0..tl).map(|_| *rng.pick(&alpha)).collect();
                    format!("title {}", hexs(&t))
                }
            };
            lines.push(format!("{} {}", id, l));
        }
    }
    // --- the dirty flag of a *parsed* archive: serialize + from_bytes, judged on `dirty` only
    let combos = [("S", "L"), ("S", "B"), ("U", "L"), ("U", "B")];
    for i in 0..(if thorough { 400 } else { 60 }) {
        let (f, e) = combos[i % 4];
        let ne = rng.range(1, 4) as usize;
        let keys = distinct_keys(rng, ne);
        let entries: Vec<String> = keys
            .iter()
            .map(|k| {
                let len = rng.range(0, 5) as usize;
                format!("{}:{}", hexs(k), hexs(&sjis_string(rng, len)))
            })
            .collect();
        lines.push(format!("c07.{:07} rtd {} {} {} {}", n, f, e, hexs(&sjis_string(rng, 2)), if entries.is_empty() { "~".to_string() } else { entries.join(",") }));
        n += 1;
    }
}

/// Which property's sub-stream to generate.  The family serves two properties; the orchestrator
/// exports the property id as `VERIF_PROP`; without it both sub-streams are generated.
fn wanted() -> (bool, bool) {
    let hint = std::env::var("VERIF_PROP").unwrap_or_default();
    let c06 = hint.contains("C06");
    let c07 = hint.contains("C07");
    if c06 == c07 {
        (true, true)
    } else {
        (c06, c07)
    }
}

pub fn gen(seed: u64, tier: &str) -> Vec<String> {
    let (c06, c07) = wanted();
    let mut lines = Vec::new();
    if c06 {
        let mut rng = Rng::new(seed ^ 0xC06);
        gen_c06(&mut rng, tier, &mut lines);
    }
    if c07 {
        let mut rng = Rng::new(seed ^ 0xC07);
        gen_c07(&mut rng, tier, &mut lines);
    }
    lines
}
