//! Family `text`: C06 C07 — text archives.  (stub)
#![allow(unused)]
use crate::util::*;

pub fn gen(_seed: u64, _tier: &str) -> Vec<String> {
    Vec::new()
}

pub fn run_line(_st: &mut super::State, line: &str) -> String {
    let id = line.split(' ').next().unwrap_or("?");
    format!("{} unimplemented", id)
}
