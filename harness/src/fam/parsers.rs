//! Family `parsers`: C05 — parser totality on arbitrary bytes.
//!
//! case line : `<id> parse <entry> <hex>`
//! impl line : `<id> <class> req=<ok|BIG:n> reser=<ok|err|panic|-> <content>`
//!   class    : `ok`, `err`, `panic` (`abort` is written by `run-isolated` when the process dies)
//!   req      : largest single allocation request while parsing, `ok` when <= 256*len + 64 KiB
//!   reser    : outcome class of re-serialising an accepted value (`np` = "did not panic" when the content is dirty)
//!   content  : `clean <canonical dump>` when every decoded string lies in the sub-codec alphabet and
//!              the input holds no BOM-like byte pair, else `dirty <coarse counts>`
//!
//! Entries: binLE binBE textSjisLE textSjisBE textUniLE textUniBE arc pack aset asset.
use crate::util::*;
use indexmap::IndexMap;
use mila::*;

pub const ENTRIES: [&str; 10] = [
    "binLE", "binBE", "textSjisLE", "textSjisBE", "textUniLE", "textUniBE", "arc", "pack", "aset", "asset",
];

// ------------------------------------------------------------------------------------------
// alphabet shared with the Lean sub-codec (Model/Codec.lean)
// ------------------------------------------------------------------------------------------

pub fn in_sub_alphabet(s: &str) -> bool {
    crate::subcodec::all_in_alphabet(s)
}

/// Input bytes that make `encoding_rs`' BOM sniffing kick in somewhere are not compared in detail.
pub fn tainted(bytes: &[u8]) -> bool {
    bytes.windows(2).any(|w| matches!(w, [0xFE, 0xFF] | [0xFF, 0xFE] | [0xEF, 0xBB]))
}

const WORDS: [&str; 14] = [
    "a", "Count", "Info", "MID_A", "xyz", "ｱｲｳ", "あいう", "ソース", "ポ", "", "name_01", "AnimClipNameTable", "T", "m/x.bin",
];

fn word(rng: &mut Rng) -> String {
    rng.pick(&WORDS).to_string()
}
fn nonempty_word(rng: &mut Rng) -> String {
    loop {
        let w = word(rng);
        if !w.is_empty() {
            return w;
        }
    }
}

// ------------------------------------------------------------------------------------------
// valid seed files, built with the library's own writers
// ------------------------------------------------------------------------------------------

fn seed_bin(rng: &mut Rng, endian: Endian) -> Vec<u8> {
    let mut a = BinArchive::new(endian);
    let cells = rng.below(8) as usize;
    a.allocate_at_end(cells * 4 + rng.below(4) as usize);
    for c in 0..cells {
        match rng.below(5) {
            0 => a.write_string(c * 4, Some(&word(rng))).unwrap(),
            1 => a.write_pointer(c * 4, Some(rng.below(cells as u64 + 1) as usize * 4)).unwrap(),
            2 => a.write_u32(c * 4, rng.next() as u32).unwrap(),
            _ => {}
        }
        if rng.chance(1, 3) {
            a.write_label(c * 4, &nonempty_word(rng)).unwrap();
        }
    }
    if rng.chance(1, 3) {
        a.write_label(a.size(), "end").unwrap();
    }
    a.serialize().unwrap()
}

fn seed_text(rng: &mut Rng, format: TextArchiveFormat, endian: Endian) -> Vec<u8> {
    let mut t = TextArchive::new(format, endian);
    t.set_title(word(rng));
    for i in 0..rng.below(5) {
        t.set_message(&format!("K{}{}", i, nonempty_word(rng)), &word(rng));
    }
    t.serialize().unwrap()
}

pub fn build_arc(files: &[(String, Vec<u8>)], padded: bool, rng: &mut Rng) -> Vec<u8> {
    let mut a = BinArchive::new(Endian::Little);
    let hdr = if padded { 0x60 } else { 0 };
    let mut body = Vec::new();
    let mut offsets = Vec::new();
    if !padded {
        body.extend_from_slice(&[0x12, 0x34, 0x56, 0x78]); // first word non-zero
    }
    for (_, b) in files {
        offsets.push(body.len());
        body.extend_from_slice(b);
        while body.len() % 4 != 0 {
            body.push(0xEE);
        }
    }
    let count_at = hdr + body.len();
    let info_at = count_at + 4;
    a.allocate_at_end(info_at + 16 * files.len());
    if !body.is_empty() {
        a.write_bytes(hdr, &body).unwrap();
    }
    a.write_label(count_at, "Count").unwrap();
    a.write_u32(count_at, files.len() as u32).unwrap();
    a.write_label(info_at, "Info").unwrap();
    let mut order: Vec<usize> = (0..files.len()).collect();
    rng.shuffle(&mut order);
    for (slot, &i) in order.iter().enumerate() {
        let at = info_at + 16 * slot;
        a.write_string(at, Some(&files[i].0)).unwrap();
        a.write_u32(at + 4, i as u32).unwrap();
        a.write_u32(at + 8, files[i].1.len() as u32).unwrap();
        a.write_u32(at + 12, offsets[i] as u32).unwrap();
    }
    a.serialize().unwrap()
}

fn seed_arc(rng: &mut Rng) -> Vec<u8> {
    let n = rng.below(4) as usize;
    let mut files = Vec::new();
    for i in 0..n {
        let len = rng.below(10) as usize;
        files.push((format!("f{}{}", i, word(rng)), rng.bytes(len)));
    }
    let padded = rng.chance(1, 2);
    build_arc(&files, padded, rng)
}

fn seed_pack(rng: &mut Rng) -> Vec<u8> {
    let mut m: IndexMap<String, Vec<u8>> = IndexMap::new();
    for i in 0..rng.below(4) {
        let len = rng.below(40) as usize;
        m.insert(format!("p{}{}", i, word(rng)), rng.bytes(len));
    }
    fe9_arc::serialize(&m).unwrap()
}

fn seed_aset(rng: &mut Rng) -> Vec<u8> {
    let mut f = ASetFile::new(if rng.chance(1, 2) { Some(word(rng)) } else { None });
    for _ in 0..257 {
        f.anim_clip_table.push(if rng.chance(1, 20) { Some(word(rng)) } else { None });
    }
    for _ in 0..rng.below(3) {
        let mut set: Vec<Option<String>> = vec![None; 257];
        if rng.chance(2, 3) {
            set[0] = Some(nonempty_word(rng));
        }
        for _ in 0..rng.below(6) {
            let i = 1 + rng.below(256) as usize;
            set[i] = Some(word(rng));
        }
        f.sets.push(set);
    }
    f.serialize().unwrap()
}

fn seed_asset(rng: &mut Rng) -> Vec<u8> {
    let mut b = AssetBinary::new();
    b.flags = rng.next() as u32;
    for _ in 0..rng.below(4) {
        let mut s = AssetSpec::new();
        if rng.chance(2, 3) {
            s.name = Some(word(rng));
        }
        if rng.chance(1, 2) {
            s.body_model = Some(word(rng));
        }
        if rng.chance(1, 3) {
            s.voice = Some(word(rng));
        }
        if rng.chance(1, 3) {
            s.use_hair_color = true;
            s.hair_color = [1, 2, 3, 4];
        }
        if rng.chance(1, 3) {
            s.use_model_size = true;
            s.model_size = f32::from_bits(rng.next() as u32);
        }
        if rng.chance(1, 3) {
            s.use_unk13 = true;
            s.unk13 = rng.next() as u32;
        }
        b.specs.push(s);
    }
    b.serialize().unwrap()
}

/// A *valid* bin-archive container around arbitrary payload: any data length (odd sizes, unaligned
/// tails), bytes biased towards the values readers branch on (0x00, 0x01, 0xFF, ASCII, flag-like
/// words), strings / pointers on random cells and the labels the layered readers look up, at
/// random addresses.  Every layered reader (text, arc, aset, asset) is then run on a container it can
/// open, so its own loops see arbitrary contents instead of dying in `BinArchive::from_bytes`.
fn seed_container(rng: &mut Rng, endian: Endian) -> Vec<u8> {
    let mut a = BinArchive::new(endian);
    let size = match rng.below(4) {
        0 => rng.below(12) as usize,
        1 => (rng.below(16) * 4) as usize,
        _ => rng.below(80) as usize,
    };
    a.allocate_at_end(size);
    let style = rng.below(5);
    for i in 0..size {
        let b = match style {
            0 => 0u8,
            1 => *rng.pick(&[0u8, 0, 0, 1, 0xFF, 0x61, 0x80]),
            2 => rng.next() as u8,
            3 => *rng.pick(&[0x61u8, 0x62, 0x00, 0x30, 0xD8, 0xDC, 0x3D, 0xDE]), // UTF-16 surrogate halves included
            _ => if rng.chance(1, 6) { 0 } else { 0x41 + (rng.below(26) as u8) },
        };
        a.write_u8(i, b).unwrap();
    }
    // flag-like / count-like words on some cells
    for c in 0..(size / 4) {
        match rng.below(8) {
            0 => a.write_u32(c * 4, *rng.pick(&[0u32, 1, 2, 3, 0xFF, 0x100, 0x101, 0xFFFF_FFFF, 0x8000_0000, 7, 0x1F])).unwrap(),
            1 => a.write_string(c * 4, Some(&word(rng))).unwrap(),
            2 => a.write_pointer(c * 4, Some(rng.below(size as u64 + 1) as usize)).unwrap(),
            _ => {}
        }
    }
    let names = ["Count", "Info", "AnimClipNameTable", "K", "MID_A", "T"];
    for _ in 0..rng.below(4) {
        let addr = rng.below(size as u64 + 1) as usize;
        let _ = a.write_label(addr, *rng.pick(&names));
    }
    if size >= 4 && rng.chance(1, 2) {
        let _ = a.write_label(0, *rng.pick(&names));
    }
    a.serialize().unwrap()
}

pub fn seed_file(entry: &str, rng: &mut Rng) -> Vec<u8> {
    if entry != "pack" && rng.chance(1, 3) {
        let e = if entry.ends_with("BE") { Endian::Big } else { Endian::Little };
        return seed_container(rng, e);
    }
    match entry {
        "binLE" => seed_bin(rng, Endian::Little),
        "binBE" => seed_bin(rng, Endian::Big),
        "textSjisLE" => seed_text(rng, TextArchiveFormat::ShiftJIS, Endian::Little),
        "textSjisBE" => seed_text(rng, TextArchiveFormat::ShiftJIS, Endian::Big),
        "textUniLE" => seed_text(rng, TextArchiveFormat::Unicode, Endian::Little),
        "textUniBE" => seed_text(rng, TextArchiveFormat::Unicode, Endian::Big),
        "arc" => seed_arc(rng),
        "pack" => seed_pack(rng),
        "aset" => seed_aset(rng),
        "asset" => seed_asset(rng),
        _ => panic!("entry {}", entry),
    }
}

// ------------------------------------------------------------------------------------------
// mutations
// ------------------------------------------------------------------------------------------

const PLANT: [u32; 22] = [
    0, 1, 2, 3, 4, 5, 7, 8, 0x1F, 0x20, 0x21, 0x100, 0xFFFF, 0x10000, 0x100000, 0x0100_0000, 0x3FFF_FFFF, 0x4000_0000, 0x7FFF_FFFF,
    0x8000_0000, 0xFFFF_FFF0, 0xFFFF_FFFF,
];

fn put_u32(v: &mut [u8], at: usize, x: u32, big: bool) {
    if at + 4 <= v.len() {
        let b = if big { x.to_be_bytes() } else { x.to_le_bytes() };
        v[at..at + 4].copy_from_slice(&b);
    }
}

fn is_big(entry: &str) -> bool {
    entry.ends_with("BE") || entry == "pack"
}

/// Word positions worth planting values into: the header and both tables of a bin image, the
/// count and entry fields of a pack image.
fn field_positions(entry: &str, file: &[u8]) -> Vec<usize> {
    let mut pos = vec![0usize, 4, 8, 12];
    if entry == "pack" {
        pos = vec![0, 4, 8, 12, 16, 20, 24, 28, 32, 36];
        return pos.into_iter().filter(|p| p + 4 <= file.len()).collect();
    }
    if file.len() >= 0x20 {
        let big = is_big(entry);
        let rd = |at: usize| {
            let b = [file[at], file[at + 1], file[at + 2], file[at + 3]];
            (if big { u32::from_be_bytes(b) } else { u32::from_le_bytes(b) }) as usize
        };
        let data = rd(4);
        let np = rd(8);
        let nl = rd(12);
        // data words (pointer / string cells, counts, sizes, offsets): all of them for small data
        // regions, else the first 8 and the last 56 (record tables sit at the end of an arc image,
        // after the 0x60-byte zero header and the bodies)
        let words = data / 4;
        for k in 0..words {
            if words <= 64 || k < 8 || k + 56 >= words {
                pos.push(0x20 + 4 * k);
            }
        }
        for k in 0..(np + 2 * nl).min(24) {
            pos.push(0x20 + data + 4 * k);
        }
    }
    pos.into_iter().filter(|p| p + 4 <= file.len()).collect()
}

fn mutate(entry: &str, file: &[u8], rng: &mut Rng) -> Vec<u8> {
    let mut v = file.to_vec();
    match rng.below(11) {
        0 | 1 | 2 | 3 => {
            // plant one or two boundary values
            let pos = field_positions(entry, &v);
            for _ in 0..rng.range(1, 2) {
                if pos.is_empty() {
                    break;
                }
                let at = *rng.pick(&pos);
                let base = match rng.below(4) {
                    0 => *rng.pick(&PLANT),
                    1 => v.len() as u32,
                    2 => (v.len() as u32).wrapping_sub(0x20),
                    _ => *rng.pick(&PLANT),
                };
                let x = base.wrapping_add(rng.below(3) as u32).wrapping_sub(1);
                put_u32(&mut v, at, x, is_big(entry));
            }
        }
        9 => {
            // wrap-around candidates in the tail of the data region (arc records, pack entries, last cells)
            let big = is_big(entry);
            let rd = |v: &[u8], at: usize| {
                let b = [v[at], v[at + 1], v[at + 2], v[at + 3]];
                (if big { u32::from_be_bytes(b) } else { u32::from_le_bytes(b) }) as usize
            };
            if v.len() >= 0x24 && entry != "pack" {
                let data = rd(&v, 4).min(v.len() - 0x20);
                let words = data / 4;
                if words > 0 {
                    let k = words - 1 - rng.below(words.min(16) as u64) as usize;
                    let high: [u32; 12] = [
                        0xFFFF_FFFF, 0xFFFF_FFFE, 0xFFFF_FFA0, 0xFFFF_FF9F, 0xFFFF_FFA1, 0xFFFF_FFF0, 0x8000_0000, 0x7FFF_FFFF,
                        data as u32, (data as u32).wrapping_sub(1), (data as u32).wrapping_add(1), (data as u32).wrapping_sub(0x60),
                    ];
                    put_u32(&mut v, 0x20 + 4 * k, *rng.pick(&high), big);
                }
            } else if entry == "pack" && v.len() >= 24 {
                let k = rng.range(2, 5) as usize; // fields of the first entry
                let high: [u32; 6] = [0xFFFF_FFFF, 0xFFFF_FFE0, 0x8000_0000, v.len() as u32, v.len() as u32 + 1, (v.len() as u32).wrapping_sub(1)];
                put_u32(&mut v, 8 + 4 * k - 8, *rng.pick(&high), true);
            }
        }
        4 | 5 => {
            // truncate, preferring field boundaries
            let cut = if rng.chance(1, 2) { (rng.below(v.len() as u64 / 4 + 1) * 4) as usize } else { rng.below(v.len() as u64 + 1) as usize };
            v.truncate(cut.min(v.len()));
        }
        6 => {
            // bit flips
            for _ in 0..rng.range(1, 4) {
                if v.is_empty() {
                    break;
                }
                let i = rng.below(v.len() as u64) as usize;
                v[i] ^= 1 << rng.below(8);
            }
        }
        7 => {
            // overwrite a short range with random bytes
            if !v.is_empty() {
                let i = rng.below(v.len() as u64) as usize;
                let n = rng.range(1, 8) as usize;
                for k in i..(i + n).min(v.len()) {
                    v[k] = rng.next() as u8;
                }
            }
        }
        8 => {
            // append garbage / zero padding
            let n = rng.range(1, 40) as usize;
            if rng.chance(1, 2) {
                v.extend(std::iter::repeat(0).take(n));
            } else {
                v.extend(rng.bytes(n));
            }
        }
        _ => {} // unmodified valid file
    }
    v
}

pub fn gen(seed: u64, tier: &str) -> Vec<String> {
    let mut rng = Rng::new(seed ^ 0xC05);
    let per_entry = if tier == "thorough" { 20000 } else { 1500 };
    let mut lines = Vec::new();
    let mut n = 0usize;
    let mut push = |lines: &mut Vec<String>, entry: &str, bytes: &[u8]| {
        lines.push(format!("c05.{:06} parse {} {}", n, entry, hex(bytes)));
        n += 1;
    };
    for entry in ENTRIES.iter() {
        // tiny inputs, exhaustively up to length 1 and a few of length 2..3
        push(&mut lines, entry, &[]);
        for b in [0u8, 1, 0x10, 0x11, 0x13, 0x20, 0x70, 0x7F, 0x80, 0xFF] {
            push(&mut lines, entry, &[b]);
            push(&mut lines, entry, &[b, 0]);
            push(&mut lines, entry, &[0x70, 0x61, 0x63, 0x6B, b]);
        }
        // zero / 0xFF blocks around the header size
        for len in [4usize, 8, 16, 31, 32, 33, 36, 40, 64, 128] {
            push(&mut lines, entry, &vec![0u8; len]);
            push(&mut lines, entry, &vec![0xFFu8; len]);
        }
        for i in 0..per_entry {
            if i % 10 == 9 {
                let len = rng.below(600) as usize;
                let b = rng.bytes(len);
                push(&mut lines, entry, &b);
            } else {
                let file = seed_file(entry, &mut rng);
                if i % 3 == 0 {
                    push(&mut lines, entry, &file); // as written: a valid container, arbitrary payload
                } else {
                    let m = mutate(entry, &file, &mut rng);
                    push(&mut lines, entry, &m);
                }
            }
        }
    }
    lines
}

// ------------------------------------------------------------------------------------------
// running one case
// ------------------------------------------------------------------------------------------

struct Dump {
    clean: bool,
    text: String,
    coarse: String,
}

fn hs(s: &str, clean: &mut bool) -> String {
    if !in_sub_alphabet(s) {
        *clean = false;
    }
    hexs(s)
}

pub fn dump_bin(a: &BinArchive) -> (bool, String, String) {
    let mut clean = true;
    let size = a.size();
    let mut text = Vec::new();
    let mut ptr = Vec::new();
    if size >= 4 {
        for addr in 0..=(size - 4) {
            if let Ok(Some(s)) = a.read_string(addr) {
                text.push(format!("{}:{}", addr, hs(&s, &mut clean)));
            }
            if let Ok(Some(p)) = a.read_pointer(addr) {
                ptr.push(format!("{}:{}", addr, p));
            }
        }
    }
    let labels: Vec<String> = a.all_labels().iter().map(|(k, l)| format!("{}:{}", k, hs(l, &mut clean))).collect();
    let data = a.read_bytes(0, size).map(|b| hex(b)).unwrap_or_else(|_| "-".into());
    let full = format!("size={} data={} text=[{}] ptr=[{}] labels=[{}]", size, data, text.join(","), ptr.join(","), labels.join(","));
    let coarse = format!("size={} ntext={} nptr={} nlabels={}", size, text.len(), ptr.len(), labels.len());
    (clean, full, coarse)
}

fn opt(s: &Option<String>, clean: &mut bool) -> String {
    match s {
        Some(s) => hs(s, clean),
        None => "~".into(),
    }
}

/// Parses `bytes` with `entry`; returns (class, dump, reserialise class).
fn parse_entry(entry: &str, bytes: &[u8]) -> (String, Option<Dump>, String) {
    fn class<T, E>(r: &Result<T, E>) -> &'static str {
        if r.is_ok() { "ok" } else { "err" }
    }
    let reser = |f: &mut dyn FnMut() -> bool| -> String {
        match no_panic(|| f()) {
            Ok(true) => "ok".into(),
            Ok(false) => "err".into(),
            Err(_) => "panic".into(),
        }
    };
    match entry {
        "binLE" | "binBE" => {
            let e = if entry == "binLE" { Endian::Little } else { Endian::Big };
            let r = BinArchive::from_bytes(bytes, e);
            let c = class(&r).to_string();
            match r {
                Ok(a) => {
                    let (clean, text, coarse) = dump_bin(&a);
                    let rs = reser(&mut || a.serialize().is_ok());
                    (c, Some(Dump { clean, text, coarse }), rs)
                }
                Err(_) => (c, None, "-".into()),
            }
        }
        "textSjisLE" | "textSjisBE" | "textUniLE" | "textUniBE" => {
            let fmt = if entry.starts_with("textSjis") { TextArchiveFormat::ShiftJIS } else { TextArchiveFormat::Unicode };
            let e = if entry.ends_with("LE") { Endian::Little } else { Endian::Big };
            let r = TextArchive::from_bytes(bytes, fmt, e);
            let c = class(&r).to_string();
            match r {
                Ok(t) => {
                    let mut clean = true;
                    let title = hs(t.get_title(), &mut clean);
                    let mut ents = Vec::new();
                    for (k, v) in t.get_entries() {
                        let key = hs(k, &mut clean);
                        // UTF-16 messages are arbitrary Unicode: compared in full (hex of UTF-8)
                        let val = if entry.starts_with("textSjis") { hs(v, &mut clean) } else { hexs(v) };
                        ents.push(format!("{}={}", key, val));
                    }
                    let rs = reser(&mut || t.serialize().is_ok());
                    let text = format!("title={} entries=[{}]", title, ents.join(","));
                    (c, Some(Dump { clean, text, coarse: "text".into() }), rs)
                }
                Err(_) => (c, None, "-".into()),
            }
        }
        "arc" => {
            let r = arc::from_bytes(bytes);
            let c = class(&r).to_string();
            match r {
                Ok(m) => {
                    let mut clean = true;
                    let mut v: Vec<String> = m.iter().map(|(k, b)| format!("{}={}", hs(k, &mut clean), hex(b))).collect();
                    v.sort();
                    (c, Some(Dump { clean, text: format!("files=[{}]", v.join(",")), coarse: "arc".into() }), "-".into())
                }
                Err(_) => (c, None, "-".into()),
            }
        }
        "pack" => {
            let r = fe9_arc::parse(bytes);
            let c = class(&r).to_string();
            match r {
                Ok(m) => {
                    let mut clean = true;
                    let v: Vec<String> = m.iter().map(|(k, b)| format!("{}={}", hs(k, &mut clean), hex(b))).collect();
                    let rs = reser(&mut || fe9_arc::serialize(&m).is_ok());
                    (c, Some(Dump { clean, text: format!("files=[{}]", v.join(",")), coarse: "pack".into() }), rs)
                }
                Err(_) => (c, None, "-".into()),
            }
        }
        "aset" => {
            let r = BinArchive::from_bytes(bytes, Endian::Little).and_then(|a| ASetFile::from_archive(&a));
            let c = class(&r).to_string();
            match r {
                Ok(f) => {
                    let mut clean = true;
                    let _ = opt(&f.meta, &mut clean);
                    for x in f.anim_clip_table.iter().chain(f.sets.iter().flatten()) {
                        let _ = opt(x, &mut clean);
                    }
                    let rs = reser(&mut || f.serialize().is_ok());
                    let text = crate::fam::aset::show_file(&f);
                    let coarse = format!("nsets={}", f.sets.len());
                    (c, Some(Dump { clean, text, coarse }), rs)
                }
                Err(_) => (c, None, "-".into()),
            }
        }
        "asset" => {
            let r = BinArchive::from_bytes(bytes, Endian::Little).and_then(|a| AssetBinary::from_archive(&a));
            let c = class(&r).to_string();
            match r {
                Ok(b) => {
                    let mut clean = true;
                    for s in &b.specs {
                        for f in all_strings(s) {
                            if let Some(x) = f {
                                if !in_sub_alphabet(x) {
                                    clean = false;
                                }
                            }
                        }
                    }
                    let rs = reser(&mut || b.serialize().is_ok());
                    let text = crate::fam::asset::show_binary(&b);
                    let coarse = format!("flags={} nspecs={}", b.flags, b.specs.len());
                    (c, Some(Dump { clean, text, coarse }), rs)
                }
                Err(_) => (c, None, "-".into()),
            }
        }
        _ => panic!("entry {}", entry),
    }
}

pub fn all_strings(s: &AssetSpec) -> Vec<&Option<String>> {
    vec![
        &s.name, &s.conditional1, &s.conditional2, &s.body_model, &s.body_texture, &s.head_model, &s.head_texture, &s.hair_model,
        &s.hair_texture, &s.outer_clothing_model, &s.outer_clothing_texture, &s.underwear_model, &s.underwear_texture, &s.mount_model,
        &s.mount_texture, &s.mount_outer_clothing_model, &s.mount_outer_clothing_texture, &s.weapon_model_dual, &s.weapon_model,
        &s.skeleton, &s.mount_skeleton, &s.accessory1_model, &s.accessory1_texture, &s.accessory2_model, &s.accessory2_texture,
        &s.accessory3_model, &s.accessory3_texture, &s.attack_animation, &s.attack_animation2, &s.visual_effect, &s.hid,
        &s.footstep_sound, &s.clothing_sound, &s.voice,
    ]
}

pub fn run_line(_st: &mut super::State, line: &str) -> String {
    let f: Vec<&str> = line.split(' ').collect();
    let id = f[0];
    let entry = f[2];
    let bytes = unhex(f[3]);
    let taint = tainted(&bytes);
    crate::alloc::max_request_reset();
    let r = no_panic(|| parse_entry(entry, &bytes));
    let max_req = crate::alloc::max_request_reset();
    let bound = 256 * bytes.len() + 65536;
    let req = if max_req <= bound { "ok".to_string() } else { format!("BIG:{}", max_req) };
    match r {
        Err(_) => format!("{} panic req={} reser=-", id, req),
        Ok((class, dump, reser)) => {
            // when some decoded string lies outside the model's sub-codec, only "no panic" is compared
            let (content, reser) = match dump {
                None => (String::new(), reser),
                Some(d) => {
                    if d.clean && !taint {
                        (format!(" clean {}", d.text), reser)
                    } else {
                        (format!(" dirty {}", d.coarse), if reser == "panic" { reser } else { "np".to_string() })
                    }
                }
            };
            format!("{} {} req={} reser={}{}", id, class, req, reser, content)
        }
    }
}
