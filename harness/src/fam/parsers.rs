//! Family `parsers`: C05 — parser totality on arbitrary bytes.
//!
//! case line : `<id> parse <entry> <hex>`
//! impl line : `<id> <class> req=<ok|BIG:n> reser=<ok|err|panic|-> <content>`
//!   class    : `ok`, `err`, `panic` (`abort` is written by `run-isolated` when the process dies)
//!   req      : largest single allocation request while parsing, `ok` when <= 256*len + 64 KiB
//!   reser    : outcome class of re-serialising an accepted value (`np` = "did not panic" when the content is dirty)
//!   content  : `clean <canonical dump>` when every decoded string lies in the sub-codec alphabet and
//!              the input holds no BOM-like byte pair, else `dirty <coarse counts>`
//!
//! Entries: binLE binBE textSjisLE textSjisBE textUniLE textUniBE arc pack aset asset.
use crate::util::*;
use indexmap::IndexMap;
use mila::*;

pub const ENTRIES: [&str; 10] = [
    "binLE", "binBE", "textSjisLE", "textSjisBE", "textUniLE", "textUniBE", "arc", "pack", "aset", "asset",
];

// ------------------------------------------------------------------------------------------
// alphabet shared with the Lean sub-codec (Model/Codec.lean)
// ------------------------------------------------------------------------------------------

pub fn in_sub_alphabet(s: &str) -> bool {
    crate::subcodec::all_in_alphabet(s)
}

/// Input bytes that make `encoding_rs`' BOM sniffing kick in somewhere are not compared in detail.
pub fn tainted(bytes: &[u8]) -> bool {
    bytes.windows(2).any(|w| matches!(w, [0xFE, 0xFF] | [0xFF, 0xFE] | [0xEF, 0xBB]))
}

const WORDS: [&str; 14] = [
    "a", "Count", "Info", "MID_A", "xyz", "ｱｲｳ", "あいう", "ソース", "ポ", "", "name_01", "AnimClipNameTable", "T", "m/x.bin",
];

fn word(rng: &mut Rng) -> String {
    rng.pick(&WORDS).to_string()
}
fn nonempty_word(rng: &mut Rng) -> String {
    loop {
        let w = word(rng);
        if !w.is_empty() {
            return w;
        }
    }
}

// ------------------------------------------------------------------------------------------
// valid seed files, built with the library's own writers
// ------------------------------------------------------------------------------------------

fn seed_bin(rng: &mut Rng, endian: Endian) -> Vec<u8> {
    let mut a = BinArchive::new(endian);
    let cells = rng.below(8) as usize;
    a.allocate_at_end(cells * 4 + rng.below(4) as usize);
    for c in 0..cells {
        match rng.below(5) {
            0 => a.write_string(c * 4, Some(&word(rng))).unwrap(),
            1 => a.write_pointer(c * 4, Some(rng.below(cells as u64 + 1) as usize * 4)).unwrap(),
            2 => a.write_u32(c * 4, rng.next() as u32).unwrap(),
            _ => {}
        }
        if rng.chance(1, 3) {
            a.write_label(c * 4, &nonempty_word(rng)).unwrap();
        }
    }
    if rng.chance(1, 3) {
        a.write_label(a.size(), "end").unwrap();
    }
    a.serialize().unwrap()
}

fn seed_text(rng: &mut Rng, format: TextArchiveFormat, endian: Endian) -> Vec<u8> {
    let mut t = TextArchive::new(format, endian);
    t.set_title(word(rng));
    for i in 0..rng.below(5) {
        t.set_message(&format!("K{}{}", i, nonempty_word(rng)), &word(rng));
    }
    t.serialize().unwrap()
}

pub fn build_arc(files: &[(String, Vec<u8>)], padded: bool, rng: &mut Rng) -> Vec<u8> {
    let mut a = BinArchive::new(Endian::Little);
    let hdr = if padded { 0x60 } else { 0 };
    let mut body = Vec::new();
    let mut offsets = Vec::new();
    if !padded {
        body.extend_from_slice(&[0x12, 0x34, 0x56, 0x78]); // first word non-zero
    }
    for (_, b) in files {
        offsets.push(body.len());
        body.extend_from_slice(b);
        while body.len() % 4 != 0 {
            body.push(0xEE);
        }
    }
    let count_at = hdr + body.len();
    let info_at = count_at + 4;
    a.allocate_at_end(info_at + 16 * files.len());
    if !body.is_empty() {
        a.write_bytes(hdr, &body).unwrap();
    }
    a.write_label(count_at, "Count").unwrap();
    a.write_u32(count_at, files.len() as u32).unwrap();
    a.write_label(info_at, "Info").unwrap();
    let mut order: Vec<usize> = (0..files.len()).collect();
    rng.shuffle(&mut order);
    for (slot, &i) in order.iter().enumerate() {
        let at = info_at + 16 * slot;
        a.write_string(at, Some(&files[i].0)).unwrap();
        a.write_u32(at + 4, i as u32).unwrap();
        a.write_u32(at + 8, files[i].1.len() as u32).unwrap();
        a.write_u32(at + 12, offsets[i] as u32).unwrap();
    }
    a.serialize().unwrap()
}

fn seed_arc(rng: &mut Rng) -> Vec<u8> {
    let n = rng.below(4) as usize;
    let mut files = Vec::new();
    for i in 0..n {
        let len = rng.below(10) as usize;
        files.push((format!("f{}{}", i, word(rng)), rng.bytes(len)));
    }
    let padded = rng.chance(1, 2);
    build_arc(&files, padded, rng)
}

fn seed_pack(rng: &mut Rng) -> Vec<u8> {
    let mut m: IndexMap<String, Vec<u8>> = IndexMap::new();
    for i in 0..rng.below(4) {
        let len = rng.below(40) as usize;
        m.insert(format!("p{}{}", i, word(rng)), rng.bytes(len));
    }
    fe9_arc::serialize(&m).unwrap()
}

fn seed_aset(rng: &mut Rng) -> Vec<u8> {
    let mut f = ASetFile::new(if rng.chance(1, 2) { Some(word(rng)) } else { None });
    for _ in 0..257 {
        f.anim_clip_table.push(if rng.chance(1, 20) { Some(word(rng)) } else { None });
    }
    for _ in 0..rng.below(3) {
        let mut set: Vec<Option<String>> = vec![None; 257];
        if rng.chance(2, 3) {
            set[0] = Some(nonempty_word(rng));
        }
        for _ in 0..rng.below(6) {
            let i = 1 + rng.below(256) as usize;
            set[i] = Some(word(rng));
        }
        f.sets.push(set);
    }
    f.serialize().unwrap()
}

fn seed_asset(rng: &mut Rng) -> Vec<u8> {
    let mut b = AssetBinary::new();
    b.flags = rng.next() as u32;
    for _ in 0..rng.below(4) {
        let mut s = AssetSpec::new();
        if rng.chance(2, 3) {
            s.name = Some(word(rng));
        }
        if rng.chance(1, 2) {
            s.body_model = Some(word(rng));
        }
        if rng.chance(1, 3) {
            s.voice = Some(word(rng));
        }
        if rng.chance(1, 3) {
            s.use_hair_color = true;
            s.hair_color = [1, 2, 3, 4];
        }
        if rng.chance(1, 3) {
            s.use_model_size = true;
            s.model_size = f32::from_bits(rng.next() as u32);
        }
        if rng.chance(1, 3) {
            s.use_unk13 = true;
            s.unk13 = rng.next() as u32;
        }
        b.specs.push(s);
    }
    b.serialize().unwrap()
}

/// A *valid* bin-archive container around arbitrary payload: any data length (odd sizes, unaligned
/// tails), bytes biased towards the values readers branch on (0x00, 0x01, 0xFF, ASCII, flag-like
/// words), strings / pointers on random cells and the labels the layered readers look up, at
/// random addresses.  Every layered reader (text, arc, aset, asset) is then run on a container it can
/// open, so its own loops see arbitrary contents instead of dying in `BinArchive::from_bytes`.
fn seed_container(rng: &mut Rng, endian: Endian) -> Vec<u8> {
    let mut a = BinArchive::new(endian);
    let size = match rng.below(4) {
        0 => rng.below(12) as usize,
        1 => (rng.below(16) * 4) as usize,
        _ => rng.below(80) as usize,
    };
    a.allocate_at_end(size);
    let style = rng.below(5);
    for i in 0..size {
        let b = match style {
            0 => 0u8,
            1 => *rng.pick(&[0u8, 0, 0, 1, 0xFF, 0x61, 0x80]),
            2 => rng.next() as u8,
            3 => *rng.pick(&[0x61u8, 0x62, 0x00, 0x30, 0xD8, 0xDC, 0x3D, 0xDE]), // UTF-16 surrogate halves included
            _ => if rng.chance(1, 6) { 0 } else { 0x41 + (rng.below(26) as u8) },
        };
        a.write_u8(i, b).unwrap();
    }
    // flag-like / count-like words on some cells
    for c in 0..(size / 4) {
        match rng.below(8) {
            0 => a.write_u32(c * 4, *rng.pick(&[0u32, 1, 2, 3, 0xFF, 0x100, 0x101, 0xFFFF_FFFF, 0x8000_0000, 7, 0x1F])).unwrap(),
            1 => a.write_string(c * 4, Some(&word(rng))).unwrap(),
            2 => a.write_pointer(c * 4, Some(rng.below(size as u64 + 1) as usize)).unwrap(),
            _ => {}
        }
    }
    let names = ["Count", "Info", "AnimClipNameTable", "K", "MID_A", "T"];
    for _ in 0..rng.below(4) {
        let addr = rng.below(size as u64 + 1) as usize;
        let _ = a.write_label(addr, *rng.pick(&names));
    }
    if size >= 4 && rng.chance(1, 2) {
        let _ = a.write_label(0, *rng.pick(&names));
    }
    a.serialize().unwrap()
}

pub fn seed_file(entry: &str, rng: &mut Rng) -> Vec<u8> {
    if entry != "pack" && rng.chance(1, 3) {
        let e = if entry.ends_with("BE") { Endian::Big } else { Endian::Little };
        return seed_container(rng, e);
    }
    match entry {
        "binLE" => seed_bin(rng, Endian::Little),
        "binBE" => seed_bin(rng, Endian::Big),
        "textSjisLE" => seed_text(rng, TextArchiveFormat::ShiftJIS, Endian::Little),
        "textSjisBE" => seed_text(rng, TextArchiveFormat::ShiftJIS, Endian::Big),
        "textUniLE" => seed_text(rng, TextArchiveFormat::Unicode, Endian::Little),
        "textUniBE" => seed_text(rng, TextArchiveFormat::Unicode, Endian::Big),
        "arc" => seed_arc(rng),
        "pack" => seed_pack(rng),
        "aset" => seed_aset(rng),
        "asset" => seed_asset(rng),
        _ => panic!("entry {}", entry),
    }
}

// ------------------------------------------------------------------------------------------
// mutations
// ------------------------------------------------------------------------------------------

const PLANT: [u32; 22] = [
    0, 1, 2, 3, 4, 5, 7, 8, 0x1F, 0x20, 0x21, 0x100, 0xFFFF, 0x10000, 0x100000, 0x0100_0000, 0x3FFF_FFFF, 0x4000_0000, 0x7FFF_FFFF,
    0x8000_0000, 0xFFFF_FFF0, 0xFFFF_FFFF,
];

fn put_u32(v: &mut [u8], at: usize, x: u32, big: bool) {
    if at + 4 <= v.len() {
        let b = if big { x.to_be_bytes() } else { x.to_le_bytes() };
        v[at..at + 4].copy_from_slice(&b);
    }
}

fn is_big(entry: &str) -> bool {
    entry.ends_with("BE") || entry == "pack"
}

/// Word positions worth planting values into: the header and both tables of a bin image, the
/// count and entry fields of a pack image.
fn field_positions(entry: &str, file: &[u8]) -> Vec<usize> {
    let mut pos = vec![0usize, 4, 8, 12];
    if entry == "pack" {
        pos = vec![0, 4, 8, 12, 16, 20, 24, 28, 32, 36];
        return pos.into_iter().filter(|p| p + 4 <= file.len()).collect();
    }
    if file.len() >= 0x20 {
        let big = is_big(entry);
        let rd = |at: usize| {
            let b = [file[at], file[at + 1], file[at + 2], file[at + 3]];
            (if big { u32::from_be_bytes(b) } else { u32::from_le_bytes(b) }) as usize
        };
        let data = rd(4);
        let np = rd(8);
        let nl = rd(12);
        // data words (pointer / string cells, counts, sizes, offsets): all of them for small data
        // regions, else the first 8 and the last 56 (record tables sit at the end of an arc image,
        // after the 0x60-byte zero header and the bodies)
        let words = data / 4;
        for k in 0..words {
            if words <= 64 || k < 8 || k + 56 >= words {
                pos.push(0x20 + 4 * k);
            }
        }
        for k in 0..(np + 2 * nl).min(24) {
            pos.push(0x20 + data + 4 * k);
        }
    }
    pos.into_iter().filter(|p| p + 4 <= file.len()).collect()
}

fn mutate(entry: &str, file: &[u8], rng: &mut Rng) -> Vec<u8> {
    let mut v = file.to_vec();
    match rng.below(11) {
        0 | 1 | 2 | 3 => {
            // plant one or two boundary values
            let pos = field_positions(entry, &v);
            for _ in 0..rng.range(1, 2) {
                if pos.is_empty() {
                    break;
                }
                let at = *rng.pick(&pos);
                let base = match rng.below(4) {
                    0 => *rng.pick(&PLANT),
                    1 => v.len() as u32,
                    2 => (v.len() as u32).wrapping_sub(0x20),
                    _ => *rng.pick(&PLANT),
                };
                let x = base.wrapping_add(rng.below(3) as u32).wrapping_sub(1);
                put_u32(&mut v, at, x, is_big(entry));
            }
        }
        9 => {
            // wrap-around candidates in the tail of the data region (arc records, pack entries, last cells)
            let big = is_big(entry);
            let rd = |v: &[u8], at: usize| {
                let b = [v[at], v[at + 1], v[at + 2], v[at + 3]];
                (if big { u32::from_be_bytes(b) } else { u32::from_le_bytes(b) }) as usize
            };
            if v.len() >= 0x24 && entry != "pack" {
                let data = rd(&v, 4).min(v.len() - 0x20);
                let words = data / 4;
                if words > 0 {
                    let k = words - 1 - rng.below(words.min(16) as u64) as usize;
                    let high: [u32; 12] = [
                        0xFFFF_FFFF, 0xFFFF_FFFE, 0xFFFF_FFA0, 0xFFFF_FF9F, 0xFFFF_FFA1, 0xFFFF_FFF0, 0x8000_0000, 0x7FFF_FFFF,
                        data as u32, (data as u32).wrapping_sub(1), (data as u32).wrapping_add(1), (data as u32).wrapping_sub(0x60),
                    ];
                    put_u32(&mut v, 0x20 + 4 * k, *rng.pick(&high), big);
                }
            } else if entry == "pack" && v.len() >= 24 {
                let k = rng.range(2, 5) as usize; // fields of the first entry
                let high: [u32; 6] = [0xFFFF_FFFF, 0xFFFF_FFE0, 0x8000_0000, v.len() as u32, v.len() as u32 + 1, (v.len() as u32).wrapping_sub(1)];
                put_u32(&mut v, 8 + 4 * k - 8, *rng.pick(&high), true);
            }
        }
        4 | 5 => {
            // truncate, preferring field boundaries
            let cut = if rng.chance(1, 2) { (rng.below(v.len() as u64 / 4 + 1) * 4) as usize } else { rng.below(v.len() as u64 + 1) as usize };
            v.truncate(cut.min(v.len()));
        }
        6 => {
            // bit flips
            for _ in 0..rng.range(1, 4) {
                if v.is_empty() {
                    break;
                }
                let i = rng.below(v.len() as u64) as usize;
                v[i] ^= 1 << rng.below(8);
            }
        }
        7 => {
            // overwrite a short range with random bytes
            if !v.is_empty() {
                let i = rng.below(v.len() as u64) as usize;
                let n = rng.range(1, 8) as usize;
                for k in i..(i + n).min(v.len()) {
                    v[k] = rng.next() as u8;
                }
            }
        }
        8 => {
            // append garbage / zero padding
            let n = rng.range(1, 40) as usize;
            if rng.chance(1, 2) {
                v.extend(std::iter::repeat(0).take(n));
            } else {
                v.extend(rng.bytes(n));
            }
        }
        _ => {} // unmodified valid file
    }
    v
}


// ------------------------------------------------------------------------------------------
// hand-built accepted images with long / undecodable strings in every string-bearing position
// ------------------------------------------------------------------------------------------
//
// The library's writers cannot produce a string that is not valid Shift-JIS, but every parser
// accepts one (it is decoded with U+FFFD), and re-serialising it must end in `EncodingFailed`,
// never in a panic — wherever the multi-byte characters of the decoded string fall.  These images
// are written byte by byte so that the raw name is under the generator's control.

/// One raw Shift-JIS "character" and the UTF-8 length of what it decodes to.
#[derive(Clone, Copy, PartialEq)]
enum Ch {
    Ascii,
    Half,   // 0xB1            -> U+FF71, 3 bytes of UTF-8
    Kana,   // 0x83 0x41       -> U+30A2, 3 bytes
    Greek,  // 0x83 0x9F       -> U+0391, 2 bytes
    Cyr,    // 0x84 0x40       -> U+0410, 2 bytes
    BadFF,  // never valid     -> U+FFFD, 3 bytes
    BadFD,
    BadA0,
}

impl Ch {
    fn utf8(self) -> usize {
        match self {
            Ch::Ascii => 1,
            Ch::Greek | Ch::Cyr => 2,
            _ => 3,
        }
    }
    fn is_bad(self) -> bool {
        matches!(self, Ch::BadFF | Ch::BadFD | Ch::BadA0)
    }
    fn put(self, out: &mut Vec<u8>, k: usize) {
        match self {
            Ch::Ascii => out.push(b'a' + (k % 26) as u8),
            Ch::Half => out.push(0xB1 + (k % 16) as u8),
            Ch::Kana => out.extend_from_slice(&[0x83, 0x41 + (k % 8) as u8]),
            Ch::Greek => out.extend_from_slice(&[0x83, 0x9F + (k % 8) as u8]),
            Ch::Cyr => out.extend_from_slice(&[0x84, 0x40 + (k % 6) as u8]),
            Ch::BadFF => out.push(0xFF),
            Ch::BadFD => out.push(0xFD),
            Ch::BadA0 => out.push(0xA0),
        }
    }
}

const GOOD: [Ch; 5] = [Ch::Ascii, Ch::Half, Ch::Kana, Ch::Greek, Ch::Cyr];
const BAD: [Ch; 3] = [Ch::BadFF, Ch::BadFD, Ch::BadA0];

#[derive(Clone, Copy, PartialEq)]
enum BadAt {
    Boundary, // the straddling character itself is the undecodable byte
    First,
    Last,
    LoneLead, // the string ends in a lead byte without its trail byte
}

/// Raw name whose decoded form has a character `at` starting at UTF-8 offset `start` (so it lies
/// across offset `start + 1` and, when 3 bytes long, `start + 2`), preceded by exactly `start`
/// bytes worth of characters (ASCII only, or a mix of 1-, 2- and 3-byte ones) and followed by a few
/// more; an undecodable byte sits where `bad` says.
fn straddle(start: usize, at: Ch, bad: BadAt, mixed: bool, rng: &mut Rng) -> Vec<u8> {
    let mut out = Vec::new();
    let mut used = 0usize;
    let mut k = rng.below(26) as usize;
    if bad == BadAt::First && start >= 3 {
        rng.pick(&BAD).put(&mut out, 0);
        used += 3;
    }
    while used < start {
        let c = if mixed { *rng.pick(&GOOD) } else { Ch::Ascii };
        let c = if used + c.utf8() <= start { c } else { Ch::Ascii };
        c.put(&mut out, k);
        k += 1;
        used += c.utf8();
    }
    at.put(&mut out, k);
    for _ in 0..rng.below(10) {
        let c = if mixed { *rng.pick(&GOOD) } else { Ch::Ascii };
        k += 1;
        c.put(&mut out, k);
    }
    match bad {
        BadAt::Last => rng.pick(&BAD).put(&mut out, 0),
        BadAt::LoneLead => out.push(*rng.pick(&[0x81u8, 0x83, 0x9F, 0xE0, 0xFC])),
        BadAt::First if start < 3 => rng.pick(&BAD).put(&mut out, 0),
        _ => {}
    }
    out
}

/// The whole sweep: offsets 64 / 128 / 256, the straddling character starting 3, 2, 1, 0 bytes
/// before the offset (3 and 0 are the controls: a character ending / starting exactly there).
fn straddle_sweep(rng: &mut Rng) -> Vec<Vec<u8>> {
    let mut v = Vec::new();
    for t in [64usize, 128, 256] {
        for d in 0..=3usize {
            let start = t - d;
            for mixed in [false, true] {
                for at in BAD {
                    for bad in [BadAt::Boundary, BadAt::First, BadAt::Last] {
                        v.push(straddle(start, at, bad, mixed, rng));
                    }
                }
                for at in [Ch::Half, Ch::Kana, Ch::Greek, Ch::Cyr] {
                    for bad in [BadAt::First, BadAt::Last, BadAt::LoneLead] {
                        v.push(straddle(start, at, bad, mixed, rng));
                    }
                }
            }
        }
    }
    v
}

/// The representative part of the sweep that every quick run carries (offset 64).
fn straddle_core(rng: &mut Rng) -> Vec<Vec<u8>> {
    let mut v = Vec::new();
    for d in 0..=3usize {
        v.push(straddle(64 - d, Ch::BadFF, BadAt::Boundary, false, rng));
        v.push(straddle(64 - d, Ch::Kana, BadAt::First, false, rng));
    }
    v.push(straddle(63, Ch::Greek, BadAt::Last, true, rng));
    v.push(straddle(62, Ch::Half, BadAt::LoneLead, true, rng));
    v.push(straddle(127, Ch::BadFD, BadAt::Boundary, true, rng));
    v.push(straddle(254, Ch::BadA0, BadAt::Boundary, false, rng));
    v
}

/// A decodable name of exactly `len` encoded bytes (1- and 2-byte codes of the shared alphabet).
fn clean_name(len: usize, rng: &mut Rng) -> Vec<u8> {
    let mut out = Vec::new();
    let mut k = rng.below(26) as usize;
    while out.len() < len {
        let c = if out.len() + 2 <= len { *rng.pick(&GOOD) } else { *rng.pick(&[Ch::Ascii, Ch::Half]) };
        c.put(&mut out, k);
        k += 1;
    }
    out
}

/// Bin-archive image written by hand: `strs` = (cell address, raw name) pairs (the cell gets a
/// pointer into the text pool), `labels` = (address, raw name).
fn raw_bin(data: &[u8], strs: &[(usize, &[u8])], labels: &[(usize, &[u8])], big: bool) -> Vec<u8> {
    let w = |x: usize| if big { (x as u32).to_be_bytes() } else { (x as u32).to_le_bytes() };
    let mut data = data.to_vec();
    let text_start = data.len() + 4 * strs.len() + 8 * labels.len();
    let mut pool: Vec<u8> = Vec::new();
    let mut table: Vec<u8> = Vec::new();
    for (cell, name) in strs {
        data[*cell..*cell + 4].copy_from_slice(&w(text_start + pool.len()));
        table.extend_from_slice(&w(*cell));
        pool.extend_from_slice(name);
        pool.push(0);
    }
    for (addr, name) in labels {
        table.extend_from_slice(&w(*addr));
        table.extend_from_slice(&w(pool.len()));
        pool.extend_from_slice(name);
        pool.push(0);
    }
    let mut raw = Vec::new();
    raw.extend_from_slice(&w(0x20 + text_start + pool.len()));
    raw.extend_from_slice(&w(data.len()));
    raw.extend_from_slice(&w(strs.len()));
    raw.extend_from_slice(&w(labels.len()));
    raw.resize(0x20, 0);
    raw.extend_from_slice(&data);
    raw.extend_from_slice(&table);
    raw.extend_from_slice(&pool);
    raw
}

fn pad4(mut b: Vec<u8>) -> Vec<u8> {
    b.push(0);
    while b.len() % 4 != 0 {
        b.push(0);
    }
    b
}

/// Number of string-bearing positions of an entry point that `named_image` can fill.
fn positions(entry: &str) -> usize {
    match entry {
        "binLE" | "binBE" => 2,                                            // label, string cell
        "textSjisLE" | "textSjisBE" => 2,                                  // key, message
        "textUniLE" | "textUniBE" => 2,                                    // title, key
        "pack" => 1,                                                       // entry name
        "aset" => 5,                                                       // meta, first / last clip name, set label, slot
        "asset" => 2,                                                      // record name, first optional string
        "arc" => 1,                                                        // file name (no re-serialisation)
        _ => 0,
    }
}

/// An image `entry` accepts, with the raw Shift-JIS `name` in string position `pos`.
fn named_image(entry: &str, pos: usize, name: &[u8]) -> Vec<u8> {
    let big = entry.ends_with("BE");
    match entry {
        "binLE" | "binBE" => {
            if pos == 0 {
                raw_bin(&[0; 8], &[], &[(0, name)], big)
            } else {
                raw_bin(&[0; 8], &[(4, name)], &[(0, b"L")], big)
            }
        }
        "textSjisLE" | "textSjisBE" => {
            if pos == 0 {
                raw_bin(&pad4(b"hi".to_vec()), &[], &[(0, name)], big)
            } else {
                raw_bin(&pad4(name.to_vec()), &[], &[(0, b"K")], big)
            }
        }
        "textUniLE" | "textUniBE" => {
            if pos == 0 {
                raw_bin(&pad4(name.to_vec()), &[], &[], big)
            } else {
                let mut data = pad4(b"T".to_vec());
                data.extend_from_slice(&[b'h', 0, b'i', 0, 0, 0, 0, 0]);
                raw_bin(&data, &[], &[(4, name)], big)
            }
        }
        "pack" => {
            let mut raw = Vec::new();
            raw.extend_from_slice(&0x7061636Bu32.to_be_bytes());
            raw.extend_from_slice(&1u16.to_be_bytes());
            raw.extend_from_slice(&[0, 0]);
            let name_address = 8 + 16;
            let file_address = name_address + name.len() + 1;
            raw.extend_from_slice(&0u32.to_be_bytes());
            raw.extend_from_slice(&(name_address as u32).to_be_bytes());
            raw.extend_from_slice(&(file_address as u32).to_be_bytes());
            raw.extend_from_slice(&4u32.to_be_bytes());
            raw.extend_from_slice(name);
            raw.push(0);
            raw.extend_from_slice(&[1, 2, 3, 4]);
            raw
        }
        "aset" => {
            // header (4, meta cell, 0x100), 257 clip cells, one set: main flags 1, group flags 1, one slot
            let mut data = vec![0u8; 12 + 257 * 4 + 12];
            data[0] = 4;
            data[9] = 1;
            let set = 12 + 257 * 4;
            data[set] = 1;
            data[set + 4] = 1;
            let table: &[u8] = b"AnimClipNameTable";
            match pos {
                0 => raw_bin(&data, &[(4, name), (set + 8, b"s")], &[(12, table)], false),
                1 => raw_bin(&data, &[(12, name), (set + 8, b"s")], &[(12, table)], false),
                2 => raw_bin(&data, &[(12 + 256 * 4, name), (set + 8, b"s")], &[(12, table)], false),
                3 => raw_bin(&data, &[(set + 8, b"s")], &[(12, table), (set, name)], false),
                _ => raw_bin(&data, &[(set + 8, name)], &[(12, table)], false),
            }
        }
        "asset" => {
            if pos == 0 {
                let data = [7u8, 0, 0, 0, 0, 0, 0, 0, 0, 0, 0, 0];
                raw_bin(&data, &[(8, name)], &[], false)
            } else {
                let data = [7u8, 0, 0, 0, 2, 0, 0, 0, 0, 0, 0, 0, 0, 0, 0, 0];
                raw_bin(&data, &[(8, b"n"), (12, name)], &[], false)
            }
        }
        "arc" => {
            // count cell (1) at 0, one record at 4: name cell, index, size 2, offset 20; body at 20
            let mut data = vec![0u8; 24];
            data[0] = 1;
            data[12] = 2;
            data[16] = 20;
            data[20] = 0xAB;
            data[21] = 0xCD;
            raw_bin(&data, &[(4, name)], &[(0, b"Count"), (4, b"Info")], false)
        }
        _ => panic!("entry {}", entry),
    }
}

/// Long / undecodable / exact-length names in every string position of `entry`.
fn named_cases(entry: &str, thorough: bool, rng: &mut Rng) -> Vec<Vec<u8>> {
    let mut out = Vec::new();
    let np = positions(entry);
    for pos in 0..np {
        let mut names = straddle_core(rng);
        let sweep = straddle_sweep(rng);
        if thorough {
            names.extend(sweep);
        } else {
            for _ in 0..10 {
                names.push(rng.pick(&sweep).clone());
            }
        }
        // decodable names: every encoded length 0..=130 (thorough), else the lengths around the
        // size thresholds and a rotating sample, plus the 2^8 neighbourhood
        for len in 0..=130usize {
            let near = [0usize, 1, 3, 4, 63, 64, 65, 127, 128, 129].contains(&len);
            if thorough || near || len % 16 == (pos * 5 + 3) % 16 {
                names.push(clean_name(len, rng));
            }
        }
        for len in [255usize, 256, 257] {
            names.push(clean_name(len, rng));
        }
        for n in names {
            out.push(named_image(entry, pos, &n));
        }
    }
    out
}

pub fn gen(seed: u64, tier: &str) -> Vec<String> {
    let mut rng = Rng::new(seed ^ 0xC05);
    let per_entry = if tier == "thorough" { 20000 } else { 1500 };
    let mut lines = Vec::new();
    let mut n = 0usize;
    let mut push = |lines: &mut Vec<String>, entry: &str, bytes: &[u8]| {
        lines.push(format!("c05.{:06} parse {} {}", n, entry, hex(bytes)));
        n += 1;
    };
    for entry in ENTRIES.iter() {
        // tiny inputs, exhaustively up to length 1 and a few of length 2..3
        push(&mut lines, entry, &[]);
        for b in [0u8, 1, 0x10, 0x11, 0x13, 0x20, 0x70, 0x7F, 0x80, 0xFF] {
            push(&mut lines, entry, &[b]);
            push(&mut lines, entry, &[b, 0]);
            push(&mut lines, entry, &[0x70, 0x61, 0x63, 0x6B, b]);
        }
        // zero / 0xFF blocks around the header size
        for len in [4usize, 8, 16, 31, 32, 33, 36, 40, 64, 128] {
            push(&mut lines, entry, &vec![0u8; len]);
            push(&mut lines, entry, &vec![0xFFu8; len]);
        }
        for i in 0..per_entry {
            if i % 10 == 9 {
                let len = rng.below(600) as usize;
                let b = rng.bytes(len);
                push(&mut lines, entry, &b);
            } else {
                let file = seed_file(entry, &mut rng);
                if i % 3 == 0 {
                    push(&mut lines, entry, &file); // as written: a valid container, arbitrary payload
                } else {
                    let m = mutate(entry, &file, &mut rng);
                    push(&mut lines, entry, &m);
                }
            }
        }
        // accepted images with long, exact-length and undecodable strings in every string position
        for img in named_cases(entry, tier == "thorough", &mut rng) {
            push(&mut lines, entry, &img);
        }
    }
    lines
}

// ------------------------------------------------------------------------------------------
// running one case
// ------------------------------------------------------------------------------------------

struct Dump {
    clean: bool,
    text: String,
    coarse: String,
}

fn hs(s: &str, clean: &mut bool) -> String {
    if !in_sub_alphabet(s) {
        *clean = false;
    }
    hexs(s)
}

pub fn dump_bin(a: &BinArchive) -> (bool, String, String) {
    let mut clean = true;
    let size = a.size();
    let mut text = Vec::new();
    let mut ptr = Vec::new();
    if size >= 4 {
        for addr in 0..=(size - 4) {
            if let Ok(Some(s)) = a.read_string(addr) {
                text.push(format!("{}:{}", addr, hs(&s, &mut clean)));
            }
            if let Ok(Some(p)) = a.read_pointer(addr) {
                ptr.push(format!("{}:{}", addr, p));
            }
        }
    }
    let labels: Vec<String> = a.all_labels().iter().map(|(k, l)| format!("{}:{}", k, hs(l, &mut clean))).collect();
    let data = a.read_bytes(0, size).map(|b| hex(b)).unwrap_or_else(|_| "-".into());
    let full = format!("size={} data={} text=[{}] ptr=[{}] labels=[{}]", size, data, text.join(","), ptr.join(","), labels.join(","));
    let coarse = format!("size={} ntext={} nptr={} nlabels={}", size, text.len(), ptr.len(), labels.len());
    (clean, full, coarse)
}

fn opt(s: &Option<String>, clean: &mut bool) -> String {
    match s {
        Some(s) => hs(s, clean),
        None => "~".into(),
    }
}

/// Parses `bytes` with `entry`; returns (class, dump, reserialise class).
fn parse_entry(entry: &str, bytes: &[u8]) -> (String, Option<Dump>, String) {
    fn class<T, E>(r: &Result<T, E>) -> &'static str {
        if r.is_ok() { "ok" } else { "err" }
    }
    let reser = |f: &mut dyn FnMut() -> bool| -> String {
        match no_panic(|| f()) {
            Ok(true) => "ok".into(),
            Ok(false) => "err".into(),
            Err(_) => "panic".into(),
        }
    };
    match entry {
        "binLE" | "binBE" => {
            let e = if entry == "binLE" { Endian::Little } else { Endian::Big };
            let r = BinArchive::from_bytes(bytes, e);
            let c = class(&r).to_string();
            match r {
                Ok(a) => {
                    let (clean, text, coarse) = dump_bin(&a);
                    let rs = reser(&mut || a.serialize().is_ok());
                    (c, Some(Dump { clean, text, coarse }), rs)
                }
                Err(_) => (c, None, "-".into()),
            }
        }
        "textSjisLE" | "textSjisBE" | "textUniLE" | "textUniBE" => {
            let fmt = if entry.starts_with("textSjis") { TextArchiveFormat::ShiftJIS } else { TextArchiveFormat::Unicode };
            let e = if entry.ends_with("LE") { Endian::Little } else { Endian::Big };
            let r = TextArchive::from_bytes(bytes, fmt, e);
            let c = class(&r).to_string();
            match r {
                Ok(t) => {
                    let mut clean = true;
                    let title = hs(t.get_title(), &mut clean);
                    let mut ents = Vec::new();
                    for (k, v) in t.get_entries() {
                        let key = hs(k, &mut clean);
                        // UTF-16 messages are arbitrary Unicode: compared in full (hex of UTF-8)
                        let val = if entry.starts_with("textSjis") { hs(v, &mut clean) } else { hexs(v) };
                        ents.push(format!("{}={}", key, val));
                    }
                    let rs = reser(&mut || t.serialize().is_ok());
                    let text = format!("title={} entries=[{}]", title, ents.join(","));
                    (c, Some(Dump { clean, text, coarse: "text".into() }), rs)
                }
                Err(_) => (c, None, "-".into()),
            }
        }
        "arc" => {
            let r = arc::from_bytes(bytes);
            let c = class(&r).to_string();
            match r {
                Ok(m) => {
                    let mut clean = true;
                    let mut v: Vec<String> = m.iter().map(|(k, b)| format!("{}={}", hs(k, &mut clean), hex(b))).collect();
                    v.sort();
                    (c, Some(Dump { clean, text: format!("files=[{}]", v.join(",")), coarse: "arc".into() }), "-".into())
                }
                Err(_) => (c, None, "-".into()),
            }
        }
        "pack" => {
            let r = fe9_arc::parse(bytes);
            let c = class(&r).to_string();
            match r {
                Ok(m) => {
                    let mut clean = true;
                    let v: Vec<String> = m.iter().map(|(k, b)| format!("{}={}", hs(k, &mut clean), hex(b))).collect();
                    let rs = reser(&mut || fe9_arc::serialize(&m).is_ok());
                    (c, Some(Dump { clean, text: format!("files=[{}]", v.join(",")), coarse: "pack".into() }), rs)
                }
                Err(_) => (c, None, "-".into()),
            }
        }
        "aset" => {
            let r = BinArchive::from_bytes(bytes, Endian::Little).and_then(|a| ASetFile::from_archive(&a));
            let c = class(&r).to_string();
            match r {
                Ok(f) => {
                    let mut clean = true;
                    let _ = opt(&f.meta, &mut clean);
                    for x in f.anim_clip_table.iter().chain(f.sets.iter().flatten()) {
                        let _ = opt(x, &mut clean);
                    }
                    let rs = reser(&mut || f.serialize().is_ok());
                    let text = crate::fam::aset::show_file(&f);
                    let coarse = format!("nsets={}", f.sets.len());
                    (c, Some(Dump { clean, text, coarse }), rs)
                }
                Err(_) => (c, None, "-".into()),
            }
        }
        "asset" => {
            let r = BinArchive::from_bytes(bytes, Endian::Little).and_then(|a| AssetBinary::from_archive(&a));
            let c = class(&r).to_string();
            match r {
                Ok(b) => {
                    let mut clean = true;
                    for s in &b.specs {
                        for f in all_strings(s) {
                            if let Some(x) = f {
                                if !in_sub_alphabet(x) {
                                    clean = false;
                                }
                            }
                        }
                    }
                    let rs = reser(&mut || b.serialize().is_ok());
                    let text = crate::fam::asset::show_binary(&b);
                    let coarse = format!("flags={} nspecs={}", b.flags, b.specs.len());
                    (c, Some(Dump { clean, text, coarse }), rs)
                }
                Err(_) => (c, None, "-".into()),
            }
        }
        _ => panic!("entry {}", entry),
    }
}

pub fn all_strings(s: &AssetSpec) -> Vec<&Option<String>> {
    vec![
        &s.name, &s.conditional1, &s.conditional2, &s.body_model, &s.body_texture, &s.head_model, &s.head_texture, &s.hair_model,
        &s.hair_texture, &s.outer_clothing_model, &s.outer_clothing_texture, &s.underwear_model, &s.underwear_texture, &s.mount_model,
        &s.mount_texture, &s.mount_outer_clothing_model, &s.mount_outer_clothing_texture, &s.weapon_model_dual, &s.weapon_model,
        &s.skeleton, &s.mount_skeleton, &s.accessory1_model, &s.accessory1_texture, &s.accessory2_model, &s.accessory2_texture,
        &s.accessory3_model, &s.accessory3_texture, &s.attack_animation, &s.attack_animation2, &s.visual_effect, &s.hid,
        &s.footstep_sound, &s.clothing_sound, &s.voice,
    ]
}

pub fn run_line(_st: &mut super::State, line: &str) -> String {
    let f: Vec<&str> = line.split(' ').collect();
    let id = f[0];
    let entry = f[2];
    let bytes = unhex(f[3]);
    let taint = tainted(&bytes);
    crate::alloc::max_request_reset();
    let r = no_panic(|| parse_entry(entry, &bytes));
    let max_req = crate::alloc::max_request_reset();
    let bound = 256 * bytes.len() + 65536;
    let req = if max_req <= bound { "ok".to_string() } else { format!("BIG:{}", max_req) };
    match r {
        Err(_) => format!("{} panic req={} reser=-", id, req),
        Ok((class, dump, reser)) => {
            // when some decoded string lies outside the model's sub-codec, only "no panic" is compared
            let (content, reser) = match dump {
                None => (String::new(), reser),
                Some(d) => {
                    if d.clean && !taint {
                        (format!(" clean {}", d.text), reser)
                    } else {
                        (format!(" dirty {}", d.coarse), if reser == "panic" { reser } else { "np".to_string() })
                    }
                }
            };
            format!("{} {} req={} reser={}{}", id, class, req, reser, content)
        }
    }
}
