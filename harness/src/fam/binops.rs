//! Family `binops`: C03 C04 — archive operation histories on one `BinArchive`.
//!
//! Case line: `<id> <op> <args…>`; the first line of a case is `new LE|BE`.  After every op the
//! implementation line is `<id> <result> | <canonical state>` (see `state_str`).
//! Positional ops are lower case (`r_u16 addr`, `w_str addr hex`), reader ops start with `R_`,
//! writer ops with `W_`.  Reader / writer cursors are kept here (the Rust reader borrows the archive
//! immutably, the writer mutably) and a fresh `BinArchiveReader::new(&a, pos)` /
//! `BinArchiveWriter::new(&mut a, pos)` is created around each stream op; `tell()` is read back.
#![allow(unused)]
use crate::util::*;
use mila::{
    ArchiveError, BinArchive, BinArchiveReader, BinArchiveWriter, EncodedStringReader,
    EncodedStringsError, Endian,
};

pub struct St {
    id: String,
    a: BinArchive,
    rpos: usize,
    wpos: usize,
}

fn cls(e: &ArchiveError) -> &'static str {
    match e {
        ArchiveError::OutOfBoundsAddress(..) => "OutOfBounds",
        ArchiveError::UnalignedValue(..) => "Unaligned",
        ArchiveError::LabelIndexOutOfBounds(..) => "LabelIndex",
        ArchiveError::EncodingStringsError(EncodedStringsError::UnterminatedString) => "Unterminated",
        _ => "Other",
    }
}

/// Characters of the executable sub-codec `sjisSub` (Codec.lean).
fn in_alphabet(c: char) -> bool {
    crate::subcodec::in_alphabet(c)
}

/// Shift-JIS bytes of a string of the sub-alphabet (mirror of `Sjis.encCp`).
fn sjis_sub(s: &str) -> Vec<u8> {
    crate::subcodec::enc(s).expect("not in alphabet")
}

/// A decoded c-string is printed only when every character lies in the sub-alphabet; otherwise
/// `dirty` (the model's sub-codec then yields a replacement character, and prints `dirty` too).
fn dec_str(s: &str) -> String {
    if s.chars().all(in_alphabet) {
        hexs(s)
    } else {
        "dirty".to_string()
    }
}

fn opt_str(v: &Option<String>) -> String {
    match v {
        None => "~".into(),
        Some(s) => hexs(s),
    }
}
fn opt_dec(v: &Option<String>) -> String {
    match v {
        None => "~".into(),
        Some(s) => dec_str(s),
    }
}
fn bucket_str(b: &[String]) -> String {
    if b.is_empty() {
        "!".into()
    } else {
        b.iter().map(|s| hexs(s)).collect::<Vec<_>>().join("/")
    }
}

/// Full canonical observable state.
fn state_str(st: &St) -> String {
    let a = &st.a;
    let size = a.size();
    let data = if size == 0 { "-".to_string() } else { hex(a.read_bytes(0, size).unwrap()) };
    let mut text = Vec::new();
    let mut ptr = Vec::new();
    let mut labels = Vec::new();
    if size >= 4 {
        for addr in 0..=(size - 4) {
            if let Ok(Some(s)) = a.read_string(addr) {
                text.push(format!("{}:{}", addr, hexs(&s)));
            }
            if let Ok(Some(p)) = a.read_pointer(addr) {
                ptr.push(format!("{}:{}", addr, p));
            }
            if let Ok(Some(b)) = a.read_labels(addr) {
                labels.push(format!("{}:{}", addr, bucket_str(&b)));
            }
        }
    }
    // labels whose cell check fails (address + 4 > size): only visible through all_labels
    let mut cur: Option<(usize, Vec<String>)> = None;
    for (addr, l) in a.all_labels() {
        if addr + 4 <= size {
            continue;
        }
        match &mut cur {
            Some((ca, b)) if *ca == addr => b.push(l),
            _ => {
                if let Some((ca, b)) = cur.take() {
                    labels.push(format!("{}:{}", ca, bucket_str(&b)));
                }
                cur = Some((addr, vec![l]));
            }
        }
    }
    if let Some((ca, b)) = cur.take() {
        labels.push(format!("{}:{}", ca, bucket_str(&b)));
    }
    let cstr: Vec<String> = a
        .verif_cstrings()
        .iter()
        .map(|(s, v)| {
            format!("{}:{}", hexs(s), v.iter().map(|x| x.to_string()).collect::<Vec<_>>().join("/"))
        })
        .collect();
    let j = |v: Vec<String>, sep: &str| if v.is_empty() { "-".to_string() } else { v.join(sep) };
    format!(
        "size={} data={} text={} ptr={} labels={} cstr={} r={} w={}",
        size,
        data,
        j(text, ","),
        j(ptr, ","),
        j(labels, ";"),
        j(cstr, ";"),
        st.rpos,
        st.wpos
    )
}

fn pu(s: &str) -> usize {
    s.parse::<u64>().unwrap() as usize
}
fn pi(s: &str) -> i64 {
    s.parse::<i64>().unwrap()
}
fn popt_str(s: &str) -> Option<String> {
    if s == "~" {
        None
    } else {
        Some(unhexs(s))
    }
}
fn popt_u(s: &str) -> Option<usize> {
    if s == "~" {
        None
    } else {
        Some(pu(s))
    }
}

type R<T> = Result<Result<T, ArchiveError>, String>;

fn fin<T>(r: R<T>, f: impl FnOnce(T) -> String) -> String {
    match r {
        Err(_) => "panic".into(),
        Ok(Err(e)) => format!("err {}", cls(&e)),
        Ok(Ok(v)) => {
            let s = f(v);
            if s.is_empty() {
                "ok".into()
            } else {
                format!("ok {}", s)
            }
        }
    }
}

/// Typed positional read as a decimal (signed for i*, bit pattern for f32).
fn read_ty(a: &BinArchive, ty: &str, addr: usize) -> R<i64> {
    no_panic(|| match ty {
        "u8" => a.read_u8(addr).map(|v| v as i64),
        "u16" => a.read_u16(addr).map(|v| v as i64),
        "u32" => a.read_u32(addr).map(|v| v as i64),
        "i8" => a.read_i8(addr).map(|v| v as i64),
        "i16" => a.read_i16(addr).map(|v| v as i64),
        "i32" => a.read_i32(addr).map(|v| v as i64),
        "f32" => a.read_f32(addr).map(|v| v.to_bits() as i64),
        _ => panic!("ty"),
    })
}
fn write_ty(a: &mut BinArchive, ty: &str, addr: usize, v: i64) -> R<()> {
    no_panic(|| match ty {
        "u8" => a.write_u8(addr, v as u8),
        "u16" => a.write_u16(addr, v as u16),
        "u32" => a.write_u32(addr, v as u32),
        "i8" => a.write_i8(addr, v as i8),
        "i16" => a.write_i16(addr, v as i16),
        "i32" => a.write_i32(addr, v as i32),
        "f32" => a.write_f32(addr, f32::from_bits(v as u32)),
        _ => panic!("ty"),
    })
}
fn rb_ty(a: &BinArchive, ty: &str, addr: usize) -> String {
    format!("rb={}", fin(read_ty(a, ty, addr), |v| v.to_string()).replace(' ', ":"))
}

/// Hex fields that carry strings must be valid UTF-8 (and well-formed hex); the orchestrator's shrinker
/// cuts hex fields blindly, such a line is answered `badutf8` and judged `ok skip` by the driver.
fn strings_ok(f: &[&str]) -> bool {
    let ok = |s: &str| {
        s == "-" || (s.len() % 2 == 0 && s.bytes().all(|c| c.is_ascii_hexdigit()) && String::from_utf8(unhex(s)).is_ok())
    };
    match f[1] {
        "w_str" | "w_cstr" | "w_label" => f.len() > 3 && (f[3] == "~" || ok(f[3])),
        "w_labels" => f.len() > 3 && (f[3] == "!" || f[3].split('/').all(ok)),
        "find" | "W_str" | "W_cstr" | "W_label" => f.len() > 2 && (f[2] == "~" || ok(f[2])),
        _ => true,
    }
}

fn exec(st: &mut St, f: &[&str]) -> String {
    let op = f[1];
    if !strings_ok(f) {
        return "badutf8".to_string();
    }
    if let Some(ty) = op.strip_prefix("r_").filter(|t| TYS.contains(t)) {
        return fin(read_ty(&st.a, ty, pu(f[2])), |v| v.to_string());
    }
    if let Some(ty) = op.strip_prefix("w_").filter(|t| TYS.contains(t)) {
        let addr = pu(f[2]);
        let r = write_ty(&mut st.a, ty, addr, pi(f[3]));
        let rb = rb_ty(&st.a, ty, addr);
        return fin(r, |_| rb);
    }
    if let Some(ty) = op.strip_prefix("R_").filter(|t| TYS.contains(t)) {
        let mut r = BinArchiveReader::new(&st.a, st.rpos);
        let res = no_panic(|| match ty {
            "u8" => r.read_u8().map(|v| v as i64),
            "u16" => r.read_u16().map(|v| v as i64),
            "u32" => r.read_u32().map(|v| v as i64),
            "i8" => r.read_i8().map(|v| v as i64),
            "i16" => r.read_i16().map(|v| v as i64),
            "i32" => r.read_i32().map(|v| v as i64),
            "f32" => r.read_f32().map(|v| v.to_bits() as i64),
            _ => panic!("ty"),
        });
        st.rpos = r.tell();
        return fin(res, |v| v.to_string());
    }
    if let Some(ty) = op.strip_prefix("W_").filter(|t| TYS.contains(t)) {
        let v = pi(f[2]);
        let old = st.wpos;
        let mut w = BinArchiveWriter::new(&mut st.a, st.wpos);
        let res = no_panic(|| match ty {
            "u8" => w.write_u8(v as u8),
            "u16" => w.write_u16(v as u16),
            "u32" => w.write_u32(v as u32),
            "i8" => w.write_i8(v as i8),
            "i16" => w.write_i16(v as i16),
            "i32" => w.write_i32(v as i32),
            "f32" => w.write_f32(f32::from_bits(v as u32)),
            _ => panic!("ty"),
        });
        st.wpos = w.tell();
        let rb = rb_ty(&st.a, ty, old);
        return fin(res, |_| rb);
    }
    match op {
        "alloc_end" => {
            let n = pu(f[2]);
            fin(no_panic(|| Ok::<_, ArchiveError>(st.a.allocate_at_end(n))), |_| String::new())
        }
        "allocate" => {
            let (addr, n, ge) = (pu(f[2]), pu(f[3]), f[4] == "1");
            fin(no_panic(|| st.a.allocate(addr, n, ge)), |_| String::new())
        }
        "deallocate" => {
            let (addr, n, ge) = (pu(f[2]), pu(f[3]), f[4] == "1");
            fin(no_panic(|| st.a.deallocate(addr, n, ge)), |_| String::new())
        }
        "truncate" => {
            let addr = pu(f[2]);
            fin(no_panic(|| st.a.truncate(addr)), |_| String::new())
        }
        "r_bytes" => {
            let (addr, n) = (pu(f[2]), pu(f[3]));
            fin(no_panic(|| st.a.read_bytes(addr, n).map(|b| b.to_vec())), |b| hex(&b))
        }
        "w_bytes" => {
            let addr = pu(f[2]);
            let v = unhex(f[3]);
            let r = no_panic(|| st.a.write_bytes(addr, &v));
            let rb = format!(
                "rb={}",
                fin(no_panic(|| st.a.read_bytes(addr, v.len()).map(|b| b.to_vec())), |b| hex(&b)).replace(' ', ":")
            );
            fin(r, |_| rb)
        }
        "r_str" => fin(no_panic(|| st.a.read_string(pu(f[2]))), |v| opt_str(&v)),
        "r_ptr" => fin(no_panic(|| st.a.read_pointer(pu(f[2]))), |v| match v {
            None => "~".into(),
            Some(p) => p.to_string(),
        }),
        "r_labels" => fin(no_panic(|| st.a.read_labels(pu(f[2]))), |v| match v {
            None => "~".into(),
            Some(b) => bucket_str(&b),
        }),
        "r_cstr" => fin(no_panic(|| st.a.read_c_string(pu(f[2]))), |v| opt_dec(&v)),
        "w_str" => {
            let v = popt_str(f[3]);
            fin(no_panic(|| st.a.write_string(pu(f[2]), v.as_deref())), |_| String::new())
        }
        "w_ptr" => fin(no_panic(|| st.a.write_pointer(pu(f[2]), popt_u(f[3]))), |_| String::new()),
        "w_cstr" => fin(no_panic(|| st.a.write_c_string(pu(f[2]), unhexs(f[3]))), |_| String::new()),
        "w_label" => {
            let v = unhexs(f[3]);
            fin(no_panic(|| st.a.write_label(pu(f[2]), &v)), |_| String::new())
        }
        "w_labels" => {
            let v: Vec<String> = if f[3] == "!" { vec![] } else { f[3].split('/').map(unhexs).collect() };
            fin(no_panic(|| st.a.write_labels(pu(f[2]), v)), |_| String::new())
        }
        "d_str" => fin(no_panic(|| st.a.delete_string(pu(f[2]))), |_| String::new()),
        "d_ptr" => fin(no_panic(|| st.a.delete_pointer(pu(f[2]))), |_| String::new()),
        "d_labels" => fin(no_panic(|| st.a.delete_labels(pu(f[2]))), |_| String::new()),
        "d_label" => fin(no_panic(|| st.a.delete_label(pu(f[2]), pu(f[3]))), |_| String::new()),
        "find" => {
            let v = unhexs(f[2]);
            fin(no_panic(|| Ok::<_, ArchiveError>(st.a.find_label_address(&v))), |v| match v {
                None => "~".into(),
                Some(p) => p.to_string(),
            })
        }
        "ptr_dests" => fin(
            no_panic(|| {
                let mut v: Vec<usize> = st.a.pointer_destinations().into_iter().collect();
                v.sort();
                Ok::<_, ArchiveError>(v)
            }),
            |v| if v.is_empty() { "-".into() } else { v.iter().map(|x| x.to_string()).collect::<Vec<_>>().join(",") },
        ),
        "get_labels" => fin(no_panic(|| Ok::<_, ArchiveError>(st.a.get_labels())), |v| {
            if v.is_empty() {
                "-".into()
            } else {
                v.iter().map(|(a, s)| format!("{}:{}", a, hexs(s))).collect::<Vec<_>>().join(",")
            }
        }),
        // ---- reader
        "R_seek" | "R_skip" | "R_tell" => {
            let mut r = BinArchiveReader::new(&st.a, st.rpos);
            let out = match op {
                "R_seek" => {
                    r.seek(pu(f[2]));
                    "ok".to_string()
                }
                "R_skip" => {
                    if st.rpos.checked_add(pu(f[2])).is_none() {
                        "skipov".to_string() // cursor overflow is outside the statement: not executed
                    } else {
                        r.skip(pu(f[2]));
                        "ok".to_string()
                    }
                }
                _ => format!("ok {}", r.tell()),
            };
            st.rpos = r.tell();
            out
        }
        "R_bytes" => {
            let mut r = BinArchiveReader::new(&st.a, st.rpos);
            let res = no_panic(|| r.read_bytes(pu(f[2])));
            st.rpos = r.tell();
            fin(res, |b| hex(&b))
        }
        "R_str" => {
            let mut r = BinArchiveReader::new(&st.a, st.rpos);
            let res = no_panic(|| r.read_string());
            st.rpos = r.tell();
            fin(res, |v| opt_str(&v))
        }
        "R_ptr" => {
            let mut r = BinArchiveReader::new(&st.a, st.rpos);
            let res = no_panic(|| r.read_pointer());
            st.rpos = r.tell();
            fin(res, |v| match v {
                None => "~".into(),
                Some(p) => p.to_string(),
            })
        }
        "R_cstr" => {
            let mut r = BinArchiveReader::new(&st.a, st.rpos);
            let res = no_panic(|| r.read_c_string());
            st.rpos = r.tell();
            fin(res, |v| opt_dec(&v))
        }
        "R_label" => {
            let mut r = BinArchiveReader::new(&st.a, st.rpos);
            let res = no_panic(|| r.read_label(pu(f[2])));
            st.rpos = r.tell();
            fin(res, |v| opt_str(&v))
        }
        "R_labels" => {
            let mut r = BinArchiveReader::new(&st.a, st.rpos);
            let res = no_panic(|| r.read_labels());
            st.rpos = r.tell();
            fin(res, |v| match v {
                None => "~".into(),
                Some(b) => bucket_str(&b),
            })
        }
        "R_sjis" => {
            let mut r = BinArchiveReader::new(&st.a, st.rpos);
            let res = no_panic(|| r.read_shift_jis_string().map_err(ArchiveError::from));
            st.rpos = r.tell();
            fin(res, |v| dec_str(&v))
        }
        // ---- writer
        "W_seek" | "W_skip" | "W_tell" | "W_size" => {
            let mut w = BinArchiveWriter::new(&mut st.a, st.wpos);
            let out = match op {
                "W_seek" => {
                    w.seek(pu(f[2]));
                    "ok".to_string()
                }
                "W_skip" => {
                    if st.wpos.checked_add(pu(f[2])).is_none() {
                        "skipov".to_string()
                    } else {
                        w.skip(pu(f[2]));
                        "ok".to_string()
                    }
                }
                "W_tell" => format!("ok {}", w.tell()),
                _ => format!("ok {} {}", w.size(), w.length()),
            };
            st.wpos = w.tell();
            out
        }
        "W_bytes" => {
            let v = unhex(f[2]);
            let mut w = BinArchiveWriter::new(&mut st.a, st.wpos);
            let res = no_panic(|| w.write_bytes(&v));
            st.wpos = w.tell();
            fin(res, |_| String::new())
        }
        "W_str" => {
            let v = popt_str(f[2]);
            let mut w = BinArchiveWriter::new(&mut st.a, st.wpos);
            let res = no_panic(|| w.write_string(v.as_deref()));
            st.wpos = w.tell();
            fin(res, |_| String::new())
        }
        "W_ptr" => {
            let mut w = BinArchiveWriter::new(&mut st.a, st.wpos);
            let res = no_panic(|| w.write_pointer(popt_u(f[2])));
            st.wpos = w.tell();
            fin(res, |_| String::new())
        }
        "W_cstr" => {
            let mut w = BinArchiveWriter::new(&mut st.a, st.wpos);
            let res = no_panic(|| w.write_c_string(unhexs(f[2])));
            st.wpos = w.tell();
            fin(res, |_| String::new())
        }
        "W_label" => {
            let v = unhexs(f[2]);
            let mut w = BinArchiveWriter::new(&mut st.a, st.wpos);
            let res = no_panic(|| w.write_label(&v));
            st.wpos = w.tell();
            fin(res, |_| String::new())
        }
        "W_alloc" => {
            let (n, ge) = (pu(f[2]), f[3] == "1");
            let mut w = BinArchiveWriter::new(&mut st.a, st.wpos);
            let res = no_panic(|| w.allocate(n, ge));
            st.wpos = w.tell();
            fin(res, |_| String::new())
        }
        "W_alloc_end" => {
            let n = pu(f[2]);
            let mut w = BinArchiveWriter::new(&mut st.a, st.wpos);
            let res = no_panic(|| Ok::<_, ArchiveError>(w.allocate_at_end(n)));
            st.wpos = w.tell();
            fin(res, |_| String::new())
        }
        _ => "badop".to_string(),
    }
}

const TYS: [&str; 7] = ["u8", "u16", "u32", "i8", "i16", "i32", "f32"];

pub fn run_line(state: &mut super::State, line: &str) -> String {
    let f: Vec<&str> = line.split(' ').filter(|s| !s.is_empty()).collect();
    let id = f[0];
    if f.len() < 2 {
        return format!("{} badline", id);
    }
    if f[1] == "new" {
        let e = if f.get(2) == Some(&"BE") { Endian::Big } else { Endian::Little };
        let st = St { id: id.to_string(), a: BinArchive::new(e), rpos: 0, wpos: 0 };
        let out = format!("{} ok | {}", id, state_str(&st));
        state.any = Some(Box::new(st));
        return out;
    }
    let st = match state.any.as_mut().and_then(|b| b.downcast_mut::<St>()) {
        Some(st) if st.id == id => st,
        _ => return format!("{} nostate", id),
    };
    let res = exec(st, &f);
    let s = no_panic(|| state_str(st)).unwrap_or_else(|_| "state-panic".into());
    format!("{} {} | {}", id, res, s)
}

include!("binops_gen.rs");
