//! Family `texc`: C20 — texture containers CTPK / BCH / CGFX / TPL.
//!
//! Case lines:
//!   <id> read <kind> <file-hex> <n> {<name-hex> <w> <h> <fmt> <payoff> <paylen> <paloff> <pallen>}*
//!        a spec-built container and the textures packed into it (extents into the file);
//!        `<n>` = `~` for malformed input (no claim about content)
//!   <id> prefixes <kind> <file-hex> <n> {…}*      every strict prefix of the same file
//!   <id> fsread <kind> <loc 0|1> <file-hex> <n> {…}*   the same file written into a layer directory and read through
//!        `LayeredFilesystem::read_{ctpk,bch,cgfx}_textures` (map keyed by name) / `read_tpl_textures`;
//!        implementation line: `ok <n> {<key-hex> <name-hex> <w> <h> <pixels-hex>}*` sorted by key (TPL: by index)
//!   <id> fsreadz <kind> <loc> <game> <ext> <stored-hex> <file-hex> <n> {…}*   the container stored compressed
//!        (`stored` = LZ10 / LZ13 stream of `file`, put on disk as it is) and read through the same typed readers
//! Implementation lines:
//!   <id> <dev|release> ok <n> {<name-hex> <w> <h> <pixels-hex>}*  |  … err <Class>  |  … panic
//!   <id> <dev|release> <a>-<b>:<class>,…      run-length list over the cut positions; class =
//!        `panic`, `err.<Class>` or `ok.<h1>.<h2>` (two 64-bit hashes of the `read` output text)
//!
//! The builders mirror `lean/MilaModel/Spec/TexContainers.lean`: only the bytes the formats define
//! are written (header fields, pointer fields, names, payloads); tables, names and payloads are
//! placed in random order with random gaps filled with junk, section bases are chosen at random
//! below their first item.
#![allow(unused)]
use crate::util::*;
use mila::*;

pub const PROFILE: &str = if cfg!(debug_assertions) { "dev" } else { "release" };

#[derive(Clone, Debug)]
pub struct Tex {
    pub name: String,
    pub w: u32,
    pub h: u32,
    pub fmt: u32,
    pub payload: Vec<u8>,
    pub palette: Vec<u8>,
}

#[derive(Clone, Debug, Default)]
pub struct Built {
    pub file: Vec<u8>,
    /// per texture: (payload offset, payload length, palette offset, palette length)
    pub ext: Vec<(usize, usize, usize, usize)>,
}

// ---------------------------------------------------------------------------------------------
// Shift-JIS sub-alphabet (ASCII, half-width katakana, hiragana, katakana) — the alphabet of the
// model's `sjisStrict`.
// ---------------------------------------------------------------------------------------------
pub fn sjis_sub(s: &str) -> Option<Vec<u8>> {
    let mut out = Vec::new();
    for c in s.chars() {
        let cp = c as u32;
        if cp < 0x80 {
            out.push(cp as u8);
        } else if (0xFF61..=0xFF9F).contains(&cp) {
            out.push((cp - 0xFF61 + 0xA1) as u8);
        } else if (0x3041..=0x3093).contains(&cp) {
            out.push(0x82);
            out.push((0x9F + (cp - 0x3041)) as u8);
        } else if (0x30A1..=0x30DF).contains(&cp) {
            out.push(0x83);
            out.push((0x40 + (cp - 0x30A1)) as u8);
        } else if (0x30E0..=0x30F6).contains(&cp) {
            out.push(0x83);
            out.push((0x80 + (cp - 0x30E0)) as u8);
        } else {
            return None;
        }
    }
    Some(out)
}

// ---------------------------------------------------------------------------------------------
// chunk placement
// ---------------------------------------------------------------------------------------------
struct Chunk {
    size: usize,
    after: Vec<usize>,
    pos: usize,
}

struct Placer {
    chunks: Vec<Chunk>,
}

impl Placer {
    fn new() -> Self {
        Placer { chunks: Vec::new() }
    }
    fn add(&mut self, size: usize, after: &[usize]) -> usize {
        self.chunks.push(Chunk { size, after: after.to_vec(), pos: usize::MAX });
        self.chunks.len() - 1
    }
    /// Places every chunk at or after `start`; returns the end of the last chunk.
    fn place(&mut self, start: usize, rng: &mut Rng, shuffle: bool) -> usize {
        let n = self.chunks.len();
        let mut cursor = start;
        let mut placed = 0;
        while placed < n {
            let ready: Vec<usize> = (0..n)
                .filter(|&i| self.chunks[i].pos == usize::MAX && self.chunks[i].after.iter().all(|&d| self.chunks[d].pos != usize::MAX))
                .collect();
            let pick = if shuffle { *rng.pick(&ready) } else { ready[0] };
            if shuffle {
                match rng.below(4) {
                    0 => {}
                    1 => cursor += rng.below(4) as usize,
                    2 => cursor = (cursor + 3) / 4 * 4,
                    _ => cursor += rng.below(12) as usize,
                }
            }
            self.chunks[pick].pos = cursor;
            cursor += self.chunks[pick].size;
            placed += 1;
        }
        cursor
    }
    fn pos(&self, i: usize) -> usize {
        self.chunks[i].pos
    }
}

/// Bytes of every position the format does not define (gaps, unused header / flag / size fields):
/// random junk, or the special words 0, 0xFFFFFFFF, 0x80000000 repeated.
fn fill(total: usize, rng: &mut Rng, shuffle: bool) -> Vec<u8> {
    if !shuffle {
        return vec![0u8; total];
    }
    match rng.below(8) {
        0 => vec![0u8; total],
        1 => vec![0xFFu8; total],
        2 => (0..total).map(|i| if i % 4 == 3 { 0x80 } else { 0 }).collect(),
        _ => rng.bytes(total),
    }
}

fn put(file: &mut [u8], off: usize, bytes: &[u8]) {
    file[off..off + bytes.len()].copy_from_slice(bytes);
}
fn put16(file: &mut [u8], off: usize, v: u32) {
    put(file, off, &(v as u16).to_le_bytes());
}
fn put32(file: &mut [u8], off: usize, v: u32) {
    put(file, off, &v.to_le_bytes());
}
fn putb16(file: &mut [u8], off: usize, v: u32) {
    put(file, off, &(v as u16).to_be_bytes());
}
fn putb32(file: &mut [u8], off: usize, v: u32) {
    put(file, off, &v.to_be_bytes());
}
fn base_below(min_pos: Option<usize>, total: usize, rng: &mut Rng, shuffle: bool) -> usize {
    match min_pos {
        Some(m) => {
            if shuffle {
                rng.range(0, m as u64) as usize
            } else {
                m
            }
        }
        None => rng.below(total as u64 + 1) as usize,
    }
}

// ---------------------------------------------------------------------------------------------
// builders
// ---------------------------------------------------------------------------------------------
pub fn build_ctpk(texs: &[Tex], rng: &mut Rng, shuffle: bool) -> Built {
    let n = texs.len();
    let names: Vec<Vec<u8>> = texs.iter().map(|t| sjis_sub(&t.name).expect("name outside the Shift-JIS sub-alphabet")).collect();
    let mut pl = Placer::new();
    let name_c: Vec<usize> = names.iter().map(|b| pl.add(b.len() + 1, &[])).collect();
    let pay_c: Vec<usize> = texs.iter().map(|t| pl.add(t.payload.len(), &[])).collect();
    let end = pl.place(0x20 + 0x20 * n, rng, shuffle);
    let total = end + if shuffle { rng.below(6) as usize } else { 0 };
    let mut file = fill(total, rng, shuffle);
    let base = base_below(pay_c.iter().map(|&c| pl.pos(c)).min(), total, rng, shuffle);
    put(&mut file, 0, b"CTPK");
    put16(&mut file, 4, 1);
    put16(&mut file, 6, n as u32);
    put32(&mut file, 8, base as u32);
    let mut ext = Vec::new();
    for i in 0..n {
        let e = 0x20 + 0x20 * i;
        put32(&mut file, e, pl.pos(name_c[i]) as u32);
        put32(&mut file, e + 4, texs[i].payload.len() as u32);
        put32(&mut file, e + 8, (pl.pos(pay_c[i]) - base) as u32);
        put32(&mut file, e + 0xC, texs[i].fmt);
        put16(&mut file, e + 0x10, texs[i].w);
        put16(&mut file, e + 0x12, texs[i].h);
        put(&mut file, pl.pos(name_c[i]), &names[i]);
        file[pl.pos(name_c[i]) + names[i].len()] = 0;
        put(&mut file, pl.pos(pay_c[i]), &texs[i].payload);
        ext.push((pl.pos(pay_c[i]), texs[i].payload.len(), 0, 0));
    }
    Built { file, ext }
}

/// `compat` = backward-compatibility byte; the header is extended when the *library* says so (`> 20`).
pub fn build_bch(texs: &[Tex], compat: u8, rng: &mut Rng, shuffle: bool) -> Built {
    let n = texs.len();
    let hlen = if compat > 20 { 64 } else { 56 };
    let mut pl = Placer::new();
    let ct = pl.add(0x2C, &[]);
    let table = pl.add(4 * n, &[ct]);
    let desc: Vec<usize> = (0..n).map(|_| pl.add(0x20, &[ct])).collect();
    let cmd: Vec<usize> = (0..n).map(|_| pl.add(0x1C, &[])).collect();
    let name_c: Vec<usize> = texs.iter().map(|t| pl.add(t.name.len() + 1, &[])).collect();
    let pay_c: Vec<usize> = texs.iter().map(|t| pl.add(t.payload.len(), &[])).collect();
    let end = pl.place(hlen, rng, shuffle);
    let total = end + if shuffle { rng.below(6) as usize } else { 0 };
    let mut file = fill(total, rng, shuffle);
    let contents = pl.pos(ct);
    let strings = base_below(name_c.iter().map(|&c| pl.pos(c)).min(), total, rng, shuffle);
    let commands = base_below(cmd.iter().map(|&c| pl.pos(c)).min(), total, rng, shuffle);
    let raw = base_below(pay_c.iter().map(|&c| pl.pos(c)).min(), total, rng, shuffle);
    put(&mut file, 0, b"BCH\0");
    file[4] = compat;
    put32(&mut file, 8, contents as u32);
    put32(&mut file, 12, strings as u32);
    put32(&mut file, 16, commands as u32);
    put32(&mut file, 20, raw as u32);
    put32(&mut file, contents + 0x24, (pl.pos(table) - contents) as u32);
    put32(&mut file, contents + 0x28, n as u32);
    let mut ext = Vec::new();
    for i in 0..n {
        put32(&mut file, pl.pos(table) + 4 * i, (pl.pos(desc[i]) - contents) as u32);
        let d = pl.pos(desc[i]);
        put32(&mut file, d, (pl.pos(cmd[i]) - commands) as u32);
        put32(&mut file, d + 0x1C, (pl.pos(name_c[i]) - strings) as u32);
        let k = pl.pos(cmd[i]);
        put16(&mut file, k, texs[i].h);
        put16(&mut file, k + 2, texs[i].w);
        put32(&mut file, k + 0x10, (pl.pos(pay_c[i]) - raw) as u32);
        put32(&mut file, k + 0x18, texs[i].fmt);
        put(&mut file, pl.pos(name_c[i]), texs[i].name.as_bytes());
        file[pl.pos(name_c[i]) + texs[i].name.len()] = 0;
        put(&mut file, pl.pos(pay_c[i]), &texs[i].payload);
        ext.push((pl.pos(pay_c[i]), texs[i].payload.len(), 0, 0));
    }
    Built { file, ext }
}

pub fn build_cgfx(texs: &[Tex], rng: &mut Rng, shuffle: bool) -> Built {
    let n = texs.len();
    let mut pl = Placer::new();
    let dict = pl.add(0x1C + 16 * n, &[]);
    let txob: Vec<usize> = (0..n).map(|_| pl.add(0x4C, &[dict])).collect();
    let name_c: Vec<usize> = (0..n).map(|i| pl.add(texs[i].name.len() + 1, &[txob[i]])).collect();
    let pay_c: Vec<usize> = (0..n).map(|i| pl.add(texs[i].payload.len(), &[txob[i]])).collect();
    let end = pl.place(0x9C, rng, shuffle);
    let total = end + if shuffle { rng.below(6) as usize } else { 0 };
    let mut file = fill(total, rng, shuffle);
    put(&mut file, 0, b"CGFX");
    put(&mut file, 0x14, b"DATA");
    for j in 0..16 {
        // self-relative offsets that stay inside 32 bits
        put32(&mut file, 0x20 + 8 * j, rng.below(0x2000) as u32);
    }
    let d = pl.pos(dict);
    put32(&mut file, 0x28, (d - 0x28) as u32);
    put(&mut file, d, b"DICT");
    put32(&mut file, d + 8, n as u32);
    let mut ext = Vec::new();
    for i in 0..n {
        let e = d + 0x1C + 16 * i;
        put32(&mut file, e + 8, rng.below(0x2000) as u32);
        let t = pl.pos(txob[i]);
        put32(&mut file, e + 12, (t - (e + 12)) as u32);
        put(&mut file, t + 4, b"TXOB");
        put32(&mut file, t + 0xC, (pl.pos(name_c[i]) - (t + 0xC)) as u32);
        put32(&mut file, t + 0x18, texs[i].h);
        put32(&mut file, t + 0x1C, texs[i].w);
        put32(&mut file, t + 0x34, texs[i].fmt);
        put32(&mut file, t + 0x44, texs[i].payload.len() as u32);
        put32(&mut file, t + 0x48, (pl.pos(pay_c[i]) - (t + 0x48)) as u32);
        put(&mut file, pl.pos(name_c[i]), texs[i].name.as_bytes());
        file[pl.pos(name_c[i]) + texs[i].name.len()] = 0;
        put(&mut file, pl.pos(pay_c[i]), &texs[i].payload);
        ext.push((pl.pos(pay_c[i]), texs[i].payload.len(), 0, 0));
    }
    Built { file, ext }
}

pub fn build_tpl(texs: &[Tex], rng: &mut Rng, shuffle: bool) -> Built {
    let n = texs.len();
    let mut pl = Placer::new();
    let table = pl.add(8 * n, &[]);
    let ih: Vec<usize> = (0..n).map(|_| pl.add(36, &[])).collect();
    let ph: Vec<usize> = (0..n).map(|_| pl.add(12, &[])).collect();
    let pay_c: Vec<usize> = texs.iter().map(|t| pl.add(t.payload.len(), &[])).collect();
    let pal_c: Vec<usize> = texs.iter().map(|t| pl.add(t.palette.len(), &[])).collect();
    let end = pl.place(12, rng, shuffle);
    let total = end + if shuffle { rng.below(6) as usize } else { 0 };
    let mut file = fill(total, rng, shuffle);
    putb32(&mut file, 0, 0x0020AF30);
    putb32(&mut file, 4, n as u32);
    putb32(&mut file, 8, pl.pos(table) as u32);
    let mut ext = Vec::new();
    for i in 0..n {
        let t = pl.pos(table) + 8 * i;
        putb32(&mut file, t, pl.pos(ih[i]) as u32);
        putb32(&mut file, t + 4, pl.pos(ph[i]) as u32);
        let a = pl.pos(ih[i]);
        putb16(&mut file, a, texs[i].h);
        putb16(&mut file, a + 2, texs[i].w);
        putb32(&mut file, a + 4, texs[i].fmt);
        putb32(&mut file, a + 8, pl.pos(pay_c[i]) as u32);
        let b = pl.pos(ph[i]);
        putb16(&mut file, b, (texs[i].palette.len() / 2) as u32);
        putb32(&mut file, b + 4, 2);
        putb32(&mut file, b + 8, pl.pos(pal_c[i]) as u32);
        put(&mut file, pl.pos(pay_c[i]), &texs[i].payload);
        put(&mut file, pl.pos(pal_c[i]), &texs[i].palette);
        ext.push((pl.pos(pay_c[i]), texs[i].payload.len(), pl.pos(pal_c[i]), texs[i].palette.len()));
    }
    Built { file, ext }
}

// ---------------------------------------------------------------------------------------------
// texture generators
// ---------------------------------------------------------------------------------------------
pub const FORMATS_3DS: [u32; 9] = [0, 2, 3, 4, 5, 7, 8, 12, 13];

/// bits per pixel of the supported formats (integer arithmetic; independent of the library's f32 table).
pub fn bits_per_pixel(fmt: u32) -> Option<usize> {
    match fmt {
        0 => Some(32),
        1 => Some(24),
        2..=5 => Some(16),
        6..=9 | 11 | 13 => Some(8),
        10 | 12 => Some(4),
        _ => None,
    }
}

const ASCII_NAMES: [&str; 8] = ["a", "tex0", "Face_01.png", "body diffuse", "x.y.z", "#%~!", "", "A"];
const SJIS_NAMES: [&str; 6] = ["あいう", "テクスチャ", "ｱｲｳ", "かおtex", "ア", "ﾃｸｽﾁｬ01"];
const UTF8_NAMES: [&str; 14] = [
    "é", "日本語", "\u{FEFF}abc", "😀face", "ñandú", "\u{FFFE}x", "\u{FEFF}", "tex_ü_β", "\u{10FFFF}", "中",
    // code points whose low byte looks like a special ASCII byte ('\n', '\\', NUL, 'n')
    "上《＊Ċ", "乜a乜", "一Ā", "乮\u{7F}\u{1}",
];

/// A name of exactly `len` encoded bytes (Shift-JIS sub-alphabet or UTF-8), mixing single- and
/// multi-byte characters so that a multi-byte character straddles every boundary for some length.
pub fn name_of_len(rng: &mut Rng, len: usize, sjis: bool) -> String {
    let mut s = String::new();
    let mut n = 0;
    let mut lead = rng.below(3) as usize;
    while n < len {
        let left = len - n;
        let (c, sz) = if sjis {
            if left >= 2 && lead % 3 != 0 { (char::from_u32(0x3042 + rng.below(0x50) as u32).unwrap(), 2) } else if lead % 5 == 1 { (char::from_u32(0xFF71 + rng.below(0x2C) as u32).unwrap(), 1) } else { (char::from_u32(0x41 + rng.below(26) as u32).unwrap(), 1) }
        } else if left >= 4 && lead % 7 == 3 {
            (char::from_u32(0x1F600 + rng.below(0x40) as u32).unwrap(), 4)
        } else if left >= 3 && lead % 3 == 1 {
            (char::from_u32(0x4E00 + rng.below(0x100) as u32).unwrap(), 3)
        } else if left >= 2 && lead % 3 == 2 {
            (char::from_u32(0xC0 + rng.below(0x100) as u32).unwrap(), 2)
        } else {
            (char::from_u32(0x61 + rng.below(26) as u32).unwrap(), 1)
        };
        s.push(c);
        n += sz;
        lead += 1;
    }
    s
}

pub fn gen_name(rng: &mut Rng, sjis: bool) -> String {
    match rng.below(10) {
        0..=3 => rng.pick(&ASCII_NAMES).to_string(),
        4..=6 => {
            if sjis {
                rng.pick(&SJIS_NAMES).to_string()
            } else {
                rng.pick(&UTF8_NAMES).to_string()
            }
        }
        _ => {
            // random string over the alphabet
            let len = rng.range(1, 6);
            let mut s = String::new();
            for _ in 0..len {
                let c = if sjis {
                    match rng.below(4) {
                        0 => char::from_u32(0x3041 + rng.below(0x53) as u32).unwrap(),
                        1 => char::from_u32(0x30A1 + rng.below(0x56) as u32).unwrap(),
                        2 => char::from_u32(0xFF61 + rng.below(0x3F) as u32).unwrap(),
                        _ => char::from_u32(0x21 + rng.below(0x5E) as u32).unwrap(),
                    }
                } else {
                    match rng.below(5) {
                        0 => char::from_u32(0x80 + rng.below(0x780) as u32).unwrap(),
                        1 => loop {
                            let c = 0x800 + rng.below(0xF800) as u32;
                            if let Some(c) = char::from_u32(c) {
                                break c;
                            }
                        },
                        2 => char::from_u32(0x10000 + rng.below(0x100000) as u32).unwrap(),
                        _ => char::from_u32(0x21 + rng.below(0x5E) as u32).unwrap(),
                    }
                };
                s.push(c);
            }
            s
        }
    }
}

/// A 64-bit word taking the special values a fast path or early exit would test: 0, all ones,
/// a single bit, a single nibble / byte, the previous word, or random.
pub fn sentinel_word(rng: &mut Rng, prev: u64) -> u64 {
    match rng.below(10) {
        0 | 1 => 0,
        2 => u64::MAX,
        3 => 1u64 << rng.below(64),
        4 => (1 + rng.below(15)) << (4 * rng.below(16)),
        5 => 0xFFu64 << (8 * rng.below(8)),
        6 => prev,
        7 => !(1u64 << rng.below(64)),
        _ => rng.next(),
    }
}

/// Structured ("sentinel-aware") payload of `len` bytes for a texture of format `fmt`: whole
/// payload / whole units (texels, 8-byte words, 64-texel tiles or 2x2-block tiles) equal to zero,
/// all ones, a single bit, or the previous unit, next to random ones.  For ETC1A4 the alpha word and
/// the colour word of a block are drawn independently (zero alpha with a non-black colour word etc.).
pub fn sentinel_payload(rng: &mut Rng, fmt: u32, len: usize, style: u64) -> Vec<u8> {
    let mut p = Vec::with_capacity(len);
    match style % 6 {
        0 => p.resize(len, 0),
        1 => p.resize(len, 0xFF),
        2 | 3 => {
            // word-wise sentinels (for ETC1A4: alpha word, colour word alternate)
            let mut prev = [rng.next(), rng.next()];
            let mut k = 0;
            while p.len() < len {
                let w = if fmt == 13 && k % 2 == 1 && style % 6 == 3 {
                    // a colour word that is legal and not black: individual mode, random bases
                    rng.next() & !(1u64 << 33) | (0x5u64 << 60)
                } else {
                    sentinel_word(rng, prev[k % 2])
                };
                prev[k % 2] = w;
                k += 1;
                p.extend_from_slice(&w.to_le_bytes());
            }
            p.truncate(len);
        }
        4 => {
            // tile-wise: runs of 8x8-pixel tiles that are all zero / all ones / random / a copy of the previous tile
            let tile = (bits_per_pixel(fmt).unwrap_or(8) * 64 / 8).max(1);
            let mut prev: Vec<u8> = rng.bytes(tile);
            while p.len() < len {
                let t: Vec<u8> = match rng.below(5) {
                    0 | 1 => vec![0; tile],
                    2 => vec![0xFF; tile],
                    3 => prev.clone(),
                    _ => rng.bytes(tile),
                };
                p.extend_from_slice(&t);
                prev = t;
            }
            p.truncate(len);
        }
        _ => {
            // byte-wise: mostly 0x00 / 0xFF with a few other bytes (single-bit texels, repeated texels)
            let mut prev = 0u8;
            for _ in 0..len {
                let b = match rng.below(8) {
                    0 | 1 | 2 => 0,
                    3 | 4 => 0xFF,
                    5 => 1 << rng.below(8),
                    6 => prev,
                    _ => rng.next() as u8,
                };
                prev = b;
                p.push(b);
            }
        }
    }
    p
}

pub fn gen_tex_3ds(rng: &mut Rng, sjis: bool, big: bool) -> Tex {
    let fmt = *rng.pick(&FORMATS_3DS);
    let sizes: &[u32] = if big { &[8, 16, 32] } else { &[8, 8, 8, 16] };
    let w = *rng.pick(sizes);
    let h = *rng.pick(sizes);
    let len = bits_per_pixel(fmt).unwrap() * (w * h) as usize / 8;
    // one payload in three is structured (zero / all-ones / single-bit words, zero tiles, ...)
    let payload = if rng.chance(1, 3) {
        let style = rng.next();
        sentinel_payload(rng, fmt, len, style)
    } else {
        rng.bytes(len)
    };
    Tex { name: gen_name(rng, sjis), w, h, fmt, payload, palette: Vec::new() }
}

/// Palette bytes for `entries` RGB5A3 entries: random, but a good share of the entries are the values
/// at which the two RGB5A3 forms meet or saturate (0x8000 opaque black, 0x7FFF, 0x0000, 0xFFFF, 0x8001,
/// 0x7000 ...), so that every one of them is used by some pixel of some image.
pub fn rgb5a3_palette(rng: &mut Rng, entries: usize) -> Vec<u8> {
    const SPECIAL: [u16; 10] = [0x8000, 0x7FFF, 0x0000, 0xFFFF, 0x8001, 0x7000, 0x0FFF, 0xFC00, 0x83E0, 0x801F];
    let mut v = Vec::with_capacity(entries * 2);
    for _ in 0..entries {
        let e: u16 = if rng.chance(1, 3) { *rng.pick(&SPECIAL) } else { rng.next() as u16 };
        v.extend_from_slice(&e.to_be_bytes());
    }
    v
}

/// CI8 index plane for a `w`x`h` image over `entries` palette entries, in 8x4 blocks of the padded
/// image: texels inside the image index the palette; padding texels (outside `w`x`h`) are not part of
/// the image and take bytes from the full range — 0xFF filler, values at and above the palette length.
pub fn ci8_plane(rng: &mut Rng, w: u32, h: u32, entries: usize) -> Vec<u8> {
    let aw = (w as usize + 7) / 8 * 8;
    let ah = (h as usize + 3) / 4 * 4;
    let pad_style = rng.below(4);
    let mut p = vec![0u8; aw * ah];
    for y in 0..ah {
        for x in 0..aw {
            let off = ((y / 4) * (aw / 8) + x / 8) * 32 + (y % 4) * 8 + x % 8;
            p[off] = if x < w as usize && y < h as usize {
                rng.below(entries as u64) as u8
            } else {
                match pad_style {
                    0 => 0xFF,
                    1 => entries.min(255) as u8,
                    2 => rng.next() as u8,
                    _ => 0,
                }
            };
        }
    }
    p
}

pub fn gen_tex_tpl(rng: &mut Rng, big: bool) -> Tex {
    let (w, h) = if big { (rng.range(1, 64) as u32, rng.range(1, 64) as u32) } else { (rng.range(1, 18) as u32, rng.range(1, 10) as u32) };
    let entries = *rng.pick(&[1usize, 2, 5, 16, 32, 255, 256]);
    let payload = ci8_plane(rng, w, h, entries);
    Tex { name: String::new(), w, h, fmt: 9, payload, palette: rgb5a3_palette(rng, entries) }
}

/// `byte_size_of_image` of a TPL image format (independent integer table).
pub fn tpl_image_bytes(fmt: u32, w: u32, h: u32) -> usize {
    let (bw, bh) = match fmt {
        0 | 8 | 14 => (8usize, 8usize),
        1 | 2 | 9 => (8, 4),
        _ => (4, 4),
    };
    let base = ((w as usize + bw - 1) / bw * bw) * ((h as usize + bh - 1) / bh * bh);
    match fmt {
        0 | 8 => base / 2,
        3 | 4 | 5 | 10 => base * 2,
        6 => base * 4,
        _ => base,
    }
}

pub const KINDS: [&str; 4] = ["ctpk", "bch", "cgfx", "tpl"];

pub fn build(kind: &str, texs: &[Tex], compat: u8, rng: &mut Rng, shuffle: bool) -> Built {
    match kind {
        "ctpk" => build_ctpk(texs, rng, shuffle),
        "bch" => build_bch(texs, compat, rng, shuffle),
        "cgfx" => build_cgfx(texs, rng, shuffle),
        "tpl" => build_tpl(texs, rng, shuffle),
        _ => panic!("kind"),
    }
}

fn tex_fields(texs: &[Tex], b: &Built) -> String {
    let mut s = format!("{}", texs.len());
    for (t, e) in texs.iter().zip(b.ext.iter()) {
        s.push_str(&format!(" {} {} {} {} {} {} {} {}", hexs(&t.name), t.w, t.h, t.fmt, e.0, e.1, e.2, e.3));
    }
    s
}

const COMPATS: [u8; 10] = [0, 7, 20, 21, 0x20, 0x21, 0x22, 0x40, 0x80, 0xFF];

pub fn gen(seed: u64, tier: &str) -> Vec<String> {
    let thorough = tier == "thorough";
    let mut rng = Rng::new(seed ^ 0xC20);
    let mut lines = Vec::new();
    let id = std::cell::Cell::new(0usize);
    let next = |lines: &mut Vec<String>, body: String| {
        lines.push(format!("c20.{:06} {}", id.get(), body));
        id.set(id.get() + 1);
    };
    // 1. conforming containers: 0..=6 textures, shuffled and canonical placement; read + every prefix
    let rounds = if thorough { 60 } else { 6 };
    for round in 0..rounds {
        for kind in KINDS.iter() {
            for shuffle in [false, true] {
                let n = if round == 0 { if shuffle { 1 } else { 0 } } else { rng.range(0, 6) as usize };
                let big = thorough && rng.chance(1, 4);
                let texs: Vec<Tex> = (0..n)
                    .map(|_| if *kind == "tpl" { gen_tex_tpl(&mut rng, big) } else { gen_tex_3ds(&mut rng, *kind == "ctpk", big) })
                    .collect();
                let compat = *rng.pick(&COMPATS);
                let b = build(kind, &texs, compat, &mut rng, shuffle);
                let f = tex_fields(&texs, &b);
                next(&mut lines, format!("read {} {} {}", kind, hex(&b.file), f));
                // the secondary entry point: the same file through the layered filesystem (both localized flags)
                next(&mut lines, format!("fsread {} {} {} {}", kind, (round + shuffle as usize) % 2, hex(&b.file), f));
                // every truncation point (quick: files up to 3 KiB; thorough: up to 12 KiB)
                if b.file.len() <= if thorough { 12288 } else { 3072 } {
                    next(&mut lines, format!("prefixes {} {} {}", kind, hex(&b.file), f));
                }
            }
        }
    }
    // 1b. the top of the dimension domain: one side 256 / 512 / 1024 (the PICA200 maximum), the other 8,
    //     in an 8-bit, a 4-bit and a 32-bit format; single-texture files, all four containers
    {
        let tops: [(u32, u32, u32); 10] = [
            (1024, 8, 7), (8, 1024, 7), (1024, 8, 12), (8, 1024, 12), (1024, 8, 0), (8, 1024, 0),
            (256, 8, 13), (8, 512, 3), (512, 8, 4), (8, 256, 5),
        ];
        for kind in ["ctpk", "bch", "cgfx"] {
            for (i, &(w, h, fmt)) in tops.iter().enumerate() {
                if !thorough && i >= 6 && (i + kind.len()) % 2 == 0 {
                    continue;
                }
                let len = bits_per_pixel(fmt).unwrap() * (w * h) as usize / 8;
                let payload = if i % 3 == 0 { let st = rng.next(); sentinel_payload(&mut rng, fmt, len, st) } else { rng.bytes(len) };
                let texs = vec![Tex { name: gen_name(&mut rng, kind == "ctpk"), w, h, fmt, payload, palette: Vec::new() }];
                let b = build(kind, &texs, *rng.pick(&[0u8, 0x21]), &mut rng, true);
                next(&mut lines, format!("read {} {} {}", kind, hex(&b.file), tex_fields(&texs, &b)));
            }
        }
        for (w, h) in [(1024u32, 3u32), (5, 1024), (256, 4), (9, 512)] {
            let entries = 256usize;
            let aw = (w as usize + 7) / 8 * 8;
            let ah = (h as usize + 3) / 4 * 4;
            let payload: Vec<u8> = (0..aw * ah).map(|_| rng.below(entries as u64) as u8).collect();
            let texs = vec![Tex { name: String::new(), w, h, fmt: 9, payload, palette: rgb5a3_palette(&mut rng, entries) }];
            let b = build_tpl(&texs, &mut rng, true);
            next(&mut lines, format!("read tpl {} {}", hex(&b.file), tex_fields(&texs, &b)));
        }
        // beyond the domain (no claim; model and code must agree): sides 2048 / 4096 with a full payload,
        // and 0 / 1 / 1023 / 1025 / 0x8000 / 0xFFFF (CGFX: 0x10000) in the dimension fields of small files
        // whose payload region holds only 64 bytes (one side stays 8, so nobody allocates much)
        for kind in ["ctpk", "bch", "cgfx"] {
            for &(w, h, fmt) in [(2048u32, 8u32, 7u32), (8, 4096, 12)].iter() {
                let len = bits_per_pixel(fmt).unwrap() * (w * h) as usize / 8;
                let texs = vec![Tex { name: "big".into(), w, h, fmt, payload: rng.bytes(len), palette: Vec::new() }];
                let b = build(kind, &texs, 0, &mut rng, true);
                next(&mut lines, format!("read {} {} ~", kind, hex(&b.file)));
            }
            let mut odd: Vec<u32> = vec![0, 1, 1023, 1025, 0x8000, 0xFFFF];
            if kind == "cgfx" {
                odd.push(0x1_0000);
            }
            for &d in odd.iter() {
                for (w, h) in [(d, 8u32), (8u32, d)] {
                    let fmt = *rng.pick(&[7u32, 0, 12, 13, 3]);
                    let texs = vec![Tex { name: "odd".into(), w: 8, h: 8, fmt, payload: rng.bytes(64), palette: Vec::new() }];
                    let mut t2 = texs.clone();
                    t2[0].w = w;
                    t2[0].h = h;
                    // same layout, only the dimension fields differ from a well-formed 64-byte-payload file
                    let mut r1 = rng.clone();
                    let b = build(kind, &t2, 0, &mut r1, false);
                    next(&mut lines, format!("read {} {} ~", kind, hex(&b.file)));
                }
            }
        }
    }
    // 1c. second use on the same thread (one case id = calls made one after the other): a failing or
    //     differently shaped call, then an ordinary conforming file judged by the ordinary oracle
    {
        let seq = |lines: &mut Vec<String>, bodies: Vec<String>| {
            for b in bodies {
                lines.push(format!("c20.{:06} {}", id.get(), b));
            }
            id.set(id.get() + 1);
        };
        // TPL: an image of another block shape (rejected after de-blocking) with the same block-aligned
        // size, then the CI8 image; both orders; a different size in between
        let shapes: &[(u32, u32)] = if thorough { &[(8, 8), (16, 8), (5, 7), (13, 4), (8, 4), (24, 12), (3, 3)] } else { &[(8, 8), (13, 7), (16, 4)] };
        for &(w, h) in shapes {
            let (aw, ah) = ((w + 7) / 8 * 8, (h + 3) / 4 * 4);
            for other in [5u32, 6, 0, 3] {
                if !thorough && other == 3 {
                    continue;
                }
                let entries = *rng.pick(&[2usize, 16, 255]);
                let ci8 = vec![Tex { name: String::new(), w, h, fmt: 9, payload: ci8_plane(&mut rng, w, h, entries), palette: rgb5a3_palette(&mut rng, entries) }];
                let oth = vec![Tex { name: String::new(), w: aw, h: ah, fmt: other, payload: rng.bytes(tpl_image_bytes(other, aw, ah)), palette: rng.bytes(8) }];
                let b1 = build_tpl(&ci8, &mut rng, true);
                let b2 = build_tpl(&oth, &mut rng, true);
                let good = format!("read tpl {} {}", hex(&b1.file), tex_fields(&ci8, &b1));
                let bad = format!("read tpl {} ~", hex(&b2.file));
                if other % 2 == 1 {
                    seq(&mut lines, vec![bad, good]);
                } else {
                    seq(&mut lines, vec![good.clone(), bad, good]);
                }
            }
        }
        // every container: wrong magic / truncated file / other dimensions first, then the ordinary file
        for kind in KINDS.iter() {
            for variant in 0..3 {
                let n = rng.range(1, 2) as usize;
                let texs: Vec<Tex> = (0..n).map(|_| if *kind == "tpl" { gen_tex_tpl(&mut rng, false) } else { gen_tex_3ds(&mut rng, *kind == "ctpk", false) }).collect();
                let b = build(kind, &texs, 0x21, &mut rng, true);
                let good = format!("read {} {} {}", kind, hex(&b.file), tex_fields(&texs, &b));
                let first = match variant {
                    0 => {
                        let mut f = b.file.clone();
                        f[1] ^= 0x40;
                        format!("read {} {} ~", kind, hex(&f))
                    }
                    1 => format!("read {} {} ~", kind, hex(&b.file[..b.file.len() * 2 / 3])),
                    _ => {
                        let t2: Vec<Tex> = (0..2).map(|_| if *kind == "tpl" { gen_tex_tpl(&mut rng, false) } else { gen_tex_3ds(&mut rng, *kind == "ctpk", false) }).collect();
                        let b2 = build(kind, &t2, 0, &mut rng, true);
                        format!("read {} {} {}", kind, hex(&b2.file), tex_fields(&t2, &b2))
                    }
                };
                seq(&mut lines, vec![first, good.clone(), good]);
            }
        }
    }
    // 1d. filesystem entry points: duplicate names (the map keeps one of them: no claim), empty and
    //     non-ASCII names as keys, a malformed file, a second read of another container on the same thread
    for kind in ["ctpk", "bch", "cgfx"] {
        let mut texs: Vec<Tex> = (0..3).map(|_| gen_tex_3ds(&mut rng, kind == "ctpk", false)).collect();
        texs[2].name = texs[0].name.clone();
        let b = build(kind, &texs, 0, &mut rng, true);
        next(&mut lines, format!("fsread {} 0 {} {}", kind, hex(&b.file), tex_fields(&texs, &b)));
        let names: [&str; 3] = if kind == "ctpk" { ["", "ア", "tex 1"] } else { ["", "\u{FEFF}x", "日本/語"] };
        let texs: Vec<Tex> = names.iter().map(|n| { let mut t = gen_tex_3ds(&mut rng, kind == "ctpk", false); t.name = n.to_string(); t }).collect();
        let b = build(kind, &texs, 0x21, &mut rng, true);
        let good = format!("fsread {} 1 {} {}", kind, hex(&b.file), tex_fields(&texs, &b));
        let mut bad = b.file.clone();
        bad[0] ^= 0x55;
        let bad_line = format!("fsread {} 0 {} ~", kind, hex(&bad));
        let i0 = id.get();
        lines.push(format!("c20.{:06} {}", i0, bad_line));
        lines.push(format!("c20.{:06} {}", i0, good));
        lines.push(format!("c20.{:06} {}", i0, good.replace(" 1 ", " 0 ").replacen("fsread", "fsread", 1)));
        id.set(i0 + 1);
    }
    // 1e. exact counts and lengths: every name length 0..=130 encoded bytes (quick: 6 names per file,
    //     one file per kind and length group), the thresholds 255 / 256 / 257 (thorough: 65535 / 65536),
    //     texture counts around the powers of two
    {
        let tiny = |rng: &mut Rng, name: String| Tex { name, w: 8, h: 8, fmt: *rng.pick(&[7u32, 8, 12]), payload: Vec::new(), palette: Vec::new() };
        let finish = |rng: &mut Rng, mut t: Tex| {
            t.payload = rng.bytes(bits_per_pixel(t.fmt).unwrap() * 64 / 8);
            t
        };
        for (ki, kind) in ["ctpk", "bch", "cgfx"].iter().enumerate() {
            let mut lens: Vec<usize> = (0..=130).collect();
            lens.extend([255usize, 256, 257]);
            if thorough {
                lens.extend([65535usize, 65536]);
            }
            for (gi, group) in lens.chunks(6).enumerate() {
                // quick: each kind takes every third group in full and the boundary lengths always
                if !thorough && gi % 3 != ki && !group.iter().any(|l| [0usize, 127, 128, 129, 255, 256, 257].contains(l)) {
                    continue;
                }
                let texs: Vec<Tex> = group.iter().map(|&l| { let n = name_of_len(&mut rng, l, *kind == "ctpk"); let t = tiny(&mut rng, n); finish(&mut rng, t) }).collect();
                let b = build(kind, &texs, 0, &mut rng, true);
                let f = tex_fields(&texs, &b);
                next(&mut lines, format!("read {} {} {}", kind, hex(&b.file), f));
                if gi % 4 == 0 {
                    next(&mut lines, format!("fsread {} {} {} {}", kind, gi % 2, hex(&b.file), f));
                }
            }
        }
        let counts: Vec<usize> = if thorough { vec![7, 8, 9, 15, 16, 17, 31, 32, 33, 63, 64, 65, 127, 128, 129] } else { vec![7, 8, 9, 16, 17, 33, 65] };
        for (ci, &n) in counts.iter().enumerate() {
            for (ki, kind) in KINDS.iter().enumerate() {
                if !thorough && (ci + ki) % 4 != 0 && n > 9 {
                    continue;
                }
                let texs: Vec<Tex> = (0..n)
                    .map(|i| if *kind == "tpl" {
                        let (w, h) = (1 + (i as u32 % 9), 1 + (i as u32 % 5));
                        Tex { name: String::new(), w, h, fmt: 9, payload: ci8_plane(&mut rng, w, h, 2), palette: rng.bytes(4) }
                    } else {
                        let t = tiny(&mut rng, format!("t{}", i));
                        finish(&mut rng, t)
                    })
                    .collect();
                let b = build(kind, &texs, 0x21, &mut rng, true);
                let f = tex_fields(&texs, &b);
                next(&mut lines, format!("read {} {} {}", kind, hex(&b.file), f));
                if n <= 17 {
                    next(&mut lines, format!("fsread {} {} {} {}", kind, n % 2, hex(&b.file), f));
                }
            }
        }
    }
    // 1f. containers stored COMPRESSED in the layer (`.lz` = LZ13 on FE13/14/15, `.cmp` / `.cms` = LZ10 on
    //     FE9/FE10) and read through the typed readers.  A good share end in repeated content (the last
    //     texture a copy of an earlier one, flat / zero payloads, 3..16 trailing zero bytes) so that the
    //     compressed stream ends in a short back-reference.
    {
        let combos: [(&str, &str); 6] = [("FE13", ".lz"), ("FE9", ".cmp"), ("FE14", ".lz"), ("FE10", ".cms"), ("FE15", ".lz"), ("FE9", ".cms")];
        let compress = |game: &str, bytes: &[u8]| -> Vec<u8> {
            if game == "FE9" || game == "FE10" {
                LZ10CompressionFormat {}.compress(bytes).unwrap_or_default()
            } else {
                LZ13CompressionFormat {}.compress(bytes).unwrap_or_default()
            }
        };
        let rounds = if thorough { 12 } else { 2 };
        let mut c = 0usize;
        for round in 0..rounds {
            for kind in KINDS.iter() {
                for tail in 0..4 {
                    if !thorough && (round + tail) % 2 == 1 && *kind != "ctpk" {
                        continue;
                    }
                    let n = rng.range(1, 3) as usize;
                    let mut texs: Vec<Tex> = (0..n).map(|_| if *kind == "tpl" { gen_tex_tpl(&mut rng, false) } else { gen_tex_3ds(&mut rng, *kind == "ctpk", false) }).collect();
                    match tail {
                        0 => {
                            // the last texture repeats an earlier one (same payload, same palette)
                            let mut t = texs[0].clone();
                            if *kind != "tpl" {
                                t.name = format!("{}2", t.name);
                            }
                            texs.push(t);
                        }
                        1 => {
                            // flat last texture
                            let last = texs.len() - 1;
                            let v = *rng.pick(&[0u8, 0xFF, 0x11]);
                            if *kind == "tpl" {
                                for b in texs[last].payload.iter_mut() {
                                    *b = 0;
                                }
                                for b in texs[last].palette.iter_mut() {
                                    *b = v;
                                }
                            } else {
                                for b in texs[last].payload.iter_mut() {
                                    *b = v;
                                }
                            }
                        }
                        _ => {}
                    }
                    let shuffle = tail == 3;
                    let mut b = build(kind, &texs, 0, &mut rng, shuffle);
                    if tail == 2 {
                        // trailing zero bytes after the last defined byte
                        let k = rng.range(3, 16) as usize;
                        b.file.extend(std::iter::repeat(0u8).take(k));
                    }
                    let (game, ext) = combos[c % combos.len()];
                    c += 1;
                    let stored = compress(game, &b.file);
                    let f = tex_fields(&texs, &b);
                    next(&mut lines, format!("fsreadz {} {} {} {} {} {} {}", kind, c % 2, game, ext, hex(&stored), hex(&b.file), f));
                    if tail == 0 && round == 0 {
                        // no claim: the stream cut by one byte, padded with zero bytes (as Nintendo's tools do),
                        // and a compressed suffix the game does not know (read raw)
                        let i0 = id.get();
                        lines.push(format!("c20.{:06} fsreadz {} 0 {} {} {} {} ~", i0, kind, game, ext, hex(&stored[..stored.len() - 1]), hex(&b.file)));
                        let mut padded = stored.clone();
                        while padded.len() % 4 != 0 || padded.len() == stored.len() {
                            padded.push(0);
                        }
                        lines.push(format!("c20.{:06} fsreadz {} 1 {} {} {} {} ~", i0, kind, game, ext, hex(&padded), hex(&b.file)));
                        let other_ext = if ext == ".lz" { ".cmp" } else { ".lz" };
                        lines.push(format!("c20.{:06} fsreadz {} 0 {} {} {} {} ~", i0, kind, game, other_ext, hex(&stored), hex(&b.file)));
                        lines.push(format!("c20.{:06} fsreadz {} 0 {} {} {} {} {}", i0, kind, game, ext, hex(&stored), hex(&b.file), f));
                        id.set(i0 + 1);
                    }
                }
            }
        }
    }
    // 1g. histories on ONE LayeredFilesystem object: write A, read, write B (other textures), read must
    //     give B (controls: write, write, read, read); compressed and plain names, localized true/false,
    //     languages that do / do not rewrite the path
    {
        let combos: [(&str, &str, &str); 6] = [("FE14", "EnglishNA", ".lz"), ("FE13", "Japanese", ".lz"), ("FE15", "French", ".lz"), ("FE10", "EnglishNA", ".cms"), ("FE9", "German", ".cmp"), ("FE14", "EnglishEU", "")];
        let mut c = 0usize;
        for kind in KINDS.iter() {
            for (ci, &(game, lang, ext)) in combos.iter().enumerate() {
                if !thorough && ci >= 4 && (ci + kind.len()) % 2 == 0 {
                    continue;
                }
                for loc in [1, 0] {
                    if !thorough && loc == 0 && ci % 2 == 1 {
                        continue;
                    }
                    let mk = |rng: &mut Rng| -> (Vec<Tex>, Built) {
                        let n = rng.range(1, 2) as usize;
                        let texs: Vec<Tex> = (0..n).map(|_| if *kind == "tpl" { gen_tex_tpl(rng, false) } else { gen_tex_3ds(rng, *kind == "ctpk", false) }).collect();
                        let b = build(kind, &texs, 0, rng, true);
                        (texs, b)
                    };
                    let (_ta, ba) = mk(&mut rng);
                    let (tb, bb) = mk(&mut rng);
                    c += 1;
                    next(&mut lines, format!("fsseq {} {} {} {} {} {} {} {} {}", kind, game, lang, if ext.is_empty() { "-" } else { ext }, loc, c % 3 / 2, hex(&ba.file), hex(&bb.file), tex_fields(&tb, &bb)));
                }
            }
        }
    }
    // 2. BCH compatibility byte on both sides of the threshold (N2), one texture each
    for &compat in COMPATS.iter() {
        let texs = vec![gen_tex_3ds(&mut rng, false, false)];
        let b = build_bch(&texs, compat, &mut rng, true);
        next(&mut lines, format!("read bch {} {}", hex(&b.file), tex_fields(&texs, &b)));
    }
    // 2b. minimal BCH files: no textures, the content table overlapping the unused tail of the header, the
    //     file ending with the last defined byte (header length matters: 56 bytes up to compat 20, 64 above 0x20)
    for (compat, contents, len) in [(0u8, 16usize, 60usize), (20, 16, 60), (20, 12, 56), (0x21, 20, 64), (0xFF, 24, 68), (0x21, 8, 64)] {
        let mut f = rng.bytes(len);
        put(&mut f, 0, b"BCH\0");
        f[4] = compat;
        put32(&mut f, 8, contents as u32);
        put32(&mut f, contents + 0x24, rng.below(0x1000) as u32);
        put32(&mut f, contents + 0x28, 0);
        next(&mut lines, format!("read bch {} 0", hex(&f)));
        next(&mut lines, format!("prefixes bch {} 0", hex(&f)));
    }
    // 3. wrong magic (BCH, CGFX, TPL; CTPK has no magic check): every single-byte change of the magic
    for kind in ["bch", "cgfx", "tpl", "ctpk"] {
        let texs: Vec<Tex> = (0..2).map(|_| if kind == "tpl" { gen_tex_tpl(&mut rng, false) } else { gen_tex_3ds(&mut rng, kind == "ctpk", false) }).collect();
        let b = build(kind, &texs, 0x21, &mut rng, true);
        for pos in 0..4 {
            for delta in [1u8, 0x20, 0x80, 0xFF] {
                let mut f = b.file.clone();
                f[pos] = f[pos].wrapping_add(delta);
                next(&mut lines, format!("read {} {} ~", kind, hex(&f)));
            }
        }
        let mut f = b.file.clone();
        f[..4].copy_from_slice(&[0, 0, 0, 0]);
        next(&mut lines, format!("read {} {} ~", kind, hex(&f)));
        if kind == "bch" {
            // "BCH" followed by a non-zero fourth byte
            let mut f = b.file.clone();
            f[3] = b'1';
            next(&mut lines, format!("read {} {} ~", kind, hex(&f)));
        }
    }
    // 4. malformed: boundary values planted in 32-bit offset fields (both arithmetic profiles matter),
    //    unsupported formats, cut names.  No claim by the oracle; model and code must agree.
    let corrupt_rounds = if thorough { 400 } else { 60 };
    for _ in 0..corrupt_rounds {
        let kind = *rng.pick(&KINDS);
        let n = rng.range(1, 3) as usize;
        let texs: Vec<Tex> = (0..n).map(|_| if kind == "tpl" { gen_tex_tpl(&mut rng, false) } else { gen_tex_3ds(&mut rng, kind == "ctpk", false) }).collect();
        let b = build(kind, &texs, *rng.pick(&COMPATS), &mut rng, true);
        let mut f = b.file.clone();
        let fields: Vec<usize> = offset_fields(kind, &f, n);
        if fields.is_empty() {
            continue;
        }
        let at = *rng.pick(&fields);
        let len = f.len() as u32;
        let raw4 = [f[at], f[at + 1], f[at + 2], f[at + 3]];
        let old = if kind == "tpl" { u32::from_be_bytes(raw4) } else { u32::from_le_bytes(raw4) };
        let v: u32 = match rng.below(9) {
            0 => 0,
            1 => len,
            2 => len.wrapping_sub(1),
            3 => len.wrapping_sub(rng.below(8) as u32),
            4 => 0xFFFF_FFFF,
            5 => 0xFFFF_FFFF - rng.below(0x40) as u32,
            6 => 0x8000_0000,
            7 => old.wrapping_add(1),
            _ => old.wrapping_sub(1),
        };
        if kind == "tpl" {
            putb32(&mut f, at, v);
        } else {
            put32(&mut f, at, v);
        }
        next(&mut lines, format!("read {} {} ~", kind, hex(&f)));
    }
    // unsupported / out-of-list formats keep the container logic but fail (or not) in the decoder
    for kind in ["ctpk", "bch", "cgfx"] {
        for fmt in [1u32, 6, 9, 10, 11, 14, 255, 0x1_0000] {
            let len = bits_per_pixel(fmt).unwrap_or(0) * 64 / 8;
            let texs = vec![Tex { name: "u".into(), w: 8, h: 8, fmt, payload: rng.bytes(len), palette: vec![] }];
            let b = build(kind, &texs, 0, &mut rng, true);
            next(&mut lines, format!("read {} {} ~", kind, hex(&b.file)));
        }
    }
    // TPL: other image / palette formats, out-of-range index
    for fmt in [0u32, 1, 2, 3, 4, 5, 6, 7, 8, 10, 11, 14] {
        let mut t = gen_tex_tpl(&mut rng, false);
        t.fmt = fmt;
        let b = build_tpl(&[t], &mut rng, true);
        next(&mut lines, format!("read tpl {} ~", hex(&b.file)));
    }
    {
        let mut t = gen_tex_tpl(&mut rng, false);
        t.palette = rng.bytes(4);
        t.payload[0] = 2;
        let b = build_tpl(&[t], &mut rng, true);
        next(&mut lines, format!("read tpl {} ~", hex(&b.file)));
    }
    lines
}

/// Positions of 32-bit offset fields that the malformed stream may overwrite (never sizes,
/// dimensions or counts: those would only make the library allocate).
fn offset_fields(kind: &str, f: &[u8], n: usize) -> Vec<usize> {
    let rd = |o: usize| u32::from_le_bytes([f[o], f[o + 1], f[o + 2], f[o + 3]]) as usize;
    let rdb = |o: usize| u32::from_be_bytes([f[o], f[o + 1], f[o + 2], f[o + 3]]) as usize;
    let mut v = Vec::new();
    match kind {
        "ctpk" => {
            v.push(8);
            for i in 0..n {
                v.push(0x20 + 0x20 * i + 8);
            }
        }
        "bch" => {
            v.extend([8usize, 12, 16, 20]);
            let c = rd(8);
            v.push(c + 0x24);
            let table = c + rd(c + 0x24);
            for i in 0..n {
                v.push(table + 4 * i);
                let d = c + rd(table + 4 * i);
                v.push(d);
                v.push(d + 0x1C);
                let k = rd(16) + rd(d);
                v.push(k + 0x10);
            }
        }
        "cgfx" => {
            for j in 0..16 {
                if j != 1 {
                    v.push(0x20 + 8 * j);
                }
            }
            let d = 0x28 + rd(0x28);
            for i in 0..n {
                let e = d + 0x1C + 16 * i;
                v.push(e + 8);
                // (the object pointer itself is left alone: a stray TXOB has 32-bit dimensions)
                let t = e + 12 + rd(e + 12);
                v.push(t + 0xC);
                v.push(t + 0x48);
            }
        }
        "tpl" => {
            v.push(8);
            let t = rdb(8);
            for i in 0..n {
                v.push(t + 8 * i);
                v.push(t + 8 * i + 4);
                v.push(rdb(t + 8 * i) + 8);
                v.push(rdb(t + 8 * i + 4) + 8);
            }
        }
        _ => {}
    }
    v
}

// ---------------------------------------------------------------------------------------------
// running the implementation
// ---------------------------------------------------------------------------------------------
fn io_class(e: &std::io::Error) -> &'static str {
    if e.kind() == std::io::ErrorKind::UnexpectedEof {
        "Eof"
    } else {
        "Other"
    }
}

pub fn decode_err_class(e: &TextureDecodeError) -> &'static str {
    match e {
        TextureDecodeError::UnsupportedFormat => "Unsupported",
        TextureDecodeError::OutOfBoundsIndex => "OutOfBounds",
        TextureDecodeError::IOError(e) => io_class(e),
        _ => "Other",
    }
}

pub fn parse_err_class(e: &TextureParseError) -> &'static str {
    match e {
        TextureParseError::BadMagicNumber => "BadMagic",
        TextureParseError::BadText => "Decoding",
        TextureParseError::ParserError(s) => {
            if s.starts_with("BadMagic") {
                "BadMagic"
            } else if s.contains("UnexpectedEof") {
                "Eof"
            } else {
                "Other"
            }
        }
        TextureParseError::IOError(e) => io_class(e),
        TextureParseError::TextureDecodeError(e) => decode_err_class(e),
    }
}

pub fn read_kind(kind: &str, file: &[u8]) -> Result<Result<Vec<Texture>, TextureParseError>, String> {
    no_panic(|| match kind {
        "ctpk" => ctpk::read(file),
        "bch" => bch::read(file),
        "cgfx" => cgfx::read(file),
        "tpl" => tpl::Tpl::extract_textures(file),
        _ => panic!("kind"),
    })
}

/// canonical text of a successful read: `<n> {<name-hex> <w> <h> <pixels-hex>}*`
pub fn textures_text(ts: &[Texture]) -> String {
    let mut s = format!("{}", ts.len());
    for t in ts {
        s.push_str(&format!(" {} {} {} {}", hexs(&t.filename), t.width, t.height, hex(&t.pixel_data)));
    }
    s
}

pub fn outcome(kind: &str, file: &[u8]) -> String {
    match read_kind(kind, file) {
        Err(_) => "panic".to_string(),
        Ok(Err(e)) => format!("err {}", parse_err_class(&e)),
        Ok(Ok(ts)) => format!("ok {}", textures_text(&ts)),
    }
}

pub fn hash2(s: &str) -> (u64, u64) {
    let mut h1: u64 = 0xcbf29ce484222325;
    let mut h2: u64 = 0x9E3779B97F4A7C15;
    for b in s.as_bytes() {
        h1 ^= *b as u64;
        h1 = h1.wrapping_mul(0x100000001b3);
        h2 = h2.wrapping_mul(0x2545F4914F6CDD1D).wrapping_add(*b as u64 + 1);
        h2 ^= h2 >> 29;
    }
    (h1, h2)
}

fn class_of(kind: &str, file: &[u8]) -> String {
    match read_kind(kind, file) {
        Err(_) => "panic".to_string(),
        Ok(Err(e)) => format!("err.{}", parse_err_class(&e)),
        Ok(Ok(ts)) => {
            let (a, b) = hash2(&textures_text(&ts));
            format!("ok.{:016x}.{:016x}", a, b)
        }
    }
}

pub fn run_line(_st: &mut super::State, line: &str) -> String {
    let f: Vec<&str> = line.split(' ').collect();
    let id = f[0];
    let kind = f[2];
    let file = unhex(f[3]);
    match f[1] {
        "read" => format!("{} {} {}", id, PROFILE, outcome(kind, &file)),
        "prefixes" => {
            let mut runs: Vec<(usize, usize, String)> = Vec::new();
            for k in 0..file.len() {
                let c = class_of(kind, &file[..k]);
                match runs.last_mut() {
                    Some(r) if r.2 == c => r.1 = k,
                    _ => runs.push((k, k, c)),
                }
            }
            let text: Vec<String> = runs.iter().map(|r| format!("{}-{}:{}", r.0, r.1, r.2)).collect();
            format!("{} {} {}", id, PROFILE, if text.is_empty() { "-".to_string() } else { text.join(",") })
        }
        "fsread" => {
            let kind = f[2];
            let localized = f[3] == "1";
            let file = unhex(f[4]);
            format!("{} {} {}", id, PROFILE, fs_outcome(kind, localized, "FE13", "", &file))
        }
        "fsseq" => {
            // <kind> <game> <lang> <ext> <loc> <mode> <fileA> <fileB> …: one LayeredFilesystem object;
            // mode 0: write A, read, write B, read; mode 1: write A, write B, read, read
            format!("{} {} {}", id, PROFILE, fs_sequence(f[2], f[3], f[4], f[5], f[6] == "1", f[7], &unhex(f[8]), &unhex(f[9])))
        }
        "fsreadz" => {
            // <kind> <loc> <game> <ext> <stored-hex> <file-hex> …: the stored (compressed) bytes are put on disk as they are
            let stored = unhex(f[6]);
            format!("{} {} {}", id, PROFILE, fs_outcome(f[2], f[3] == "1", f[4], f[5], &stored))
        }
        _ => format!("{} {} bad-case", id, PROFILE),
    }
}

/// Writes `file` into a fresh layer directory under `work/` and reads it back through the
/// `LayeredFilesystem` texture entry points.
fn fs_read_text(fs: &LayeredFilesystem, kind: &str, path: &str, localized: bool) -> String {
    let class = |e: &LayeredFilesystemError| match e {
        LayeredFilesystemError::TextureParseError(e) => parse_err_class(e),
        LayeredFilesystemError::CompressionError(_) => "Invalid",
        _ => "Other",
    };
    if kind == "tpl" {
        match no_panic(|| fs.read_tpl_textures(path, localized)) {
            Err(_) => "panic".to_string(),
            Ok(Err(e)) => format!("err {}", class(&e)),
            Ok(Ok(ts)) => {
                let mut s = format!("ok {}", ts.len());
                for (i, t) in ts.iter().enumerate() {
                    s.push_str(&format!(" {} {} {} {} {}", i, hexs(&t.filename), t.width, t.height, hex(&t.pixel_data)));
                }
                s
            }
        }
    } else {
        let r = no_panic(|| match kind {
            "ctpk" => fs.read_ctpk_textures(path, localized),
            "bch" => fs.read_bch_textures(path, localized),
            _ => fs.read_cgfx_textures(path, localized),
        });
        match r {
            Err(_) => "panic".to_string(),
            Ok(Err(e)) => format!("err {}", class(&e)),
            Ok(Ok(map)) => {
                let mut items: Vec<(&String, &Texture)> = map.iter().collect();
                items.sort_by(|a, b| a.0.as_bytes().cmp(b.0.as_bytes()));
                let mut s = format!("ok {}", items.len());
                for (k, t) in items {
                    s.push_str(&format!(" {} {} {} {} {}", hexs(k), hexs(&t.filename), t.width, t.height, hex(&t.pixel_data)));
                }
                s
            }
        }
    }
}

/// A history of writes and reads on ONE `LayeredFilesystem` object (and a clone of it).
fn fs_sequence(kind: &str, game: &str, lang: &str, ext: &str, localized: bool, mode: &str, a: &[u8], b: &[u8]) -> String {
    let dir = std::path::PathBuf::from(format!("work/texc-fs-{}", std::process::id()));
    let _ = std::fs::remove_dir_all(&dir);
    if std::fs::create_dir_all(&dir).is_err() {
        return "fs-setup-failed".to_string();
    }
    let out = (|| {
        let fs = match LayeredFilesystem::new(vec![dir.to_string_lossy().to_string()], super::loc::language(lang), game_of(game)) {
            Ok(fs) => fs,
            Err(_) => return "fs-setup-failed".to_string(),
        };
        let path_string = format!("tex/a.bin{}", if ext == "-" { "" } else { ext });
        let path = path_string.as_str();
        let first = |t: &str| -> String { t.split(' ').take(2).collect::<Vec<_>>().join(".") };
        if fs.write(path, a, localized).is_err() {
            return "fs-setup-failed".to_string();
        }
        let mut r1 = String::from("-");
        if mode == "0" {
            r1 = first(&fs_read_text(&fs, kind, path, localized));
        }
        if fs.write(path, b, localized).is_err() {
            return "fs-setup-failed".to_string();
        }
        if mode == "1" {
            r1 = first(&fs_read_text(&fs.clone(), kind, path, localized));
        }
        format!("{} {}", r1, fs_read_text(&fs, kind, path, localized))
    })();
    let _ = std::fs::remove_dir_all(&dir);
    out
}

fn game_of(name: &str) -> Game {
    match name {
        "FE9" => Game::FE9,
        "FE10" => Game::FE10,
        "FE14" => Game::FE14,
        "FE15" => Game::FE15,
        _ => Game::FE13,
    }
}

/// `stored` = the bytes on disk (a compressed stream when `ext` is a compressed suffix of the game).
fn fs_outcome(kind: &str, localized: bool, game: &str, ext: &str, stored: &[u8]) -> String {
    let dir = std::path::PathBuf::from(format!("work/texc-fs-{}", std::process::id()));
    let _ = std::fs::remove_dir_all(&dir);
    if std::fs::create_dir_all(dir.join("d").join("E")).is_err() {
        return "fs-setup-failed".to_string();
    }
    let out = (|| {
        let layer = dir.to_string_lossy().to_string();
        let fs = match LayeredFilesystem::new(vec![layer], Language::EnglishNA, game_of(game)) {
            Ok(fs) => fs,
            Err(_) => return "fs-setup-failed".to_string(),
        };
        let path_string = format!("d/tex.bin{}", ext);
        let path = path_string.as_str();
        // let the library place the file (localisation, directories), then put the stored bytes there raw
        if fs.write(path, &[1, 2, 3, 4], localized).is_err() {
            return "fs-setup-failed".to_string();
        }
        match fs.resolve(path, localized) {
            Some(p) => {
                if std::fs::write(&p, stored).is_err() {
                    return "fs-setup-failed".to_string();
                }
            }
            None => return "fs-setup-failed".to_string(),
        }
        let class = |e: &LayeredFilesystemError| match e {
            LayeredFilesystemError::TextureParseError(e) => parse_err_class(e),
            LayeredFilesystemError::CompressionError(_) => "Invalid",
            _ => "Other",
        };
        if kind == "tpl" {
            match no_panic(|| fs.read_tpl_textures(path, localized)) {
                Err(_) => "panic".to_string(),
                Ok(Err(e)) => format!("err {}", class(&e)),
                Ok(Ok(ts)) => {
                    let mut s = format!("ok {}", ts.len());
                    for (i, t) in ts.iter().enumerate() {
                        s.push_str(&format!(" {} {} {} {} {}", i, hexs(&t.filename), t.width, t.height, hex(&t.pixel_data)));
                    }
                    s
                }
            }
        } else {
            let r = no_panic(|| match kind {
                "ctpk" => fs.read_ctpk_textures(path, localized),
                "bch" => fs.read_bch_textures(path, localized),
                _ => fs.read_cgfx_textures(path, localized),
            });
            match r {
                Err(_) => "panic".to_string(),
                Ok(Err(e)) => format!("err {}", class(&e)),
                Ok(Ok(map)) => {
                    let mut items: Vec<(&String, &Texture)> = map.iter().collect();
                    items.sort_by(|a, b| a.0.as_bytes().cmp(b.0.as_bytes()));
                    let mut s = format!("ok {}", items.len());
                    for (k, t) in items {
                        s.push_str(&format!(" {} {} {} {} {}", hexs(k), hexs(&t.filename), t.width, t.height, hex(&t.pixel_data)));
                    }
                    s
                }
            }
        }
    })();
    let _ = std::fs::remove_dir_all(&dir);
    out
}
