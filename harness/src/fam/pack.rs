//! Family `pack`: C15 — GameCube/Wii pack archive (`fe9_arc`).
//!
//! Case lines
//!   `<id> build <n> (<name-hex> <body-hex>)*`            serialize the ordered map, parse the image back
//!   `<id> parse <img-hex> <n> (<name-hex> <body-hex>)*`  spec-built (foreign) image of the listed files
//!   `<id> parse <img-hex> ~`                             malformed image (only ok/err/panic matters)
//!   `<id> bigbuild <count> <seed> <model|oracle>`        large ordered map regenerated on both sides from the
//!        parameters (`big_name(i)`: 1-3 characters, distinct; `big_body(i, seed)`: empty or one byte): serialize,
//!        parse back.  `oracle` = top-of-domain sizes (32767, 32768, 65535 files) where the list-based Lean model
//!        is quadratic: the model line echoes the implementation line and only the specification is judged
//!        (linear-time conformance check of the image + count / name hash / body hash of the parsed map).
//! Implementation lines
//!   build: `ok <img-hex> <n> (<name> <body>)*` | `ok <img-hex> err` | `err` | `panic`
//!          | `skip lossy` (a name contains U+00A5 / U+203E / U+2212: encodable but not faithfully; not compared)
//!   bigbuild: `ok <img-hex> <n> <fnv64 of names in order> <fnv64 of bodies in order>` | `ok <img-hex> err` | `err` | `panic`
//!   parse: `ok <n> (<name> <body>)*` | `ok ?` (some name outside the sub-codec alphabet) | `err` | `panic`
//! Error classes are not distinguished (the property does not name any).
use crate::util::*;
use indexmap::IndexMap;
use mila::fe9_arc;

// ---------------------------------------------------------------------------------------------
// reference Shift-JIS encoder for the `sjisSub` alphabet (independent of mila / encoding_rs)
// ---------------------------------------------------------------------------------------------

pub fn sjis_sub_char(ch: char) -> Option<Vec<u8>> {
    crate::subcodec::enc_char(ch)
}

pub fn sjis_sub(s: &str) -> Vec<u8> {
    let mut out = Vec::new();
    for ch in s.chars() {
        out.extend(sjis_sub_char(ch).expect("name outside the sjisSub alphabet"));
    }
    out
}

/// A random character of the sub-codec alphabet (never NUL).
pub fn sub_char(rng: &mut Rng) -> char {
    if rng.chance(1, 12) {
        let sp = special_chars();
        return *rng.pick(&sp);
    }
    match rng.below(10) {
        0..=5 => {
            // printable ASCII mostly, sometimes any non-NUL ASCII (incl. 0x5C, 0x7E, 0x7F, controls)
            if rng.chance(1, 8) {
                char::from_u32(rng.range(1, 0x7F) as u32).unwrap()
            } else {
                char::from_u32(rng.range(0x20, 0x7E) as u32).unwrap()
            }
        }
        6 => char::from_u32(rng.range(0xFF61, 0xFF9F) as u32).unwrap(),
        7 => char::from_u32(rng.range(0x3041, 0x3093) as u32).unwrap(),
        8 => {
            // Greek / Cyrillic: 2 bytes in UTF-8 and in Shift-JIS (no slack in an encoder's buffer arithmetic)
            let t = &crate::subcodec::TABLE[4 + rng.below(9) as usize];
            char::from_u32(rng.range(t.0 as u64, t.1 as u64) as u32).unwrap()
        }
        _ => char::from_u32(rng.range(0x30A1, 0x30F6) as u32).unwrap(),
    }
}

/// Characters of the alphabet that are "special" by value: a Shift-JIS byte or the low byte of the
/// code point equals an ASCII character with a meaning somewhere ('\\' 0x5C, 'n' 0x6E, '\n' 0x0A,
/// '"', '/', '.', 0x7F), plus those ASCII characters themselves.
pub fn special_chars() -> Vec<char> {
    let marks = [0x5Cu32, 0x6E, 0x0A, 0x22, 0x2F, 0x2E, 0x7F, 0x80];
    let mut v: Vec<char> = crate::subcodec::non_ascii()
        .into_iter()
        .filter(|c| {
            let b = crate::subcodec::enc_char(*c).unwrap();
            marks.contains(&((*c as u32) & 0xFF)) || b.iter().any(|x| marks.contains(&(*x as u32)))
        })
        .collect();
    v.extend(['\\', 'n', '\n', '"', '/', '.', '\u{7F}', '\u{1}']);
    v
}

/// A random name of exactly `len` Shift-JIS bytes.
pub fn exact_len_name(rng: &mut Rng, len: usize) -> String {
    let mut s = String::new();
    let mut l = 0;
    while l < len {
        let c = sub_char(rng);
        let w = sjis_sub_char(c).unwrap().len();
        if l + w <= len {
            s.push(c);
            l += w;
        }
    }
    s
}

pub fn sub_name(rng: &mut Rng, max_len: u64) -> String {
    let n = if rng.chance(1, 25) { 0 } else { rng.range(1, max_len) };
    (0..n).map(|_| sub_char(rng)).collect()
}

/// `n` pairwise distinct names.
pub fn distinct_names(rng: &mut Rng, n: usize) -> Vec<String> {
    let mut names: Vec<String> = Vec::new();
    while names.len() < n {
        let max_len = if n > 30 { 14 } else { 10 };
        let s = if rng.chance(1, 6) {
            // look-alikes: share a prefix with an earlier name
            match names.last() {
                Some(p) => format!("{}{}", p, sub_char(rng)),
                None => sub_name(rng, max_len),
            }
        } else {
            sub_name(rng, max_len)
        };
        if !names.contains(&s) {
            names.push(s);
        }
    }
    names
}

/// File length: around multiples of 32 most of the time.
fn body_len(rng: &mut Rng) -> usize {
    match rng.below(10) {
        0 => 0,
        1..=6 => {
            let k = rng.range(0, 4) as i64 * 32;
            let d = rng.range(0, 4) as i64 - 2;
            (k + d).max(0) as usize
        }
        7 => rng.range(1, 8) as usize,
        _ => rng.range(0, 150) as usize,
    }
}

fn body(rng: &mut Rng, n: usize) -> Vec<u8> {
    match rng.below(4) {
        0 => vec![0u8; n],                     // indistinguishable from padding
        1 => vec![rng.next() as u8; n],
        _ => rng.bytes(n),
    }
}

fn fmt_files(files: &[(String, Vec<u8>)]) -> String {
    let mut s = format!("{}", files.len());
    for (k, v) in files {
        s.push(' ');
        s.push_str(&hexs(k));
        s.push(' ');
        s.push_str(&hex(v));
    }
    s
}

fn fmt_map(m: &IndexMap<String, Vec<u8>>) -> String {
    let v: Vec<(String, Vec<u8>)> = m.iter().map(|(k, v)| (k.clone(), v.clone())).collect();
    fmt_files(&v)
}

// ---------------------------------------------------------------------------------------------
// large maps from parameters (the Lean driver has the same two functions)
// ---------------------------------------------------------------------------------------------

const BIG_ALPHA: &[u8; 41] = b"abcdefghijklmnopqrstuvwxyz0123456789ABCDE";

/// Bijective base-41 numeral of `i`: 1 character below 41, 2 below 1722, else 3 (i < 70643).
pub fn big_name(i: usize) -> String {
    let a = |k: usize| BIG_ALPHA[k] as char;
    if i < 41 {
        format!("{}", a(i))
    } else if i < 41 + 1681 {
        let j = i - 41;
        format!("{}{}", a(j / 41), a(j % 41))
    } else {
        let j = i - 1722;
        format!("{}{}{}", a(j / 1681), a((j / 41) % 41), a(j % 41))
    }
}

/// Empty (one third) or a single byte.
pub fn big_body(i: usize, seed: u64) -> Vec<u8> {
    let h = ((i as u64) * 2654435761 + seed * 40503 + 12345) % (1u64 << 32);
    if h % 3 == 0 {
        Vec::new()
    } else {
        vec![((h / 256) % 256) as u8]
    }
}

fn fnv_step(h: u64, b: u8) -> u64 {
    (h ^ b as u64).wrapping_mul(0x100000001b3)
}

/// (count, fnv64 over `name ++ [0]` in order, fnv64 over `len as 4 LE bytes ++ body` in order)
fn summary<'a, I: Iterator<Item = (&'a String, &'a Vec<u8>)>>(it: I) -> (usize, u64, u64) {
    let (mut n, mut hn, mut hb) = (0usize, 0xcbf29ce484222325u64, 0xcbf29ce484222325u64);
    for (k, v) in it {
        n += 1;
        for b in k.as_bytes() {
            hn = fnv_step(hn, *b);
        }
        hn = fnv_step(hn, 0);
        for b in (v.len() as u32).to_le_bytes() {
            hb = fnv_step(hb, b);
        }
        for b in v {
            hb = fnv_step(hb, *b);
        }
    }
    (n, hn, hb)
}

fn hex_fast(b: &[u8]) -> String {
    if b.is_empty() {
        return "-".to_string();
    }
    const D: &[u8; 16] = b"0123456789abcdef";
    let mut s = Vec::with_capacity(b.len() * 2);
    for x in b {
        s.push(D[(x >> 4) as usize]);
        s.push(D[(x & 15) as usize]);
    }
    String::from_utf8(s).unwrap()
}

// ---------------------------------------------------------------------------------------------
// spec-side image builder (written from Spec.PackImage, not from fe9_arc::serialize)
// ---------------------------------------------------------------------------------------------

#[derive(Clone, Copy, PartialEq)]
enum Layout {
    NamesThenBodies, // like the library, but unpadded
    BodiesThenNames,
    Reversed,        // blobs placed in reverse entry order
    Shuffled,        // names and bodies interleaved at random, random gaps
    Shared,          // equal bodies stored once; a body may also live inside another body
}

fn be32(v: usize) -> [u8; 4] {
    (v as u32).to_be_bytes()
}

/// Builds a conforming image for `files`. Every blob (encoded name + NUL, or body) is placed at
/// some offset after the table; the table then points at those offsets.
fn build_foreign(rng: &mut Rng, files: &[(String, Vec<u8>)], layout: Layout) -> Vec<u8> {
    let n = files.len();
    let table_end = 8 + 16 * n;
    // blobs: (is_name, entry index, bytes)
    let mut blobs: Vec<(bool, usize, Vec<u8>)> = Vec::new();
    for (i, (k, v)) in files.iter().enumerate() {
        let mut nb = sjis_sub(k);
        nb.push(0);
        blobs.push((true, i, nb));
        blobs.push((false, i, v.clone()));
    }
    match layout {
        Layout::NamesThenBodies => blobs.sort_by_key(|b| (!b.0, b.1)),
        Layout::BodiesThenNames => blobs.sort_by_key(|b| (b.0, b.1)),
        Layout::Reversed => blobs.sort_by_key(|b| (!b.0, n - b.1)),
        Layout::Shuffled | Layout::Shared => rng.shuffle(&mut blobs),
    }
    let gaps = matches!(layout, Layout::Shuffled | Layout::Shared);
    let mut tail: Vec<u8> = Vec::new();
    let mut name_addr = vec![0usize; n];
    let mut file_addr = vec![0usize; n];
    for (is_name, i, bytes) in &blobs {
        if gaps && rng.chance(1, 3) {
            let g = rng.range(1, 9) as usize;
            tail.extend(rng.bytes(g)); // garbage gap
        }
        let mut addr = table_end + tail.len();
        let mut placed = false;
        if layout == Layout::Shared && !*is_name && !bytes.is_empty() {
            // reuse an occurrence that already exists in the tail (shared / nested bodies)
            if let Some(p) = tail.windows(bytes.len()).position(|w| w == &bytes[..]) {
                addr = table_end + p;
                placed = true;
            }
        }
        if layout == Layout::Shared && !*is_name && bytes.is_empty() && rng.chance(1, 2) {
            // an empty body may sit anywhere inside the image, e.g. inside the header
            addr = rng.below((table_end + tail.len()) as u64 + 1) as usize;
            placed = true;
        }
        if !placed {
            tail.extend(bytes);
        }
        if *is_name {
            name_addr[*i] = addr;
        } else {
            file_addr[*i] = addr;
        }
    }
    if gaps && rng.chance(1, 2) {
        let g = rng.range(1, 40) as usize;
        tail.extend(rng.bytes(g));
    }
    let mut img: Vec<u8> = Vec::new();
    img.extend(0x7061636Bu32.to_be_bytes());
    img.extend((n as u16).to_be_bytes());
    if gaps {
        img.extend(rng.bytes(2));
    } else {
        img.extend([0, 0]);
    }
    for i in 0..n {
        if gaps {
            img.extend(rng.bytes(4)); // the ignored word
        } else {
            img.extend([0, 0, 0, 0]);
        }
        img.extend(be32(name_addr[i]));
        img.extend(be32(file_addr[i]));
        img.extend(be32(files[i].1.len()));
    }
    img.extend(tail);
    img
}

fn random_files(rng: &mut Rng, n: usize) -> Vec<(String, Vec<u8>)> {
    let names = distinct_names(rng, n);
    let share = rng.chance(1, 4);
    let mut files: Vec<(String, Vec<u8>)> = Vec::new();
    for name in names {
        let b = if share && !files.is_empty() && rng.chance(1, 2) {
            // equal or nested content
            let src = files[rng.below(files.len() as u64) as usize].1.clone();
            if src.len() > 2 && rng.chance(1, 2) {
                let a = rng.below(src.len() as u64 / 2) as usize;
                src[a..src.len() - 1].to_vec()
            } else {
                src
            }
        } else {
            let l = body_len(rng);
            body(rng, l)
        };
        files.push((name, b));
    }
    files
}

// ---------------------------------------------------------------------------------------------
// generator
// ---------------------------------------------------------------------------------------------

/// Case-line sink: one id per case; a *sequence* (several calls on the same thread, in order)
/// shares one id so that the checker replays and shrinks it as a whole.
struct Out {
    lines: Vec<String>,
    n: usize,
}
impl Out {
    fn push(&mut self, rest: String) {
        self.lines.push(format!("c15.{:06} {}", self.n, rest));
        self.n += 1;
    }
    fn push_seq(&mut self, rests: Vec<String>) {
        for r in rests {
            self.lines.push(format!("c15.{:06} {}", self.n, r));
        }
        self.n += 1;
    }
}

/// Characters of the alphabet whose Shift-JIS TRAIL byte lies in a lead-byte range
/// (0x81..=0x9F, 0xE0..=0xFC): ム..ヶ, も..ん, Greek, Cyrillic о..я, ...
pub fn trail_like_lead_chars() -> Vec<char> {
    crate::subcodec::non_ascii()
        .into_iter()
        .filter(|c| {
            let b = crate::subcodec::enc_char(*c).unwrap();
            b.len() == 2 && matches!(b[1], 0x81..=0x9F | 0xE0..=0xFC)
        })
        .collect()
}

/// A name of exactly `total` Shift-JIS bytes: ASCII filler (varying with `salt`) with the
/// double-byte character `c` occupying bytes `p`, `p + 1` (needs `p + 2 <= total`).
pub fn boundary_name(total: usize, p: usize, c: char, salt: usize) -> String {
    let fill = |i: usize| (b'a' + ((i * 7 + salt) % 26) as u8) as char;
    let mut s = String::new();
    for i in 0..p {
        s.push(fill(i));
    }
    s.push(c);
    for i in p + 2..total {
        s.push(fill(i));
    }
    s
}

/// Names of 63..66 / 127..130 / 255..258 encoded bytes around the block size `b`, each with a
/// double-byte character whose trail byte looks like a lead byte at the offsets `b-w ..= b+w-2`.
pub fn boundary_names(rng: &mut Rng, b: usize, w: usize) -> Vec<String> {
    let chars = trail_like_lead_chars();
    let mut v = Vec::new();
    for total in [b - 1, b, b + 1, b + 2] {
        for p in b - w..=b + w {
            if p + 2 <= total {
                let c = *rng.pick(&chars);
                v.push(boundary_name(total, p, c, total * 3 + p));
            }
        }
    }
    // names made of such characters only (every position), with and without one leading ASCII byte
    for k in [b / 2 - 1, b / 2, b / 2 + 1] {
        let c = *rng.pick(&chars);
        let body: String = std::iter::repeat(c).take(k).collect();
        v.push(body.clone());
        v.push(format!("x{}", body));
    }
    v.sort();
    v.dedup();
    rng.shuffle(&mut v);
    v
}

/// A pack image whose first record's name runs off the end of the buffer after a few bytes
/// (a failing Shift-JIS read: `UnterminatedString`).
fn unterminated_image(rng: &mut Rng) -> Vec<u8> {
    let k = rng.range(1, 3) as usize;
    let files = random_files(rng, k);
    let m: IndexMap<String, Vec<u8>> = files.iter().cloned().collect();
    let mut img = fe9_arc::serialize(&m).unwrap();
    let at = img.len() as u32;
    let tail: Vec<u8> = match rng.below(3) {
        0 => b"zmap/c0".to_vec(),
        1 => vec![0x83, 0x80, 0x41, 0x82],
        _ => {
            let l = rng.range(1, 70) as usize;
            rng.bytes(l).into_iter().map(|b| b | 1).collect()
        }
    };
    img.extend(tail);
    let i = rng.below(k as u64) as usize;
    img[8 + 16 * i + 4..8 + 16 * i + 8].copy_from_slice(&at.to_be_bytes());
    img
}

pub fn gen(seed: u64, tier: &str) -> Vec<String> {
    let mut rng = Rng::new(seed ^ 0xC15);
    let thorough = tier == "thorough";
    let mut out = Out { lines: Vec::new(), n: 0 };

    // 1. bounded-exhaustive small scope: every ordered map of <= 2 files, names {a, b}, lengths
    //    {0, 1, 31, 32, 33}; plus every single file with a length 0..=66
    out.push("build 0".to_string());
    let lens = [0usize, 1, 31, 32, 33];
    for (ai, a) in ["a", "b"].iter().enumerate() {
        for la in lens {
            let fa = (a.to_string(), rng.bytes(la));
            out.push(format!("build {}", fmt_files(&[fa.clone()])));
            for (bi, b) in ["a", "b"].iter().enumerate() {
                if ai == bi {
                    continue;
                }
                for lb in lens {
                    let fb = (b.to_string(), rng.bytes(lb));
                    out.push(format!("build {}", fmt_files(&[fa.clone(), fb])));
                }
            }
        }
    }
    for l in 0..=66usize {
        // name lengths sweep the padding of the name table as well
        let name: String = (0..(l % 35)).map(|i| (b'a' + (i % 26) as u8) as char).collect();
        out.push(format!("build {}", fmt_files(&[(name, rng.bytes(l))])));
    }

    // 2. random ordered maps of 0..40 files
    let builds = if thorough { 6000 } else { 260 };
    for _ in 0..builds {
        let k = match rng.below(8) {
            0 => rng.range(0, 2),
            1 => rng.range(30, 40),
            _ => rng.range(0, 40),
        } as usize;
        let files = random_files(&mut rng, k);
        out.push(format!("build {}", fmt_files(&files)));
    }
    {
        // many files: header and name table far larger than one padding block; more than 255
        // files (count needs both header bytes)
        let ks: &[usize] = if thorough { &[257, 1200] } else { &[257] };
        for &k in ks {
            let files: Vec<(String, Vec<u8>)> = (0..k)
                .map(|i| (format!("f{:x}", i), rng.bytes((i * 7) % 40)))
                .collect();
            out.push(format!("build {}", fmt_files(&files)));
        }
    }

    // 2a. names OUTSIDE the codec's domain among in-domain names: an unencodable character (no
    //     Shift-JIS representation at all) as the last / first / middle / only character of one name.
    //     `serialize` must refuse (model: enc = none => err); whatever it accepts must round-trip
    //     with the INPUT names (oracle). A few maps contain one of the three lossy code points
    //     U+00A5 / U+203E / U+2212 (encodable, but not faithfully): outside the quantifier, skipped.
    let outside = if thorough { 600 } else { 48 };
    for j in 0..outside {
        let k = rng.range(1, 8) as usize;
        let mut files = random_files(&mut rng, k);
        let bad = *rng.pick(&['\u{E9}', '\u{2713}', '\u{1F600}', '\u{FC}', '\u{100}']);
        let victim = rng.below(k as u64) as usize;
        let stem: Vec<char> = files[victim].0.chars().collect();
        let name: String = match j % 4 {
            0 => stem.iter().chain([bad].iter()).collect(),                 // last
            1 => [bad].iter().chain(stem.iter()).collect(),                 // first
            2 => {
                let cut = stem.len() / 2;
                let mut v: Vec<char> = stem[..cut].to_vec();
                v.push(bad);
                v.extend(&stem[cut..]);
                if stem.is_empty() {
                    v = vec!['a', bad, 'b'];
                }
                v.into_iter().collect()                                        // middle
            }
            _ => bad.to_string(),                                             // the only character
        };
        files[victim].0 = name;
        // now and then a second unencodable name in the map
        if k >= 2 && rng.chance(1, 8) {
            let other = (victim + 1) % k;
            files[other].0.push('\u{E9}');
        }
        out.push(format!("build {}", fmt_files(&files)));
    }
    for lossy in ['\u{A5}', '\u{203E}', '\u{2212}'] {
        for pos in 0..2 {
            let mut files = random_files(&mut rng, 3);
            if pos == 0 {
                files[1].0.push(lossy);
            } else {
                files[1].0.insert(0, lossy);
            }
            out.push(format!("build {}", fmt_files(&files)));
        }
    }

    // 2b. large maps regenerated from parameters: the model is tied at 257 and 1024 (thorough: 4096) files; the top of
    //     the domain (count needs the sign bit / all bits of the 16-bit field) is judged by the
    //     specification only
    let s0 = rng.below(1000);
    // (the list-based model needs ~1.5 s for 1024 files and ~25 s for 4096: the latter is thorough-only)
    for (k, mode) in [(257usize, "model"), (1024, "model"), (32767, "oracle"), (32768, "oracle"), (65535, "oracle")] {
        out.push(format!("bigbuild {} {} {}", k, s0, mode));
    }
    if thorough {
        for (k, mode) in [(4096usize, "model"), (49152, "oracle"), (65534, "oracle"), (65535, "oracle")] {
            out.push(format!("bigbuild {} {} {}", k, s0 + 1, mode));
        }
    }

    // 2c. long names around the 64 / 128 / 256 byte marks with a double-byte character whose TRAIL
    //     byte lies in a lead-byte range at every offset around the mark (a block-wise decoder that
    //     carries a "lead-looking" last byte into the next block garbles exactly these); library
    //     round trip and independently built images
    for b in [64usize, 128, 256] {
        let w = if thorough { 8 } else { 3 };
        let names = boundary_names(&mut rng, b, w);
        for chunk in names.chunks(12) {
            let files: Vec<(String, Vec<u8>)> =
                chunk.iter().map(|n| { let l = rng.range(0, 5) as usize; (n.clone(), rng.bytes(l)) }).collect();
            out.push(format!("build {}", fmt_files(&files)));
            let img = build_foreign(&mut rng, &files, Layout::Shuffled);
            out.push(format!("parse {} {}", hex(&img), fmt_files(&files)));
        }
    }
    {
        // a name crossing 2^16 encoded bytes, double-byte character straddling 65535 | 65536
        let chars = trail_like_lead_chars();
        let mut files: Vec<(String, Vec<u8>)> = Vec::new();
        let totals: &[usize] = if thorough { &[65535, 65536, 65537, 65538] } else { &[65537] };
        for &total in totals {
            files.push((boundary_name(total, 65535.min(total - 2), *rng.pick(&chars), total), vec![1, 2, 3]));
        }
        out.push(format!("build {}", fmt_files(&files)));
    }

    // 2e. exact lengths and counts: every name length 0..=130 encoded bytes once (library round
    //     trip and independent image), and entry counts around the powers of two
    {
        let mut lens: Vec<usize> = (0..=130).collect();
        rng.shuffle(&mut lens);
        for chunk in lens.chunks(10) {
            let mut files: Vec<(String, Vec<u8>)> = Vec::new();
            for &l in chunk {
                let mut nm = exact_len_name(&mut rng, l);
                while files.iter().any(|f| f.0 == nm) {
                    nm = exact_len_name(&mut rng, l);
                }
                let bl = rng.range(0, 3) as usize;
                files.push((nm, rng.bytes(bl)));
            }
            out.push(format!("build {}", fmt_files(&files)));
            let img = build_foreign(&mut rng, &files, Layout::Shuffled);
            out.push(format!("parse {} {}", hex(&img), fmt_files(&files)));
        }
        for k in [7usize, 8, 9, 15, 16, 17, 31, 32, 33, 63, 64, 65, 127, 128, 129] {
            let names = distinct_names(&mut rng, k);
            let files: Vec<(String, Vec<u8>)> =
                names.into_iter().map(|nm| { let bl = rng.range(0, 2) as usize; (nm, rng.bytes(bl)) }).collect();
            if thorough || k % 2 == 1 || k == 8 || k == 64 {
                out.push(format!("build {}", fmt_files(&files)));
            }
            let img = build_foreign(&mut rng, &files, Layout::Reversed);
            out.push(format!("parse {} {}", hex(&img), fmt_files(&files)));
        }
    }

    // 2d. second use on the same thread: a FAILING parse (a name that runs off the end of the
    //     buffer), then an ordinary round trip / parse of a conforming image — same case id, so the
    //     sequence is replayed as a whole. State left behind by the failed call must not leak.
    let second = if thorough { 300 } else { 24 };
    for j in 0..second {
        let mut seq: Vec<String> = Vec::new();
        for _ in 0..rng.range(1, 2) {
            seq.push(format!("parse {} ~", hex(&unterminated_image(&mut rng))));
        }
        let k = rng.range(1, 6) as usize;
        let files = random_files(&mut rng, k);
        if j % 2 == 0 {
            seq.push(format!("build {}", fmt_files(&files)));
        } else {
            let img = build_foreign(&mut rng, &files, Layout::Shuffled);
            seq.push(format!("parse {} {}", hex(&img), fmt_files(&files)));
        }
        if rng.chance(1, 3) {
            // ... and once more after another failure
            seq.push(format!("parse {} ~", hex(&unterminated_image(&mut rng))));
            let files = random_files(&mut rng, 2);
            seq.push(format!("build {}", fmt_files(&files)));
        }
        out.push_seq(seq);
    }

    // 3. foreign (spec-built) conforming images
    let foreign = if thorough { 5000 } else { 260 };
    let layouts = [
        Layout::NamesThenBodies,
        Layout::BodiesThenNames,
        Layout::Reversed,
        Layout::Shuffled,
        Layout::Shared,
    ];
    for j in 0..foreign {
        let k = match rng.below(6) {
            0 => rng.range(0, 1),
            _ => rng.range(0, 24),
        } as usize;
        let mut files = random_files(&mut rng, k);
        let layout = layouts[j % layouts.len()];
        // now and then a duplicated name: outside the property's quantifier, but model and code
        // must still agree (IndexMap::insert replaces in place)
        if k >= 2 && rng.chance(1, 15) {
            let a = rng.below(k as u64) as usize;
            let b = rng.below(k as u64) as usize;
            if a != b {
                files[b].0 = files[a].0.clone();
            }
        }
        let img = build_foreign(&mut rng, &files, layout);
        out.push(format!("parse {} {}", hex(&img), fmt_files(&files)));
    }

    // 4. malformed stream
    let malformed = if thorough { 4000 } else { 300 };
    for j in 0..malformed {
        let k = rng.range(0, 6) as usize;
        let files = random_files(&mut rng, k);
        let mut img = if rng.chance(1, 2) {
            let m: IndexMap<String, Vec<u8>> = files.iter().cloned().collect();
            fe9_arc::serialize(&m).unwrap()
        } else {
            build_foreign(&mut rng, &files, Layout::Shuffled)
        };
        match j % 10 {
            0 => {
                // wrong magic (one byte / all bytes)
                if rng.chance(1, 2) {
                    let p = rng.below(4) as usize;
                    img[p] ^= 1 << rng.below(8);
                } else {
                    for p in 0..4 {
                        img[p] = rng.next() as u8;
                    }
                    if img[0..4] == [0x70, 0x61, 0x63, 0x6B] {
                        img[0] = 0;
                    }
                }
            }
            1 => {
                // truncation at a field boundary of the header / table
                let bounds: Vec<usize> = (0..=8 + 16 * k).filter(|x| *x <= 8 || (x - 8) % 4 == 0).collect();
                let cut = *rng.pick(&bounds);
                img.truncate(cut.min(img.len()));
            }
            2 => {
                // truncation anywhere
                let cut = rng.below(img.len() as u64 + 1) as usize;
                img.truncate(cut);
            }
            3 if k > 0 => {
                // over-declared size
                let i = rng.below(k as u64) as usize;
                let v: u32 = *rng.pick(&[0xFFFF_FFFFu32, 0x8000_0000, img.len() as u32, img.len() as u32 + 1, 0x7FFF_FFFF]);
                img[8 + 16 * i + 12..8 + 16 * i + 16].copy_from_slice(&v.to_be_bytes());
            }
            4 => {
                // over-declared count
                let v: u16 = *rng.pick(&[k as u16 + 1, 0xFFFF, 0x8000, k as u16 + 2]);
                img[4..6].copy_from_slice(&v.to_be_bytes());
            }
            5 if k > 0 => {
                // file address at / beyond the end
                let i = rng.below(k as u64) as usize;
                let v: u32 = *rng.pick(&[img.len() as u32, img.len() as u32 + 1, 0xFFFF_FFFF, img.len() as u32 - 1]);
                img[8 + 16 * i + 8..8 + 16 * i + 12].copy_from_slice(&v.to_be_bytes());
            }
            6 if k > 0 => {
                // name address at / beyond the end, or name without terminator
                let i = rng.below(k as u64) as usize;
                if rng.chance(1, 2) {
                    let v: u32 = *rng.pick(&[img.len() as u32, img.len() as u32 + 1, 0xFFFF_FFFF]);
                    img[8 + 16 * i + 4..8 + 16 * i + 8].copy_from_slice(&v.to_be_bytes());
                } else {
                    let at = img.len() as u32;
                    img.extend(b"open");
                    img[8 + 16 * i + 4..8 + 16 * i + 8].copy_from_slice(&at.to_be_bytes());
                }
            }
            7 => {
                // under-declared count: a shorter, still well-formed archive (ok, fewer files)
                if k > 0 {
                    let v = rng.below(k as u64) as u16;
                    img[4..6].copy_from_slice(&v.to_be_bytes());
                }
            }
            8 => {
                // random bytes, short
                let l = rng.range(0, 12) as usize;
                img = rng.bytes(l);
                if rng.chance(1, 2) && l >= 4 {
                    img[0..4].copy_from_slice(&[0x70, 0x61, 0x63, 0x6B]);
                }
            }
            _ => {
                // bit flip anywhere
                if !img.is_empty() {
                    let p = rng.below(img.len() as u64) as usize;
                    img[p] ^= 1 << rng.below(8);
                }
            }
        }
        out.push(format!("parse {} ~", hex(&img)));
    }
    out.lines
}

// ---------------------------------------------------------------------------------------------
// runner
// ---------------------------------------------------------------------------------------------

fn parse_files(f: &[&str]) -> Vec<(String, Vec<u8>)> {
    let n: usize = f[0].parse().unwrap();
    (0..n).map(|i| (unhexs(f[1 + 2 * i]), unhex(f[2 + 2 * i]))).collect()
}

pub fn run_line(_st: &mut super::State, line: &str) -> String {
    let f: Vec<&str> = line.split(' ').collect();
    let id = f[0];
    let out = match f[1] {
        "build" => {
            let files = parse_files(&f[2..]);
            // lossy-but-encodable code points: outside the property's quantifier, and the model's
            // sub-codec cannot predict their bytes
            if files.iter().any(|(k, _)| k.chars().any(|c| matches!(c, '\u{A5}' | '\u{203E}' | '\u{2212}'))) {
                return format!("{} skip lossy", id);
            }
            let mut m: IndexMap<String, Vec<u8>> = IndexMap::new();
            for (k, v) in files {
                m.insert(k, v);
            }
            match no_panic(|| fe9_arc::serialize(&m)) {
                Err(_) => "panic".to_string(),
                Ok(Err(_)) => "err".to_string(),
                Ok(Ok(img)) => match no_panic(|| fe9_arc::parse(&img)) {
                    Err(_) => format!("ok {} panic", hex(&img)),
                    Ok(Err(_)) => format!("ok {} err", hex(&img)),
                    Ok(Ok(back)) => format!("ok {} {}", hex(&img), fmt_map(&back)),
                },
            }
        }
        "bigbuild" => {
            let count: usize = f[2].parse().unwrap();
            let seed: u64 = f[3].parse().unwrap();
            let mut m: IndexMap<String, Vec<u8>> = IndexMap::with_capacity(count);
            for i in 0..count {
                m.insert(big_name(i), big_body(i, seed));
            }
            match no_panic(|| fe9_arc::serialize(&m)) {
                Err(_) => "panic".to_string(),
                Ok(Err(_)) => "err".to_string(),
                Ok(Ok(img)) => match no_panic(|| fe9_arc::parse(&img)) {
                    Err(_) => format!("ok {} panic", hex_fast(&img)),
                    Ok(Err(_)) => format!("ok {} err", hex_fast(&img)),
                    Ok(Ok(back)) => {
                        let (n, hn, hb) = summary(back.iter());
                        format!("ok {} {} {:016x} {:016x}", hex_fast(&img), n, hn, hb)
                    }
                },
            }
        }
        "parse" => {
            let img = unhex(f[2]);
            match no_panic(|| fe9_arc::parse(&img)) {
                Err(_) => "panic".to_string(),
                Ok(Err(_)) => "err".to_string(),
                // a name outside the sub-codec alphabet (possible only for corrupted images) cannot
                // be reproduced by the model's sub-codec: such results are compared as `ok ?`
                Ok(Ok(m)) => {
                    if m.keys().all(|k| k.chars().all(|c| sjis_sub_char(c).is_some())) {
                        format!("ok {}", fmt_map(&m))
                    } else {
                        "ok ?".to_string()
                    }
                }
            }
        }
        _ => "bad-case".to_string(),
    };
    format!("{} {}", id, out)
}
