// Generator of the `binops` stream (included by binops.rs).
//
// Open loop: the generator never runs mila.  It keeps a *shadow* of the archive size and of the two
// stream cursors, updated with the acceptance rules of the property statement, so that most
// generated requests are valid while every boundary class is still hit.
//
//   hist.*  random operation histories (<= 40 ops) on archives of 0-24 cells (+ unaligned tails)
//   bnd.*   C04 boundary scope: sizes 0..=9, both endians, addresses {0..size+5} u {2^63+-2} u
//           {2^64-9..2^64-1}, every width, byte lengths around every boundary, stream twins
//   rel.*   C03 small scope: archives of <= 3 cells with <= 3 annotations x one accepted
//           allocate / deallocate / truncate / writer-allocate request each
//   rej.*   the same archives x rejected requests (misaligned / out of range / overflowing)

const STRS: [&str; 14] = [
    "a", "test", "Owain", "X", "", "MID_A", "カタ", "ひらがな", "ｱｲ", "Severa", "x y", "A", "ab", "ン",
];
const LBLS: [&str; 8] = ["L", "Count", "Info", "X", "", "ラベル", "test", "M"];
/// C03/C04 are in-memory properties: strings, labels and pending c-strings are opaque there, so they are
/// also drawn from all of Unicode — characters Shift-JIS maps one way (U+00A5 -> `\`, U+203E -> `~`,
/// U+2212 -> U+FF0D) next to the strings they would collide with, unencodable characters, combining
/// marks next to the precomposed form, width variants, BOM / bidi / control characters, strings that
/// differ only in case or trailing space, and lengths around 255/256 bytes.
const WILD: [&str; 30] = [
    "\u{a5}100", "\\100", "\u{203e}", "~", "a\u{2212}b", "a\u{ff0d}b", "\u{a5}", "\\",
    "\u{e9}", "e\u{301}", "\u{2713}", "\u{1f600}", "\u{1f600}\u{1f600}", "\u{3a9}\u{43c}\u{435}\u{433}\u{430}", "\u{ff41}", "a ",
    " a", "A\u{0}B", "\u{feff}x", "\u{202e}abc", "x\ny", "\t", "\u{7f}", "\u{80}",
    "\u{fffd}", "\u{e000}", "\u{10ffff}", "\u{5c}\u{a5}\u{5c}", "\u{203e}\u{7e}\u{203e}", "\u{2212}\u{2212}",
];
fn long_string(n: usize, tail: &str) -> String {
    let mut s: String = (0..n).map(|i| (b'a' + (i % 26) as u8) as char).collect();
    s.push_str(tail);
    s
}

fn huge() -> Vec<u64> {
    let mut v = Vec::new();
    for d in 0..5u64 {
        v.push((1u64 << 63) - 2 + d);
    }
    for d in 1..=9u64 {
        v.push(u64::MAX - d + 1);
    }
    v
}

struct G {
    rng: Rng,
    lines: Vec<String>,
    id: String,
    size: u64,
    rpos: u64,
    wpos: u64,
    /// shadow of the raw bytes (by the statement's rules: zero fill on insert, splice, endian layout on
    /// write), so that written values can be chosen *relative to what the cell holds*
    data: Vec<u8>,
    big: bool,
}

fn ty_width(ty: &str) -> u64 {
    match ty {
        "u8" | "i8" => 1,
        "u16" | "i16" => 2,
        _ => 4,
    }
}

impl G {
    /// `util::Rng::new(s)` and `Rng::new(s + 1)` produce the same stream shifted by one draw, so the
    /// seed is hashed first to give every `VERIF_SEED` an unrelated stream.
    fn new(seed: u64) -> G {
        G { rng: Rng::new(fnv(&format!("binops-{}", seed))), lines: Vec::new(), id: String::new(), size: 0, rpos: 0, wpos: 0, data: Vec::new(), big: false }
    }
    fn start(&mut self, id: String, big: bool) {
        self.id = id;
        self.size = 0;
        self.rpos = 0;
        self.wpos = 0;
        self.data.clear();
        self.big = big;
        self.lines.push(format!("{} new {}", self.id, if big { "BE" } else { "LE" }));
    }
    fn cell_ok(&self, pos: u64, w: u64) -> bool {
        pos < self.size && pos.checked_add(w).map_or(false, |e| e <= self.size)
    }
    /// Emit an op line and update the shadow by the rules of the statement.
    fn op(&mut self, s: String) {
        self.shadow_data(&s);
        {
            let f: Vec<&str> = s.split(' ').collect();
            let n = |i: usize| f[i].parse::<u64>().unwrap();
            match f[0] {
                "alloc_end" | "W_alloc_end" => self.size += n(1),
                "allocate" => {
                    if n(1) <= self.size && n(1) % 4 == 0 && n(2) % 4 == 0 {
                        self.size += n(2)
                    }
                }
                "deallocate" => {
                    if n(1) < self.size && n(1).checked_add(n(2)).map_or(false, |e| e <= self.size) && n(1) % 4 == 0 && n(2) % 4 == 0 {
                        self.size -= n(2)
                    }
                }
                "truncate" => {
                    if n(1) < self.size {
                        self.size = n(1)
                    }
                }
                "R_seek" => self.rpos = n(1),
                "W_seek" => self.wpos = n(1),
                "R_skip" => self.rpos = self.rpos.checked_add(n(1)).unwrap_or(self.rpos),
                "W_skip" => self.wpos = self.wpos.checked_add(n(1)).unwrap_or(self.wpos),
                "R_bytes" => {
                    let c = n(1);
                    if self.rpos.checked_add(c).map_or(false, |e| e <= self.size) {
                        self.rpos += c
                    }
                }
                "W_bytes" => {
                    let c = if f[1] == "-" { 0 } else { (f[1].len() / 2) as u64 };
                    if self.wpos.checked_add(c).map_or(false, |e| e <= self.size) {
                        self.wpos += c
                    }
                }
                "R_str" | "R_ptr" => {
                    if self.cell_ok(self.rpos, 4) {
                        self.rpos += 4
                    }
                }
                "W_str" | "W_ptr" | "W_cstr" => {
                    if self.cell_ok(self.wpos, 4) {
                        self.wpos += 4
                    }
                }
                "W_alloc" => {
                    if self.wpos == self.size || (self.wpos < self.size && self.wpos % 4 == 0 && n(1) % 4 == 0) {
                        self.size += n(1)
                    }
                }
                o => {
                    if let Some(ty) = o.strip_prefix("R_").filter(|t| TYS.contains(t)) {
                        let w = ty_width(ty);
                        if self.cell_ok(self.rpos, w) {
                            self.rpos += w
                        }
                    } else if let Some(ty) = o.strip_prefix("W_").filter(|t| TYS.contains(t)) {
                        let w = ty_width(ty);
                        if self.cell_ok(self.wpos, w) {
                            self.wpos += w
                        }
                    }
                }
            }
        }
        self.lines.push(format!("{} {}", self.id, s));
        if std::env::var("BINOPS_SHADOW_DEBUG").is_ok() {
            // comment line (ignored by harness, driver and orchestrator): lets a script compare the shadow
            // with the data the implementation prints
            self.lines.push(format!("# shadow {} size={} data={}", self.id, self.size, hex(&self.data)));
        }
    }

    fn put(&mut self, at: u64, bytes: &[u8]) {
        let len = bytes.len() as u64;
        if at < self.size && at.checked_add(len).map_or(false, |e| e <= self.size) {
            self.data[at as usize..(at + len) as usize].copy_from_slice(bytes);
        }
    }
    fn layout(&self, w: u64, bits: u64) -> Vec<u8> {
        let mut b: Vec<u8> = (0..w).map(|i| (bits >> (8 * i)) as u8).collect();
        if self.big {
            b.reverse();
        }
        b
    }
    /// Shadow of the data bytes; runs *before* the size / cursor shadow of `op`.
    fn shadow_data(&mut self, s: &str) {
        let f: Vec<&str> = s.split(' ').collect();
        let n = |i: usize| f[i].parse::<u64>().unwrap();
        let size = self.size;
        match f[0] {
            "alloc_end" | "W_alloc_end" => self.data.extend(std::iter::repeat(0).take(n(1) as usize)),
            "allocate" => {
                if n(1) <= size && n(1) % 4 == 0 && n(2) % 4 == 0 {
                    let at = n(1) as usize;
                    self.data.splice(at..at, std::iter::repeat(0).take(n(2) as usize));
                }
            }
            "W_alloc" => {
                if self.wpos == size {
                    self.data.extend(std::iter::repeat(0).take(n(1) as usize))
                } else if self.wpos < size && self.wpos % 4 == 0 && n(1) % 4 == 0 {
                    let at = self.wpos as usize;
                    self.data.splice(at..at, std::iter::repeat(0).take(n(1) as usize));
                }
            }
            "deallocate" => {
                if n(1) < size && n(1).checked_add(n(2)).map_or(false, |e| e <= size) && n(1) % 4 == 0 && n(2) % 4 == 0 {
                    self.data.drain(n(1) as usize..(n(1) + n(2)) as usize);
                }
            }
            "truncate" => {
                if n(1) < size {
                    self.data.truncate(n(1) as usize)
                }
            }
            "w_bytes" => {
                let b = unhex(f[2]);
                self.put(n(1), &b)
            }
            "W_bytes" => {
                let b = unhex(f[1]);
                let at = self.wpos;
                self.put(at, &b)
            }
            o => {
                if let Some(ty) = o.strip_prefix("w_").filter(|t| TYS.contains(t)) {
                    let v = f[2].parse::<i64>().unwrap() as u64;
                    let b = self.layout(ty_width(ty), v);
                    self.put(n(1), &b)
                } else if let Some(ty) = o.strip_prefix("W_").filter(|t| TYS.contains(t)) {
                    let v = f[1].parse::<i64>().unwrap() as u64;
                    let b = self.layout(ty_width(ty), v);
                    let at = self.wpos;
                    self.put(at, &b)
                }
            }
        }
    }
    /// Bits currently held by the `w`-byte cell at `at` (None when it is not inside the data).
    fn cell_bits(&self, at: u64, w: u64) -> Option<u64> {
        if !self.cell_ok(at, w) || self.data.len() as u64 != self.size {
            return None;
        }
        let mut b: Vec<u8> = self.data[at as usize..(at + w) as usize].to_vec();
        if self.big {
            b.reverse();
        }
        Some(b.iter().enumerate().map(|(i, x)| (*x as u64) << (8 * i)).sum())
    }
    fn typed_i64(ty: &str, bits: u64) -> i64 {
        match ty {
            "u8" => (bits & 0xFF) as i64,
            "u16" => (bits & 0xFFFF) as i64,
            "u32" | "f32" => (bits & 0xFFFF_FFFF) as i64,
            "i8" => bits as u8 as i8 as i64,
            "i16" => bits as u16 as i16 as i64,
            _ => bits as u32 as i32 as i64,
        }
    }
    /// A value chosen *against* the current content of the cell: one that an equality / numeric
    /// shortcut would confuse with what is stored (the same value again, the other zero, the same
    /// NaN, a sign / top-bit flip, a neighbour, the value of the enclosing or enclosed cell).
    fn adv_value(&mut self, ty: &'static str, at: u64) -> i64 {
        let w = ty_width(ty);
        let c = match self.cell_bits(at, w) {
            Some(c) => c,
            None => return self.value(ty),
        };
        let top = 1u64 << (8 * w - 1);
        let mask = if w == 4 { 0xFFFF_FFFFu64 } else { (1u64 << (8 * w)) - 1 };
        let bits = if ty == "f32" {
            let is_nan = (c & 0x7F80_0000) == 0x7F80_0000 && (c & 0x007F_FFFF) != 0;
            match self.rng.below(8) {
                0 | 1 | 2 => c ^ 0x8000_0000,                 // -x over x: the other zero when x is a zero
                3 => c,                                        // the same value again (the same NaN too)
                4 => if is_nan { c ^ 1 } else { 0x7FC0_0000 }, // another NaN payload / a NaN
                5 => if c & 0x7FFF_FFFF == 0 { c ^ 0x8000_0000 } else { 0x8000_0000 },
                6 => 0,
                _ => c ^ 0x0000_0001,                          // one ulp
            }
        } else {
            match self.rng.below(8) {
                0 | 1 => c,              // idempotent write
                2 => c ^ top,            // differs in the sign bit only
                3 => c.wrapping_add(1),
                4 => c.wrapping_sub(1),
                5 => !c,
                6 => 0,
                _ => {
                    // the low part of the enclosing wider cell / the wider value truncated
                    self.cell_bits(at & !3, 4).unwrap_or(c)
                }
            }
        };
        G::typed_i64(ty, bits & mask)
    }
    /// Write-then-overwrite pairs on one cell, through the positional and the stream writers in
    /// every combination: the second write is adversarial w.r.t. the first.
    fn adv_pair(&mut self) {
        let ty = self.ty();
        let a = if self.rng.chance(5, 6) { self.cell() + self.rng.below(2) * self.rng.below(4) } else { self.addr() };
        let pairs32: [(u32, u32); 8] = [
            (0, 0x8000_0000), (0x8000_0000, 0), (0x8000_0000, 0x8000_0000), (0x7FC0_0001, 0x7FC0_0001),
            (0x7FC0_0001, 0xFFC0_0001), (0x3F80_0000, 0xBF80_0000), (0xFFFF_FFFF, 0xFFFF_FFFF), (0x0000_00FF, 0xFFFF_FFFF),
        ];
        let (x, y) = *self.rng.pick(&pairs32);
        let first = if self.rng.chance(1, 3) { None } else { Some(x) };
        for (k, bits) in [first, Some(y)].into_iter().enumerate() {
            let bits = match bits {
                Some(b) => b as u64,
                None => continue, // keep whatever the cell holds (e.g. the zeros of a fresh allocation)
            };
            let v = if k == 1 && self.rng.chance(1, 3) { self.adv_value(ty, a) } else { G::typed_i64(ty, bits) };
            if self.rng.chance(1, 2) {
                self.op(format!("w_{} {} {}", ty, a, v));
            } else {
                self.op(format!("W_seek {}", a));
                self.op(format!("W_{} {}", ty, v));
            }
        }
        if self.rng.chance(1, 2) {
            self.op(format!("r_{} {}", ty, a));
        }
    }

    // ---- value pickers
    fn cell(&mut self) -> u64 {
        if self.size >= 4 {
            4 * self.rng.below(self.size / 4)
        } else {
            0
        }
    }
    /// Address for an access: mostly a valid cell, sometimes the end, unaligned, boundary or huge.
    fn addr(&mut self) -> u64 {
        let r = self.rng.below(100);
        if r < 58 {
            self.cell()
        } else if r < 68 {
            self.size.saturating_sub(4 * self.rng.below(2))
        } else if r < 80 {
            self.rng.below(self.size + 6)
        } else if r < 88 {
            self.size + self.rng.below(6)
        } else if r < 93 {
            *self.rng.pick(&huge())
        } else {
            self.rng.below(self.size + 1)
        }
    }
    fn target(&mut self) -> u64 {
        let r = self.rng.below(100);
        if r < 70 {
            4 * self.rng.below(self.size / 4 + 1)
        } else if r < 85 {
            self.rng.below(self.size + 9)
        } else if r < 93 {
            self.size + self.rng.below(9)
        } else if r < 97 {
            (1u64 << 63) - 2 + self.rng.below(5)
        } else {
            u64::MAX - (1 << 20) - self.rng.below(16)
        }
    }
    fn amount(&mut self) -> u64 {
        if self.rng.chance(3, 4) {
            4 * self.rng.below(5)
        } else {
            self.rng.below(17)
        }
    }
    fn wild(&mut self) -> String {
        match self.rng.below(40) {
            // encoded length crossing 255 / 256 bytes, with a multi-byte character straddling the boundary
            0 => long_string(254, "\u{a5}"),
            1 => long_string(255, "\u{3042}"),
            2 => long_string(256, ""),
            3 => long_string(300, "\u{2212}"),
            _ => self.rng.pick(&WILD[..]).to_string(),
        }
    }
    fn string(&mut self) -> String {
        if self.rng.chance(2, 5) {
            let w = self.wild();
            hexs(&w)
        } else {
            hexs(*self.rng.pick(&STRS[..]))
        }
    }
    fn label(&mut self) -> String {
        if self.rng.chance(1, 3) {
            let w = self.wild();
            hexs(&w)
        } else {
            hexs(*self.rng.pick(&LBLS[..]))
        }
    }
    fn value(&mut self, ty: &str) -> i64 {
        let r = self.rng.next();
        let special: [u32; 10] = [0, 1, 0x7F, 0x80, 0xFF, 0x7FFF, 0x8000, 0xFFFF, 0x7FFFFFFF, 0x80000000];
        let nan: [u32; 6] = [0x7FC00000, 0x7F800001, 0xFFC12345, 0x7FBFFFFF, 0xFF800001, 0xFFFFFFFF];
        let bits: u32 = match self.rng.below(4) {
            0 => *self.rng.pick(&special),
            1 if ty == "f32" => *self.rng.pick(&nan),
            _ => r as u32,
        };
        match ty {
            "u8" => (bits & 0xFF) as i64,
            "u16" => (bits & 0xFFFF) as i64,
            "u32" | "f32" => bits as i64,
            "i8" => bits as u8 as i8 as i64,
            "i16" => bits as u16 as i16 as i64,
            _ => bits as i32 as i64,
        }
    }
    fn ty(&mut self) -> &'static str {
        *self.rng.pick(&TYS)
    }

    // ---- op groups
    fn annot_write(&mut self, a: u64) {
        match self.rng.below(10) {
            0 | 1 | 2 => {
                let s = self.string();
                self.op(format!("w_str {} {}", a, s))
            }
            3 | 4 => {
                let t = self.target();
                self.op(format!("w_ptr {} {}", a, t))
            }
            5 | 6 => {
                let l = self.label();
                self.op(format!("w_label {} {}", a, l))
            }
            7 => {
                let k = self.rng.below(4);
                let ls: Vec<String> = (0..k).map(|_| self.label()).collect();
                self.op(format!("w_labels {} {}", a, if ls.is_empty() { "!".to_string() } else { ls.join("/") }))
            }
            _ => {
                let s = self.string();
                self.op(format!("w_cstr {} {}", a, s))
            }
        }
    }
    fn reloc(&mut self) {
        match self.rng.below(12) {
            0 | 1 | 2 | 3 => {
                let a = if self.rng.chance(4, 5) { 4 * self.rng.below(self.size / 4 + 1) } else { self.addr() };
                let n = self.amount();
                let ge = self.rng.below(2);
                self.op(format!("allocate {} {} {}", a, n, ge))
            }
            4 | 5 | 6 | 7 => {
                let a = if self.rng.chance(4, 5) { self.cell() } else { self.addr() };
                let room = self.size.saturating_sub(a);
                let n = match self.rng.below(10) {
                    0..=5 => { let k = self.rng.below(room / 4 + 1); 4 * k.min(4) }
                    6 => room,
                    7 => self.amount(),
                    8 => *self.rng.pick(&huge()),
                    _ => (0u64).wrapping_sub(a).wrapping_add(self.rng.below(9)), // a + n wraps around
                };
                let ge = self.rng.below(2);
                self.op(format!("deallocate {} {} {}", a, n, ge))
            }
            8 | 9 => {
                let a = if self.rng.chance(2, 3) { 4 * self.rng.below(self.size / 4 + 2) } else { self.addr() };
                self.op(format!("truncate {}", a))
            }
            10 => {
                let n = if self.rng.chance(3, 4) { 4 * self.rng.below(4) } else { self.rng.below(7) };
                self.op(format!("alloc_end {}", n))
            }
            _ => {
                if self.rng.chance(1, 2) {
                    let p = if self.rng.chance(1, 2) { self.size } else { self.addr() };
                    self.op(format!("W_seek {}", p));
                }
                let n = self.amount();
                let ge = self.rng.below(2);
                self.op(format!("W_alloc {} {}", n, ge))
            }
        }
    }
    fn typed(&mut self) {
        let a = self.addr();
        let ty = self.ty();
        match self.rng.below(6) {
            0 | 1 => self.op(format!("r_{} {}", ty, a)),
            2 | 3 => {
                let v = if self.rng.chance(1, 2) { self.adv_value(ty, a) } else { self.value(ty) };
                self.op(format!("w_{} {} {}", ty, a, v))
            }
            4 => {
                let room = self.size.saturating_sub(a);
                let n = match self.rng.below(6) {
                    0 => 0,
                    1 => room,
                    2 => room + 1,
                    3 => *self.rng.pick(&huge()),
                    _ => self.rng.below(room + 2),
                };
                self.op(format!("r_bytes {} {}", a, n))
            }
            _ => {
                let room = self.size.saturating_sub(a);
                let n = self.rng.below(room.min(12) + 2) as usize;
                let b = self.rng.bytes(n);
                self.op(format!("w_bytes {} {}", a, hex(&b)))
            }
        }
    }
    fn annot(&mut self) {
        let a = self.addr();
        match self.rng.below(14) {
            0..=5 => self.annot_write(a),
            6 => self.op(format!("w_str {} ~", a)),
            7 => self.op(format!("w_ptr {} ~", a)),
            8 => self.op(format!("d_str {}", a)),
            9 => self.op(format!("d_ptr {}", a)),
            10 => self.op(format!("d_labels {}", a)),
            11 => {
                let i = self.rng.below(3);
                self.op(format!("d_label {} {}", a, i))
            }
            12 => {
                let l = self.label();
                self.op(format!("find {}", l))
            }
            _ => match self.rng.below(6) {
                0 => self.op(format!("r_str {}", a)),
                1 => self.op(format!("r_ptr {}", a)),
                2 => self.op(format!("r_labels {}", a)),
                3 => self.op(format!("r_cstr {}", a)),
                4 => self.op("ptr_dests".to_string()),
                _ => self.op("get_labels".to_string()),
            },
        }
    }
    /// A valid c-string: bytes in the data, a pointer to them, then reads.
    fn cstring_macro(&mut self) {
        if self.size < 12 {
            return;
        }
        let s = *self.rng.pick(&STRS[..]);
        let mut b = sjis_sub(s);
        b.push(0);
        let at = self.rng.below(self.size - (b.len() as u64).min(self.size - 1));
        let p = self.cell();
        self.op(format!("w_bytes {} {}", at, hex(&b)));
        self.op(format!("w_ptr {} {}", p, at));
        if self.rng.chance(1, 2) {
            self.op(format!("r_cstr {}", p));
        } else {
            self.op(format!("R_seek {}", p));
            self.op("R_cstr".to_string());
            self.op(format!("R_seek {}", p + 4));
        }
        if self.rng.chance(1, 2) {
            self.op(format!("R_seek {}", at));
            self.op("R_sjis".to_string());
            let resync = (at + b.len() as u64 + 3) / 4 * 4;
            self.op(format!("R_seek {}", resync));
        }
    }
    fn reader(&mut self) {
        match self.rng.below(16) {
            0 | 1 => {
                let a = self.addr();
                self.op(format!("R_seek {}", a))
            }
            2 => {
                let n = self.rng.below(9);
                self.op(format!("R_skip {}", n))
            }
            3 => self.op("R_tell".to_string()),
            4..=8 => {
                let ty = self.ty();
                self.op(format!("R_{}", ty))
            }
            9 | 10 => {
                let room = self.size.saturating_sub(self.rpos);
                let n = match self.rng.below(6) {
                    0 => 0,
                    1 => room,
                    2 => room + 1,
                    3 => *self.rng.pick(&huge()),
                    _ => self.rng.below(room + 2),
                };
                self.op(format!("R_bytes {}", n))
            }
            11 => self.op("R_str".to_string()),
            12 => self.op("R_ptr".to_string()),
            13 => {
                let i = self.rng.below(3);
                self.op(format!("R_label {}", i))
            }
            14 => self.op("R_labels".to_string()),
            _ => {
                self.op("R_cstr".to_string());
                let a = self.addr();
                self.op(format!("R_seek {}", a)) // resync the shadow cursor
            }
        }
    }
    fn writer(&mut self) {
        match self.rng.below(16) {
            0 | 1 => {
                let a = self.addr();
                self.op(format!("W_seek {}", a))
            }
            2 => {
                let n = self.rng.below(9);
                self.op(format!("W_skip {}", n))
            }
            3 => { let t = self.rng.chance(1, 2); self.op(if t { "W_tell" } else { "W_size" }.to_string()) }
            4..=8 => {
                let ty = self.ty();
                let at = self.wpos;
                let v = if self.rng.chance(1, 2) { self.adv_value(ty, at) } else { self.value(ty) };
                self.op(format!("W_{} {}", ty, v))
            }
            9 | 10 => {
                let room = self.size.saturating_sub(self.wpos);
                let n = self.rng.below(room.min(10) + 3) as usize;
                let b = self.rng.bytes(n);
                self.op(format!("W_bytes {}", hex(&b)))
            }
            11 => {
                let s = if self.rng.chance(1, 5) { "~".to_string() } else { self.string() };
                self.op(format!("W_str {}", s))
            }
            12 => {
                let s = if self.rng.chance(1, 5) { "~".to_string() } else { self.target().to_string() };
                self.op(format!("W_ptr {}", s))
            }
            13 => {
                let s = self.string();
                self.op(format!("W_cstr {}", s))
            }
            14 => {
                let s = self.label();
                self.op(format!("W_label {}", s))
            }
            _ => {
                let n = 4 * self.rng.below(3);
                self.op(format!("W_alloc_end {}", n))
            }
        }
    }

    fn history(&mut self, idx: usize, max_ops: u64) {
        let big = self.rng.chance(1, 2);
        self.start(format!("hist.{:06}", idx), big);
        let cells = match self.rng.below(10) {
            0 => 0,
            1 => self.rng.below(3),
            _ => self.rng.below(25),
        };
        let tail = if self.rng.chance(1, 8) { self.rng.range(1, 3) } else { 0 };
        if self.rng.chance(1, 3) && cells > 1 {
            let k = self.rng.below(cells);
            self.op(format!("alloc_end {}", 4 * k));
            self.op(format!("alloc_end {}", 4 * (cells - k) + tail));
        } else {
            self.op(format!("alloc_end {}", 4 * cells + tail));
        }
        if self.size > 0 && self.rng.chance(3, 4) {
            let b = self.rng.bytes(self.size as usize);
            self.op(format!("w_bytes 0 {}", hex(&b)));
        }
        let k = self.rng.below(cells + 2);
        for _ in 0..k {
            let a = if self.rng.chance(1, 10) { self.size } else { self.cell() };
            self.annot_write(a);
        }
        let n = self.rng.range(max_ops / 4, max_ops);
        for _ in 0..n {
            match self.rng.below(100) {
                0..=29 => self.reloc(),
                30..=47 => self.typed(),
                48..=69 => self.annot(),
                70..=72 => self.cstring_macro(),
                73..=84 => self.reader(),
                85..=90 => self.adv_pair(),
                _ => self.writer(),
            }
        }
        // reveal annotations hidden behind an unaligned end, then look at everything once more
        self.op("alloc_end 4".to_string());
        self.op("ptr_dests".to_string());
        self.op("get_labels".to_string());
    }

    /// C04 boundary scope for one (size, endian).
    fn boundary(&mut self, idx: usize, size: u64, big: bool, keep_den: u64) {
        self.start(format!("bnd.{:04}", idx), big);
        self.op(format!("alloc_end {}", size));
        if size > 0 {
            let b: Vec<u8> = (0..size).map(|i| (0x11 * (i + 1) + 0x80) as u8).collect();
            self.op(format!("w_bytes 0 {}", hex(&b)));
        }
        if size >= 4 {
            self.op("w_str 0 74".to_string());
            self.op("w_ptr 0 4".to_string());
            self.op("w_label 0 4c".to_string());
        }
        let mut addrs: Vec<u64> = (0..=size + 5).collect();
        addrs.extend(huge());
        for &a in &addrs {
            let keep = |g: &mut G| keep_den == 1 || g.rng.below(keep_den) == 0;
            for ty in TYS {
                if keep(self) {
                    self.op(format!("r_{} {}", ty, a));
                }
                if keep(self) {
                    let v = self.value(ty);
                    self.op(format!("w_{} {} {}", ty, a, v));
                }
                if keep(self) {
                    self.op(format!("R_seek {}", a));
                    self.op(format!("R_{}", ty));
                    self.op("R_tell".to_string());
                }
                if keep(self) {
                    let v = self.value(ty);
                    self.op(format!("W_seek {}", a));
                    self.op(format!("W_{} {}", ty, v));
                    self.op("W_tell".to_string());
                }
            }
            // the two zeros (and an idempotent write) over each other, positionally and through the
            // stream writer: always part of the scope
            for (o, v) in [("w_f32", 0u32), ("W_f32", 0x8000_0000), ("W_f32", 0x8000_0000), ("W_f32", 0),
                           ("w_f32", 0x8000_0000), ("W_f32", 0), ("w_i32", 0), ("W_i32", i32::MIN as u32), ("W_u8", 0), ("W_u8", 0x80)] {
                let ty = &o[2..];
                let v = G::typed_i64(ty, v as u64);
                if o.starts_with('W') {
                    self.op(format!("W_seek {}", a));
                    self.op(format!("{} {}", o, v));
                } else {
                    self.op(format!("{} {} {}", o, a, v));
                }
            }
            let room = size.saturating_sub(a);
            let mut lens: Vec<u64> = vec![0, 1, 2, 3, 4, 5, room.saturating_sub(1), room, room + 1, 1 << 63, u64::MAX];
            for k in 0..3u64 {
                lens.push((0u64).wrapping_sub(a).wrapping_add(k)); // a + len wraps to k
                lens.push((0u64).wrapping_sub(a).wrapping_sub(k + 1)); // a + len = 2^64 - k - 1
            }
            lens.sort();
            lens.dedup();
            for &n in &lens {
                if keep(self) {
                    self.op(format!("r_bytes {} {}", a, n));
                }
                if keep(self) {
                    self.op(format!("R_seek {}", a));
                    self.op(format!("R_bytes {}", n));
                }
            }
            for n in 0..=(room + 2).min(size + 2) {
                if keep(self) {
                    let b = self.rng.bytes(n as usize);
                    self.op(format!("w_bytes {} {}", a, hex(&b)));
                }
                if keep(self) {
                    let b = self.rng.bytes(n as usize);
                    self.op(format!("W_seek {}", a));
                    self.op(format!("W_bytes {}", hex(&b)));
                }
            }
            for o in ["r_str", "r_ptr", "r_labels", "r_cstr", "d_str", "d_ptr", "d_labels"] {
                if keep(self) {
                    self.op(format!("{} {}", o, a));
                }
            }
            if keep(self) {
                self.op(format!("w_str {} 6162", a));
                self.op(format!("w_str {} ~", a));
            }
            if keep(self) {
                self.op(format!("w_ptr {} {}", a, a));
                self.op(format!("w_ptr {} ~", a));
            }
            if keep(self) {
                self.op(format!("w_cstr {} 63", a));
            }
            if keep(self) {
                self.op(format!("w_label {} 4c", a));
                self.op(format!("d_label {} 0", a));
                self.op(format!("d_label {} 5", a));
            }
            if keep(self) {
                self.op(format!("w_labels {} 41/42", a));
            }
            for o in ["R_str", "R_ptr", "R_labels", "R_label 0", "R_cstr", "R_sjis"] {
                if keep(self) {
                    self.op(format!("R_seek {}", a));
                    self.op(o.to_string());
                    self.op("R_tell".to_string());
                }
            }
            for o in ["W_str 61", "W_str ~", "W_ptr 0", "W_ptr ~", "W_cstr 63", "W_label 4c"] {
                if keep(self) {
                    self.op(format!("W_seek {}", a));
                    self.op(o.to_string());
                    self.op("W_tell".to_string());
                }
            }
        }
    }
}

/// An annotation atom of the small scope: (kind, cell, target).
#[derive(Clone, Copy, PartialEq)]
struct Atom(u8, u64, u64);

fn atoms(cells: u64) -> Vec<Atom> {
    let size = 4 * cells;
    let mut v = Vec::new();
    for k in 0..cells {
        v.push(Atom(0, 4 * k, 0));
        v.push(Atom(3, 4 * k, 0));
        for t in 0..=cells {
            v.push(Atom(1, 4 * k, 4 * t));
        }
    }
    for k in 0..=cells {
        v.push(Atom(2, 4 * k, 0));
    }
    let _ = size;
    v
}

fn setup_lines(cells: u64, ats: &[Atom]) -> Vec<String> {
    let mut v = vec![format!("alloc_end {}", 4 * cells)];
    if cells > 0 {
        let b: Vec<u8> = (0..4 * cells).map(|i| (i + 1) as u8).collect();
        v.push(format!("w_bytes 0 {}", hex(&b)));
    }
    for (i, a) in ats.iter().enumerate() {
        v.push(match a.0 {
            0 => format!("w_str {} {}", a.1, hexs(["s", "\u{203e}", "~"][i % 3])),
            1 => format!("w_ptr {} {}", a.1, a.2),
            2 => format!("w_label {} {}", a.1, hexs(["L", "a\u{2212}b", "a\u{ff0d}b"][i % 3])),
            // the same string twice (one bucket, two uses), a one-way character and its collision partner
            _ => format!("w_cstr {} {}", a.1, hexs([["c", "\u{a5}1", "c"], ["\u{a5}1", "\\1", "\u{a5}1"], ["\u{e9}", "c", "\u{2212}"]][(a.1 as usize / 4 + ats.len()) % 3][i % 3])),
        });
    }
    v
}

/// Accepted single relocation requests for an archive of `cells` cells.
fn accepted_ops(cells: u64) -> Vec<Vec<String>> {
    let size = 4 * cells;
    let mut v = Vec::new();
    for a in (0..=size).step_by(4) {
        for n in [0u64, 4, 8, 16] {
            for ge in 0..2 {
                v.push(vec![format!("allocate {} {} {}", a, n, ge)]);
            }
        }
        for ge in 0..2 {
            v.push(vec![format!("W_seek {}", a), format!("W_alloc 8 {}", ge)]);
        }
    }
    v.push(vec![format!("W_seek {}", size), "W_alloc 3 0".to_string()]);
    for a in (0..size).step_by(4) {
        for n in (0..=(size - a)).step_by(4) {
            for ge in 0..2 {
                v.push(vec![format!("deallocate {} {} {}", a, n, ge)]);
            }
        }
    }
    for a in 0..=size + 1 {
        v.push(vec![format!("truncate {}", a)]);
    }
    v.push(vec!["alloc_end 5".to_string()]);
    v
}

fn rejected_ops(cells: u64) -> Vec<String> {
    let size = 4 * cells;
    let mut v = Vec::new();
    let mut addrs: Vec<u64> = (0..=size + 5).collect();
    addrs.extend(huge());
    for &a in &addrs {
        for n in 0..=16u64 {
            for ge in 0..2 {
                if !(a <= size && a % 4 == 0 && n % 4 == 0) && (n % 4 == 0 || a % 4 == 0 || n < 6) {
                    v.push(format!("allocate {} {} {}", a, n, ge));
                }
                let okd = a < size && a + n <= size && a % 4 == 0 && n % 4 == 0;
                if !okd && (n % 4 == 0 || a % 4 == 0 || n < 6) && a < (1 << 62) {
                    v.push(format!("deallocate {} {} {}", a, n, ge));
                }
            }
        }
        for n in huge() {
            v.push(format!("deallocate {} {} {}", a, n, a % 2));
        }
        for k in 0..5u64 {
            v.push(format!("deallocate {} {} {}", a, (0u64).wrapping_sub(a).wrapping_add(4 * k), k % 2));
        }
    }
    v
}

pub fn gen(seed: u64, tier: &str) -> Vec<String> {
    let thorough = tier == "thorough";
    let mut g = G::new(seed);
    // ---- random histories
    let nh = if thorough { 20000 } else { 1000 };
    for i in 0..nh {
        g.history(i, 40);
    }
    // ---- C04 boundary scope
    let mut idx = 0;
    for size in 0..=9u64 {
        for big in [false, true] {
            g.boundary(idx, size, big, if thorough { 1 } else { 2 });
            idx += 1;
        }
    }
    // ---- C03 small scope
    let mut archives: Vec<(u64, Vec<Atom>)> = Vec::new();
    if thorough {
        for cells in 0..=3u64 {
            let at = atoms(cells);
            archives.push((cells, vec![]));
            for i in 0..at.len() {
                archives.push((cells, vec![at[i]]));
                for j in i + 1..at.len() {
                    archives.push((cells, vec![at[i], at[j]]));
                    for k in j + 1..at.len() {
                        archives.push((cells, vec![at[i], at[j], at[k]]));
                    }
                }
            }
        }
    } else {
        for _ in 0..300 {
            let cells = g.rng.below(4);
            let at = atoms(cells);
            let k = g.rng.below(4) as usize;
            let mut ats = Vec::new();
            for _ in 0..k {
                if !at.is_empty() {
                    let a = *g.rng.pick(&at);
                    if !ats.contains(&a) {
                        ats.push(a);
                    }
                }
            }
            archives.push((cells, ats));
        }
    }
    let mut n = 0usize;
    for (ai, (cells, ats)) in archives.iter().enumerate() {
        let setup = setup_lines(*cells, ats);
        let ops = accepted_ops(*cells);
        for o in &ops {
            if !thorough && !g.rng.chance(1, 4) {
                continue;
            }
            g.start(format!("rel.{:07}", n), n % 2 == 1);
            n += 1;
            for s in &setup {
                g.op(s.clone());
            }
            for s in o {
                g.op(s.clone());
            }
            g.op("alloc_end 4".to_string());
        }
        let do_rej = if thorough { ai % 4 == 0 } else { ai % 3 == 0 };
        if do_rej {
            g.start(format!("rej.{:07}", ai), ai % 2 == 1);
            for s in &setup {
                g.op(s.clone());
            }
            for s in rejected_ops(*cells) {
                if thorough || g.rng.chance(1, 25) {
                    g.op(s);
                }
            }
        }
    }
    g.lines
}
