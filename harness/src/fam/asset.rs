//! Family `asset`: C18 — asset binaries.
//! Case line: `<id> asset <header-flags> p:<name>,<s1>,…,<s33>,<t34>,…,<t51>*`
//! strings: `~` absent, `-` empty, else hex of UTF-8; typed field: `0|1` (use flag) + 8 hex digits
//! (the value's four bytes: u32 / f32 bits little-endian, colour array as is).
//! Output: as for `aset`; the value is `<flags>/p:…/p:…`.
//!
//! The table below maps the 51 *named* fields of `AssetSpec` to the field indices of the model,
//! independently of the model: a swapped, mis-sized or mis-flagged field in the Rust shows as a diff.
use crate::util::*;
use mila::{AssetBinary, AssetSpec, BinArchive, Endian};

fn str_field(s: &mut AssetSpec, i: usize) -> &mut Option<String> {
    match i {
        1 => &mut s.conditional1,
        2 => &mut s.conditional2,
        3 => &mut s.body_model,
        4 => &mut s.body_texture,
        5 => &mut s.head_model,
        6 => &mut s.head_texture,
        7 => &mut s.hair_model,
        8 => &mut s.hair_texture,
        9 => &mut s.outer_clothing_model,
        10 => &mut s.outer_clothing_texture,
        11 => &mut s.underwear_model,
        12 => &mut s.underwear_texture,
        13 => &mut s.mount_model,
        14 => &mut s.mount_texture,
        15 => &mut s.mount_outer_clothing_model,
        16 => &mut s.mount_outer_clothing_texture,
        17 => &mut s.weapon_model_dual,
        18 => &mut s.weapon_model,
        19 => &mut s.skeleton,
        20 => &mut s.mount_skeleton,
        21 => &mut s.accessory1_model,
        22 => &mut s.accessory1_texture,
        23 => &mut s.accessory2_model,
        24 => &mut s.accessory2_texture,
        25 => &mut s.accessory3_model,
        26 => &mut s.accessory3_texture,
        27 => &mut s.attack_animation,
        28 => &mut s.attack_animation2,
        29 => &mut s.visual_effect,
        30 => &mut s.hid,
        31 => &mut s.footstep_sound,
        32 => &mut s.clothing_sound,
        33 => &mut s.voice,
        _ => panic!("string field {}", i),
    }
}

/// Typed field `i` (34..=51) as (use flag, four bytes).
fn get_val(s: &AssetSpec, i: usize) -> (bool, [u8; 4]) {
    match i {
        34 => (s.use_hair_color, s.hair_color),
        35 => (s.use_skin_color, s.skin_color),
        36 => (s.use_weapon_trail_color, s.weapon_trail_color),
        37 => (s.use_model_size, s.model_size.to_bits().to_le_bytes()),
        38 => (s.use_head_size, s.head_size.to_bits().to_le_bytes()),
        39 => (s.use_pupil_y, s.pupil_y.to_bits().to_le_bytes()),
        40 => (s.use_unk3, s.unk3.to_le_bytes()),
        41 => (s.use_unk4, s.unk4.to_le_bytes()),
        42 => (s.use_unk5, s.unk5.to_le_bytes()),
        43 => (s.use_unk6, s.unk6.to_le_bytes()),
        44 => (s.use_bitflags, s.bitflags),
        45 => (s.use_unk7, s.unk7.to_le_bytes()),
        46 => (s.use_unk8, s.unk8.to_le_bytes()),
        47 => (s.use_unk9, s.unk9.to_le_bytes()),
        48 => (s.use_unk10, s.unk10.to_le_bytes()),
        49 => (s.use_unk11, s.unk11.to_le_bytes()),
        50 => (s.use_unk12, s.unk12.to_le_bytes()),
        51 => (s.use_unk13, s.unk13.to_le_bytes()),
        _ => panic!("typed field {}", i),
    }
}

fn set_val(s: &mut AssetSpec, i: usize, u: bool, b: [u8; 4]) {
    let w = u32::from_le_bytes(b);
    let f = f32::from_bits(w);
    match i {
        34 => { s.use_hair_color = u; s.hair_color = b }
        35 => { s.use_skin_color = u; s.skin_color = b }
        36 => { s.use_weapon_trail_color = u; s.weapon_trail_color = b }
        37 => { s.use_model_size = u; s.model_size = f }
        38 => { s.use_head_size = u; s.head_size = f }
        39 => { s.use_pupil_y = u; s.pupil_y = f }
        40 => { s.use_unk3 = u; s.unk3 = w }
        41 => { s.use_unk4 = u; s.unk4 = w }
        42 => { s.use_unk5 = u; s.unk5 = w }
        43 => { s.use_unk6 = u; s.unk6 = w }
        44 => { s.use_bitflags = u; s.bitflags = b }
        45 => { s.use_unk7 = u; s.unk7 = w }
        46 => { s.use_unk8 = u; s.unk8 = w }
        47 => { s.use_unk9 = u; s.unk9 = w }
        48 => { s.use_unk10 = u; s.unk10 = w }
        49 => { s.use_unk11 = u; s.unk11 = w }
        50 => { s.use_unk12 = u; s.unk12 = w }
        51 => { s.use_unk13 = u; s.unk13 = w }
        _ => panic!("typed field {}", i),
    }
}

fn show_opt(n: &Option<String>) -> String {
    match n {
        None => "~".to_string(),
        Some(s) => hexs(s),
    }
}
fn opt_of(s: &str) -> Option<String> {
    if s == "~" {
        None
    } else {
        Some(unhexs(s))
    }
}

fn show_spec(s: &AssetSpec) -> String {
    let mut s = s.clone();
    let mut parts = vec![show_opt(&s.name)];
    for i in 1..=33 {
        parts.push(show_opt(str_field(&mut s, i)));
    }
    for i in 34..=51 {
        let (u, b) = get_val(&s, i);
        parts.push(format!("{}{:02x}{:02x}{:02x}{:02x}", if u { 1 } else { 0 }, b[0], b[1], b[2], b[3]));
    }
    format!("p:{}", parts.join(","))
}

fn spec_of(text: &str) -> AssetSpec {
    let parts: Vec<&str> = text[2..].split(',').collect();
    let mut s = AssetSpec::new();
    s.name = opt_of(parts[0]);
    for i in 1..=33 {
        *str_field(&mut s, i) = opt_of(parts[i]);
    }
    for i in 34..=51 {
        let t = parts[i];
        let b = unhex(&t[1..]);
        set_val(&mut s, i, &t[0..1] == "1", [b[0], b[1], b[2], b[3]]);
    }
    s
}

pub fn show_binary(b: &AssetBinary) -> String {
    let mut parts = vec![b.flags.to_string()];
    for s in &b.specs {
        parts.push(show_spec(s));
    }
    parts.join("/")
}

const F32_BITS: [u32; 12] = [
    0, 0x8000_0000, 0x3F80_0000, 0x7F80_0000, 0xFF80_0000, 0x7FC0_0000, 0x7FC0_0001, 0x7F80_0001,
    0xFFC1_2345, 0x7FFF_FFFF, 0x0000_0001, 0x3DCC_CCCD,
];

fn rand_bytes4(rng: &mut Rng, i: usize) -> [u8; 4] {
    if (37..=39).contains(&i) && rng.chance(1, 2) {
        return rng.pick(&F32_BITS).to_le_bytes();
    }
    match rng.below(7) {
        0 => [0, 0, 0, 0],
        1 => [0xFF, 0xFF, 0xFF, 0xFF],
        2 => [1, 2, 3, 4],
        3 => [0, 0, 0, 0x80],
        _ => {
            let b = rng.bytes(4);
            [b[0], b[1], b[2], b[3]]
        }
    }
}

fn rand_string(rng: &mut Rng) -> String {
    super::aset::rand_name(rng)
}

/// A spec whose present fields are exactly `present` (indices 1..=51).
fn make_spec(rng: &mut Rng, present: &dyn Fn(usize) -> bool) -> AssetSpec {
    let mut s = AssetSpec::new();
    s.name = match rng.below(5) {
        0 => None,
        1 => Some(String::new()),
        _ => Some(rand_string(rng)),
    };
    for i in 1..=33 {
        if present(i) {
            *str_field(&mut s, i) = Some(rand_string(rng));
        }
    }
    for i in 34..=51 {
        let u = present(i);
        // an unused field may still carry a value in the struct (it is not written)
        let b = if u || rng.chance(1, 3) { rand_bytes4(rng, i) } else { [0, 0, 0, 0] };
        set_val(&mut s, i, u, b);
    }
    s
}

fn rand_spec(rng: &mut Rng) -> AssetSpec {
    let mode = rng.below(8);
    let mask: u64 = rng.next();
    let lo = rng.range(1, 51) as usize;
    let hi = rng.range(lo as u64, 51) as usize;
    let f = move |i: usize| -> bool {
        match mode {
            0 => false,
            1 => true,
            2 => mask & (1 << i) != 0,
            3 => i <= 31 && mask & (1 << i) != 0,           // short form only
            4 => i >= 32 && mask & (1 << i) != 0,           // extended fields only
            5 => i >= lo && i <= hi,                         // a run of fields
            6 => mask & (mask >> 7) & (1 << i) != 0,         // sparse
            _ => mask & (1 << i) != 0 || i == lo,
        }
    };
    make_spec(rng, &f)
}

pub fn gen(seed: u64, tier: &str) -> Vec<String> {
    let mut rng = Rng::new(seed ^ 0xC18);
    let thorough = tier == "thorough";
    let mut lines: Vec<String> = Vec::new();
    // `asset-hand LE|BE`: the same binary written through the per-record public API
    // (`BinArchive::new(endian)`, `write_u32`, `AssetSpec::append`, `allocate_at_end`) and read back
    // with `AssetBinary::from_archive` and with `AssetSpec::from_stream` record by record.
    let push_hand = |lines: &mut Vec<String>, endian: &str, flags: u32, specs: &[AssetSpec]| {
        let mut s = format!("c18.{:06} asset-hand {} {}", lines.len(), endian, flags);
        for sp in specs {
            s.push(' ');
            s.push_str(&show_spec(sp));
        }
        lines.push(s);
    };
    let mut push = |lines: &mut Vec<String>, flags: u32, specs: &[AssetSpec]| {
        let mut s = format!("c18.{:06} asset {}", lines.len(), flags);
        for sp in specs {
            s.push(' ');
            s.push_str(&show_spec(sp));
        }
        lines.push(s);
    };
    // no spec at all; header flag values
    for fl in [0u32, 1, 0x100, 0x8000_0000, 0xFFFF_FFFF] {
        push(&mut lines, fl, &[]);
    }
    // all absent / all present
    let none = make_spec(&mut rng, &|_| false);
    let all = make_spec(&mut rng, &|_| true);
    push(&mut lines, 0, &[none.clone()]);
    push(&mut lines, 7, &[all.clone()]);
    push(&mut lines, 7, &[none.clone(), all.clone(), none.clone(), all.clone()]);
    // every single field alone; alone and followed by a second record; with its successor;
    // everything but this field
    for i in 1..=51usize {
        let one = make_spec(&mut rng, &|k| k == i);
        push(&mut lines, rng.next() as u32, &[one.clone()]);
        let other = rand_spec(&mut rng);
        push(&mut lines, 0, &[one, other]);
        let two = make_spec(&mut rng, &|k| k == i || k == i + 1);
        push(&mut lines, 1, &[two]);
        let but = make_spec(&mut rng, &|k| k != i);
        push(&mut lines, 2, &[but]);
        if thorough {
            for j in (i + 1)..=51 {
                let pair = make_spec(&mut rng, &|k| k == i || k == j);
                push(&mut lines, 3, &[pair]);
            }
        }
    }
    // random binaries
    let count = if thorough { 6000 } else { 1000 };
    for _ in 0..count {
        let flags = match rng.below(4) {
            0 => 0,
            1 => 0xFFFF_FFFF,
            _ => rng.next() as u32,
        };
        let n = *rng.pick(&[0usize, 1, 1, 2, 3, 4, 6]);
        let specs: Vec<AssetSpec> = (0..n).map(|_| rand_spec(&mut rng)).collect();
        push(&mut lines, flags, &specs);
    }
    // strings outside the codec's domain in every string-bearing position (0 = name, 1..=33 the
    // flagged strings) x placement of the offending character (last, first, middle, only):
    // `serialize` must refuse them — or, if it accepts, re-read exactly the value (oracle).
    let mut planted = |rng: &mut Rng, lines: &mut Vec<String>, position: usize, bad: String| {
        let n = rng.range(1, 3) as usize;
        let mut specs: Vec<AssetSpec> = (0..n).map(|_| rand_spec(rng)).collect();
        let k = rng.below(n as u64) as usize;
        if position == 0 {
            specs[k].name = Some(bad);
        } else {
            *str_field(&mut specs[k], position) = Some(bad);
        }
        push(lines, rng.next() as u32, &specs);
    };
    let mut ci = 0;
    let rounds = if thorough { 4 } else { 1 };
    for _ in 0..rounds {
        for position in 0..=33 {
            for placement in 0..4 {
                let c = super::aset::UNENCODABLE[ci % super::aset::UNENCODABLE.len()];
                ci += 1;
                let bad = super::aset::plant(&mut rng, c, placement);
                planted(&mut rng, &mut lines, position, bad);
            }
        }
    }
    for c in super::aset::LOSSY.iter() {
        for _ in 0..4 {
            let position = rng.range(0, 33) as usize;
            let placement = rng.below(4) as usize;
            let bad = super::aset::plant(&mut rng, c, placement);
            planted(&mut rng, &mut lines, position, bad);
        }
    }
    // long strings (size thresholds) in every string-bearing position: quick rotates the positions,
    // thorough plants every long string in positions 0 (name), 1, 31, 32 and 33 and rotates the rest
    let longs = super::aset::long_strings(thorough);
    for (k, long) in longs.iter().enumerate() {
        if long.len() < 4000 && thorough {
            for position in [0usize, 1, 31, 32, 33] {
                planted(&mut rng, &mut lines, position, long.clone());
            }
        }
        planted(&mut rng, &mut lines, (k * 5 + 2) % 34, long.clone());
    }
    // code points outside the sub-codec that real Shift-JIS may encode (model: correspondence skip)
    for (k, c) in super::aset::FOREIGN.iter().enumerate() {
        for position in [k, 12 + k, 28 + k] {
            let placement = rng.below(4) as usize;
            let bad = super::aset::plant(&mut rng, c, placement);
            planted(&mut rng, &mut lines, position, bad);
        }
    }
    // binaries whose only string is one empty string (the pool is a single terminator byte), in
    // every position of the first / last of 1..=3 records; and no string at all
    for n in 1..=3usize {
        let blank: Vec<AssetSpec> = (0..n).map(|_| make_spec(&mut rng, &|_| false)).map(|mut s| { s.name = None; s }).collect();
        push(&mut lines, 0, &blank);
        for position in 0..=33usize {
            if thorough || position % 4 == n % 4 || position == 0 || position >= 31 {
                for which in [0, n - 1] {
                    let mut specs = blank.clone();
                    if position == 0 {
                        specs[which].name = Some(String::new());
                    } else {
                        *str_field(&mut specs[which], position) = Some(String::new());
                    }
                    push(&mut lines, 0x8000_0000, &specs);
                }
            }
        }
    }
    // every string length 0..=130 (encoded bytes): quick rotates the position with the length,
    // thorough sweeps every position x every length
    for k in 0..=130usize {
        for position in 0..=33usize {
            if thorough || position == (k * 7) % 34 {
                let mut spec = make_spec(&mut rng, &|i| i == 1 + (k % 33) && false);
                spec.name = None;
                let v = super::aset::sized_name(&mut rng, k);
                if position == 0 {
                    spec.name = Some(v);
                } else {
                    *str_field(&mut spec, position) = Some(v);
                }
                push(&mut lines, k as u32, &[spec]);
            }
        }
    }
    // numbers of records at the count thresholds
    for n in super::aset::COUNTS.iter() {
        let specs: Vec<AssetSpec> = (0..*n)
            .map(|i| make_spec(&mut rng, &|k| k == 1 + (i * 5) % 51))
            .collect();
        push(&mut lines, *n as u32, &specs);
    }
    // many records / many strings (counts beyond 2^8; thorough: beyond 2^10 pointers)
    {
        let n = if thorough { 600 } else { 260 };
        let specs: Vec<AssetSpec> = (0..n)
            .map(|i| make_spec(&mut rng, &|k| k == 1 + (i % 51) || (i % 7 == 0 && k == 33)))
            .collect();
        push(&mut lines, 5, &specs);
    }
    // the per-record entry points on archives of both byte orders
    for endian in ["LE", "BE"] {
        push_hand(&mut lines, endian, 0xA1B2_C3D4, &[]);
        push_hand(&mut lines, endian, 1, &[none.clone()]);
        push_hand(&mut lines, endian, 0x0102_0304, &[all.clone(), none.clone(), all.clone()]);
        for i in 1..=51usize {
            if thorough || i % 4 == 1 || i >= 30 {
                let one = make_spec(&mut rng, &|k| k == i);
                let other = rand_spec(&mut rng);
                push_hand(&mut lines, endian, rng.next() as u32, &[one, other]);
            }
        }
        let count = if thorough { 1500 } else { 60 };
        for _ in 0..count {
            let n = *rng.pick(&[1usize, 1, 2, 3, 4]);
            let specs: Vec<AssetSpec> = (0..n).map(|_| rand_spec(&mut rng)).collect();
            push_hand(&mut lines, endian, rng.next() as u32, &specs);
        }
        // a refused string and a long string through the same path
        let mut bad = rand_spec(&mut rng);
        bad.name = Some(super::aset::plant(&mut rng, "\u{00E9}", 0));
        push_hand(&mut lines, endian, 9, &[bad]);
        let mut long = rand_spec(&mut rng);
        long.voice = Some(super::aset::long_string(257, 255, '\u{3042}'));
        long.name = Some(super::aset::run_string(1, 200, '\u{30A2}'));
        push_hand(&mut lines, endian, 9, &[long]);
    }
    // second use: the ordinary round trip right after failing parses of damaged copies of the image
    {
        let count = if thorough { 1500 } else { 120 };
        for _ in 0..count {
            let n = *rng.pick(&[1usize, 1, 2, 3]);
            let mut specs: Vec<AssetSpec> = (0..n).map(|_| rand_spec(&mut rng)).collect();
            if rng.chance(1, 2) {
                specs[0].name = Some(super::aset::rand_name(&mut rng));
            }
            let at = lines.len();
            push(&mut lines, rng.next() as u32, &specs);
            lines[at] = lines[at].replacen(" asset ", " asset-after ", 1);
        }
    }
    // interleave refused calls with ordinary ones (second use on one thread)
    rng.shuffle(&mut lines);
    lines
}

fn serialize_by_hand(flags: u32, specs: &[AssetSpec], endian: Endian) -> Result<Vec<u8>, mila::ArchiveError> {
    let mut archive = BinArchive::new(endian);
    archive.allocate_at_end(4);
    archive.write_u32(0, flags)?;
    for spec in specs {
        spec.append(&mut archive)?;
    }
    archive.allocate_at_end(4);
    archive.serialize()
}

/// What `AssetBinary::from_archive` does, through `AssetSpec::from_stream` record by record.
fn read_by_hand(archive: &BinArchive) -> Result<AssetBinary, mila::ArchiveError> {
    let mut reader = mila::BinArchiveReader::new(archive, 0);
    let flags = reader.read_u32()?;
    let mut specs = Vec::new();
    loop {
        let before = reader.tell();
        match AssetSpec::from_stream(&mut reader) {
            Ok(spec) => specs.push(spec),
            Err(_) => break,
        }
        if reader.tell() <= before {
            break;
        }
    }
    Ok(AssetBinary { flags, specs })
}

fn run_hand(f: &[&str]) -> String {
    let endian = if f[2] == "BE" { Endian::Big } else { Endian::Little };
    let flags: u32 = f[3].parse().unwrap();
    let specs: Vec<AssetSpec> = f[4..].iter().map(|s| spec_of(s)).collect();
    match no_panic(|| serialize_by_hand(flags, &specs, endian)) {
        Err(_) => "panic".to_string(),
        Ok(Err(_)) => "err".to_string(),
        Ok(Ok(bytes)) => match no_panic(|| BinArchive::from_bytes(&bytes, endian)) {
            Err(_) => format!("ok ? {} rr-panic", hex(&bytes)),
            Ok(Err(_)) => format!("ok ? {} rr-err", hex(&bytes)),
            Ok(Ok(archive)) => {
                let head = format!("ok {} {}", archive.size(), hex(&bytes));
                match no_panic(|| (AssetBinary::from_archive(&archive), read_by_hand(&archive))) {
                    Err(_) => format!("{} rr-panic", head),
                    Ok((Err(_), _)) | Ok((_, Err(_))) => format!("{} rr-err", head),
                    Ok((Ok(again), Ok(streamed))) => {
                        if show_binary(&again) != show_binary(&streamed) {
                            return format!("{} rr-diff {} {}", head, show_binary(&again), show_binary(&streamed));
                        }
                        let re = match no_panic(|| serialize_by_hand(again.flags, &again.specs, endian)) {
                            Err(_) => "panic".to_string(),
                            Ok(Err(_)) => "err".to_string(),
                            Ok(Ok(b2)) => {
                                if b2 == bytes {
                                    "same".to_string()
                                } else {
                                    hex(&b2)
                                }
                            }
                        };
                        format!("{} rr-ok {} {}", head, show_binary(&again), re)
                    }
                }
            }
        },
    }
}

pub fn run_line(_st: &mut super::State, line: &str) -> String {
    let f: Vec<&str> = line.split(' ').collect();
    let id = f[0];
    if f[1] == "asset-hand" {
        return format!("{} {}", id, run_hand(&f));
    }
    let binary = AssetBinary {
        flags: f[2].parse().unwrap(),
        specs: f[3..].iter().map(|s| spec_of(s)).collect(),
    };
    if f[1] == "asset-after" {
        // second use: the same round trip once after each kind of preceding (mostly failing) call
        let outs: Vec<String> = (1..=6).map(|v| round_trip(&binary, v)).collect();
        return if outs.iter().all(|o| *o == outs[0]) {
            format!("{} {}", id, outs[0])
        } else {
            format!("{} {} unstable", id, outs[0])
        };
    }
    format!("{} {}", id, round_trip(&binary, 0))
}

fn round_trip(binary: &AssetBinary, variant: usize) -> String {
    let out = match no_panic(|| binary.serialize()) {
        Err(_) => "panic".to_string(),
        Ok(Err(_)) => "err".to_string(),
        Ok(Ok(bytes)) => match { super::aset::pre_call(variant, &bytes); no_panic(|| BinArchive::from_bytes(&bytes, Endian::Little)) } {
            Err(_) => format!("ok ? {} rr-panic", hex(&bytes)),
            Ok(Err(_)) => format!("ok ? {} rr-err", hex(&bytes)),
            Ok(Ok(archive)) => {
                let head = format!("ok {} {}", archive.size(), hex(&bytes));
                match no_panic(|| AssetBinary::from_archive(&archive)) {
                    Err(_) => format!("{} rr-panic", head),
                    Ok(Err(_)) => format!("{} rr-err", head),
                    Ok(Ok(again)) => {
                        let re = match no_panic(|| again.serialize()) {
                            Err(_) => "panic".to_string(),
                            Ok(Err(_)) => "err".to_string(),
                            Ok(Ok(b2)) => {
                                if b2 == bytes {
                                    "same".to_string()
                                } else {
                                    hex(&b2)
                                }
                            }
                        };
                        format!("{} rr-ok {} {}", head, show_binary(&again), re)
                    }
                }
            }
        },
    };
    out
}
