//! Family `pixel`: C19 — pixel decoding.
//!
//! Case lines:
//!   <id> px <fmt> <w> <h> <payload>        3DS texture through a single-texture CTPK (`ctpk::read`)
//!   <id> etc <alpha> <w> <h> <payload>     `mila::decode` (ETC1 / ETC1A4)
//!   <id> cf <ColorFormat> <payload>        `ColorFormat::decode`
//!   <id> cfi <ColorFormat> <data> <pal>    `ColorFormat::decode_indexed`
//!   <id> ci8 <w> <h> <palette> <image>     CI8 image + RGB5A3 palette through a single-image TPL
//!   <id> tplx <fmt> <w> <h> <pal> <image>  any TPL image format through a single-image TPL (mostly rejected)
//!   <id> probe <fmt> <w> <h>               payload-size probe (all-zero payload of the exact size / one byte less)
//! Implementation line: `<id> <dev|release> ok <hex>` | `… err <Class>` | `… panic`.
#![allow(unused)]
use super::texc::{self, bits_per_pixel, PROFILE};
use crate::util::*;
use mila::*;

/// Canonical single-texture CTPK (mirrored by `Driver/Pixel.lean::singleCtpk`).
pub fn single_ctpk(fmt: u32, w: u32, h: u32, payload: &[u8]) -> Vec<u8> {
    let mut f = Vec::new();
    f.extend_from_slice(&0x4B50_5443u32.to_le_bytes());
    f.extend_from_slice(&1u16.to_le_bytes());
    f.extend_from_slice(&1u16.to_le_bytes());
    f.extend_from_slice(&0x44u32.to_le_bytes());
    f.extend_from_slice(&(payload.len() as u32).to_le_bytes());
    f.extend_from_slice(&[0u8; 16]);
    f.extend_from_slice(&0x40u32.to_le_bytes());
    f.extend_from_slice(&(payload.len() as u32).to_le_bytes());
    f.extend_from_slice(&0u32.to_le_bytes());
    f.extend_from_slice(&fmt.to_le_bytes());
    f.extend_from_slice(&(w as u16).to_le_bytes());
    f.extend_from_slice(&(h as u16).to_le_bytes());
    f.extend_from_slice(&[1, 0, 0, 0]);
    f.extend_from_slice(&[0u8; 8]);
    f.extend_from_slice(&[0x70, 0, 0, 0]);
    f.extend_from_slice(payload);
    f
}

fn need(fmt: u32, w: u32, h: u32) -> usize {
    bits_per_pixel(fmt).unwrap_or(0) * (w as usize) * (h as usize) / 8
}

struct Gen {
    lines: Vec<String>,
    n: usize,
}
impl Gen {
    fn push(&mut self, body: String) {
        self.lines.push(format!("c19.{:06} {}", self.n, body));
        self.n += 1;
    }
    /// One case of several calls made one after the other on the same thread.
    fn push_seq(&mut self, bodies: Vec<String>) {
        for b in bodies {
            self.lines.push(format!("c19.{:06} {}", self.n, b));
        }
        self.n += 1;
    }
}

/// One ETC1 block word from its fields.
fn etc_word(diff: bool, flip: bool, t1: u64, t2: u64, rgb1: [u64; 3], rgb2: [u64; 3], msb: u64, lsb: u64) -> u64 {
    let mut w: u64 = 0;
    if diff {
        // rgb1 = 5-bit bases, rgb2 = 3-bit two's complement deltas
        w |= (rgb1[0] & 31) << 59 | (rgb2[0] & 7) << 56;
        w |= (rgb1[1] & 31) << 51 | (rgb2[1] & 7) << 48;
        w |= (rgb1[2] & 31) << 43 | (rgb2[2] & 7) << 40;
        w |= 1 << 33;
    } else {
        w |= (rgb1[0] & 15) << 60 | (rgb2[0] & 15) << 56;
        w |= (rgb1[1] & 15) << 52 | (rgb2[1] & 15) << 48;
        w |= (rgb1[2] & 15) << 44 | (rgb2[2] & 15) << 40;
    }
    w |= (t1 & 7) << 37 | (t2 & 7) << 34;
    if flip {
        w |= 1 << 32;
    }
    w | (msb & 0xFFFF) << 16 | (lsb & 0xFFFF)
}

fn blocks_payload(words: &[u64], alphas: Option<&[u64]>) -> Vec<u8> {
    let mut p = Vec::new();
    for (i, w) in words.iter().enumerate() {
        if let Some(a) = alphas {
            p.extend_from_slice(&a[i].to_le_bytes());
        }
        p.extend_from_slice(&w.to_le_bytes());
    }
    p
}

/// Emits `words` (count must be 4·k²/… : padded with random legal-looking blocks to fill a square of 8k×8k).
fn emit_blocks(g: &mut Gen, rng: &mut Rng, words: &[u64], alpha: bool, via_ctpk: bool) {
    // sizes: 32×32 holds 64 blocks, 16×16 holds 16, 8×8 holds 4
    let mut i = 0;
    while i < words.len() {
        let left = words.len() - i;
        let (side, cap) = if left >= 64 { (32, 64) } else if left >= 16 { (16, 16) } else { (8, 4) };
        let mut chunk: Vec<u64> = words[i..(i + cap).min(words.len())].to_vec();
        while chunk.len() < cap {
            chunk.push(rng.next() & !(1u64 << 33)); // individual-mode filler
        }
        let alphas: Vec<u64> = (0..cap).map(|k| if k % 3 == 0 { 0xFEDC_BA98_7654_3210 } else { rng.next() }).collect();
        let payload = blocks_payload(&chunk, if alpha { Some(&alphas) } else { None });
        if via_ctpk {
            g.push(format!("px {} {} {} {}", if alpha { 13 } else { 12 }, side, side, hex(&payload)));
        } else {
            g.push(format!("etc {} {} {} {}", alpha as u8, side, side, hex(&payload)));
        }
        i += cap;
    }
}

pub fn gen(seed: u64, tier: &str) -> Vec<String> {
    let thorough = tier == "thorough";
    let mut rng = Rng::new(seed ^ 0xC19);
    let mut g = Gen { lines: Vec::new(), n: 0 };
    let all_sizes: [u32; 5] = [8, 16, 32, 64, 128];
    let small: &[u32] = if thorough { &all_sizes } else { &all_sizes[..3] };

    // A. every format number (0..=13 and unsupported ones) × sizes, random payloads, through ctpk::read
    for fmt in (0u32..=15).chain([255u32, 0x1_0000]) {
        for &w in small {
            for &h in small {
                if thorough && w * h > 64 * 64 && fmt != 0 && !rng.chance(1, 3) {
                    continue;
                }
                g.push(format!("px {} {} {} {}", fmt, w, h, hex(&rng.bytes(need(fmt, w, h)))));
            }
        }
    }
    // B. all 65 536 values of every 16-bit format, in a per-seed random order, packed into 32×32 images;
    //    all 256 values of the 8-bit formats
    for fmt in [2u32, 3, 4, 5] {
        let mut vals: Vec<u16> = (0..=65535u16).collect();
        rng.shuffle(&mut vals);
        for chunk in vals.chunks(1024) {
            let mut p = Vec::with_capacity(2048);
            for v in chunk {
                p.extend_from_slice(&v.to_le_bytes());
            }
            g.push(format!("px {} 32 32 {}", fmt, hex(&p)));
        }
    }
    for fmt in [6u32, 7, 8, 9] {
        let mut vals: Vec<u8> = (0..=255u8).collect();
        rng.shuffle(&mut vals);
        g.push(format!("px {} 16 16 {}", fmt, hex(&vals)));
    }
    // RGBA8: every byte value in every channel position
    {
        let mut p = Vec::new();
        for i in 0..256u32 {
            let v = [i as u8, (i * 7 + 1) as u8, (255 - i) as u8, (i * 13 + 5) as u8];
            p.extend_from_slice(&v);
        }
        g.push(format!("px 0 16 16 {}", hex(&p)));
    }
    // C. ETC1: all (mode, table1, table2, flip) combinations with random selectors and bases;
    //    every legal base/delta pair in every channel; the illegal pairs; all individual bases
    let mut words = Vec::new();
    for diff in [false, true] {
        for flip in [false, true] {
            for t1 in 0..8u64 {
                for t2 in 0..8u64 {
                    let (rgb1, rgb2) = if diff {
                        // legal: base + delta within 0..=31
                        let mut b = [0u64; 3];
                        let mut d = [0u64; 3];
                        for c in 0..3 {
                            loop {
                                b[c] = rng.below(32);
                                d[c] = rng.below(8);
                                let dv = if d[c] < 4 { d[c] as i64 } else { d[c] as i64 - 8 };
                                if (0..=31).contains(&(b[c] as i64 + dv)) {
                                    break;
                                }
                            }
                        }
                        (b, d)
                    } else {
                        ([rng.below(16), rng.below(16), rng.below(16)], [rng.below(16), rng.below(16), rng.below(16)])
                    };
                    words.push(etc_word(diff, flip, t1, t2, rgb1, rgb2, rng.next(), rng.next()));
                }
            }
        }
    }
    emit_blocks(&mut g, &mut rng, &words, false, false);
    emit_blocks(&mut g, &mut rng, &words, true, true);
    // every (base, delta) pair — legal and illegal — rotated through the channels; selectors cover all
    // four values in both subblocks (msb/lsb patterns 0x0F0F.. / 0x3333..)
    let mut legal = Vec::new();
    let mut illegal = Vec::new();
    for b in 0..32u64 {
        for d in 0..8u64 {
            let dv = if d < 4 { d as i64 } else { d as i64 - 8 };
            let ok = (0..=31).contains(&(b as i64 + dv));
            for rot in 0..3 {
                let mut bb = [rng.below(28) + 4 - 4 * 0, 8, 16];
                let mut dd = [0u64, 1, 7];
                bb[rot] = b;
                dd[rot] = d;
                // keep the two other channels legal
                for c in 0..3 {
                    if c != rot {
                        bb[c] = 4 + rng.below(24);
                        dd[c] = rng.below(8);
                    }
                }
                let w = etc_word(true, rng.chance(1, 2), rng.below(8), rng.below(8), bb, dd, 0x0F0F ^ (rng.next() & 0xFFFF), 0x3333 ^ (rng.next() & 0xFFFF));
                if ok { legal.push(w) } else { illegal.push(w) }
            }
        }
    }
    emit_blocks(&mut g, &mut rng, &legal, false, true);
    emit_blocks(&mut g, &mut rng, &legal, true, false);
    emit_blocks(&mut g, &mut rng, &illegal, false, false);
    emit_blocks(&mut g, &mut rng, &illegal, false, true);
    let mut indiv = Vec::new();
    for a in 0..16u64 {
        for b in 0..16u64 {
            indiv.push(etc_word(false, (a + b) % 2 == 1, a % 8, b % 8, [a, b, 15 - a], [b, 15 - b, a], 0x00FF, 0x0F0F));
        }
    }
    emit_blocks(&mut g, &mut rng, &indiv, false, false);
    // selector exhaustiveness on one block: every (msb, lsb) value at every texel, both flips, both modes
    let mut sel = Vec::new();
    for k in 0..16u64 {
        for (m, l) in [(0u64, 0u64), (0, 1), (1, 0), (1, 1)] {
            for flip in [false, true] {
                sel.push(etc_word(k % 2 == 0, flip, 3, 6, [10, 20, 5], [1, 2, 3], m << k, l << k));
            }
        }
    }
    emit_blocks(&mut g, &mut rng, &sel, true, false);
    // C2. sentinel-aware ETC1A4 / ETC1 blocks: alpha word x colour word over the special values an early
    //     exit or fast path would test (0, all ones, one nibble / one bit set, previous block, random);
    //     the colour words include legal non-black ones so that the Khronos oracle has something to say
    {
        let mut alpha_vals: Vec<u64> = vec![0, u64::MAX, 0xFEDC_BA98_7654_3210, rng.next()];
        for k in 0..16 {
            alpha_vals.push(0xFu64 << (4 * k));
            alpha_vals.push(0x1u64 << (4 * k));
        }
        for _ in 0..4 {
            alpha_vals.push(1u64 << rng.below(64));
            alpha_vals.push(!(0xFu64 << (4 * rng.below(16))));
        }
        let mut colour_vals: Vec<u64> = vec![
            0,
            u64::MAX,
            1u64 << 33,
            etc_word(false, false, 2, 5, [9, 3, 12], [1, 14, 7], 0x5A5A, 0x33CC),
            etc_word(true, true, 7, 0, [20, 11, 3], [7, 1, 0], 0xF00F, 0x0FF0),
            etc_word(false, true, 0, 0, [15, 15, 15], [15, 15, 15], 0, 0),
            etc_word(true, false, 4, 4, [0, 0, 0], [0, 0, 0], 0xFFFF, 0xFFFF),
        ];
        for _ in 0..3 {
            colour_vals.push(rng.next() & !(1u64 << 33));
            colour_vals.push(1u64 << rng.below(64));
        }
        let mut blocks: Vec<(u64, u64)> = Vec::new();
        for &a in &alpha_vals {
            for &c in &colour_vals {
                blocks.push((a, c));
            }
        }
        // adjacent identical blocks and zero blocks next to non-zero ones
        let n = blocks.len();
        for i in 0..n / 8 {
            let b = blocks[(i * 7) % n];
            blocks.push(b);
            blocks.push(b);
            blocks.push((0, 0));
        }
        rng.shuffle(&mut blocks);
        while blocks.len() % 64 != 0 {
            blocks.push((0, rng.next() & !(1u64 << 33)));
        }
        for (i, chunk) in blocks.chunks(64).enumerate() {
            let words: Vec<u64> = chunk.iter().map(|b| b.1).collect();
            let alphas: Vec<u64> = chunk.iter().map(|b| b.0).collect();
            let with_alpha = blocks_payload(&words, Some(&alphas));
            if i % 2 == 0 {
                g.push(format!("px 13 32 32 {}", hex(&with_alpha)));
            } else {
                g.push(format!("etc 1 32 32 {}", hex(&with_alpha)));
            }
            // the same colour words without alpha, through the other entry point
            let without = blocks_payload(&words, None);
            if i % 2 == 0 {
                g.push(format!("etc 0 32 32 {}", hex(&without)));
            } else {
                g.push(format!("px 12 32 32 {}", hex(&without)));
            }
        }
    }
    // C3. sentinel-aware payloads for every format: all zero, all ones, word-, tile- and byte-wise
    //     mixtures of 0 / 0xFF / single bits / repeats / random (16x16 = four tiles; 32x8; 8x32)
    for fmt in 0u32..=13 {
        for style in 0..6u64 {
            for (w, h) in [(16u32, 16u32), (32, 8), (8, 32)] {
                if style < 2 && w != 16 {
                    continue;
                }
                let len = need(fmt, w, h);
                let p = texc::sentinel_payload(&mut rng, fmt, len, style);
                g.push(format!("px {} {} {} {}", fmt, w, h, hex(&p)));
                if fmt >= 12 && style >= 2 {
                    let p = texc::sentinel_payload(&mut rng, fmt, len, style);
                    g.push(format!("etc {} {} {} {}", (fmt == 13) as u8, w, h, hex(&p)));
                }
            }
        }
    }
    // C4. beyond 128: one side 256 / 512 / 1024 (the PICA200 maximum), the other 8 — tile counters and
    //     dimension masks; still inside the theorems' domain (sides below 2^16), judged by the oracle
    {
        let fmts: Vec<u32> = if thorough { (0..=13).collect() } else { vec![0, 3, 7, 12, 13] };
        for &fmt in &fmts {
            for (i, (w, h)) in [(256u32, 8u32), (8, 512), (1024, 8), (8, 1024)].into_iter().enumerate() {
                if !thorough && i == 1 {
                    continue;
                }
                let len = need(fmt, w, h);
                let p = if (i + fmt as usize) % 3 == 0 { let st = rng.next(); texc::sentinel_payload(&mut rng, fmt, len, st) } else { rng.bytes(len) };
                g.push(format!("px {} {} {} {}", fmt, w, h, hex(&p)));
            }
        }
        for alpha in [false, true] {
            for (w, h) in [(1024u32, 8u32), (8, 1024), (2048, 8)] {
                if !thorough && alpha != (w == 1024) {
                    continue;
                }
                let len = need(if alpha { 13 } else { 12 }, w, h);
                g.push(format!("etc {} {} {} {}", alpha as u8, w, h, hex(&rng.bytes(len))));
            }
        }
    }
    // D. fully random blocks; all sizes 8…128 (the f64 tile count), rectangular included
    for &w in &all_sizes {
        for &h in &all_sizes {
            for alpha in [false, true] {
                if !thorough && alpha && w * h > 32 * 32 && !(w == 128 && h == 128) && !(w == 8 && h == 128) && !(w == 128 && h == 8) {
                    continue;
                }
                let len = need(if alpha { 13 } else { 12 }, w, h);
                g.push(format!("etc {} {} {} {}", alpha as u8, w, h, hex(&rng.bytes(len))));
            }
        }
    }
    // ETC1 outside the domain (model/code agreement only): short data, non-power-of-two sides
    for (alpha, w, h, len) in [(0u8, 8u32, 8u32, 31usize), (1, 8, 8, 63), (0, 8, 8, 0), (0, 24, 8, 96), (0, 4, 4, 32), (0, 12, 20, 256), (1, 16, 8, 64), (0, 0, 0, 32), (0, 0, 8, 0)] {
        g.push(format!("etc {} {} {} {}", alpha, w, h, hex(&rng.bytes(len))));
    }
    // E. payload-size probes: every size of the domain (and some outside) for every bpp class
    let probe_fmts: Vec<u32> = if thorough { (0..=15).collect() } else { vec![0, 1, 2, 6, 10, 12, 13, 14] };
    for &fmt in &probe_fmts {
        for &w in &all_sizes {
            for &h in &all_sizes {
                g.push(format!("probe {} {} {}", fmt, w, h));
            }
        }
    }
    // F. RGB5A3: all 65 536 values (big-endian), per-seed order; RGBA8 copy; error paths
    {
        let mut vals: Vec<u16> = (0..=65535u16).collect();
        rng.shuffle(&mut vals);
        for chunk in vals.chunks(4096) {
            let mut p = Vec::with_capacity(8192);
            for v in chunk {
                p.extend_from_slice(&v.to_be_bytes());
            }
            g.push(format!("cf RGB5A3 {}", hex(&p)));
        }
        g.push(format!("cf RGBA8 {}", hex(&rng.bytes(64))));
        // sentinel values and runs: 0x0000 / 0xFFFF / 0x8000 / 0x7FFF, repeats, single bits
        for style in 0..6u64 {
            g.push(format!("cf RGB5A3 {}", hex(&texc::sentinel_payload(&mut rng, 2, 256, style))));
        }
        g.push("cf RGBA8 -".to_string());
        g.push("cf RGB5A3 -".to_string());
        g.push(format!("cf RGBA8 {}", hex(&rng.bytes(7))));
        g.push(format!("cf RGB5A3 {}", hex(&rng.bytes(5))));
        g.push(format!("cf CI8 {}", hex(&rng.bytes(4))));
        g.push(format!("cf Unrecognized {}", hex(&rng.bytes(4))));
    }
    // G. CI8 (8×4 blocks) with crop: sizes 1…64
    let mut sizes: Vec<(u32, u32)> = vec![(1, 1), (8, 4), (9, 5), (7, 3), (16, 8), (17, 9), (64, 64), (63, 61), (1, 64), (64, 1), (33, 2), (8, 8), (24, 12)];
    let extra = if thorough { 300 } else { 40 };
    for _ in 0..extra {
        sizes.push((rng.range(1, 64) as u32, rng.range(1, 64) as u32));
    }
    if thorough {
        for w in 1..=64 {
            for h in 1..=64 {
                if (w + h) % 5 == 0 {
                    sizes.push((w, h));
                }
            }
        }
    } else {
        for w in 1..=17 {
            for h in 1..=9 {
                sizes.push((w, h));
            }
        }
    }
    for (w, h) in sizes {
        // short palettes; padding texels (outside w x h) take any byte, in particular >= the palette length
        let entries = *rng.pick(&[1usize, 2, 7, 16, 255, 256]);
        let image = texc::ci8_plane(&mut rng, w, h, entries);
        g.push(format!("ci8 {} {} {} {}", w, h, hex(&rng.bytes(entries * 2)), hex(&image)));
    }
    // H. second use on the same thread (one case id = calls made one after the other): a TPL image of
    //    another block shape and the same block-aligned size (rejected after de-blocking), then the CI8
    //    image; both orders; other dimensions in between; and 3DS decodes of changing format / size
    {
        let shapes: Vec<(u32, u32)> = if thorough { vec![(8, 8), (16, 8), (5, 7), (13, 4), (8, 4), (24, 12), (3, 3), (64, 64), (33, 9)] } else { vec![(8, 8), (16, 8), (5, 7), (13, 4)] };
        for (w, h) in shapes {
            let (aw, ah) = ((w + 7) / 8 * 8, (h + 3) / 4 * 4);
            for other in [5u32, 6, 3, 0, 8, 14, 1, 7] {
                if !thorough && (other == 8 || other == 14 || other == 7) {
                    continue;
                }
                let entries = *rng.pick(&[2usize, 16, 255]);
                let ci8 = format!("ci8 {} {} {} {}", w, h, hex(&rng.bytes(entries * 2)), hex(&texc::ci8_plane(&mut rng, w, h, entries)));
                let oth = format!("tplx {} {} {} {} {}", other, aw, ah, hex(&rng.bytes(8)), hex(&rng.bytes(texc::tpl_image_bytes(other, aw, ah))));
                if other % 2 == 1 {
                    g.push_seq(vec![oth, ci8]);
                } else {
                    let mid = format!("ci8 {} {} {} {}", w + 8, h, hex(&rng.bytes(4)), hex(&texc::ci8_plane(&mut rng, w + 8, h, 2)));
                    g.push_seq(vec![ci8.clone(), oth.clone(), ci8.clone(), mid, oth, ci8]);
                }
            }
        }
        for _ in 0..(if thorough { 40 } else { 8 }) {
            let mut bodies = Vec::new();
            let (w, h) = (*rng.pick(&[8u32, 16]), *rng.pick(&[8u32, 16]));
            for k in 0..4 {
                let fmt = *rng.pick(&[0u32, 2, 3, 4, 5, 7, 8, 12, 13, 14, 1]);
                let (w2, h2) = if k == 2 { (h * 2, w) } else { (w, h) };
                let len = need(fmt, w2, h2);
                if (fmt == 12 || fmt == 13) && k % 2 == 1 {
                    // a failing (short data: panic) direct call before an ordinary one
                    bodies.push(format!("etc {} {} {} {}", (fmt == 13) as u8, w2, h2, hex(&rng.bytes(len / 2))));
                }
                bodies.push(format!("px {} {} {} {}", fmt, w2, h2, hex(&rng.bytes(len))));
            }
            g.push_seq(bodies);
        }
    }
    // sentinel palettes / index planes: all-zero and all-ones palettes, constant index planes,
    // index 0 / 255 with a full palette
    for (w, h) in [(8u32, 4u32), (16, 8), (13, 7)] {
        let aw = (w as usize + 7) / 8 * 8;
        let ah = (h as usize + 3) / 4 * 4;
        for style in 0..6u64 {
            let pal = texc::sentinel_payload(&mut rng, 2, 512, style);
            let image = texc::sentinel_payload(&mut rng, 7, aw * ah, style + 1);
            g.push(format!("ci8 {} {} {} {}", w, h, hex(&pal), hex(&image)));
        }
    }
    // out-of-range palette index (visible / only in the padding), direct decode_indexed
    {
        let mut image = vec![0u8; 32];
        image[3] = 5;
        g.push(format!("ci8 8 4 {} {}", hex(&rng.bytes(8)), hex(&image)));
        let mut image = vec![0u8; 32];
        image[7] = 200;
        g.push(format!("ci8 5 3 {} {}", hex(&rng.bytes(8)), hex(&image)));
        g.push(format!("cfi CI8 {} {}", hex(&[0, 1, 2, 1]), hex(&rng.bytes(12))));
        g.push(format!("cfi CI8 {} {}", hex(&[0, 3]), hex(&rng.bytes(12))));
        g.push(format!("cfi CI8 {} {}", hex(&[0, 1]), hex(&rng.bytes(7))));
        g.push(format!("cfi RGBA8 {} {}", hex(&[0, 1]), hex(&rng.bytes(8))));
        g.push(format!("cfi Unrecognized {} {}", hex(&[0, 1]), hex(&rng.bytes(8))));
        g.push(format!("cfi CI8 - {}", hex(&rng.bytes(8))));
    }
    g.lines
}

fn cf_of(s: &str) -> ColorFormat {
    match s {
        "RGBA8" => ColorFormat::RGBA8,
        "RGB5A3" => ColorFormat::RGB5A3,
        "CI8" => ColorFormat::CI8,
        _ => ColorFormat::Unrecognized,
    }
}

fn decode_result(r: Result<Result<Vec<u8>, TextureDecodeError>, String>) -> String {
    match r {
        Err(_) => "panic".to_string(),
        Ok(Err(e)) => format!("err {}", texc::decode_err_class(&e)),
        Ok(Ok(b)) => format!("ok {}", hex(&b)),
    }
}

fn single_texture(r: Result<Result<Vec<Texture>, TextureParseError>, String>, w: u32, h: u32) -> String {
    match r {
        Err(_) => "panic".to_string(),
        Ok(Err(e)) => format!("err {}", texc::parse_err_class(&e)),
        Ok(Ok(ts)) => {
            if ts.len() == 1 && ts[0].width == w as usize && ts[0].height == h as usize {
                format!("ok {}", hex(&ts[0].pixel_data))
            } else {
                format!("ok-but {} textures", ts.len())
            }
        }
    }
}

fn class(r: Result<Result<Vec<Texture>, TextureParseError>, String>) -> String {
    match r {
        Err(_) => "panic".to_string(),
        Ok(Err(e)) => format!("err.{}", texc::parse_err_class(&e)),
        Ok(Ok(_)) => "ok".to_string(),
    }
}

pub fn run_line(_st: &mut super::State, line: &str) -> String {
    let f: Vec<&str> = line.split(' ').collect();
    let id = f[0];
    let out = match f[1] {
        "px" => {
            let (fmt, w, h) = (f[2].parse::<u32>().unwrap(), f[3].parse::<u32>().unwrap(), f[4].parse::<u32>().unwrap());
            let file = single_ctpk(fmt, w, h, &unhex(f[5]));
            single_texture(no_panic(|| ctpk::read(&file)), w, h)
        }
        "etc" => {
            let (w, h) = (f[3].parse::<usize>().unwrap(), f[4].parse::<usize>().unwrap());
            let data = unhex(f[5]);
            decode_result(no_panic(|| mila::decode(&data, w, h, f[2] == "1")))
        }
        "cf" => {
            let data = unhex(f[3]);
            decode_result(no_panic(|| cf_of(f[2]).decode(&data)))
        }
        "cfi" => {
            let data = unhex(f[3]);
            let pal = unhex(f[4]);
            decode_result(no_panic(|| cf_of(f[2]).decode_indexed(&data, &pal)))
        }
        "ci8" => {
            let (w, h) = (f[2].parse::<u32>().unwrap(), f[3].parse::<u32>().unwrap());
            let t = texc::Tex { name: String::new(), w, h, fmt: 9, payload: unhex(f[5]), palette: unhex(f[4]) };
            let mut rng = Rng::new(0);
            let b = texc::build_tpl(&[t], &mut rng, false);
            single_texture(no_panic(|| tpl::Tpl::extract_textures(&b.file)), w, h)
        }
        "tplx" => {
            let (fmt, w, h) = (f[2].parse::<u32>().unwrap(), f[3].parse::<u32>().unwrap(), f[4].parse::<u32>().unwrap());
            let t = texc::Tex { name: String::new(), w, h, fmt, payload: unhex(f[6]), palette: unhex(f[5]) };
            let mut rng = Rng::new(0);
            let b = texc::build_tpl(&[t], &mut rng, false);
            single_texture(no_panic(|| tpl::Tpl::extract_textures(&b.file)), w, h)
        }
        "probe" => {
            let (fmt, w, h) = (f[2].parse::<u32>().unwrap(), f[3].parse::<u32>().unwrap(), f[4].parse::<u32>().unwrap());
            let n = need(fmt, w, h);
            let file = single_ctpk(fmt, w, h, &vec![0u8; n]);
            let a = class(no_panic(|| ctpk::read(&file)));
            let b = if n == 0 { "-".to_string() } else { class(no_panic(|| ctpk::read(&file[..file.len() - 1]))) };
            format!("{} {}", a, b)
        }
        _ => "bad-case".to_string(),
    };
    format!("{} {} {}", id, PROFILE, out)
}
