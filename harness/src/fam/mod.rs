//! Family dispatch. Each family module owns `gen(seed, tier) -> Vec<String>` (case lines) and
//! `run_line(&mut State, line) -> String` (the implementation's output line, starting with the case id).

pub mod loc;
pub mod binops;
pub mod binser;
pub mod parsers;
pub mod text;
pub mod lz;
pub mod fs;
pub mod pack;
pub mod arc;
pub mod aset;
pub mod asset;
pub mod pixel;
pub mod texc;

/// Per-run mutable state for stateful families (downcast to the family's own type).
#[derive(Default)]
pub struct State {
    pub any: Option<Box<dyn std::any::Any>>,
}

pub fn gen(family: &str, seed: u64, tier: &str) -> Vec<String> {
    match family {
        "loc" => loc::gen(seed, tier),
        "binops" => binops::gen(seed, tier),
        "binser" => binser::gen(seed, tier),
        "parsers" => parsers::gen(seed, tier),
        "text" => text::gen(seed, tier),
        "lz" => lz::gen(seed, tier),
        "fs" => fs::gen(seed, tier),
        "pack" => pack::gen(seed, tier),
        "arc" => arc::gen(seed, tier),
        "aset" => aset::gen(seed, tier),
        "asset" => asset::gen(seed, tier),
        "pixel" => pixel::gen(seed, tier),
        "texc" => texc::gen(seed, tier),
        _ => panic!("unknown family {}", family),
    }
}

pub fn run_line(family: &str, st: &mut State, line: &str) -> String {
    match family {
        "loc" => loc::run_line(st, line),
        "binops" => binops::run_line(st, line),
        "binser" => binser::run_line(st, line),
        "parsers" => parsers::run_line(st, line),
        "text" => text::run_line(st, line),
        "lz" => lz::run_line(st, line),
        "fs" => fs::run_line(st, line),
        "pack" => pack::run_line(st, line),
        "arc" => arc::run_line(st, line),
        "aset" => aset::run_line(st, line),
        "asset" => asset::run_line(st, line),
        "pixel" => pixel::run_line(st, line),
        "texc" => texc::run_line(st, line),
        _ => panic!("unknown family {}", family),
    }
}
