//! Family dispatch. Each family module owns `gen(seed, tier) -> Vec<String>` and
//! `run_line(&mut State, line) -> String`.
pub mod loc;

#[derive(Default)]
pub struct State {
    pub any: Option<Box<dyn std::any::Any>>,
}

pub fn gen(family: &str, seed: u64, tier: &str) -> Vec<String> {
    match family {
        "loc" => loc::gen(seed, tier),
        _ => panic!("unknown family {}", family),
    }
}

pub fn run_line(family: &str, st: &mut State, line: &str) -> String {
    match family {
        "loc" => loc::run_line(st, line),
        _ => panic!("unknown family {}", family),
    }
}
