//! Family `binser`: C01 C02 — serialize / parse / canonical image.
//!
//! Case lines (fields separated by one space; `~` = empty list, `-` = empty byte string):
//!   <id> codec <utf8-hex>                    sub-codec self-check, encode direction
//!   <id> decode <sjis-hex>                   sub-codec self-check, decode direction
//!   <id> faithful                            `Faithful` assumption re-validated on all of Unicode (thorough)
//!   <id> ser <LE|BE> <data> <S> <P> <L> <C>  stream 1: content built through shuffled API calls
//!   <id> serp <LE|BE> <data> <S> <P> <L> <C> same as `ser`, additionally repeated in 4 fresh child processes
//!   <id> big <LE|BE> <np> <ns> <m> <nl>      structured LARGE content (size thresholds 2^8 / 2^16): np pointer cells, ns string
//!                                             cells over m distinct strings, nl labels; compared with a closed-form reference
//!   <id> img <LE|BE> <image> <data> <S> <P> <L>   stream 2: foreign conforming image of the content
//!   <id> raw <LE|BE> <image>                 malformed / mutated image (outside the property: model tie only)
//! Content fields:  S = `addr:hex,…` strings, P = `addr:target,…` pointers,
//!   L = `addr:hex|hex,…` label buckets (an empty bucket is `addr:`), C = `hex:addr|addr,…` c-strings.
//!   The order inside a field is the iteration order handed to the model (shuffled by the generator).
use crate::util::*;
use encoding_rs::SHIFT_JIS;
use mila::{ArchiveError, BinArchive, EncodedStringsError, Endian};

// ------------------------------------------------------------------------------------------------
// sub-alphabet of Shift-JIS that the Lean driver's `sjisSub` implements
// ------------------------------------------------------------------------------------------------

pub fn alphabet() -> Vec<char> {
    let mut v: Vec<char> = Vec::new();
    for cp in 0x01u32..0x80 {
        v.push(char::from_u32(cp).unwrap());
    }
    v.extend(crate::subcodec::non_ascii());
    v
}

fn sjis(s: &str) -> Vec<u8> {
    let (b, _, bad) = SHIFT_JIS.encode(s);
    assert!(!bad, "generator produced an unencodable string");
    b.into_owned()
}

/// The `Faithful` assumption (DESIGN M4), measured on every Unicode scalar value.
fn faithful_report() -> String {
    let mut encodable = 0u32;
    let mut lossy: Vec<u32> = Vec::new();
    let mut nul = 0u32;
    let mut single = [false; 256];
    let mut lead = [false; 256];
    for cp in 1u32..0x110000 {
        let ch = match char::from_u32(cp) {
            Some(c) => c,
            None => continue,
        };
        let s = ch.to_string();
        let (b, _, bad) = SHIFT_JIS.encode(&s);
        if bad {
            continue;
        }
        encodable += 1;
        if b.contains(&0) {
            nul += 1;
        }
        if b.len() == 1 {
            single[b[0] as usize] = true;
        } else {
            lead[b[0] as usize] = true;
        }
        let (d, _, derr) = SHIFT_JIS.decode(&b);
        if derr || d != s {
            lossy.push(cp);
        }
    }
    let disjoint = (0..256).all(|i| !(single[i] && lead[i]));
    let l: Vec<String> = lossy.iter().map(|c| format!("{:x}", c)).collect();
    format!(
        "ok encodable={} lossy={} nul={} disjoint={}",
        encodable,
        if l.is_empty() { "~".to_string() } else { l.join(",") },
        nul,
        disjoint as u8
    )
}

// ------------------------------------------------------------------------------------------------
// content
// ------------------------------------------------------------------------------------------------

#[derive(Clone, Debug, Default)]
pub struct Content {
    pub big: bool,
    pub data: Vec<u8>,
    pub strings: Vec<(usize, String)>,
    pub pointers: Vec<(usize, usize)>,
    pub labels: Vec<(usize, Vec<String>)>,
    pub cstrings: Vec<(String, Vec<usize>)>,
}

fn join_or_tilde(v: Vec<String>) -> String {
    if v.is_empty() {
        "~".to_string()
    } else {
        v.join(",")
    }
}

impl Content {
    fn endian(&self) -> Endian {
        if self.big {
            Endian::Big
        } else {
            Endian::Little
        }
    }
    fn fields(&self, with_c: bool) -> String {
        let s = join_or_tilde(self.strings.iter().map(|(a, s)| format!("{}:{}", a, hexs(s))).collect());
        let p = join_or_tilde(self.pointers.iter().map(|(a, t)| format!("{}:{}", a, t)).collect());
        let l = join_or_tilde(
            self.labels
                .iter()
                .map(|(a, b)| format!("{}:{}", a, b.iter().map(|n| hexs(n)).collect::<Vec<_>>().join("|")))
                .collect(),
        );
        let mut out = format!("{} {} {} {}", hex(&self.data), s, p, l);
        if with_c {
            let c = join_or_tilde(
                self.cstrings
                    .iter()
                    .map(|(s, a)| format!("{}:{}", hexs(s), a.iter().map(|x| x.to_string()).collect::<Vec<_>>().join("|")))
                    .collect(),
            );
            out.push(' ');
            out.push_str(&c);
        }
        out
    }
    fn parse(big: bool, f: &[&str], with_c: bool) -> Content {
        let list = |s: &str| -> Vec<String> {
            if s == "~" {
                Vec::new()
            } else {
                s.split(',').map(|x| x.to_string()).collect()
            }
        };
        let mut c = Content { big, data: unhex(f[0]), ..Default::default() };
        for e in list(f[1]) {
            let (a, s) = e.split_once(':').unwrap();
            c.strings.push((a.parse().unwrap(), unhexs(s)));
        }
        for e in list(f[2]) {
            let (a, t) = e.split_once(':').unwrap();
            c.pointers.push((a.parse().unwrap(), t.parse().unwrap()));
        }
        for e in list(f[3]) {
            let (a, b) = e.split_once(':').unwrap();
            let bucket = if b.is_empty() { Vec::new() } else { b.split('|').map(unhexs).collect() };
            c.labels.push((a.parse().unwrap(), bucket));
        }
        if with_c {
            for e in list(f[4]) {
                let (s, a) = e.split_once(':').unwrap();
                c.cstrings.push((unhexs(s), a.split('|').map(|x| x.parse().unwrap()).collect()));
            }
        }
        c
    }
}

fn rand_string(rng: &mut Rng, alpha: &[char]) -> String {
    let len = match rng.below(10) {
        0 => 0,
        1..=5 => rng.range(1, 4),
        6..=8 => rng.range(5, 9),
        _ => rng.range(10, 24),
    };
    let non_ascii = rng.chance(3, 10);
    let mut s = String::new();
    for _ in 0..len {
        if non_ascii && rng.chance(1, 2) {
            // any member of the sub-alphabet (includes double-byte codes with an ASCII trail byte)
            s.push(alpha[127 + rng.below(alpha.len() as u64 - 127) as usize]);
        } else if rng.chance(1, 8) {
            s.push(alpha[rng.below(127) as usize]); // any ASCII incl. control characters, ',', ':' …
        } else {
            s.push((b'a' + rng.below(6) as u8) as char);
        }
    }
    s
}

/// Random content inside the property's quantifier (DESIGN §6 C01 T).
pub fn gen_content(rng: &mut Rng, max_cells: u64, allow_c: bool) -> Content {
    let alpha = alphabet();
    let ncells = if rng.chance(1, 12) { 0 } else { rng.range(0, max_cells) } as usize;
    let tail = if rng.chance(1, 2) { 0 } else { rng.range(1, 3) } as usize;
    let size = 4 * ncells + tail;
    let mut c = Content { big: rng.chance(1, 2), ..Default::default() };
    c.data = if rng.chance(1, 6) { vec![0; size] } else { rng.bytes(size) };
    // pool of strings shared between strings, label names and c-strings
    let npool = rng.range(1, 6) as usize;
    let mut pool: Vec<String> = (0..npool).map(|_| rand_string(rng, &alpha)).collect();
    if rng.chance(1, 4) {
        pool.push(String::new());
    }
    if rng.chance(1, 4) {
        // prefix / extension pairs stress the lexicographic orders
        let base = pool[0].clone();
        pool.push(format!("{}a", base));
    }
    let use_c = allow_c && rng.chance(1, 2);
    let unaligned = rng.chance(1, 6);
    let density = rng.range(1, 9);
    let mut c_uses: Vec<(usize, usize)> = Vec::new(); // (pool index, address) in call order
    let mut pos = 0usize;
    while pos + 4 <= size {
        if rng.below(10) < density {
            match rng.below(if use_c { 10 } else { 7 }) {
                0..=3 => c.strings.push((pos, rng.pick(&pool).clone())),
                4..=6 => {
                    let t = match rng.below(6) {
                        0 => size,
                        1 => 0,
                        2 => pos,
                        _ => rng.below(size as u64 + 1) as usize,
                    };
                    c.pointers.push((pos, t))
                }
                _ => c_uses.push((rng.below(pool.len() as u64) as usize, pos)),
            }
            pos += 4;
        } else {
            pos += if unaligned { rng.range(1, 4) as usize } else { 4 };
        }
    }
    for (pi, addr) in c_uses {
        let s = pool[pi].clone();
        match c.cstrings.iter_mut().find(|(t, _)| *t == s) {
            Some((_, b)) => b.push(addr),
            None => c.cstrings.push((s, vec![addr])),
        }
    }
    // labels: any address <= size, several per address, names shared with strings, repeated names
    let nlab = if rng.chance(1, 5) { 0 } else { rng.range(1, 10) };
    let lab_unaligned = rng.chance(1, 4);
    for _ in 0..nlab {
        let addr = match rng.below(6) {
            0 => size,
            1 => 0,
            _ => {
                let a = rng.below(size as u64 + 1) as usize;
                if lab_unaligned {
                    a
                } else {
                    a - a % 4
                }
            }
        };
        if c.labels.iter().any(|(a, _)| *a == addr) {
            continue;
        }
        let n = match rng.below(12) {
            0 => 0,
            1..=7 => 1,
            8..=10 => 2,
            _ => 3,
        };
        let bucket: Vec<String> = (0..n)
            .map(|_| if rng.chance(2, 3) { rng.pick(&pool).clone() } else { rand_string(rng, &alpha) })
            .collect();
        c.labels.push((addr, bucket));
    }
    rng.shuffle(&mut c.strings);
    rng.shuffle(&mut c.pointers);
    rng.shuffle(&mut c.labels);
    rng.shuffle(&mut c.cstrings);
    for b in c.cstrings.iter_mut() {
        match rng.below(3) {
            0 => {}
            1 => b.1.reverse(),
            _ => rng.shuffle(&mut b.1),
        }
    }
    c
}

// ------------------------------------------------------------------------------------------------
// building an archive through the public API, in a shuffled call order
// ------------------------------------------------------------------------------------------------

#[derive(Clone, Debug)]
enum Op {
    Bytes(usize, Vec<u8>),
    Str(usize, Option<String>),
    Ptr(usize, Option<usize>),
    Label(usize, String),
    Labels(usize, Vec<String>),
    DelLabel(usize, usize),
    CStr(usize, String),
    /// A call the library must reject and that must leave the archive unchanged (kind, address, fresh string).
    Rejected(u64, usize, String),
}

/// Executes a call that is expected to be rejected; whatever it returns is ignored — if it had an effect, the
/// content differs from the one the case describes and the oracle sees it.
fn rejected_call(a: &mut BinArchive, kind: u64, addr: usize, fresh: String) {
    let size = a.size();
    let _ = match kind {
        0 => a.write_c_string(addr, fresh),
        1 => a.write_string(addr, Some(&fresh)),
        2 => a.write_pointer(addr, Some(0)),
        3 => a.write_label(size + 1 + addr % 7, &fresh),
        4 => a.write_labels(size + 1 + addr % 7, vec![fresh]),
        5 => a.write_u32(addr, 0xdead_beef),
        6 => a.write_u8(size + addr % 5, 0xee),
        7 => a.write_u16(size.saturating_sub(1) + addr % 3, 0xeeee),
        8 => a.write_bytes(size.saturating_sub(1), &[1, 2, 3, 4]),
        9 => a.delete_label(addr, 0),
        10 => a.delete_string(addr),
        11 => a.allocate(size + 4 + addr % 8, 4, false),
        12 => a.allocate(if size >= 1 { 1 } else { 2 }, 4, true),
        13 => a.allocate(0, 3, false),
        14 => a.deallocate(size, 4, false),
        15 => a.write_i32(addr, -1),
        16 => a.write_f32(addr, 1.5),
        17 => a.delete_pointer(addr),
        _ => a.delete_labels(addr),
    };
}

fn build(c: &Content, rng: &mut Rng) -> BinArchive {
    let mut a = BinArchive::new(c.endian());
    let size = c.data.len();
    // allocation in 1..3 chunks
    let mut left = size;
    while left > 0 {
        let n = if rng.chance(1, 2) { left } else { rng.range(1, left as u64) as usize };
        a.allocate_at_end(n);
        left -= n;
    }
    // history that empties buckets again: a scratch region behind the data is annotated (fresh c-strings,
    // a string, a pointer, labels) and then removed by truncate / deallocate — nothing of it may survive
    if rng.chance(1, 3) {
        a.allocate_at_end(8);
        let g = format!("ghost{}", rng.below(1000));
        a.write_c_string(size, g.clone()).unwrap();
        if rng.chance(1, 2) {
            a.write_c_string(size + 4, g.clone()).unwrap();
        } else if rng.chance(1, 2) {
            a.write_string(size + 4, Some(&format!("{}s", g))).unwrap();
        } else {
            a.write_pointer(size + 4, Some(size)).unwrap();
        }
        a.write_label(size + 4, &format!("{}l", g)).unwrap();
        if size % 4 == 0 && rng.chance(1, 2) {
            a.deallocate(size, 8, rng.chance(1, 2)).unwrap();
        } else {
            a.write_label(size + 8, &format!("{}e", g)).unwrap();
            a.truncate(size).unwrap();
        }
    }
    // chains of operations whose relative order matters; chains are interleaved at random
    let mut chains: Vec<Vec<Op>> = Vec::new();
    // calls that must be rejected and change nothing (address >= size, address + 4 > size, unaligned allocation …)
    for _ in 0..rng.below(4) {
        let kind = rng.below(19);
        let lo = size.saturating_sub(3);
        let addr = lo + rng.below(10) as usize; // addr + 4 > size
        chains.push(vec![Op::Rejected(kind, addr, format!("ghost{}", rng.below(1000)))]);
    }
    if size > 0 {
        if rng.chance(1, 2) {
            chains.push(vec![Op::Bytes(0, c.data.clone())]);
        } else {
            let cut = rng.range(1, size as u64) as usize;
            if cut < size {
                chains.push(vec![Op::Bytes(cut, c.data[cut..].to_vec())]);
            }
            chains.push(vec![Op::Bytes(0, c.data[..cut].to_vec())]);
        }
    }
    for (addr, s) in &c.strings {
        let mut ch = Vec::new();
        match rng.below(8) {
            0 => ch.push(Op::Str(*addr, Some("overwritten".to_string()))),
            1 => {
                ch.push(Op::Ptr(*addr, Some(0)));
                ch.push(Op::Ptr(*addr, None));
            }
            _ => {}
        }
        ch.push(Op::Str(*addr, Some(s.clone())));
        chains.push(ch);
    }
    for (addr, t) in &c.pointers {
        let mut ch = Vec::new();
        match rng.below(8) {
            0 => ch.push(Op::Ptr(*addr, Some(*t + 4))),
            1 => {
                ch.push(Op::Str(*addr, Some("x".to_string())));
                ch.push(Op::Str(*addr, None));
            }
            _ => {}
        }
        ch.push(Op::Ptr(*addr, Some(*t)));
        chains.push(ch);
    }
    for (addr, bucket) in &c.labels {
        let mut ch = Vec::new();
        if bucket.is_empty() {
            if rng.chance(1, 2) && *addr + 4 <= size {
                ch.push(Op::Label(*addr, "gone".to_string()));
                ch.push(Op::DelLabel(*addr, 0));
            } else {
                ch.push(Op::Labels(*addr, Vec::new()));
            }
        } else if rng.chance(1, 4) {
            ch.push(Op::Labels(*addr, bucket.clone()));
        } else {
            for n in bucket {
                ch.push(Op::Label(*addr, n.clone()));
            }
        }
        chains.push(ch);
    }
    for (s, addrs) in &c.cstrings {
        // the cells of one c-string in every call order (ascending, descending, mixed): the bucket order is
        // hidden state that must not influence the image
        let mut addrs = addrs.clone();
        match rng.below(4) {
            0 => {}
            1 => addrs.reverse(),
            _ => rng.shuffle(&mut addrs),
        }
        chains.push(addrs.iter().map(|x| Op::CStr(*x, s.clone())).collect());
    }
    let mut order: Vec<usize> = Vec::new();
    for (i, ch) in chains.iter().enumerate() {
        for _ in 0..ch.len() {
            order.push(i);
        }
    }
    rng.shuffle(&mut order);
    let mut next = vec![0usize; chains.len()];
    for i in order {
        let op = chains[i][next[i]].clone();
        next[i] += 1;
        match op {
            Op::Bytes(at, b) => a.write_bytes(at, &b).unwrap(),
            Op::Str(at, s) => a.write_string(at, s.as_deref()).unwrap(),
            Op::Ptr(at, t) => a.write_pointer(at, t).unwrap(),
            Op::Label(at, n) => a.write_label(at, &n).unwrap(),
            Op::Labels(at, b) => a.write_labels(at, b).unwrap(),
            Op::DelLabel(at, i) => a.delete_label(at, i).unwrap(),
            Op::CStr(at, s) => a.write_c_string(at, s).unwrap(),
            Op::Rejected(kind, at, fresh) => rejected_call(&mut a, kind, at, fresh),
        }
    }
    a
}

// ------------------------------------------------------------------------------------------------
// observation of an archive through the public API (canonical text)
// ------------------------------------------------------------------------------------------------

pub fn err_class(e: &ArchiveError) -> &'static str {
    match e {
        ArchiveError::ArchiveTooSmall => "TooSmall",
        ArchiveError::SizeMismatch => "Other",
        ArchiveError::OutOfBoundsAddress(_, _) => "OutOfBounds",
        ArchiveError::UnalignedValue(_, _) => "Unaligned",
        ArchiveError::LabelIndexOutOfBounds(_, _) => "LabelIndex",
        ArchiveError::IOError(_) => "Io",
        ArchiveError::EndianAwareIOError(_) => "Io",
        ArchiveError::EncodingStringsError(EncodedStringsError::UnterminatedString) => "Unterminated",
        ArchiveError::EncodingStringsError(EncodedStringsError::EncodingFailed(_, _)) => "Encoding",
        ArchiveError::EncodingStringsError(EncodedStringsError::DecodingFailed(_)) => "Decoding",
        ArchiveError::EncodingStringsError(EncodedStringsError::IOError(_)) => "Io",
        _ => "Other",
    }
}

fn observe(b: &BinArchive, c_cells: &[usize]) -> String {
    let size = b.size();
    let data = if size == 0 { Vec::new() } else { b.read_bytes(0, size).unwrap().to_vec() };
    let mut s: Vec<String> = Vec::new();
    let mut p: Vec<String> = Vec::new();
    for addr in 0..size {
        if addr + 4 > size {
            break;
        }
        if let Some(t) = b.read_string(addr).unwrap() {
            s.push(format!("{}:{}", addr, hexs(&t)));
        }
        if let Some(t) = b.read_pointer(addr).unwrap() {
            p.push(format!("{}:{}", addr, t));
        }
    }
    let mut cs: Vec<String> = Vec::new();
    for addr in c_cells {
        cs.push(match b.read_c_string(*addr) {
            Ok(Some(t)) => format!("{}:{}", addr, hexs(&t)),
            Ok(None) => format!("{}:none", addr),
            Err(e) => format!("{}:!{}", addr, err_class(&e)),
        });
    }
    let l: Vec<String> = b.all_labels().iter().map(|(a, n)| format!("{}:{}", a, hexs(n))).collect();
    format!(
        "size={} data={} S={} P={} CS={} L={}",
        size,
        hex(&data),
        join_or_tilde(s),
        join_or_tilde(p),
        join_or_tilde(cs),
        join_or_tilde(l)
    )
}

// ------------------------------------------------------------------------------------------------
// spec-side writer of *foreign* conforming images (mirrors Spec.ArchiveImage.Conforms, not mila)
// ------------------------------------------------------------------------------------------------

fn put32(big: bool, v: usize) -> [u8; 4] {
    if big {
        (v as u32).to_be_bytes()
    } else {
        (v as u32).to_le_bytes()
    }
}

pub fn foreign_image(c: &Content, rng: &mut Rng) -> Vec<u8> {
    assert!(c.cstrings.is_empty());
    let alpha = alphabet();
    let big = c.big;
    // pointer table: any order of the annotated cells
    let mut ptab: Vec<usize> = c.pointers.iter().map(|p| p.0).chain(c.strings.iter().map(|p| p.0)).collect();
    match rng.below(4) {
        0 => ptab.sort(),
        1 => {
            ptab.sort();
            ptab.reverse()
        }
        _ => rng.shuffle(&mut ptab),
    }
    // label table: any interleaving of the per-address lists that keeps each list's own order
    let mut order: Vec<usize> = Vec::new();
    for (i, (_, b)) in c.labels.iter().enumerate() {
        for _ in 0..b.len() {
            order.push(i);
        }
    }
    rng.shuffle(&mut order);
    let mut next = vec![0usize; c.labels.len()];
    let mut ltab: Vec<(usize, String)> = Vec::new();
    for i in order {
        ltab.push((c.labels[i].0, c.labels[i].1[next[i]].clone()));
        next[i] += 1;
    }
    let text_start = c.data.len() + 4 * ptab.len() + 8 * ltab.len();
    // text section: every needed string at least once, copies, junk, suffix sharing, any order
    let mut needed: Vec<String> = Vec::new();
    for s in c.strings.iter().map(|p| &p.1).chain(ltab.iter().map(|p| &p.1)) {
        if !needed.contains(s) {
            needed.push(s.clone());
        }
    }
    let strings_first = rng.chance(1, 2);
    if strings_first {
        // the library stores label names first; here strings come first
    } else {
        needed.reverse();
    }
    rng.shuffle(&mut needed[..]);
    let mut text: Vec<u8> = Vec::new();
    let mut places: Vec<(String, usize)> = Vec::new();
    if rng.chance(1, 3) {
        text.extend_from_slice(&sjis(&rand_string(rng, &alpha)));
        text.push(0);
    }
    let mut pending: Vec<String> = needed.clone();
    // duplicates
    for s in &needed {
        if rng.chance(1, 4) {
            pending.push(s.clone());
        }
    }
    rng.shuffle(&mut pending[..]);
    for s in pending {
        if rng.chance(1, 5) {
            // suffix sharing: the string is the tail of a longer stored string
            let pre = sjis(&rand_string(rng, &alpha));
            text.extend_from_slice(&pre);
        } else if rng.chance(1, 8) {
            text.extend(std::iter::repeat(0u8).take(rng.range(1, 3) as usize));
        }
        places.push((s.clone(), text.len()));
        text.extend_from_slice(&sjis(&s));
        text.push(0);
    }
    if rng.chance(1, 4) {
        let k = rng.range(1, 6) as usize;
        text.extend_from_slice(&rng.bytes(k));
    }
    let last_nul = if text.last() == Some(&0) { Some(text.len() - 1) } else { None };
    let place = |rng: &mut Rng, s: &String| -> usize {
        let mut opts: Vec<usize> = places.iter().filter(|p| &p.0 == s).map(|p| p.1).collect();
        if s.is_empty() {
            // the empty string may share any terminator — in particular the very last byte of the file
            if let Some(l) = last_nul {
                opts.push(l);
                opts.push(l);
            }
        }
        *rng.pick(&opts)
    };
    let mut data = c.data.clone();
    for (addr, t) in &c.pointers {
        data[*addr..*addr + 4].copy_from_slice(&put32(big, *t));
    }
    for (addr, s) in &c.strings {
        let off = place(rng, s);
        data[*addr..*addr + 4].copy_from_slice(&put32(big, text_start + off));
    }
    let total = 0x20 + text_start + text.len();
    let mut out: Vec<u8> = Vec::with_capacity(total);
    out.extend_from_slice(&put32(big, total));
    out.extend_from_slice(&put32(big, c.data.len()));
    out.extend_from_slice(&put32(big, ptab.len()));
    out.extend_from_slice(&put32(big, ltab.len()));
    if rng.chance(1, 3) {
        out.extend_from_slice(&rng.bytes(16));
    } else {
        out.extend_from_slice(&[0u8; 16]);
    }
    out.extend_from_slice(&data);
    for x in &ptab {
        out.extend_from_slice(&put32(big, *x));
    }
    for (x, n) in &ltab {
        out.extend_from_slice(&put32(big, *x));
        out.extend_from_slice(&put32(big, place(rng, n)));
    }
    out.extend_from_slice(&text);
    assert_eq!(out.len(), total);
    out
}

// ------------------------------------------------------------------------------------------------
// small data, long text: label-table offsets and stored string-pointer values range over the same numbers
// ------------------------------------------------------------------------------------------------

fn long_string(rng: &mut Rng, alpha: &[char], lo: u64, hi: u64) -> String {
    let len = rng.range(lo, hi);
    let non_ascii = rng.chance(1, 4);
    let mut s = String::new();
    for _ in 0..len {
        if non_ascii && rng.chance(1, 3) {
            s.push(alpha[127 + rng.below(alpha.len() as u64 - 127) as usize]);
        } else {
            s.push((b'a' + rng.below(20) as u8) as char);
        }
    }
    s
}

/// 0-3 cells of data, many distinct long strings, several labels, strings equal to label names.
pub fn gen_longtext(rng: &mut Rng, allow_c: bool) -> Content {
    let alpha = alphabet();
    let ncells = rng.range(0, 3) as usize;
    let tail = if rng.chance(2, 3) { 0 } else { rng.range(1, 3) } as usize;
    let size = 4 * ncells + tail;
    let mut c = Content { big: rng.chance(1, 2), data: rng.bytes(size), ..Default::default() };
    let npool = rng.range(2, 8) as usize;
    let mut pool: Vec<String> = (0..npool)
        .map(|_| if rng.chance(1, 5) { long_string(rng, &alpha, 0, 9) } else { long_string(rng, &alpha, 10, 80) })
        .collect();
    pool.dedup();
    let mut c_uses: Vec<(String, usize)> = Vec::new();
    for cell in 0..ncells {
        match rng.below(if allow_c { 8 } else { 7 }) {
            0..=3 => c.strings.push((4 * cell, rng.pick(&pool).clone())),
            4 => c.pointers.push((4 * cell, rng.below(size as u64 + 1) as usize)),
            7 => c_uses.push((rng.pick(&pool).clone(), 4 * cell)),
            _ => {}
        }
    }
    for (s, addr) in c_uses {
        match c.cstrings.iter_mut().find(|(t, _)| *t == s) {
            Some((_, b)) => b.push(addr),
            None => c.cstrings.push((s, vec![addr])),
        }
    }
    let nlab = rng.range(1, 6);
    for _ in 0..nlab {
        let addr = rng.below(size as u64 + 1) as usize;
        let n = rng.range(1, 3);
        let bucket: Vec<String> = (0..n).map(|_| rng.pick(&pool).clone()).collect();
        match c.labels.iter_mut().find(|(a, _)| *a == addr) {
            Some((_, b)) => b.extend(bucket),
            None => c.labels.push((addr, bucket)),
        }
    }
    rng.shuffle(&mut c.strings);
    rng.shuffle(&mut c.labels);
    c
}

fn name_of_len(rng: &mut Rng, first: char, len: usize) -> String {
    let mut s = String::new();
    s.push(first);
    for _ in 1..len {
        s.push((b'a' + rng.below(26) as u8) as char);
    }
    s
}

/// Library-written collision shape: in the canonical image the stored value of a string cell
/// (`text_start + offset of its string`) equals the label-table offset of a *different* label name.
/// Labels are single-name buckets at ascending addresses with ascending names (same table order in
/// both endiannesses); the string equals label name `i`, and the names `i..j` occupy exactly
/// `text_start` bytes, so label `j` sits at offset `offset(i) + text_start`.
fn collision_contents(rng: &mut Rng, out: &mut Vec<Content>) {
    for ncells in 1..=3usize {
        for tail in [0usize, 1] {
            for nptr in 0..=1usize {
                for with_c in [false, true] {
                    for k in 2..=4usize {
                        for i in 0..k {
                            for j in (i + 1)..k {
                                for big in [false, true] {
                                    let size = 4 * ncells + tail;
                                    if k > size + 1 || nptr + 1 + with_c as usize > ncells {
                                        continue;
                                    }
                                    let mut c = Content { big, data: rng.bytes(size), ..Default::default() };
                                    let mut cell = 0usize;
                                    let str_cell = cell;
                                    cell += 4;
                                    for _ in 0..nptr {
                                        c.pointers.push((cell, rng.below(size as u64 + 1) as usize));
                                        cell += 4;
                                    }
                                    let mut pool_len = 0usize;
                                    let mut np = 1 + nptr;
                                    if with_c {
                                        let cl = rng.range(1, 6) as usize;
                                        let cs = name_of_len(rng, 'z', cl);
                                        pool_len = (cs.len() + 1 + 3) / 4 * 4;
                                        c.cstrings.push((cs, vec![cell]));
                                        np += 1;
                                    }
                                    let t = size + pool_len + 4 * np + 8 * k;
                                    // split t into (j - i) parts, each >= 2 (one character + NUL)
                                    let parts = j - i;
                                    let mut lens: Vec<usize> = vec![2; parts];
                                    let mut left = t - 2 * parts;
                                    for p in 0..parts {
                                        let take = if p + 1 == parts { left } else { rng.below(left as u64 + 1) as usize };
                                        lens[p] += take;
                                        left -= take;
                                    }
                                    let mut names: Vec<String> = Vec::new();
                                    for m in 0..k {
                                        let len = if m >= i && m < j { lens[m - i] - 1 } else { rng.range(1, 12) as usize };
                                        names.push(name_of_len(rng, (b'A' + m as u8) as char, len));
                                    }
                                    // ascending distinct label addresses
                                    let mut addrs: Vec<usize> = (0..=size).collect();
                                    rng.shuffle(&mut addrs);
                                    addrs.truncate(k);
                                    addrs.sort();
                                    for m in 0..k {
                                        c.labels.push((addrs[m], vec![names[m].clone()]));
                                    }
                                    c.strings.push((str_cell, names[i].clone()));
                                    rng.shuffle(&mut c.labels);
                                    out.push(c);
                                }
                            }
                        }
                    }
                }
            }
        }
    }
}

/// Writes an image from explicit tables and placements (spec side).
fn emit_image(
    c: &Content,
    ptab: &[usize],
    ltab: &[(usize, usize)],
    cell_off: &[(usize, usize)],
    text: &[u8],
    rng: &mut Rng,
) -> Vec<u8> {
    let big = c.big;
    let text_start = c.data.len() + 4 * ptab.len() + 8 * ltab.len();
    let mut data = c.data.clone();
    for (addr, t) in &c.pointers {
        data[*addr..*addr + 4].copy_from_slice(&put32(big, *t));
    }
    for (addr, off) in cell_off {
        data[*addr..*addr + 4].copy_from_slice(&put32(big, text_start + off));
    }
    let total = 0x20 + text_start + text.len();
    let mut out: Vec<u8> = Vec::with_capacity(total);
    out.extend_from_slice(&put32(big, total));
    out.extend_from_slice(&put32(big, c.data.len()));
    out.extend_from_slice(&put32(big, ptab.len()));
    out.extend_from_slice(&put32(big, ltab.len()));
    if rng.chance(1, 3) {
        out.extend_from_slice(&rng.bytes(16));
    } else {
        out.extend_from_slice(&[0u8; 16]);
    }
    out.extend_from_slice(&data);
    for x in ptab {
        out.extend_from_slice(&put32(big, *x));
    }
    for (x, o) in ltab {
        out.extend_from_slice(&put32(big, *x));
        out.extend_from_slice(&put32(big, *o));
    }
    out.extend_from_slice(text);
    out
}

/// Foreign collision shape: string `S` stored at text offset `a`, a label named `N != S` stored at
/// offset `text_start + a` (so the cell's stored value equals the label's table offset); other
/// strings and junk fill the gap; tables in any order.
fn collision_images(rng: &mut Rng, out: &mut Vec<(Content, Vec<u8>)>) {
    let alpha = alphabet();
    for ncells in 1..=3usize {
        for tail in [0usize, 2] {
            for nl in 1..=4usize {
                for a in [0usize, 1, 5, 12] {
                    for big in [false, true] {
                        for variant in 0..3 {
                            let size = 4 * ncells + tail;
                            let mut c = Content { big, data: rng.bytes(size), ..Default::default() };
                            let s_len_max = 15usize;
                            let s = long_string(rng, &alpha, 0, s_len_max as u64);
                            let n = format!("N{}", long_string(rng, &alpha, 0, 20));
                            let t_other = format!("T{}", long_string(rng, &alpha, 0, 10));
                            // cells: the collider string first, then a mix
                            let scell = 4 * rng.below(ncells as u64) as usize;
                            c.strings.push((scell, s.clone()));
                            for cell in 0..ncells {
                                if 4 * cell == scell {
                                    continue;
                                }
                                match (variant + cell) % 3 {
                                    0 => c.strings.push((4 * cell, if rng.chance(1, 2) { s.clone() } else { t_other.clone() })),
                                    1 => c.pointers.push((4 * cell, rng.below(size as u64 + 1) as usize)),
                                    _ => {}
                                }
                            }
                            // label entries: one named N (the collider) and nl-1 others named S / T / N / fresh
                            let mut entries: Vec<(usize, String)> = vec![(rng.below(size as u64 + 1) as usize, n.clone())];
                            for _ in 1..nl {
                                let name = match rng.below(4) {
                                    0 => s.clone(),
                                    1 => t_other.clone(),
                                    2 => n.clone(),
                                    _ => format!("L{}", long_string(rng, &alpha, 0, 8)),
                                };
                                entries.push((rng.below(size as u64 + 1) as usize, name));
                            }
                            rng.shuffle(&mut entries);
                            // content buckets keep the table order per address
                            for (addr, name) in &entries {
                                match c.labels.iter_mut().find(|(x, _)| x == addr) {
                                    Some((_, b)) => b.push(name.clone()),
                                    None => c.labels.push((*addr, vec![name.clone()])),
                                }
                            }
                            let mut ptab: Vec<usize> =
                                c.pointers.iter().map(|p| p.0).chain(c.strings.iter().map(|p| p.0)).collect();
                            rng.shuffle(&mut ptab);
                            let t = size + 4 * ptab.len() + 8 * entries.len();
                            let enc_s = sjis(&s);
                            if enc_s.len() + 1 > t {
                                continue;
                            }
                            // text: [junk prefix of a bytes] S\0 [filler to t + a] N\0 [everything else]
                            let mut text: Vec<u8> = Vec::new();
                            if a > 0 {
                                for _ in 0..a - 1 {
                                    text.push(1 + rng.below(0x7e) as u8);
                                }
                                text.push(0);
                            }
                            let mut places: Vec<(String, usize)> = vec![(s.clone(), a)];
                            text.extend_from_slice(&enc_s);
                            text.push(0);
                            let b = t + a;
                            let mut rest: Vec<String> = Vec::new();
                            for (_, name) in &entries {
                                if *name != s && *name != n && !rest.contains(name) {
                                    rest.push(name.clone());
                                }
                            }
                            if c.strings.iter().any(|p| p.1 == t_other) && !rest.contains(&t_other) {
                                rest.push(t_other.clone());
                            }
                            let mut later: Vec<String> = Vec::new();
                            for r in rest {
                                let e = sjis(&r);
                                if text.len() + e.len() + 1 <= b && rng.chance(2, 3) {
                                    places.push((r.clone(), text.len()));
                                    text.extend_from_slice(&e);
                                    text.push(0);
                                } else {
                                    later.push(r);
                                }
                            }
                            while text.len() < b {
                                text.push(if rng.chance(1, 4) { 0 } else { rng.next() as u8 });
                            }
                            places.push((n.clone(), b));
                            text.extend_from_slice(&sjis(&n));
                            text.push(0);
                            for r in later {
                                places.push((r.clone(), text.len()));
                                text.extend_from_slice(&sjis(&r));
                                text.push(0);
                            }
                            let off_of = |name: &String| places.iter().find(|p| &p.0 == name).unwrap().1;
                            let ltab: Vec<(usize, usize)> = entries.iter().map(|(x, name)| (*x, off_of(name))).collect();
                            let cell_off: Vec<(usize, usize)> = c.strings.iter().map(|(x, v)| (*x, off_of(v))).collect();
                            let img = emit_image(&c, &ptab, &ltab, &cell_off, &text, rng);
                            rng.shuffle(&mut c.strings);
                            rng.shuffle(&mut c.labels);
                            out.push((c, img));
                        }
                    }
                }
            }
        }
    }
}

// ------------------------------------------------------------------------------------------------
// generation
// ------------------------------------------------------------------------------------------------

fn end_tag(big: bool) -> &'static str {
    if big {
        "BE"
    } else {
        "LE"
    }
}

fn codec_cases(lines: &mut Vec<String>, n: &mut usize) {
    let alpha = alphabet();
    // encode direction: every code point of the sub-alphabet, 12 per line, plus each one alone in a context
    for chunk in alpha.chunks(12) {
        let s: String = chunk.iter().collect();
        lines.push(format!("c01.k{:05} codec {}", *n, hexs(&s)));
        *n += 1;
    }
    // decode direction: every single byte and every double-byte code of the sub-alphabet
    let mut codes: Vec<Vec<u8>> = Vec::new();
    for ch in &alpha {
        codes.push(sjis(&ch.to_string()));
    }
    for chunk in codes.chunks(12) {
        let b: Vec<u8> = chunk.iter().flatten().cloned().collect();
        lines.push(format!("c01.k{:05} decode {}", *n, hex(&b)));
        *n += 1;
    }
    // every code point on its own line would be 346 more lines; the per-chunk lines already compare
    // byte-for-byte, so a wrong table entry shows as a differing chunk.
}

fn mutate(img: &[u8], rng: &mut Rng) -> Vec<u8> {
    let mut v = img.to_vec();
    let special: [u32; 10] = [0, 1, 3, 4, 5, 0x20, 0x7fff_ffff, 0x8000_0000, 0xffff_fff0, 0xffff_ffff];
    match rng.below(6) {
        0 => {
            let n = rng.below(v.len() as u64 + 1) as usize;
            v.truncate(n);
        }
        1 | 2 if v.len() >= 16 => {
            // plant a boundary value in a header field
            let f = 4 * rng.below(4) as usize;
            let val = if rng.chance(1, 2) {
                *rng.pick(&special)
            } else {
                let cur = u32::from_le_bytes([v[f], v[f + 1], v[f + 2], v[f + 3]]);
                cur.wrapping_add(rng.range(0, 8) as u32).wrapping_sub(4)
            };
            let b = if rng.chance(1, 2) { val.to_le_bytes() } else { val.to_be_bytes() };
            v[f..f + 4].copy_from_slice(&b);
        }
        3 if !v.is_empty() => {
            for _ in 0..rng.range(1, 4) {
                let i = rng.below(v.len() as u64) as usize;
                v[i] = rng.next() as u8;
            }
        }
        4 if v.len() > 0x20 => {
            // damage a table / data word
            let i = 0x20 + rng.below((v.len() - 0x20) as u64) as usize;
            let i = i - i % 4;
            let val = *rng.pick(&special);
            for (k, b) in val.to_le_bytes().iter().enumerate() {
                if i + k < v.len() {
                    v[i + k] = *b;
                }
            }
        }
        _ => {
            let n = rng.range(0, 80) as usize;
            v = rng.bytes(n);
        }
    }
    v
}

/// All contents with <= `cells` cells over a 3-string alphabet (thorough small scope).
fn exhaustive_small(lines: &mut Vec<String>, n: &mut usize) {
    let strs = ["", "a", "ab"];
    // per cell: none, string x3, pointer to {0, size}, c-string x2
    for ncells in 0..=3usize {
        let size = 4 * ncells;
        let kinds = 8usize;
        let total = kinds.pow(ncells as u32);
        for code in 0..total {
            for big in [false, true] {
                let mut c = Content { big, data: (0..size).map(|i| (i * 37 + 1) as u8).collect(), ..Default::default() };
                let mut k = code;
                for cell in 0..ncells {
                    let kind = k % kinds;
                    k /= kinds;
                    let addr = 4 * cell;
                    match kind {
                        0 => {}
                        1..=3 => c.strings.push((addr, strs[kind - 1].to_string())),
                        4 => c.pointers.push((addr, 0)),
                        5 => c.pointers.push((addr, size)),
                        _ => {
                            let s = strs[kind - 5].to_string();
                            match c.cstrings.iter_mut().find(|(t, _)| *t == s) {
                                Some((_, b)) => b.push(addr),
                                None => c.cstrings.push((s, vec![addr])),
                            }
                        }
                    }
                }
                lines.push(format!("c01.x{:06} ser {} {}", *n, end_tag(big), c.fields(true)));
                *n += 1;
            }
        }
    }
    // all big-endian archives with <= 4 labels over 2 names (every distribution over 3 addresses)
    let names = ["X", "Y"];
    for nl in 0..=4usize {
        let total = (names.len() * 3).pow(nl as u32);
        for code in 0..total {
            let mut c = Content { big: true, data: vec![7; 8], ..Default::default() };
            let mut k = code;
            for _ in 0..nl {
                let name = names[k % 2].to_string();
                k /= 2;
                let addr = 4 * (k % 3);
                k /= 3;
                match c.labels.iter_mut().find(|(a, _)| *a == addr) {
                    Some((_, b)) => b.push(name),
                    None => c.labels.push((addr, vec![name])),
                }
            }
            lines.push(format!("c02.x{:06} ser BE {}", *n, c.fields(true)));
            *n += 1;
        }
    }
}

pub fn gen(seed: u64, tier: &str) -> Vec<String> {
    let thorough = tier == "thorough";
    let mut rng = Rng::new(seed ^ 0xb15e_7001);
    let mut lines: Vec<String> = Vec::new();
    let mut n = 0usize;
    codec_cases(&mut lines, &mut n);
    if thorough {
        lines.push(format!("c01.k{:05} faithful", n));
    }
    // fixed regression contents: D1 (string + c-string), D2 (big-endian equal buckets)
    {
        let d1 = Content {
            big: false,
            data: vec![0; 8],
            strings: vec![(0, "hello".into())],
            cstrings: vec![("cstr".into(), vec![4])],
            ..Default::default()
        };
        lines.push(format!("c01.d1 ser LE {}", d1.fields(true)));
        let d2 = Content {
            big: true,
            data: vec![0; 16],
            labels: vec![(8, vec!["X".into()]), (0, vec!["X".into()]), (12, vec!["X".into()]), (4, vec!["X".into()])],
            ..Default::default()
        };
        lines.push(format!("c02.d2 ser BE {}", d2.fields(true)));
    }
    let (n_ser, n_img, n_raw) = if thorough { (200_000, 100_000, 20_000) } else { (4_500, 2_200, 600) };
    for i in 0..n_ser {
        let max_cells = if i % 10 == 0 { 40 } else if i % 3 == 0 { 6 } else { 16 };
        let c = gen_content(&mut rng, max_cells, true);
        lines.push(format!("c01.s{:06} ser {} {}", i, end_tag(c.big), c.fields(true)));
    }
    // outside the domain: one string the codec cannot encode.  The model ties the error path; the oracle
    // demands that whatever `serialize` ACCEPTS re-parses to exactly the content that was written.
    // Enumerated: unencodable character x position (last, first, middle, only) x kind (string, label, c-string).
    {
        let alpha = alphabet();
        let mut k = 0usize;
        for _round in 0..(if thorough { 20 } else { 2 }) {
            for bad_ch in ["é", "✓", "😀", "€"] {
                for pos in 0..4 {
                    for kind in 0..3 {
                        let w1 = long_string(&mut rng, &alpha, 1, 6);
                        let w2 = long_string(&mut rng, &alpha, 1, 6);
                        let bad = match pos {
                            0 => format!("{}{}", w1, bad_ch),
                            1 => format!("{}{}", bad_ch, w1),
                            2 => format!("{}{}{}", w1, bad_ch, w2),
                            _ => bad_ch.to_string(),
                        };
                        assert!(SHIFT_JIS.encode(&bad).2);
                        let mut done = false;
                        for _try in 0..40 {
                            let mut c = gen_content(&mut rng, 8, true);
                            match kind {
                                0 if !c.strings.is_empty() => {
                                    let i = rng.below(c.strings.len() as u64) as usize;
                                    c.strings[i].1 = bad.clone()
                                }
                                1 if c.labels.iter().any(|l| !l.1.is_empty()) => {
                                    let idx: Vec<usize> =
                                        (0..c.labels.len()).filter(|i| !c.labels[*i].1.is_empty()).collect();
                                    let i = *rng.pick(&idx);
                                    let j = rng.below(c.labels[i].1.len() as u64) as usize;
                                    c.labels[i].1[j] = bad.clone()
                                }
                                2 if !c.cstrings.is_empty() => {
                                    let i = rng.below(c.cstrings.len() as u64) as usize;
                                    c.cstrings[i].0 = bad.clone()
                                }
                                _ => continue,
                            }
                            lines.push(format!("c01.e{:06} ser {} {}", k, end_tag(c.big), c.fields(true)));
                            k += 1;
                            done = true;
                            break;
                        }
                        // (no content with that annotation kind turned up in 40 tries: skip this combination
                        // for this seed rather than fail — a generator must never panic)
                        let _ = done;
                    }
                }
            }
        }
        // the three code points the codec folds (U+00A5, U+203E, U+2212) are outside the quantifier: skipped on both sides
        for lossy in ["\u{A5}", "\u{203E}", "\u{2212}"] {
            for kind in 0..3 {
                let mut c = gen_content(&mut rng, 6, true);
                let bad = format!("a{}b", lossy);
                let add_label = |c: &mut Content, bad: String| {
                    let end = c.data.len();
                    match c.labels.iter_mut().find(|l| l.0 == end) {
                        Some(l) => l.1.push(bad),
                        None => c.labels.push((end, vec![bad])),
                    }
                };
                match kind {
                    0 => add_label(&mut c, bad),
                    1 if !c.strings.is_empty() => c.strings[0].1 = bad,
                    2 if !c.cstrings.is_empty() => c.cstrings[0].0 = bad,
                    _ => add_label(&mut c, bad),
                }
                lines.push(format!("c01.y{:06} ser {} {}", k, end_tag(c.big), c.fields(true)));
                k += 1;
            }
        }
    }
    for i in 0..(if thorough { 300 } else { 30 }) {
        let c = gen_content(&mut rng, 12, true);
        lines.push(format!("c02.p{:06} serp {} {}", i, end_tag(c.big), c.fields(true)));
    }
    let mut images: Vec<(bool, Vec<u8>)> = Vec::new();
    for i in 0..n_img {
        let max_cells = if i % 10 == 0 { 40 } else if i % 3 == 0 { 5 } else { 14 };
        let c = gen_content(&mut rng, max_cells, false);
        let img = foreign_image(&c, &mut rng);
        lines.push(format!("c01.f{:06} img {} {} {}", i, end_tag(c.big), hex(&img), c.fields(false)));
        if images.len() < 400 {
            images.push((c.big, img));
        }
    }
    for i in 0..n_raw {
        let (big, img) = rng.pick(&images).clone();
        let m = mutate(&img, &mut rng);
        let big = if rng.chance(1, 8) { !big } else { big };
        lines.push(format!("c01.r{:06} raw {} {}", i, end_tag(big), hex(&m)));
    }
    // small data + long text (label offsets and stored string values in the same range), both streams
    let n_long = if thorough { 20_000 } else { 1_200 };
    for i in 0..n_long {
        let c = gen_longtext(&mut rng, true);
        lines.push(format!("c01.l{:06} ser {} {}", i, end_tag(c.big), c.fields(true)));
    }
    for i in 0..n_long {
        let c = gen_longtext(&mut rng, false);
        let img = foreign_image(&c, &mut rng);
        lines.push(format!("c01.m{:06} img {} {} {}", i, end_tag(c.big), hex(&img), c.fields(false)));
    }
    // the collision shape, enumerated: stored string value == label-table offset of another name
    for round in 0..(if thorough { 8 } else { 1 }) {
        let mut cs: Vec<Content> = Vec::new();
        collision_contents(&mut rng, &mut cs);
        for (i, c) in cs.iter().enumerate() {
            lines.push(format!("c01.c{}{:05} ser {} {}", round, i, end_tag(c.big), c.fields(true)));
        }
        let mut imgs: Vec<(Content, Vec<u8>)> = Vec::new();
        collision_images(&mut rng, &mut imgs);
        for (i, (c, img)) in imgs.iter().enumerate() {
            lines.push(format!("c01.g{}{:05} img {} {} {}", round, i, end_tag(c.big), hex(img), c.fields(false)));
        }
    }
    // size thresholds (2^8, 2^16): structured contents with a closed-form reference in the driver.
    // Small instances tie the closed form to the general `canonical`; the large ones cross 65 536.
    {
        let mut k = 0usize;
        let mut push = |lines: &mut Vec<String>, big: bool, np: usize, ns: usize, m: usize, nl: usize| {
            lines.push(format!("c02.b{:05} big {} {} {} {} {}", k, end_tag(big), np, ns, m, nl));
            k += 1;
        };
        for i in 0..(if thorough { 200 } else { 40 }) {
            let np = rng.below(6) as usize;
            let ns = rng.below(12) as usize;
            let m = rng.range(1, 8) as usize;
            let nl = rng.below((4 * (np + ns) + 4) as u64) as usize;
            push(&mut lines, i % 2 == 0, np, ns, m, nl);
        }
        // exact entry counts (full groups of eight, powers of two and their neighbours)
        for cnt in [0usize, 1, 2, 7, 8, 9, 15, 16, 17, 31, 32, 33, 63, 64, 65, 127, 128, 129] {
            let e = rng.chance(1, 2);
            push(&mut lines, e, cnt, 1, 1, 0);
            push(&mut lines, !e, 0, cnt, cnt.max(1), 1);
            push(&mut lines, e, 1, cnt, (cnt / 2).max(1), cnt);
        }
        // around 2^8
        for (np, ns, m, nl) in [(0, 300, 255, 0), (0, 300, 256, 3), (0, 300, 257, 0), (257, 2, 2, 256), (3, 258, 258, 300)] {
            push(&mut lines, rng.chance(1, 2), np, ns, m, nl);
        }
        // beyond 2^16: distinct strings (C02-12), pointers, labels
        let e = rng.chance(1, 2);
        push(&mut lines, e, 0, 65_537 + rng.below(300) as usize, 65_537, 2);
        if thorough {
            push(&mut lines, !e, 2, 66_000 + rng.below(300) as usize, 65_536 + rng.range(1, 200) as usize, 0);
            push(&mut lines, e, 0, 65_536, 65_536, 0);
            push(&mut lines, !e, 65_537 + rng.below(100) as usize, 3, 2, 5);
            push(&mut lines, e, 1, 16_500, 300, 65_537 + rng.below(100) as usize);
            push(&mut lines, !e, 30_000, 40_000, 39_000, 70_000);
        } else {
            push(&mut lines, !e, 65_536 + rng.range(1, 50) as usize, 2, 2, 1);
            push(&mut lines, e, 1, 16_400, 200, 65_536 + rng.range(1, 50) as usize);
        }
    }
    // size thresholds through the general path: strings of 254..258 and 65 534..65 538 encoded bytes with a
    // double-byte character at the end / straddling the boundary (as string, label name and c-string), and
    // more than 255 labels on one address
    {
        let mut k = 0usize;
        let mut lens: Vec<usize> = vec![254, 255, 256, 257, 258];
        if thorough {
            lens.extend([65_534, 65_535, 65_536, 65_537, 65_538]);
        } else {
            lens.push(65_535 + rng.below(3) as usize);
        }
        for l in lens {
            let s1 = format!("{}ソ", "a".repeat(l - 2));
            let s2 = format!("{}ソb", "c".repeat(l - 3));
            let s3 = format!("ｱ{}", "d".repeat(l - 1));
            assert!(sjis(&s1).len() == l && sjis(&s2).len() == l && sjis(&s3).len() == l);
            let big = rng.chance(1, 2);
            let c = Content {
                big,
                data: rng.bytes(14),
                strings: vec![(4, s1.clone()), (0, s2.clone())],
                pointers: vec![],
                labels: vec![(14, vec![s3.clone(), s1.clone()]), (2, vec![s3.clone()])],
                cstrings: vec![(s2.clone(), vec![8])],
            };
            lines.push(format!("c01.t{:05} ser {} {}", k, end_tag(big), c.fields(true)));
            k += 1;
        }
        for nlab in [255usize, 256, 257, 300] {
            let big = rng.chance(1, 2);
            let names: Vec<String> = (0..nlab).map(|i| if i % 7 == 3 { "dup".to_string() } else { big_lname(i * 31 % 1000) }).collect();
            let c = Content {
                big,
                data: rng.bytes(8),
                strings: vec![(0, "dup".to_string())],
                labels: vec![(4, names), (8, vec!["end".to_string()])],
                ..Default::default()
            };
            lines.push(format!("c01.t{:05} ser {} {}", k, end_tag(big), c.fields(true)));
            k += 1;
        }
    }
    // text sections that end in an empty name: labels all named "" (text = one NUL byte) or "" as the last pool
    // entry after other names; no strings; all name assignments over {"", "a"} for 1..4 label entries
    {
        let mut k = 0usize;
        for nlab in 1..=4usize {
            for code in 0..(1usize << nlab) {
                for shape in 0..2 {
                    for size in [0usize, 4, 6] {
                        for big in [false, true] {
                            let mut c = Content { big, data: rng.bytes(size), ..Default::default() };
                            for i in 0..nlab {
                                let name = if (code >> i) & 1 == 0 { String::new() } else { "a".to_string() };
                                let addr = if shape == 0 { 0 } else { i.min(size) };
                                match c.labels.iter_mut().find(|l| l.0 == addr) {
                                    Some(l) => l.1.push(name),
                                    None => c.labels.push((addr, vec![name])),
                                }
                            }
                            rng.shuffle(&mut c.labels);
                            lines.push(format!("c01.z{:05} ser {} {}", k, end_tag(big), c.fields(true)));
                            k += 1;
                            if !thorough && (k % 3 != 0) {
                                continue;
                            }
                            let img = foreign_image(&c, &mut rng);
                            lines.push(format!("c01.z{:05} img {} {} {}", k, end_tag(big), hex(&img), c.fields(false)));
                            k += 1;
                        }
                    }
                }
            }
        }
        // every string length 0..130 (encoded bytes) once per string-bearing position; special words in raw cells
        let alpha = alphabet();
        for l in 0..=130u64 {
            let big = l % 2 == 0;
            let mut data = vec![0, 0, 0, 0x80, 0xff, 0xff, 0xff, 0xff, 0, 0, 0, 0];
            data.extend(rng.bytes(12 + (l % 4) as usize));
            let mk = |rng: &mut Rng, tag: char| -> String {
                // exactly l encoded bytes: ASCII, with one double-byte character when there is room
                if l == 0 {
                    String::new()
                } else if l >= 3 && rng.chance(1, 2) {
                    let pos = rng.below(l - 2) as usize;
                    let mut s: String = std::iter::repeat(tag).take(l as usize - 2).collect();
                    s.insert(pos.min(s.len()), 'ソ');
                    s
                } else {
                    std::iter::repeat(tag).take(l as usize).collect()
                }
            };
            let (s1, s2, s3) = (mk(&mut rng, 'p'), mk(&mut rng, 'q'), mk(&mut rng, 'r'));
            let _ = &alpha;
            let mut c = Content {
                big,
                data,
                strings: vec![(12, s1.clone())],
                pointers: vec![(16, 8)],
                labels: vec![(20, vec![s2.clone()])],
                cstrings: vec![(s3.clone(), vec![20])],
            };
            if l == 0 {
                // the three strings coincide: keep them, they are the same (empty) string
                c.labels[0].1.push(String::new());
            }
            lines.push(format!("c01.w{:05} ser {} {}", l, end_tag(big), c.fields(true)));
            let c2 = Content { cstrings: vec![], ..c.clone() };
            let img = foreign_image(&c2, &mut rng);
            lines.push(format!("c01.w{:05} img {} {} {}", 1000 + l, end_tag(big), hex(&img), c2.fields(false)));
        }
    }
    // one c-string text at 2-4 cells in EVERY bucket order (all permutations), another text in between, strings mixed in
    {
        fn perms(v: &[usize]) -> Vec<Vec<usize>> {
            if v.len() <= 1 {
                return vec![v.to_vec()];
            }
            let mut out = Vec::new();
            for i in 0..v.len() {
                let mut rest = v.to_vec();
                let x = rest.remove(i);
                for mut p in perms(&rest) {
                    p.insert(0, x);
                    out.push(p);
                }
            }
            out
        }
        let mut k = 0usize;
        for cells in [vec![4usize, 8], vec![0, 8, 16], vec![4, 12, 8, 20]] {
            for p in perms(&cells) {
                for big in [false, true] {
                    let mut c = Content { big, data: rng.bytes(26), ..Default::default() };
                    c.cstrings.push(("same".to_string(), p.clone()));
                    let free: Vec<usize> = [0usize, 4, 8, 12, 16, 20].iter().cloned().filter(|x| !p.contains(x)).collect();
                    if let Some(x) = free.first() {
                        c.cstrings.push(("other".to_string(), vec![*x]));
                    }
                    if let Some(x) = free.get(1) {
                        c.strings.push((*x, "same".to_string()));
                    }
                    lines.push(format!("c01.q{:05} ser {} {}", k, end_tag(big), c.fields(true)));
                    k += 1;
                }
            }
        }
    }
    // bounded-exhaustive small scopes (cheap: run in both tiers)
    exhaustive_small(&mut lines, &mut n);
    lines
}

// ------------------------------------------------------------------------------------------------
// structured large contents (counts beyond 2^16): the Lean driver has a closed-form reference for this family
// ------------------------------------------------------------------------------------------------

pub fn big_sname(j: usize) -> String {
    let mut k = j;
    let mut s = String::from("s");
    for _ in 0..4 {
        s.push((b'a' + (k % 26) as u8) as char);
        k /= 26;
    }
    s
}
pub fn big_lname(t: usize) -> String {
    let mut d = [0u8; 5];
    let mut k = t;
    for i in (0..5).rev() {
        d[i] = b'a' + (k % 26) as u8;
        k /= 26;
    }
    format!("L{}", std::str::from_utf8(&d).unwrap())
}

/// `np` pointer cells (cell k -> size - 4k), then `ns` string cells (cell np+i holds name(i mod m)), two raw tail
/// bytes, `nl` single-name labels at addresses 0..nl with ascending names.
fn big_content(big: bool, np: usize, ns: usize, m: usize, nl: usize) -> Content {
    let size = 4 * (np + ns) + 2;
    assert!(nl <= size + 1 && m >= 1);
    let mut c = Content { big, data: (0..size).map(|i| (i * 7 + 3) as u8).collect(), ..Default::default() };
    for k in 0..np {
        c.pointers.push((4 * k, size - 4 * k));
    }
    for i in 0..ns {
        c.strings.push((4 * (np + i), big_sname(i % m)));
    }
    for t in 0..nl {
        c.labels.push((t, vec![big_lname(t)]));
    }
    c
}

fn run_big(line: &str, f: &[&str]) -> String {
    let p = |i: usize| -> usize { f[i].parse().unwrap() };
    let c = big_content(f[2] == "BE", p(3), p(4), p(5), p(6));
    let mut rng = Rng::new(fnv(line));
    let mut first: Option<Vec<u8>> = None;
    let mut det = true;
    for round in 0..2 {
        let mut cc = c.clone();
        if round == 1 {
            rng.shuffle(&mut cc.strings);
            rng.shuffle(&mut cc.pointers);
            rng.shuffle(&mut cc.labels);
        }
        let a = build(&cc, &mut rng);
        for _ in 0..(2 - round) {
            match a.serialize() {
                Err(e) => return format!("err {}", err_class(&e)),
                Ok(v) => match &first {
                    None => first = Some(v),
                    Some(w) => det &= *w == v,
                },
            }
        }
    }
    let img = first.unwrap();
    match BinArchive::from_bytes(&img, c.endian()) {
        Err(e) => format!("ok img={} det={} parse-err {}", hex(&img), det as u8, err_class(&e)),
        Ok(b) => {
            let re = b.serialize().map(|v| v == img).unwrap_or(false);
            format!("ok img={} det={} re={} obs={:016x}", hex(&img), det as u8, re as u8, fnv(&observe(&b, &[])))
        }
    }
}

// ------------------------------------------------------------------------------------------------
// running the implementation
// ------------------------------------------------------------------------------------------------

fn has_lossy(s: &str) -> bool {
    s.chars().any(|ch| ch == '\u{A5}' || ch == '\u{203E}' || ch == '\u{2212}')
}

fn run_ser(line: &str, f: &[&str]) -> String {
    let c = Content::parse(f[2] == "BE", &f[3..], true);
    if c.strings.iter().any(|p| has_lossy(&p.1))
        || c.labels.iter().any(|p| p.1.iter().any(|n| has_lossy(n)))
        || c.cstrings.iter().any(|p| has_lossy(&p.0))
    {
        return "ok lossy-skip".to_string();
    }
    let mut rng = Rng::new(fnv(line));
    // >= 5 freshly built archives (fresh hash states), each through a different call order
    let mut images: Vec<Result<Vec<u8>, String>> = Vec::new();
    for _ in 0..5 {
        let a = build(&c, &mut rng);
        images.push(a.serialize().map_err(|e| err_class(&e).to_string()));
        if images.len() == 1 {
            // and the same archive again
            images.push(a.serialize().map_err(|e| err_class(&e).to_string()));
        }
    }
    let first = images[0].clone();
    let det = images.iter().all(|x| *x == first);
    let img = match first {
        Err(e) => return format!("err {} det={}", e, det as u8),
        Ok(v) => v,
    };
    let mut c_cells: Vec<usize> = c.cstrings.iter().flat_map(|p| p.1.iter().cloned()).collect();
    c_cells.sort();
    let tail = match BinArchive::from_bytes(&img, c.endian()) {
        Err(e) => format!("parse-err {}", err_class(&e)),
        Ok(b) => {
            let re = match b.serialize() {
                Ok(v) => (v == img) as u8,
                Err(_) => 0,
            };
            format!("re={} {}", re, observe(&b, &c_cells))
        }
    };
    format!("ok img={} det={} {}", hex(&img), det as u8, tail)
}

/// Does the parsed archive hold text outside the sub-alphabet the Lean driver can decode?
fn foreign_text(b: &BinArchive) -> bool {
    let alpha = alphabet();
    let inside = |s: &str| s.chars().all(|c| alpha.contains(&c));
    let size = b.size();
    for addr in 0..size {
        if addr + 4 > size {
            break;
        }
        if let Some(t) = b.read_string(addr).unwrap() {
            if !inside(&t) {
                return true;
            }
        }
    }
    b.all_labels().iter().any(|(_, n)| !inside(n))
}

/// `ser` repeated in 4 fresh processes (fresh per-process hash seeds): all four must print the same line.
fn run_serp(line: &str, f: &[&str]) -> String {
    let here = run_ser(&line.replacen(" serp ", " ser ", 1), f);
    let exe = std::env::current_exe().unwrap();
    // <worktree>/work/target/<profile>/mila-harness  ->  <worktree>/work
    let work = exe.parent().and_then(|p| p.parent()).and_then(|p| p.parent()).unwrap().to_path_buf();
    let tag = format!("binser-proc-{}-{}", std::process::id(), fnv(line));
    let cases = work.join(format!("{}.cases", tag));
    std::fs::write(&cases, line.replacen(" serp ", " ser ", 1) + "\n").unwrap();
    let mut same = true;
    for i in 0..4 {
        let out = work.join(format!("{}.{}.out", tag, i));
        let st = std::process::Command::new(&exe).arg("run").arg("binser").arg(&cases).arg(&out).status();
        let text = std::fs::read_to_string(&out).unwrap_or_default();
        let _ = std::fs::remove_file(&out);
        let payload = text.trim_end().splitn(2, ' ').nth(1).unwrap_or("").to_string();
        if st.map(|s| !s.success()).unwrap_or(true) || payload != here {
            same = false;
        }
    }
    let _ = std::fs::remove_file(&cases);
    format!("{} procs={}", here, same as u8)
}

fn run_img(f: &[&str]) -> String {
    let big = f[2] == "BE";
    let img = unhex(f[3]);
    match BinArchive::from_bytes(&img, if big { Endian::Big } else { Endian::Little }) {
        Err(e) => format!("err {}", err_class(&e)),
        Ok(b) => {
            if f[1] == "raw" && foreign_text(&b) {
                return "ok foreign-text".to_string();
            }
            let re = match b.serialize() {
                Ok(v) => hex(&v),
                Err(e) => format!("!{}", err_class(&e)),
            };
            format!("ok re={} {}", re, observe(&b, &[]))
        }
    }
}

pub fn run_line(_st: &mut super::State, line: &str) -> String {
    let f: Vec<&str> = line.split(' ').collect();
    let id = f[0];
    let out = match no_panic(|| match f[1] {
        "codec" => {
            let s = unhexs(f[2]);
            let (b, _, bad) = SHIFT_JIS.encode(&s);
            if bad {
                "err Encoding".to_string()
            } else {
                let (d, _, _) = SHIFT_JIS.decode(&b);
                format!("ok {} {}", hex(&b), hexs(&d))
            }
        }
        "decode" => {
            let b = unhex(f[2]);
            let (d, _, _) = SHIFT_JIS.decode(&b);
            format!("ok {}", hexs(&d))
        }
        "faithful" => faithful_report(),
        "ser" => run_ser(line, &f),
        "serp" => run_serp(line, &f),
        "big" => run_big(line, &f),
        "img" | "raw" => run_img(&f),
        _ => "bad-case".to_string(),
    }) {
        Ok(s) => s,
        Err(_) => "panic".to_string(),
    };
    format!("{} {}", id, out)
}
