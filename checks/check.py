#!/usr/bin/env python3
"""Orchestrator for the mila Lean-proof + correspondence checks (DESIGN.md §2, §4.6).

  checks/check.py <ID> <quick|thorough>     run the check for one property
  checks/check.py --replay <file>           re-run one recorded case (exit 1 if it still fails)

Per property (config in checks/props/<ID>.json):
  1. proof obligations: lake build of MilaModel.Props.<ID>, `#print axioms` audit of every theorem,
     source grep for forbidden constructs;
  2. tie: cargo build of the harness against /repo's working tree (feature mila_verif), lake build of
     the driver executable;
  3. corpus + defect replays + generated cases: implementation vs model (correspondence) and the
     spec oracle judged on the implementation's output;
  4. verdict per DESIGN §4.6; evidence/<ID>.json is rewritten on every run.
"""
import fcntl
import hashlib
import json
import os
import re
import shutil
import subprocess
import sys
import time

VERIF = os.path.dirname(os.path.dirname(os.path.abspath(__file__)))
LEAN = os.path.join(VERIF, "lean")
HARNESS = os.path.join(VERIF, "harness")
WORK = os.path.join(VERIF, "work")
TARGET = os.path.join(WORK, "target")
DRIVER = os.path.join(LEAN, ".lake", "build", "bin", "mila_model")
ALLOWED_AXIOMS = {"propext", "Classical.choice", "Quot.sound"}
FORBIDDEN = re.compile(r"\b(sorry|admit|native_decide|bv_decide|implemented_by|unsafe)\b|^\s*axiom\s|maxHeartbeats\s+0\b")
ENV = dict(os.environ, CARGO_NET_OFFLINE="true", RUST_BACKTRACE="0")


def sh(cmd, cwd=None, timeout=None, env=None):
    # own session, so that on a timeout the whole process group (children of the harness included) is killed
    proc = subprocess.Popen(cmd, cwd=cwd, stdout=subprocess.PIPE, stderr=subprocess.STDOUT, text=True,
                            env=env or ENV, errors="replace", start_new_session=True)
    try:
        out, _ = proc.communicate(timeout=timeout)
    except subprocess.TimeoutExpired:
        try:
            os.killpg(proc.pid, 9)
        except OSError:
            pass
        out, _ = proc.communicate()
        return 124, (out or "") + "\n[timed out after %ss: possible non-termination]" % timeout
    return proc.returncode, out


class Lock:
    def __init__(self, name):
        os.makedirs(WORK, exist_ok=True)
        self.path = os.path.join(WORK, name)

    def __enter__(self):
        self.f = open(self.path, "w")
        fcntl.flock(self.f, fcntl.LOCK_EX)

    def __exit__(self, *a):
        fcntl.flock(self.f, fcntl.LOCK_UN)
        self.f.close()


def normalized_source(path):
    """Rust source with comments and whitespace removed (a comment or formatting change is not a change)."""
    try:
        t = open(path, errors="replace").read()
    except OSError:
        return ""
    t = re.sub(r"/\*.*?\*/", "", t, flags=re.S)
    t = re.sub(r"//[^\n]*", "", t)
    return re.sub(r"\s+", "", t)


def source_fingerprints(files):
    return {f: hashlib.sha1(normalized_source(os.path.join("/repo", f)).encode()).hexdigest() for f in files}


def changed_anchor_files(pid):
    """Anchored source files of the property whose text differs from the tree the models were written
    against (checks/fingerprints.json).  Never a verdict by itself: it only buys the property a deeper
    search on this run (more seeds), because changed code deserves more scrutiny."""
    try:
        base = json.load(open(os.path.join(VERIF, "checks", "fingerprints.json"))).get(pid, {})
    except Exception:
        return []
    cur = source_fingerprints(list(base))
    return sorted(f for f in base if cur.get(f) != base[f])


def load_cfg(pid):
    with open(os.path.join(VERIF, "checks", "props", pid + ".json")) as f:
        return json.load(f)


# ----------------------------------------------------------------------------------------------
# 1. proof obligations
# ----------------------------------------------------------------------------------------------

def strip_comments(text):
    text = re.sub(r"/-.*?-/", lambda m: "\n" * m.group(0).count("\n"), text, flags=re.S)
    return re.sub(r"--.*", "", text)


def lean_sources_of(module_files):
    """Transitive closure of local imports (MilaModel.*) of the given files."""
    seen, todo = set(), list(module_files)
    while todo:
        f = todo.pop()
        if f in seen or not os.path.exists(f):
            continue
        seen.add(f)
        for m in re.findall(r"^import\s+(MilaModel[\w.]*)", open(f).read(), flags=re.M):
            todo.append(os.path.join(LEAN, m.replace(".", "/") + ".lean"))
    return sorted(seen)


def proof_obligations(pid, cfg, wdir, thorough):
    """Returns dict(obligations, discharged, theorems, problems[list of str], axioms{thm:[..]})."""
    res = {"obligations": 0, "discharged": 0, "theorems": [], "problems": [], "axioms": {}}
    module = cfg.get("props_module", "MilaModel.Props." + pid)
    pfile = os.path.join(LEAN, module.replace(".", "/") + ".lean")
    if not os.path.exists(pfile):
        res["problems"].append("missing " + pfile)
        return res
    src = strip_comments(open(pfile).read())
    ns = re.search(r"^namespace\s+(\S+)", src, flags=re.M)
    ns = ns.group(1) if ns else ""
    # private helper lemmas are not obligations of their own: their axioms propagate to the public theorems
    thms = re.findall(r"^(?:protected\s+)?theorem\s+([^\s:({\[]+)", src, flags=re.M)
    res["theorems"] = thms
    res["obligations"] = len(thms)
    if not thms:
        res["problems"].append("no theorem in " + pfile)
        return res
    with Lock("lean.lock"):
        rc, out = sh(["lake", "build", module], cwd=LEAN, timeout=3600)
    open(os.path.join(wdir, "lake-build.log"), "w").write(out)
    if rc != 0:
        res["problems"].append("lake build %s failed (see %s)" % (module, os.path.join(wdir, "lake-build.log")))
        return res
    # forbidden constructs anywhere in the sources the theorems depend on
    for f in lean_sources_of([pfile]):
        for i, line in enumerate(strip_comments(open(f).read()).split("\n")):
            if FORBIDDEN.search(line):
                res["problems"].append("forbidden construct in %s:%d: %s" % (os.path.relpath(f, VERIF), i + 1, line.strip()[:80]))
    audit = os.path.join(wdir, "Audit.lean")
    with open(audit, "w") as f:
        f.write("import %s\n" % module)
        for t in thms:
            f.write("#print axioms %s\n" % ((ns + "." if ns else "") + t))
    rc, out = sh(["lake", "env", "lean", audit], cwd=LEAN, timeout=1800)
    open(os.path.join(wdir, "audit.log"), "w").write(out)
    flat = re.sub(r"\s+", " ", out)
    for t in thms:
        full = (ns + "." if ns else "") + t
        m = re.search(r"'%s' depends on axioms: \[([^\]]*)\]" % re.escape(full), flat)
        if m:
            ax = [a.strip() for a in m.group(1).split(",") if a.strip()]
        elif re.search(r"'%s' does not depend on any axioms" % re.escape(full), flat):
            ax = []
        else:
            res["problems"].append("audit: no axiom report for " + full)
            continue
        res["axioms"][t] = ax
        bad = [a for a in ax if a not in ALLOWED_AXIOMS]
        if bad:
            res["problems"].append("theorem %s depends on non-standard axioms %s" % (full, bad))
        else:
            res["discharged"] += 1
    if thorough and not res["problems"]:
        rc, out = sh(["lake", "env", "leanchecker", module], cwd=LEAN, timeout=3600)
        open(os.path.join(wdir, "leanchecker.log"), "w").write(out)
        res["leanchecker_rc"] = rc
        if rc != 0:
            res["problems"].append("leanchecker rejected " + module)
    return res


# ----------------------------------------------------------------------------------------------
# 2. build the tie
# ----------------------------------------------------------------------------------------------

def build_tie(profiles, wdir):
    problems = []
    with Lock("cargo.lock"):
        lock = os.path.join(HARNESS, "Cargo.lock")
        if not os.path.exists(lock):
            shutil.copy("/repo/Cargo.lock", lock)
        for prof in profiles:
            cmd = ["cargo", "build", "--offline"] + (["--release"] if prof == "release" else [])
            rc, out = sh(cmd, cwd=HARNESS, timeout=3600)
            open(os.path.join(wdir, "cargo-%s.log" % prof), "w").write(out)
            if rc != 0:
                problems.append("cargo build (%s) of the harness against /repo failed (see %s)" % (prof, os.path.join(wdir, "cargo-%s.log" % prof)))
    with Lock("lean.lock"):
        rc, out = sh(["lake", "build", "mila_model"], cwd=LEAN, timeout=3600)
        open(os.path.join(wdir, "lake-driver.log"), "w").write(out)
        if rc != 0:
            problems.append("lake build mila_model failed (see %s)" % os.path.join(wdir, "lake-driver.log"))
    return problems


def harness_bin(profile):
    return os.path.join(TARGET, "release" if profile == "release" else "debug", "mila-harness")


# ----------------------------------------------------------------------------------------------
# 3. correspondence
# ----------------------------------------------------------------------------------------------

RUN_TIMEOUT = [900]   # seconds for one harness run (quick); raised for the thorough tier
ISOLATED = set()   # families whose cases run in child processes (`run-isolated`), from the property config


def note_isolated(cfg):
    for f in cfg.get("families", []):
        if f.get("isolated"):
            ISOLATED.add(f["name"])


def run_pipeline(family, profile, cases_path, prefix):
    """Runs impl + model + oracle on a cases file. Returns (impl_lines, model_lines, oracle_lines, err)."""
    impl, model, oracle = prefix + ".impl.out", prefix + ".model.out", prefix + ".oracle.out"
    for p in (impl, model, oracle):
        if os.path.exists(p):
            os.remove(p)
    mode = "run-isolated" if family in ISOLATED else "run"
    rc, out = sh([harness_bin(profile), mode, family, cases_path, impl], timeout=RUN_TIMEOUT[0])
    if rc != 0 or not os.path.exists(impl):
        return None, None, None, "harness run %s/%s crashed (rc=%s): %s" % (family, profile, rc, out[-400:])
    rc, out = sh([DRIVER, family, cases_path, impl, model, oracle], timeout=7200)
    if rc != 0:
        return None, None, None, "driver %s failed (rc=%s): %s" % (family, rc, out[-400:])
    rd = lambda p: open(p, errors="replace").read().split("\n")[:-1]
    return rd(impl), rd(model), rd(oracle), None


def case_lines(path):
    return [l for l in open(path, errors="replace").read().split("\n") if l and not l.startswith("#")]


def group_by_id(lines):
    groups, order = {}, []
    for i, l in enumerate(lines):
        cid = l.split(" ", 1)[0]
        if cid not in groups:
            groups[cid] = []
            order.append(cid)
        groups[cid].append(i)
    return groups, order


def analyse(cases, impl, model, oracle):
    """Returns (mismatch_ids{id: first line idx}, oracle_fail_ids{id: (idx, reason)}, skipped)."""
    mism, ofail, skipped = {}, {}, 0
    n = len(cases)
    if not (len(impl) == len(model) == len(oracle) == n):
        mism["<line-count>"] = 0
        return mism, ofail, skipped
    for i in range(n):
        cid = cases[i].split(" ", 1)[0]
        if impl[i] != model[i] and cid not in mism:
            mism[cid] = i
        o = oracle[i].split(" ", 2)
        verdict = o[1] if len(o) > 1 else "?"
        if verdict != "ok":
            if cid not in ofail:
                ofail[cid] = (i, oracle[i].split(" ", 1)[1] if " " in oracle[i] else oracle[i])
        elif len(o) > 2 and o[2].startswith("skip"):
            skipped += 1
    return mism, ofail, skipped


def payload_hash(lines):
    h = hashlib.sha1()
    for l in lines:
        h.update(l.split(" ", 1)[1].encode() if " " in l else b"")
        h.update(b"\n")
    return h.hexdigest()


class Replays:
    def __init__(self, wdir):
        self.wdir, self.n = wdir, 0
        for f in os.listdir(wdir):
            if f.startswith("replay-"):
                os.remove(os.path.join(wdir, f))

    def write(self, pid, family, profile, kind, what, lines, extra=None):
        self.n += 1
        path = os.path.join(self.wdir, "replay-%d.case" % self.n)
        with open(path, "w") as f:
            f.write("# property=%s family=%s profile=%s kind=%s\n" % (pid, family, profile, kind))
            for w in what.split("\n"):
                f.write("# %s\n" % w)
            for k, v in (extra or {}).items():
                for w in str(v).split("\n"):
                    f.write("# %s: %s\n" % (k, w[:2000]))
            for l in lines:
                f.write(l + "\n")
        return os.path.relpath(path, VERIF)


def shrink(family, profile, lines, still_fails, budget_s=20):
    """Generic line-protocol shrinker: drop lines, then halve long hex fields, while `still_fails`."""
    t0 = time.time()
    cur = list(lines)
    changed = True
    while changed and time.time() - t0 < budget_s:
        changed = False
        # drop one line at a time (never the first line of a stateful case: it creates the state)
        i = len(cur) - 1
        while i >= 1 and time.time() - t0 < budget_s:
            cand = cur[:i] + cur[i + 1:]
            if still_fails(cand):
                cur = cand
                changed = True
            i -= 1
        # truncate the tail after the failing line is not known here; try halving hex-like long fields
        for li in range(len(cur)):
            fs = cur[li].split(" ")
            for fi in range(2, len(fs)):
                if len(fs[fi]) >= 8 and re.fullmatch(r"[0-9a-f]+", fs[fi]) and len(fs[fi]) % 2 == 0 and time.time() - t0 < budget_s:
                    for cut in (len(fs[fi]) // 4 * 2, len(fs[fi]) - 2):
                        if cut < 2 or cut >= len(fs[fi]):
                            continue
                        g = list(fs)
                        g[fi] = fs[fi][:cut]
                        cand = cur[:li] + [" ".join(g)] + cur[li + 1:]
                        if still_fails(cand):
                            cur = cand
                            fs = g
                            changed = True
                            break
    return cur


def one_case_runner(family, profile, wdir, want):
    """Returns a predicate on case-line lists: does the case still show `want` ('oracle'|'mismatch')?"""
    def pred(lines):
        p = os.path.join(wdir, "shrink.cases")
        open(p, "w").write("\n".join(lines) + "\n")
        impl, model, oracle, err = run_pipeline(family, profile, p, os.path.join(wdir, "shrink"))
        if err:
            return want == "crash"
        mism, ofail, _ = analyse(lines, impl, model, oracle)
        return bool(ofail) if want == "oracle" else bool(mism)
    return pred


def known_findings():
    try:
        return json.load(open(os.path.join(VERIF, "known_findings.json"))).get("known", [])
    except Exception:
        return []


def match_known(pid, text):
    for k in known_findings():
        if k.get("property") == pid and re.search(k.get("match", "$^"), text):
            return k
    return None


# ----------------------------------------------------------------------------------------------
# main check
# ----------------------------------------------------------------------------------------------

def check(pid, tier):
    t0 = time.time()
    seed = int(os.environ.get("VERIF_SEED", "1"))
    cfg = load_cfg(pid)
    note_isolated(cfg)
    ENV["VERIF_PROP"] = pid          # families that serve several properties select their sub-stream by it
    ENV["VERIF_TIER"] = tier
    wdir = os.path.join(WORK, pid)
    os.makedirs(wdir, exist_ok=True)
    thorough = tier == "thorough"
    RUN_TIMEOUT[0] = 10800 if thorough else 900
    violations = []   # (replay_path, suffix)
    known_lines = []
    replays = Replays(wdir)

    # 1. proofs
    po = proof_obligations(pid, cfg, wdir, thorough)
    proof_broken = bool(po["problems"])

    # 2. tie
    fams = cfg["families"]
    profiles = sorted({p for f in fams for p in f.get("profiles", ["dev"])} | {"dev"})
    tie_problems = build_tie(profiles, wdir)

    stats = {"evaluations": 0, "distinct": set(), "mismatches": 0, "oracle_failures": 0, "skipped": 0,
             "lines": 0, "distribution": {}, "samples": [], "families": []}
    changed = changed_anchor_files(pid)
    escalate = int(cfg.get("escalate_seeds", 3)) if changed else 0
    per_profile = {}
    corr_broken = []      # descriptions of correspondence streams that no longer check
    found_failing_input = False

    if not tie_problems:
        # 3a. defect replays for this property
        rc, out = sh([harness_bin("dev"), "defects"], timeout=600)
        for line in out.split("\n"):
            f = line.split(" ", 3)
            if len(f) >= 3 and f[1] == pid and f[2] == "DEFECT":
                txt = "defect replay %s: %s" % (f[0], f[3] if len(f) > 3 else "")
                k = match_known(pid, txt)
                if k:
                    known_lines.append("KNOWN-FINDING: property=%s %s" % (pid, k.get("what", txt)))
                else:
                    found_failing_input = True
                    r = replays.write(pid, "defects", "dev", "defect-replay", txt + "\nre-run: work/target/debug/mila-harness defects (harness/src/defects.rs)", [])
                    violations.append((r, ""))
        if rc not in (0, 1):
            tie_problems.append("defect replays crashed: " + out[-300:])

        # 3b. corpus then generated cases, per family x profile
        nontriv = re.compile(cfg.get("nontrivial_regex", r"^\S+ ok"))
        for fam in fams:
            name = fam["name"]
            for prof in fam.get("profiles", ["dev"]):
                sources = []
                cdir = os.path.join(VERIF, "corpus", pid)
                if os.path.isdir(cdir):
                    for cf in sorted(os.listdir(cdir)):
                        head = open(os.path.join(cdir, cf)).readline()
                        if cf.endswith(".case") and ("family=%s " % name) in head + " ":
                            sources.append(("corpus:" + cf, os.path.join(cdir, cf)))
                gen_path = os.path.join(wdir, "%s.%s.cases.txt" % (name, prof))
                rc, out = sh([harness_bin(prof), "gen", name, str(seed), tier, gen_path], timeout=7200)
                if rc != 0:
                    tie_problems.append("generator %s crashed: %s" % (name, out[-300:]))
                    continue
                sources.append(("generated seed=%d tier=%s" % (seed, tier), gen_path))
                for extra in range(1, escalate + 1):
                    xp = os.path.join(wdir, "%s.%s.cases.x%d.txt" % (name, prof, extra))
                    rc, out = sh([harness_bin(prof), "gen", name, str(seed + 1000 * extra), tier, xp], timeout=7200)
                    if rc == 0:
                        sources.append(("generated seed=%d tier=%s (extra: anchored source changed)" % (seed + 1000 * extra, tier), xp))
                for label, path in sources:
                    # the extra seed rounds only buy changed code a deeper search: pointless once a
                    # concrete failing input is in hand (and a slow mutant would multiply the wall time)
                    if found_failing_input and "(extra:" in label:
                        continue
                    cases = case_lines(path)
                    if not cases:
                        continue
                    cl_path = os.path.join(wdir, "%s.%s.run.txt" % (name, prof))
                    open(cl_path, "w").write("\n".join(cases) + "\n")
                    impl, model, oracle, err = run_pipeline(name, prof, cl_path, os.path.join(wdir, "%s.%s" % (name, prof)))
                    if err:
                        # a crash of the harness process = abort / stack overflow in the implementation.
                        # Localise it: the streaming runner writes one line per case line, so the number of
                        # lines it managed to write names the line (and the case) it died on.
                        culprit = None
                        if name not in ISOLATED and "harness run" in err:
                            so = os.path.join(wdir, "crash.stream.out")
                            if os.path.exists(so):
                                os.remove(so)
                            sh([harness_bin(prof), "run-stream", name, cl_path, so], timeout=RUN_TIMEOUT[0])
                            n_done = len(open(so, errors="replace").read().split("\n")) - 1 if os.path.exists(so) else 0
                            if 0 <= n_done < len(cases):
                                cid = cases[n_done].split(" ", 1)[0]
                                group = [l for l in cases if l.split(" ", 1)[0] == cid]
                                gp = os.path.join(wdir, "crash.case.txt")
                                open(gp, "w").write("\n".join(group) + "\n")
                                rc2, _ = sh([harness_bin(prof), "run-stream", name, gp, so], timeout=RUN_TIMEOUT[0])
                                if rc2 != 0:
                                    culprit = group
                        if culprit:
                            found_failing_input = True
                            r = replays.write(pid, name, prof, "crash",
                                              "the implementation aborts the process on this case (allocation failure, stack overflow or abort)\n"
                                              + err + "\nsource: " + label, culprit)
                            violations.append((r, ""))
                        else:
                            r = replays.write(pid, name, prof, "crash", err + "\nsource: " + label, cases[:50])
                            tie_problems.append(err)
                        continue
                    groups, order = group_by_id(cases)
                    mism, ofail, skipped = analyse(cases, impl, model, oracle)
                    stats["lines"] += len(cases)
                    stats["evaluations"] += len(order)
                    stats["skipped"] += skipped
                    stats["mismatches"] += len(mism)
                    stats["oracle_failures"] += len(ofail)
                    fam_stat = {"family": name, "profile": prof, "source": label, "cases": len(order), "lines": len(cases),
                                "mismatches": len(mism), "oracle_failures": len(ofail)}
                    stats["families"].append(fam_stat)
                    for cid in order:
                        idxs = groups[cid]
                        if any(nontriv.search(impl[i].split(" ", 1)[1] if " " in impl[i] else "") for i in idxs):
                            stats["distinct"].add(payload_hash([cases[i] for i in idxs]))
                    for i in range(len(cases)):
                        parts = impl[i].split(" ")
                        key = "%s:%s" % (cases[i].split(" ")[1] if " " in cases[i] else "?", " ".join(parts[1:3]) if len(parts) > 1 and parts[1] == "err" else (parts[1] if len(parts) > 1 else "?"))
                        stats["distribution"][key] = stats["distribution"].get(key, 0) + 1
                    if len(stats["samples"]) < 6 and order:
                        for cid in (order[0], order[len(order) // 2], order[-1]):
                            idxs = groups[cid][:6]
                            stats["samples"].append({"case": [cases[i][:300] for i in idxs], "impl": [impl[i][:300] for i in idxs],
                                                     "oracle": [oracle[i][:120] for i in idxs]})
                    # oracle failures: concrete failing inputs
                    reported = 0
                    for cid, (idx, reason) in ofail.items():
                        lines = [cases[i] for i in groups[cid]]
                        txt = "oracle: %s" % reason
                        k = match_known(pid, txt + " " + " ".join(lines))
                        if k:
                            known_lines.append("KNOWN-FINDING: property=%s %s" % (pid, k.get("what", txt)))
                            continue
                        found_failing_input = True
                        if reported < 3:
                            small = shrink(name, prof, lines, one_case_runner(name, prof, wdir, "oracle"))
                            r = replays.write(pid, name, prof, "oracle-failure",
                                              "the implementation's output violates the specification\n%s\nsource: %s" % (txt, label), small,
                                              {"impl": impl[idx], "model": model[idx]})
                            violations.append((r, ""))
                            reported += 1
                    # properties that demand identical behaviour with and without overflow checks:
                    # remember the implementation's lines per profile and compare them below
                    if cfg.get("profiles_must_agree") and label.startswith("generated"):
                        per_profile.setdefault(name, {})[prof] = (cases, impl)
                    # mismatches without an oracle failure on the same case
                    pure = [cid for cid in mism if cid not in ofail]
                    if pure:
                        cid = pure[0]
                        if cid == "<line-count>":
                            corr_broken.append((name, prof, "output line counts differ", cases[:20], "", ""))
                        else:
                            idx = mism[cid]
                            lines = [cases[i] for i in groups[cid]]
                            small = shrink(name, prof, lines, one_case_runner(name, prof, wdir, "mismatch"), budget_s=10)
                            corr_broken.append((name, prof, "%d case(s) where implementation and model differ; first: %s" % (len(pure), cid), small, impl[idx], model[idx]))

    # 3c. checked and wrapping builds must behave alike (only for properties that say so)
    for name, by_prof in per_profile.items():
        if "dev" in by_prof and "release" in by_prof:
            (c1, i1), (c2, i2) = by_prof["dev"], by_prof["release"]
            if c1 == c2 and len(i1) == len(i2):
                # some families echo the profile they ran under: not a behavioural difference
                norm = lambda l: " ".join(t for t in l.split(" ") if t not in ("dev", "release", "checked", "wrapping"))
                diff = [k for k in range(len(c1)) if norm(i1[k]) != norm(i2[k])]
                stats["profile_divergences"] = stats.get("profile_divergences", 0) + len(diff)
                for k in diff[:2]:
                    txt = "oracle: profile-divergence: overflow-checked and wrapping builds disagree on this input"
                    if match_known(pid, txt + " " + c1[k]):
                        known_lines.append("KNOWN-FINDING: property=%s profile divergence" % pid)
                        continue
                    found_failing_input = True
                    r = replays.write(pid, name, "dev", "oracle-failure", txt, [c1[k]], {"impl(dev)": i1[k], "impl(release)": i2[k]})
                    violations.append((r, ""))

    # 4. verdicts
    if (proof_broken or corr_broken or tie_problems) and not found_failing_input and not tie_problems:
        # search for a concrete failing input with more seeds at the thorough budget (time-capped)
        tcap = time.time() + (600 if thorough else 120)
        for fam in fams:
            for prof in fam.get("profiles", ["dev"]):
                for s in range(seed + 1, seed + 6):
                    if time.time() > tcap or found_failing_input:
                        break
                    p = os.path.join(wdir, "search.cases.txt")
                    rc, _ = sh([harness_bin(prof), "gen", fam["name"], str(s), "thorough" if thorough else "quick", p], timeout=3600)
                    if rc != 0:
                        continue
                    cases = case_lines(p)
                    open(p, "w").write("\n".join(cases) + "\n")
                    impl, model, oracle, err = run_pipeline(fam["name"], prof, p, os.path.join(wdir, "search"))
                    if err:
                        continue
                    groups, order = group_by_id(cases)
                    _, ofail, _ = analyse(cases, impl, model, oracle)
                    for cid, (idx, reason) in ofail.items():
                        lines = [cases[i] for i in groups[cid]]
                        if match_known(pid, "oracle: " + reason + " " + " ".join(lines)):
                            continue
                        small = shrink(fam["name"], prof, lines, one_case_runner(fam["name"], prof, wdir, "oracle"))
                        r = replays.write(pid, fam["name"], prof, "oracle-failure", "found by the enlarged search (seed %d)\noracle: %s" % (s, reason), small, {"impl": impl[idx], "model": model[idx]})
                        violations.append((r, ""))
                        found_failing_input = True
                        break

    if proof_broken:
        r = replays.write(pid, "-", "-", "proof-obligation", "proof obligation(s) no longer check:\n" + "\n".join(po["problems"]), [])
        violations.append((r, "" if found_failing_input else " no-failing-input-found"))
    for (name, prof, what, lines, il, ml) in corr_broken:
        r = replays.write(pid, name, prof, "correspondence",
                          "correspondence stream %s (Lean model <-> Rust) no longer checks: %s" % (name, what), lines, {"impl": il, "model": ml})
        violations.append((r, "" if found_failing_input else " no-failing-input-found"))
    for tp in tie_problems:
        r = replays.write(pid, "-", "-", "tie-build", "the tie between model and code could not be established: " + tp, [])
        violations.append((r, " no-failing-input-found"))

    # 5. evidence
    wall = time.time() - t0
    ev = {
        "property_id": pid, "tier": tier, "seed": seed, "level": "proof",
        "coverage": {
            "obligations": po["obligations"], "discharged": po["discharged"],
            "checker_cmd": "cd lean && lake build %s && lake env lean <generated #print axioms file>%s" % (cfg.get("props_module", "MilaModel.Props." + pid), " && lake env leanchecker" if thorough else ""),
            "trusted_base": cfg.get("trusted_base", []),
            "theorems": po["theorems"], "axioms": po["axioms"], "proof_problems": po["problems"],
            "evaluations": stats["evaluations"], "distinct_nontrivial": len(stats["distinct"]),
            "rule": cfg.get("rule", ""),
            "samples": stats["samples"][:6],
            "traces_validated_against_impl": stats["evaluations"],
            "case_lines": stats["lines"],
            "disagreements_checked": stats["mismatches"], "oracle_failures": stats["oracle_failures"],
            "oracle_skipped_out_of_domain": stats["skipped"],
            "profile_divergences": stats.get("profile_divergences", 0),
            "streams": stats["families"], "distribution": dict(sorted(stats["distribution"].items())[:60]),
            "tie_problems": tie_problems,
            "anchored_sources_changed": changed, "extra_seed_rounds": escalate,
        },
        "assumptions": cfg.get("assumptions", []),
        "wall_s": round(wall, 2),
        "violations": len(violations),
    }
    os.makedirs(os.path.join(VERIF, "evidence"), exist_ok=True)
    with open(os.path.join(VERIF, "evidence", pid + ".json"), "w") as f:
        json.dump(ev, f, indent=1, sort_keys=True)

    for k in sorted(set(known_lines)):
        print(k)
    print("%s %s: theorems %d/%d, cases %d (distinct non-trivial %d), model/impl mismatches %d, oracle failures %d, %.1fs" % (
        pid, tier, po["discharged"], po["obligations"], stats["evaluations"], len(stats["distinct"]), stats["mismatches"], stats["oracle_failures"], wall))
    if violations:
        for r, suffix in violations:
            print("VIOLATION property=%s replay=%s%s" % (pid, r, suffix))
        return 1
    return 0


def replay(path):
    path = path if os.path.isabs(path) else os.path.join(VERIF, path)
    head = open(path).readline()
    m = re.search(r"property=(\S+) family=(\S+) profile=(\S+) kind=(\S+)", head)
    if not m:
        print("not a replay file")
        return 2
    pid, family, profile, kind = m.groups()
    try:
        note_isolated(load_cfg(pid))
    except Exception:
        pass
    ENV["VERIF_PROP"] = pid
    wdir = os.path.join(WORK, pid)
    os.makedirs(wdir, exist_ok=True)
    print(open(path).read())
    if family in ("-",):
        print("(no case to run: this replay names a proof obligation / build problem; re-run the check)")
        return 1
    probs = build_tie([profile], wdir)
    if probs:
        print("\n".join(probs))
        return 1
    if family == "defects":
        rc, out = sh([harness_bin("dev"), "defects"])
        bad = [l for l in out.split("\n") if (" %s DEFECT" % pid) in l]
        print("\n".join(bad) or "no defect for %s" % pid)
        return 1 if bad else 0
    cases = case_lines(path)
    p = os.path.join(wdir, "replay.cases")
    open(p, "w").write("\n".join(cases) + "\n")
    impl, model, oracle, err = run_pipeline(family, profile, p, os.path.join(wdir, "replay"))
    if err:
        print(err)
        return 1
    for i in range(len(cases)):
        print("case  :", cases[i][:400])
        print(" impl  :", impl[i][:400])
        print(" model :", model[i][:400])
        print(" oracle:", oracle[i][:400])
    mism, ofail, _ = analyse(cases, impl, model, oracle)
    if ofail or mism:
        print("STILL FAILING: mismatches=%d oracle_failures=%d" % (len(mism), len(ofail)))
        return 1
    print("passes now")
    return 0


if __name__ == "__main__":
    if len(sys.argv) >= 3 and sys.argv[1] == "--replay":
        sys.exit(replay(sys.argv[2]))
    if len(sys.argv) < 2:
        print(__doc__)
        sys.exit(2)
    tier = sys.argv[2] if len(sys.argv) > 2 else os.environ.get("VERIF_TIER", "quick")
    sys.exit(check(sys.argv[1], tier))
