# Sets up round 9 of the seeded-breakage campaign: one scratch worktree of /repo per property under /tmp/seed9-Cxx
# holding only PROPERTY.txt, ALREADY_DONE.md (one paragraph per earlier change) and SEEDER_TASK.md.
import json,sys,os,glob
here=os.path.dirname(os.path.abspath(__file__))
cats=[("behaviour that differs between BUILD PROFILES: a check turned into `debug_assert!`, a `cfg!(debug_assertions)` or `#[cfg(debug_assertions)]` branch, checked/wrapping/saturating arithmetic swapped for plain operators or the reverse, an `unwrap` replaced by an unchecked assumption — so that the dev build (which `cargo test` uses: overflow checks and debug assertions ON) stays right and the RELEASE build (`cargo test --release`: both OFF) misbehaves for a narrow legal input class, or the other way round. Your demo must then fail under `cargo test --offline --release --test demo_seed` (say so in notes.md and verify both ways with --release as well)",
       "free choice: study the sixteen earlier changes and the code, work out what KIND of mistake has not been tried yet, and make it as unobtrusive as you can (it must still be a change a real refactoring, optimisation or clean-up commit could contain); use a different file or at least a different function than your first change"),
      ("a change in a module OTHER than the files the property is anchored in: a helper that the anchored code calls (endian_aware_io.rs, encoded_strings.rs, bin_streams.rs, the error conversions in errors.rs, texture_utils.rs, compression_format.rs, localization.rs, the shared match finder or decoder in lz13.rs, game.rs/language.rs) changed so that it stays right for its other callers and for the fixtures",
       "free choice: study the sixteen earlier changes and the code, work out what KIND of mistake has not been tried yet, and make it as unobtrusive as you can (it must still be a change a real refactoring, optimisation or clean-up commit could contain); use a different file or at least a different function than your first change"),
      ("the everyday path is intact but the LEAST used thing the property covers is wrong: find the public function, constant, table row, enum variant, language/game/format/endianness combination or accessor that no test, no fixture and none of the sixteen earlier changes touches, and break only that",
       "free choice: study the sixteen earlier changes and the code, work out what KIND of mistake has not been tried yet, and make it as unobtrusive as you can (it must still be a change a real refactoring, optimisation or clean-up commit could contain); use a different file or at least a different function than your first change"),
      ("free choice: study the sixteen earlier changes and the code, work out what KIND of mistake has not been tried yet, and make it as unobtrusive as you can (it must still be a change a real refactoring, optimisation or clean-up commit could contain); use a different file or at least a different function than your first change",
       "free choice: study the sixteen earlier changes and the code, work out what KIND of mistake has not been tried yet, and make it as unobtrusive as you can (it must still be a change a real refactoring, optimisation or clean-up commit could contain); use a different file or at least a different function than your first change")]
for i in range(1,21):
    pid='C%02d'%i; d=f'/tmp/seed9-{pid}'
    os.system(f'git -C /repo worktree add -q --detach {d} HEAD')
    for l in open('/verif/properties.jsonl'):
        p=json.loads(l)
        if p['id']==pid:
            open(f"{d}/PROPERTY.txt",'w').write(f"Property {p['id']}: {p['title']}\n\nStatement: {p['statement']}\n\nQuantifier: {p['quantifier']['text']}\n\nFiles the property is anchored in: {', '.join(p['anchors']['files'])}\n")
    done=[]
    for m in sorted(glob.glob(f'/verif/seeded/{pid}-*/meta.json')):
        meta=json.load(open(m)); n=' '.join(meta['needs_to_manifest'].split())
        done.append(f"## {meta['seed_id']}\n{n[:500]}\n")
    open(f"{d}/ALREADY_DONE.md",'w').write("# Changes already produced for this property by earlier developers (do NOT repeat these or trivial variants of them)\n\n"+"\n".join(done))
    c1,c2=cats[(i+1)%4]
    t=open(here+'/seeder_prompt.txt').read().replace('/tmp/seed-CXX',d).replace('CXX',pid)
    t=t.replace("Your task: produce TWO different, realistic changes",f"The file ALREADY_DONE.md lists sixteen changes that earlier developers already produced for this property: yours must be different in kind and location from those (not a re-phrasing, not the inverse of a recent `fix:` commit in `git log`). This round the two changes have assigned themes. Change 1 must be about: {c1}. Change 2 must be about: {c2}. Look in every file the property depends on (not only the obvious one), and make each change as hard to notice as you can: it should survive a reviewer skimming the diff, leave all ordinary round trips intact, and need a specific, legal input or call sequence to show. The change must make the PROPERTY AS STATED false (check each clause and its quantifier: an input outside the stated domain does not count). If a theme genuinely has no instance that can break THIS property, say so in notes.md and use the closest theme that does.\n\nYour task: produce TWO different, realistic changes")
    open(f"{d}/SEEDER_TASK.md",'w').write(t)
print("ok")
