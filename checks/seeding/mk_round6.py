# Sets up round 6 of the seeded-breakage campaign: one scratch worktree of /repo per property under /tmp/seed6-Cxx
# holding only PROPERTY.txt, ALREADY_DONE.md (one paragraph per earlier change) and SEEDER_TASK.md.
import json,sys,os,glob
here=os.path.dirname(os.path.abspath(__file__))
cats=[("a public entry point other than the most commonly used one: the crate usually offers several ways to reach the same behaviour (from_bytes / from_archive / new / open / load / Default, typed vs untyped accessors, by-address vs by-label lookups, LE vs BE constructors, the `*_with_*` and convenience wrappers, trait impls such as Clone/From/TryFrom/IntoIterator). Break the property only through a secondary entry point or wrapper, leaving the primary one intact",
       "size thresholds: behaviour that changes when a count, length, offset or dimension crosses 2^8, 2^15, 2^16, 2^24 or 2^31 (more than 255 or 65535 entries, a string or payload longer than 255 / 65535 bytes, an offset beyond 64 KiB or 16 MiB, a width/height of 1024 or 2048), wrong only above such a threshold"),
      ("process-wide or per-thread state: a `static`, `thread_local!`, `OnceCell`/`lazy` cache, scratch buffer, memo table or counter introduced as an optimisation, that makes a result depend on an EARLIER call (possibly a failed one, possibly with a different endianness/format/language/game argument) — the first call in a fresh process is always right",
       "unusual but legal characters and encodings in ANY string the code handles (keys, labels, names, paths, messages, directory names, the layer root itself): non-ASCII text, characters whose byte length differs between UTF-8 / UTF-16 / Shift-JIS, characters whose Shift-JIS trail byte is 0x5C or 0x7C or looks like ASCII, combining marks, surrogate pairs, backslash, space, dot, glob metacharacters, uppercase/lowercase pairs"),
      ("the interaction of two features that are each handled correctly alone: two annotations on the same address (label + pointer, string + label, pointer source that is also a pointer destination), compressed + localized files, an edit followed by a different kind of edit at an adjacent address, nested or overlapping ranges, the same name in two layers with different compression or case, textures of different formats in one container",
       "aliasing, ownership and in-place mutation: clone vs borrow vs move of a buffer that is mutated later, mutating a collection while walking it by index, `retain`/`drain`/`swap_remove` combined with a running index, `mem::take`/`replace` that leaves a default behind, sorting or de-duplicating a vector that another index refers into"),
      ("sibling implementations: the same logic exists two to four times in this crate (little-/big-endian, LZ10/LZ13, reader/writer, Shift-JIS/UTF-16, the per-game path localizers, CTPK/BCH/CGFX/TPL, list/subdirectories/exists, FileSystemLayer/LayeredFilesystem) — a cleanup is applied to all but one sibling, or a difference between siblings that was intentional gets 'unified'",
       "absent vs empty vs default: `Option` handling (`unwrap_or`, `unwrap_or_default`, `map_or`, `?` on Option), None vs Some(\"\") vs Some(0), a zero-length section vs a missing one, the first/default enum variant, a field that is only meaningful when another is set")]
for i in range(1,21):
    pid='C%02d'%i; d=f'/tmp/seed6-{pid}'
    os.system(f'git -C /repo worktree add -q --detach {d} HEAD')
    for l in open('/verif/properties.jsonl'):
        p=json.loads(l)
        if p['id']==pid:
            open(f"{d}/PROPERTY.txt",'w').write(f"Property {p['id']}: {p['title']}\n\nStatement: {p['statement']}\n\nQuantifier: {p['quantifier']['text']}\n\nFiles the property is anchored in: {', '.join(p['anchors']['files'])}\n")
    done=[]
    for m in sorted(glob.glob(f'/verif/seeded/{pid}-*/meta.json')):
        meta=json.load(open(m)); n=' '.join(meta['needs_to_manifest'].split())
        done.append(f"## {meta['seed_id']}\n{n[:500]}\n")
    open(f"{d}/ALREADY_DONE.md",'w').write("# Changes already produced for this property by earlier developers (do NOT repeat these or trivial variants of them)\n\n"+"\n".join(done))
    c1,c2=cats[(i+2)%4]
    t=open(here+'/seeder_prompt.txt').read().replace('/tmp/seed-CXX',d).replace('CXX',pid)
    t=t.replace("Your task: produce TWO different, realistic changes",f"The file ALREADY_DONE.md lists ten changes that earlier developers already produced for this property: yours must be different in kind and location from those (not a re-phrasing, not the inverse of a recent `fix:` commit in `git log`). This round the two changes have assigned themes. Change 1 must be about: {c1}. Change 2 must be about: {c2}. Look in every file the property depends on (not only the obvious one), and make each change as hard to notice as you can: it should survive a reviewer skimming the diff, leave all ordinary round trips intact, and need a specific, legal input or call sequence to show. The change must make the PROPERTY AS STATED false (check each clause and its quantifier: an input outside the stated domain does not count). If a theme genuinely has no instance that can break THIS property, say so in notes.md and use the closest theme that does.\n\nYour task: produce TWO different, realistic changes")
    open(f"{d}/SEEDER_TASK.md",'w').write(t)
print("ok")
