# Sets up round 8 of the seeded-breakage campaign: one scratch worktree of /repo per property under /tmp/seed8-Cxx
# holding only PROPERTY.txt, ALREADY_DONE.md (one paragraph per earlier change) and SEEDER_TASK.md.
import json,sys,os,glob
here=os.path.dirname(os.path.abspath(__file__))
cats=[("a pitfall of a Rust std iterator / collection API used in a rewrite: `zip` silently truncating to the shorter side, `chunks` vs `chunks_exact` (remainder), `windows`, `step_by`, `rev()` on a range with an off-by-one bound, `take_while` vs `filter`, `skip_while`, `dedup` (adjacent only), `sort_unstable` where stability matters, `HashMap::entry().or_insert` vs `insert`, `extend` vs assignment, `drain(range)`, `split_at`, `last()` vs `max()`, `position` vs `rposition`, `split` yielding a trailing empty piece",
       "a NEW or tightened validation that is slightly too strict: it rejects (or special-cases) a legal boundary input — size 0, address == size, an empty name, a zero count, the maximum legal value, an entry exactly at the end — that the property says must be accepted and handled"),
      ("a validation that became slightly too lenient for a narrow class of inputs the property says must be REJECTED (wrong magic number in one byte position only, an over-declared count or size that happens to stay inside the buffer for another reason, a truncated payload whose missing part is padding-sized, an out-of-range reference equal to the boundary) — or, if the property has no rejection clause, an error that is swallowed and replaced by a default",
       "side effects on an error path: something observable is changed although the call fails (a partially written or empty file left behind, a directory created, a map entry inserted or removed, a cursor moved, a dirty flag set, an annotation shifted) or, conversely, a successful call that forgets one of its side effects for a narrow input class"),
      ("text-processing functions of std used on data that is not plain ASCII: `to_lowercase`/`to_uppercase`/`eq_ignore_ascii_case`, `trim`/`trim_end`/`trim_matches` (which also strip other whitespace or repeated characters), `lines()` (drops `\\r`), `split_whitespace`, `char::is_alphanumeric`, `parse::<T>()`, `format!` width/precision, `to_string_lossy`, `OsStr`/`Path` round trips — if the property's code handles no text at all, use instead a data-dependent early termination (next theme) for both changes",
       "data-dependent early termination: a loop or search that stops at the first zero byte / NUL / sentinel / duplicate / `None` / empty element although legal data can contain one, or a `find`/`contains`/`starts_with` on raw bytes that matches inside another field"),
      ("free choice: study the fourteen earlier changes and the code, work out what KIND of mistake has not been tried yet, and make it as unobtrusive as you can (it must still be a change a real refactoring, optimisation or clean-up commit could contain)",
       "free choice again, in a different file or at least a different function than your first change, and of a different kind")]
for i in range(1,21):
    pid='C%02d'%i; d=f'/tmp/seed8-{pid}'
    os.system(f'git -C /repo worktree add -q --detach {d} HEAD')
    for l in open('/verif/properties.jsonl'):
        p=json.loads(l)
        if p['id']==pid:
            open(f"{d}/PROPERTY.txt",'w').write(f"Property {p['id']}: {p['title']}\n\nStatement: {p['statement']}\n\nQuantifier: {p['quantifier']['text']}\n\nFiles the property is anchored in: {', '.join(p['anchors']['files'])}\n")
    done=[]
    for m in sorted(glob.glob(f'/verif/seeded/{pid}-*/meta.json')):
        meta=json.load(open(m)); n=' '.join(meta['needs_to_manifest'].split())
        done.append(f"## {meta['seed_id']}\n{n[:500]}\n")
    open(f"{d}/ALREADY_DONE.md",'w').write("# Changes already produced for this property by earlier developers (do NOT repeat these or trivial variants of them)\n\n"+"\n".join(done))
    c1,c2=cats[i%4]
    t=open(here+'/seeder_prompt.txt').read().replace('/tmp/seed-CXX',d).replace('CXX',pid)
    t=t.replace("Your task: produce TWO different, realistic changes",f"The file ALREADY_DONE.md lists fourteen changes that earlier developers already produced for this property: yours must be different in kind and location from those (not a re-phrasing, not the inverse of a recent `fix:` commit in `git log`). This round the two changes have assigned themes. Change 1 must be about: {c1}. Change 2 must be about: {c2}. Look in every file the property depends on (not only the obvious one), and make each change as hard to notice as you can: it should survive a reviewer skimming the diff, leave all ordinary round trips intact, and need a specific, legal input or call sequence to show. The change must make the PROPERTY AS STATED false (check each clause and its quantifier: an input outside the stated domain does not count). If a theme genuinely has no instance that can break THIS property, say so in notes.md and use the closest theme that does.\n\nYour task: produce TWO different, realistic changes")
    open(f"{d}/SEEDER_TASK.md",'w').write(t)
print("ok")
