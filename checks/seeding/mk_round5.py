import json,sys,os,glob
cats=[("the dispatch / glue layer: enum-dispatch `match` arms (PathLocalizer, CompressionFormat, ColorFormat, TextArchiveFormat, Game/Language tables), typed helper methods that forward to another function with the wrong or swapped argument (endian, format, localized flag, path vs localized path), Clone/Default/new() impls that forget or mis-initialise a field",
       "assumptions about a dependency's behaviour: encoding_rs (decode vs decode_without_bom_handling, replacement handling, encoder flush), indexmap (shift_remove vs swap_remove, insert vs entry, insertion order after re-insert), glob (MatchOptions, pattern escaping, sort order of results), normpath/std::path (trailing separators, `.`/`..`, join with an absolute component), std::io::Cursor (read vs read_exact, seek past the end, set_position), byteorder"),
      ("byte order and bit order: little- vs big-endian in one of the several places a word is read or written, high/low nibble or byte swapped, shift direction, sign extension, bit numbering from the wrong end, two fields of equal width read in the wrong order",
       "partial failure and cleanup: a multi-step update where an error in a later step leaves the earlier steps applied, a value moved or consumed before a fallible call, a loop that stops (or fails to stop) at the first error, a result collected into a container that silently drops duplicates or errors (`filter_map(|r| r.ok())`, `unwrap_or_default`, `.ok()?`)"),
      ("length and offset bookkeeping: a length measured in the wrong unit (chars vs bytes vs UTF-16 units, cells vs bytes, entries vs words), an offset relative to the wrong base (file vs section vs data start), padding/alignment computed from the wrong running total, a count taken before instead of after a filter",
       "string handling: trimming, case, separators, prefixes/suffixes (`ends_with`, `trim_end_matches`, `replace` vs `replacen`), escape sequences, NUL terminators, empty strings and strings that are prefixes/suffixes/duplicates of one another"),
      ("changes that only show on the SECOND use: a second call on the same object, a second element of a list, a second layer, a second texture, a repeated key, re-serialising a value that was just parsed, calling the same function with the arguments in a different order — because some state, cursor, buffer or table was not reset, was reset too early, or is shared",
       "arithmetic on sizes: rounding up vs down, `/` vs `>>`, `%` vs `&`, saturating/wrapping/checked variants, an `usize` subtraction that can underflow for a legal input, multiplication order that overflows in 32 bits, off-by-one in a `step_by`/range bound")]
for i in range(1,21):
    pid='C%02d'%i; d=f'/tmp/seed5-{pid}'
    os.system(f'git -C /repo worktree add -q --detach {d} HEAD')
    for l in open('/verif/properties.jsonl'):
        p=json.loads(l)
        if p['id']==pid:
            open(f"{d}/PROPERTY.txt",'w').write(f"Property {p['id']}: {p['title']}\n\nStatement: {p['statement']}\n\nQuantifier: {p['quantifier']['text']}\n\nFiles the property is anchored in: {', '.join(p['anchors']['files'])}\n")
    done=[]
    for m in sorted(glob.glob(f'/verif/seeded/{pid}-*/meta.json')):
        meta=json.load(open(m)); n=' '.join(meta['needs_to_manifest'].split())
        done.append(f"## {meta['seed_id']}\n{n[:600]}\n")
    open(f"{d}/ALREADY_DONE.md",'w').write("# Changes already produced for this property by earlier developers (do NOT repeat these or trivial variants of them)\n\n"+"\n".join(done))
    c1,c2=cats[(i+1)%4]
    t=open('/tmp/seeder_prompt.txt').read().replace('/tmp/seed-CXX',d).replace('CXX',pid)
    t=t.replace("Your task: produce TWO different, realistic changes",f"The file ALREADY_DONE.md lists eight changes that earlier developers already produced for this property: yours must be different in kind and location from those (not a re-phrasing, not the inverse of a recent `fix:` commit in `git log`). This round the two changes have assigned themes. Change 1 must be about: {c1}. Change 2 must be about: {c2}. Look in every file the property depends on (not only the obvious one), and make each change as hard to notice as you can: it should survive a reviewer skimming the diff, leave all ordinary round trips intact, and need a specific, legal input or call sequence to show. If a theme genuinely has no instance that can break THIS property, say so in notes.md and use the closest theme that does.\n\nYour task: produce TWO different, realistic changes")
    open(f"{d}/SEEDER_TASK.md",'w').write(t)
print("ok")
