# Sets up round 12 of the seeded-breakage campaign: one scratch worktree of /repo per property under /tmp/seed12-Cxx
# holding only PROPERTY.txt, ALREADY_DONE.md (one paragraph per earlier change) and SEEDER_TASK.md.
import json,sys,os,glob
here=os.path.dirname(os.path.abspath(__file__))
free="free choice: study the twenty-two earlier changes and the code, work out what KIND of mistake and which FUNCTION has not been tried yet, and make it as unobtrusive as you can (it must still be a change a real refactoring, optimisation or clean-up commit could contain); use a different file or at least a different function than your first change"
cats=[("a fault that needs a HISTORY of at least three public calls in a particular order on the same object or thread to show (for stateless code: three or more cooperating input features), where every shorter history and every other order behaves correctly", free),
      ("a change in the code the property depends on that has been touched LEAST by the twenty-two earlier changes: list for yourself which functions they modified (ALREADY_DONE.md names them), pick a function none or only one of them touched, and break the property there", free),
      ("two cooperating edits in two different files, each of which is behaviour-preserving on its own (you must check that: each alone keeps the property), that together break the property for a narrow input class", free),
      (free, free)]
for i in range(1,21):
    pid='C%02d'%i; d=f'/tmp/seed12-{pid}'
    os.system(f'git -C /repo worktree add -q --detach {d} HEAD')
    for l in open('/verif/properties.jsonl'):
        p=json.loads(l)
        if p['id']==pid:
            open(f"{d}/PROPERTY.txt",'w').write(f"Property {p['id']}: {p['title']}\n\nStatement: {p['statement']}\n\nQuantifier: {p['quantifier']['text']}\n\nFiles the property is anchored in: {', '.join(p['anchors']['files'])}\n")
    done=[]
    for m in sorted(glob.glob(f'/verif/seeded/{pid}-*/meta.json')):
        meta=json.load(open(m)); n=' '.join(meta['needs_to_manifest'].split())
        done.append(f"## {meta['seed_id']}\n{n[:500]}\n")
    open(f"{d}/ALREADY_DONE.md",'w').write("# Changes already produced for this property by earlier developers (do NOT repeat these or trivial variants of them)\n\n"+"\n".join(done))
    c1,c2=cats[i%4]
    t=open(here+'/seeder_prompt.txt').read().replace('/tmp/seed-CXX',d).replace('CXX',pid)
    t=t.replace("Your task: produce TWO different, realistic changes",f"The file ALREADY_DONE.md lists twenty-two changes that earlier developers already produced for this property: yours must be different in kind and location from those (not a re-phrasing, not the inverse of a recent `fix:` commit in `git log`). This round the two changes have assigned themes. Change 1 must be about: {c1}. Change 2 must be about: {c2}. Look in every file the property depends on (not only the obvious one), and make each change as hard to notice as you can: it should survive a reviewer skimming the diff, leave all ordinary round trips intact, and need a specific, legal input or call sequence to show. The change must make the PROPERTY AS STATED false (check each clause and its quantifier: an input outside the stated domain does not count). If a theme genuinely has no instance that can break THIS property, say so in notes.md and use the closest theme that does.\n\nYour task: produce TWO different, realistic changes")
    open(f"{d}/SEEDER_TASK.md",'w').write(t)
print("ok")
