# Sets up round 7 of the seeded-breakage campaign: one scratch worktree of /repo per property under /tmp/seed7-Cxx
# holding only PROPERTY.txt, ALREADY_DONE.md (one paragraph per earlier change) and SEEDER_TASK.md.
import json,sys,os,glob
here=os.path.dirname(os.path.abspath(__file__))
cats=[("value-dependent behaviour: a specific byte / word / character VALUE in otherwise generically handled data (0x00, 0x7F, 0x80, 0xFF, 0x5C, 0xFFFF, 0x8000_0000, i32::MIN, -1, NaN, -0.0, U+FFFD, U+FEFF, U+0000) — the code path is the common one, only the value is rare",
       "position-dependent behaviour: wrong only when an address / offset / length is congruent to some k modulo 8, 16, 32 or 64, or when an item sits at the very first or very last possible position, or when two items are exactly adjacent or exactly a block apart"),
      ("order of operations: a-then-b is right, b-then-a is wrong (write then allocate vs allocate then write; set, delete, set again; layers given in another order; a texture of one format before another; parse after serialize after edit) — or the THIRD repetition differs from the second",
       "count-dependent behaviour: wrong only for exactly N items with N in {0, 1, 2, 7, 8, 9, 15, 16, 17, 31, 32, 33, 63, 64, 65, 100, 127, 128, 129}: the remainder of a chunked loop, a small fixed-capacity fast path, a flag word that is exactly full, the last group of eight"),
      ("a conjunction of THREE independent conditions, each common on its own (for example: big-endian AND something at the end address AND an odd count) — two of the three must not be enough",
       "numeric conversions in rarely hit ranges: the sign of an i8/i16, negative offsets, values >= 2^31 in a u32 that passes through i32 or isize, f32 bit patterns, a shift by 0 or by the full width, division or rounding for odd operands, `as usize` of a negative number, `abs()`/`-x` of the minimum value"),
      ("free choice: study the twelve earlier changes and the code, work out what KIND of mistake has not been tried yet, and make it as unobtrusive as you can (it must still be a change a real refactoring, optimisation or clean-up commit could contain)",
       "free choice again, in a different file or at least a different function than your first change, and of a different kind")]
for i in range(1,21):
    pid='C%02d'%i; d=f'/tmp/seed7-{pid}'
    os.system(f'git -C /repo worktree add -q --detach {d} HEAD')
    for l in open('/verif/properties.jsonl'):
        p=json.loads(l)
        if p['id']==pid:
            open(f"{d}/PROPERTY.txt",'w').write(f"Property {p['id']}: {p['title']}\n\nStatement: {p['statement']}\n\nQuantifier: {p['quantifier']['text']}\n\nFiles the property is anchored in: {', '.join(p['anchors']['files'])}\n")
    done=[]
    for m in sorted(glob.glob(f'/verif/seeded/{pid}-*/meta.json')):
        meta=json.load(open(m)); n=' '.join(meta['needs_to_manifest'].split())
        done.append(f"## {meta['seed_id']}\n{n[:500]}\n")
    open(f"{d}/ALREADY_DONE.md",'w').write("# Changes already produced for this property by earlier developers (do NOT repeat these or trivial variants of them)\n\n"+"\n".join(done))
    c1,c2=cats[(i+3)%4]
    t=open(here+'/seeder_prompt.txt').read().replace('/tmp/seed-CXX',d).replace('CXX',pid)
    t=t.replace("Your task: produce TWO different, realistic changes",f"The file ALREADY_DONE.md lists twelve changes that earlier developers already produced for this property: yours must be different in kind and location from those (not a re-phrasing, not the inverse of a recent `fix:` commit in `git log`). This round the two changes have assigned themes. Change 1 must be about: {c1}. Change 2 must be about: {c2}. Look in every file the property depends on (not only the obvious one), and make each change as hard to notice as you can: it should survive a reviewer skimming the diff, leave all ordinary round trips intact, and need a specific, legal input or call sequence to show. The change must make the PROPERTY AS STATED false (check each clause and its quantifier: an input outside the stated domain does not count). If a theme genuinely has no instance that can break THIS property, say so in notes.md and use the closest theme that does.\n\nYour task: produce TWO different, realistic changes")
    open(f"{d}/SEEDER_TASK.md",'w').write(t)
print("ok")
