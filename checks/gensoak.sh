#!/bin/sh
# Generator soak: every family's generator must succeed (exit 0, non-empty output) for many seeds, for every
# property it serves.  A generator that panics on some seed would be reported as a violation of the tie.
cd "$(dirname "$0")/.." || exit 2
A=${1:-1}; B=${2:-300}; TIER=${3:-quick}
H=work/target/debug/mila-harness
mkdir -p work/gensoak
# the binary may have been left built against a patched /repo by checks/seeded.py: rebuild from the current tree
(cd harness && cargo build -q 2>/dev/null) || { echo "gensoak: harness build failed"; exit 2; }
bad=0; n=0
for spec in loc:C14 binops:C03 binops:C04 binser:C01 binser:C02 parsers:C05 text:C06 text:C07 lz:C08 lz:C09 lz:C10 lz:C11 fs:C12 fs:C13 fs:C14 pack:C15 arc:C16 aset:C17 asset:C18 pixel:C19 texc:C19 texc:C20; do
  fam=${spec%%:*}; prop=${spec##*:}
  mkdir -p work/gensoak/$prop
  for s in $(seq $A $B); do
    n=$((n+1))
    if ! VERIF_PROP=$prop VERIF_TIER=$TIER $H gen $fam $s $TIER work/gensoak/$prop/$fam.txt >/dev/null 2>work/gensoak/err.txt || [ ! -s work/gensoak/$prop/$fam.txt ]; then
      bad=$((bad+1)); echo "GEN FAIL $fam $prop seed $s: $(head -c 300 work/gensoak/err.txt | tr '\n' ' ')"
    fi
  done
done
echo "gensoak: $n generator runs, $bad failing"
