#!/bin/sh
# Try one stored seeded change WITHOUT touching /repo: the harness of this worktree is pointed at a patched scratch
# copy of /repo for the duration of the run.  usage: checks/seedtry.sh <seed-id> [<property>] [tier]
# (checks/seeded.py run is the faithful replay — it patches /repo itself; this is for use while others build against /repo.)
cd "$(dirname "$0")/.." || exit 2
id=$1; prop=${2:-${id%%-*}}; tier=${3:-quick}
S=/root/scratch/try-$$-repo
mkdir -p /root/scratch && rsync -a --exclude target --exclude .git /repo/ $S/ || exit 2
(cd $S && patch -s -p1 < /verif/seeded/$id/patch.diff) || { rm -rf $S; echo "patch failed"; exit 2; }
cp -r evidence work/evidence.keep.$$
sed -i "s#path = \"/repo\"#path = \"$S\"#" harness/Cargo.toml
checks/check.sh $prop $tier 2>&1 | tail -4
sed -i "s#path = \"$S\"#path = \"/repo\"#" harness/Cargo.toml
rm -rf evidence && mv work/evidence.keep.$$ evidence
rm -rf $S
(cd harness && cargo build -q 2>/dev/null; cargo build -q --release 2>/dev/null)
