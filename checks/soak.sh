#!/bin/sh
# False-alarm soak: every claimed quick check on seeds $1..$2 (default 2..12); prints only failures and a summary.
cd "$(dirname "$0")/.." || exit 2
A=${1:-2}; B=${2:-12}
# under `vp run --with-repo` build against the snapshot of /repo, so that edits to /repo (seeded runs) do not interfere
if [ -n "$VP_RUN_REPO" ] && [ -d "$VP_RUN_REPO" ]; then
  sed -i "s#path = \"/repo\"#path = \"$VP_RUN_REPO\"#" harness/Cargo.toml
  echo "soak: building against $VP_RUN_REPO"
fi
[ -x work/target/debug/mila-harness ] || checks/setup.sh >/dev/null 2>&1
bad=0; n=0
for s in $(seq $A $B); do
  for p in $(python3 -c "import json;print(' '.join(c['property_id'] for c in json.load(open('MANIFEST.json'))['checks']))"); do
    n=$((n+1))
    out=$(VERIF_SEED=$s checks/check.sh $p quick 2>&1); rc=$?
    if [ $rc -ne 0 ] || echo "$out" | grep -q VIOLATION; then bad=$((bad+1)); echo "seed $s $p rc=$rc"; echo "$out" | tail -4; fi
  done
done
echo "soak: $n runs, $bad failing"
