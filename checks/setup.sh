#!/bin/sh
# MANIFEST.setup_cmd: build the framework from files on disk only (offline).
set -e
cd "$(dirname "$0")/.."
mkdir -p work evidence
export CARGO_NET_OFFLINE=true
[ -f harness/Cargo.lock ] || cp /repo/Cargo.lock harness/Cargo.lock
(cd harness && cargo build --offline 2>&1 | tail -3 && cargo build --offline --release 2>&1 | tail -3)
(cd lean && lake build 2>&1 | tail -5)
echo "setup done"
