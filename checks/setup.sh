#!/bin/sh
# MANIFEST.setup_cmd: build the framework from files on disk only (offline).
set -e
cd "$(dirname "$0")/.."
mkdir -p work evidence
export CARGO_NET_OFFLINE=true
[ -f harness/Cargo.lock ] || cp /repo/Cargo.lock harness/Cargo.lock
(cd harness && cargo build --offline 2>&1 | tail -3 && cargo build --offline --release 2>&1 | tail -3)
# driver + every property module present (so that the per-check lake build is a no-op)
MODS=$(cd lean && ls MilaModel/Props/*.lean 2>/dev/null | sed 's/\.lean$//; s#/#.#g')
(cd lean && lake build mila_model $MODS 2>&1 | tail -5)
echo "setup done"
