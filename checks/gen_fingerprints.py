#!/usr/bin/env python3
"""Records the normalized-source fingerprints of every property's anchored files (and of the files its
models transcribe) for the current /repo tree.  Run after a `fix:` commit in /repo."""
import json, os, sys
sys.path.insert(0, os.path.dirname(os.path.abspath(__file__)))
from check import source_fingerprints, VERIF
EXTRA = {  # files the property's models also transcribe, beyond properties.jsonl anchors
    "C05": ["src/lz13.rs"][:0],
    "C08": ["src/lz13.rs"], "C12": ["src/lz10.rs", "src/lz13.rs", "src/localization.rs"],
    "C13": ["src/localization.rs"], "C16": ["src/encoded_strings.rs"], "C17": ["src/encoded_strings.rs"],
    "C18": ["src/encoded_strings.rs"], "C19": ["src/texture.rs"], "C20": ["src/texture_decoder.rs", "src/etc1.rs", "src/pixel_encodings.rs", "src/texture_utils.rs"],
}
out = {}
for l in open(os.path.join(VERIF, "properties.jsonl")):
    p = json.loads(l)
    files = sorted(set(p["anchors"]["files"]) | set(EXTRA.get(p["id"], [])))
    out[p["id"]] = source_fingerprints(files)
json.dump(out, open(os.path.join(VERIF, "checks", "fingerprints.json"), "w"), indent=1, sort_keys=True)
print("fingerprints for %d properties at /repo %s" % (len(out), os.popen("git -C /repo rev-parse --short HEAD").read().strip()))
