#!/usr/bin/env python3
"""Regenerates MANIFEST.json from checks/props/*.json and checks/not_applicable.json."""
import glob, json, os
V = os.path.dirname(os.path.dirname(os.path.abspath(__file__)))
props = [json.loads(l) for l in open(os.path.join(V, "properties.jsonl"))]
ids = [p["id"] for p in props]
cfgs = {}
for f in sorted(glob.glob(os.path.join(V, "checks", "props", "C*.json"))):
    c = json.load(open(f))
    if c.get("claimed", True):
        cfgs[c["id"]] = c
na_file = os.path.join(V, "checks", "not_applicable.json")
na_reasons = json.load(open(na_file)) if os.path.exists(na_file) else {}
checks, engines_props = [], []
for pid in ids:
    if pid not in cfgs:
        continue
    c = cfgs[pid]
    m = c["manifest"]
    engines_props.append(pid)
    checks.append({
        "property_id": pid,
        "quick_cmd": "checks/check.sh %s quick" % pid,
        "thorough_cmd": "checks/check.sh %s thorough" % pid,
        "evidence_file": "evidence/%s.json" % pid,
        "replay_cmd_template": "checks/check.sh --replay {path}",
        "engine": "lean-proof+correspondence",
        "level_claimed": {"category": "proof", "text": m["level_text"], "design_ref": m.get("design_ref", "DESIGN.md §6 " + pid)},
        "level_note": m["level_note"],
        "technique": m["technique"],
    })
not_app = [{"property_id": pid, "reason": na_reasons.get(pid, "check not built yet (work in progress): the Lean model, theorems and correspondence stream for this property are not committed; see DESIGN.md §12")}
           for pid in ids if pid not in cfgs]
manifest = {
    "version": 1,
    "setup_cmd": "checks/setup.sh",
    "hooks": {
        "guard": "mila_verif",
        "enable": "cargo feature: the harness depends on mila with features = [\"mila_verif\"] (harness/Cargo.toml); equivalent to `cargo build --features mila_verif` in /repo",
        "baseline_off_cmd": "cd /repo && cargo test --workspace --no-fail-fast --offline",
        "source_commits": ["4972d3b"],
        "add_only": True,
    },
    "engines": [{
        "name": "lean-proof+correspondence",
        "path": "checks/check.py",
        "serves_properties": engines_props,
        "kind_free_text": "Lean 4 theorems about a hand-written model (lean/MilaModel) + differential correspondence between the model (compiled Lean driver lean/Driver) and the real code (Rust harness harness/), with a Lean specification oracle judged on the implementation's output",
    }],
    "checks": checks,
    "notes": "All checks share one orchestrator (checks/check.py). Each run rebuilds the harness against /repo's working tree, re-checks the property's Lean theorems and their axioms, replays the recorded defects and the corpus, then runs generated cases through implementation, model and specification oracle. Genuine defects found and repaired are listed in known_findings.json (fixed entries suppress nothing).",
    "not_applicable": not_app,
}
json.dump(manifest, open(os.path.join(V, "MANIFEST.json"), "w"), indent=1)
print("MANIFEST.json: %d checks, %d not yet claimed" % (len(checks), len(not_app)))
