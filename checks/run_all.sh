#!/bin/sh
# Runs every claimed check at the given tier (default quick) and prints one summary line per property.
cd "$(dirname "$0")/.." || exit 2
TIER=${1:-quick}
[ -x work/target/debug/mila-harness ] || checks/setup.sh >/dev/null 2>&1
rc=0
for p in $(python3 -c "import json;print(' '.join(c['property_id'] for c in json.load(open('MANIFEST.json'))['checks']))"); do
  /usr/bin/time -f "  ($p wall %es)" checks/check.sh $p $TIER 2>&1 | grep -E "^(C[0-9]+ |VIOLATION|KNOWN|  \()" || true
done
