#!/usr/bin/env python3
"""Seeded-breakage bookkeeping (DESIGN §10).

  checks/seeded.py verify <src_dir> <seed_id> <property>   confirm a seeder's claim in a scratch worktree and
                                                           store it as seeded/<seed_id>/ (patch.diff, demo.rs, meta.json)
  checks/seeded.py run [<seed_id>…] [--tier quick]          apply each stored patch to /repo, run the property's
                                                           check, undo the patch; records caught / missed in
                                                           seeded/<seed_id>/result.json
Nothing here is part of a registered check; /repo is always restored (git checkout -- .).
"""
import json
import os
import shutil
import subprocess
import sys
import time

VERIF = os.path.dirname(os.path.dirname(os.path.abspath(__file__)))
SEEDED = os.path.join(VERIF, "seeded")
ENV = dict(os.environ, CARGO_NET_OFFLINE="true", RUST_BACKTRACE="0")


def sh(cmd, cwd=None, timeout=3600):
    p = subprocess.run(cmd, cwd=cwd, stdout=subprocess.PIPE, stderr=subprocess.STDOUT, text=True, timeout=timeout, env=ENV, shell=isinstance(cmd, str))
    return p.returncode, p.stdout


def verify(src, seed_id, prop):
    src = os.path.abspath(src)
    wt = "/tmp/verify-%s" % seed_id
    sh(["git", "-C", "/repo", "worktree", "remove", "--force", wt])
    rc, out = sh(["git", "-C", "/repo", "worktree", "add", "--detach", wt, "HEAD"])
    assert rc == 0, out
    ran = []
    ok = True
    try:
        def step(name, cmd, expect_ok):
            nonlocal ok
            rc, out = sh(cmd, cwd=wt)
            good = (rc == 0) == expect_ok
            ran.append({"step": name, "cmd": cmd, "rc": rc, "as_expected": good, "tail": out[-300:]})
            print("%-38s rc=%d %s" % (name, rc, "ok" if good else "UNEXPECTED"))
            ok = ok and good
            return out
        step("apply patch", "git apply %s/patch.diff" % src, True)
        step("build with change", "cargo build --offline 2>&1 | tail -3", True)
        out = step("existing tests with change", "cargo test --offline --lib 2>&1 | grep 'test result'", True)
        if "82 passed; 0 failed" not in out:
            ok = False
            print("  existing suite does not pass with the change:", out.strip())
        os.makedirs(os.path.join(wt, "tests"), exist_ok=True)
        shutil.copy(os.path.join(src, "demo.rs"), os.path.join(wt, "tests", "demo_seed.rs"))
        rc, out = sh("cargo test --offline --test demo_seed", cwd=wt)
        flag = ""
        if rc == 0:
            # a change that only shows in the release profile (no overflow checks / debug assertions)
            rc, out = sh("cargo test --offline --release --test demo_seed", cwd=wt)
            flag = " --release"
        good = rc != 0
        ran.append({"step": "demo with change (must fail)" + flag, "rc": rc, "as_expected": good, "tail": out[-400:]})
        print("%-38s rc=%d %s" % ("demo with change (must fail)" + flag, rc, "ok" if good else "UNEXPECTED"))
        ok = ok and good
        step("revert change", "git checkout -- src", True)
        rc, out = sh("cargo test --offline%s --test demo_seed" % flag, cwd=wt)
        good = rc == 0
        ran.append({"step": "demo without change (must pass)", "rc": rc, "as_expected": good, "tail": out[-400:]})
        print("%-38s rc=%d %s" % ("demo without change (must pass)", rc, "ok" if good else "UNEXPECTED"))
        ok = ok and good
    finally:
        sh(["git", "-C", "/repo", "worktree", "remove", "--force", wt])
        shutil.rmtree(wt, ignore_errors=True)
    if not ok:
        print("NOT KEPT: claim not confirmed")
        return 1
    dst = os.path.join(SEEDED, seed_id)
    os.makedirs(dst, exist_ok=True)
    shutil.copy(os.path.join(src, "patch.diff"), os.path.join(dst, "patch.diff"))
    shutil.copy(os.path.join(src, "demo.rs"), os.path.join(dst, "demo.rs"))
    notes = open(os.path.join(src, "notes.md")).read() if os.path.exists(os.path.join(src, "notes.md")) else ""
    meta = {"seed_id": seed_id, "breaks_property": prop, "needs_to_manifest": notes,
            "origin": "independent sub-agent given only the property text and a scratch worktree of /repo",
            "confirmed": ran, "confirmed_at": time.strftime("%Y-%m-%dT%H:%M:%SZ", time.gmtime()),
            "repo_head": sh(["git", "-C", "/repo", "rev-parse", "--short", "HEAD"])[1].strip()}
    json.dump(meta, open(os.path.join(dst, "meta.json"), "w"), indent=1)
    print("kept as seeded/%s" % seed_id)
    return 0


def run(ids, tier):
    ids = ids or sorted(d for d in os.listdir(SEEDED) if os.path.exists(os.path.join(SEEDED, d, "patch.diff")))
    rc, out = sh(["git", "-C", "/repo", "status", "--porcelain"])
    assert out.strip() == "", "/repo is not clean:\n" + out
    summary = []
    for sid in ids:
        d = os.path.join(SEEDED, sid)
        meta = json.load(open(os.path.join(d, "meta.json")))
        prop = meta["breaks_property"]
        extra = meta.get("also_run", [])
        # the evidence files belong to runs on the unchanged tree: keep them out of harm's way
        saved = {}
        for p in [prop] + extra:
            ev = os.path.join(VERIF, "evidence", p + ".json")
            saved[ev] = open(ev).read() if os.path.exists(ev) else None
        try:
            rc, out = sh(["git", "-C", "/repo", "apply", os.path.join(d, "patch.diff")])
            assert rc == 0, out
            results = {}
            for p in [prop] + extra:
                t0 = time.time()
                rc, out = sh([os.path.join(VERIF, "checks", "check.sh"), p, tier], cwd=VERIF, timeout=7200)
                vio = [l for l in out.split("\n") if l.startswith("VIOLATION")]
                results[p] = {"rc": rc, "violations": vio[:5], "summary": [l for l in out.split("\n") if l.startswith(p + " ")][:1], "wall_s": round(time.time() - t0, 1)}
        finally:
            sh(["git", "-C", "/repo", "checkout", "--", "."])
            for ev, text in saved.items():
                if text is None:
                    if os.path.exists(ev):
                        os.remove(ev)
                else:
                    open(ev, "w").write(text)
        caught = results[prop]["rc"] == 1 and bool(results[prop]["violations"])
        concrete = caught and any("no-failing-input-found" not in v for v in results[prop]["violations"])
        res = {"seed_id": sid, "property": prop, "tier": tier, "caught": caught, "with_concrete_failing_input": concrete, "checks": results,
               "at": time.strftime("%Y-%m-%dT%H:%M:%SZ", time.gmtime())}
        json.dump(res, open(os.path.join(d, "result.json"), "w"), indent=1)
        summary.append((sid, prop, caught, concrete))
        print("%-10s %s %s %s" % (sid, prop, "CAUGHT" if caught else "MISSED", "(failing input)" if concrete else ""))
    # re-run the checks on the clean tree is the caller's business; make sure the tree is clean
    rc, out = sh(["git", "-C", "/repo", "status", "--porcelain"])
    assert out.strip() == "", "/repo left dirty:\n" + out
    return 0


def summary():
    rows = []
    for sid in sorted(os.listdir(SEEDED)):
        d = os.path.join(SEEDED, sid)
        if not os.path.exists(os.path.join(d, "meta.json")):
            continue
        meta = json.load(open(os.path.join(d, "meta.json")))
        res = json.load(open(os.path.join(d, "result.json"))) if os.path.exists(os.path.join(d, "result.json")) else None
        need = " ".join(meta.get("needs_to_manifest", "").split())
        need = need[:260] + ("…" if len(need) > 260 else "")
        if res is None:
            verdict = "not run yet"
        elif res["caught"]:
            verdict = "caught" + (", concrete failing input" if res["with_concrete_failing_input"] else ", no-failing-input-found")
        else:
            verdict = "MISSED"
        rows.append("| %s | %s | %s | %s |" % (sid, meta["breaks_property"], verdict, need.replace("|", "/")))
    caught = sum(1 for r in rows if "| caught" in r)
    text = ("# Seeded breakages and which check catches them\n\n"
            "Each change was produced by an independent sub-agent (given only the property text and a scratch worktree of /repo),\n"
            "confirmed by `checks/seeded.py verify` (compiles, the 82 tests pass, its demo fails with / passes without the change)\n"
            "and replayed by `checks/seeded.py run` (patch applied to /repo, the property's quick check run, patch removed).\n\n"
            "%d of %d reported by the property's own check.\n\n| id | property | quick check | what the change needs to manifest (from the seeder's notes) |\n|---|---|---|---|\n" % (caught, len(rows))
            + "\n".join(rows) + "\n")
    open(os.path.join(SEEDED, "SUMMARY.md"), "w").write(text)
    print("seeded/SUMMARY.md: %d/%d caught" % (caught, len(rows)))
    return 0


if __name__ == "__main__":
    if len(sys.argv) >= 2 and sys.argv[1] == "summary":
        sys.exit(summary())
    if len(sys.argv) >= 5 and sys.argv[1] == "verify":
        sys.exit(verify(sys.argv[2], sys.argv[3], sys.argv[4]))
    if len(sys.argv) >= 2 and sys.argv[1] == "run":
        args = sys.argv[2:]
        tier = "quick"
        if "--tier" in args:
            i = args.index("--tier")
            tier = args[i + 1]
            args = args[:i] + args[i + 2:]
        sys.exit(run(args, tier))
    print(__doc__)
    sys.exit(2)
