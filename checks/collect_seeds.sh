#!/bin/sh
# Verify every finished seeder output under /tmp/seed-Cxx (ids Cxx-1/2) and /tmp/seed2-Cxx (ids Cxx-3/4)
# that is not stored yet; remove the seeder worktree once both of its changes are stored or rejected twice.
cd /verif
for d in /tmp/seed-C* /tmp/seed2-C* /tmp/seed3-C* /tmp/seed4-C* /tmp/seed5-C* /tmp/seed6-C* /tmp/seed7-C* /tmp/seed8-C* /tmp/seed9-C* /tmp/seed10-C* /tmp/seed11-C* /tmp/seed12-C*; do
  [ -d "$d/seed_out" ] || continue
  p=$(basename $d | sed "s/seed[0-9]*-//")
  off=0; case $d in /tmp/seed2-*) off=2;; /tmp/seed3-*) off=4;; /tmp/seed4-*) off=6;; /tmp/seed5-*) off=8;; /tmp/seed6-*) off=10;; /tmp/seed7-*) off=12;; /tmp/seed8-*) off=14;; /tmp/seed9-*) off=16;; /tmp/seed10-*) off=18;; /tmp/seed11-*) off=20;; /tmp/seed12-*) off=22;; esac
  [ -f "$d/seed_out/1/notes.md" ] && [ -f "$d/seed_out/2/notes.md" ] && [ -f "$d/seed_out/1/patch.diff" ] && [ -f "$d/seed_out/2/patch.diff" ] || continue
  for i in 1 2; do
    n=$((i+off))
    [ -d seeded/$p-$n ] || checks/seeded.py verify $d/seed_out/$i $p-$n $p 2>&1 | grep -E "UNEXPECTED|kept|NOT KEPT" | sed "s/^/$p-$n: /"
  done
  if [ -d seeded/$p-$((1+off)) ] && [ -d seeded/$p-$((2+off)) ]; then git -C /repo worktree remove --force $d; fi
done
git -C /repo worktree prune
