#!/bin/sh
# Verify every finished seeder output under /tmp/seed-Cxx not yet stored; remove the seeder worktree once both are stored.
cd /verif
for d in /tmp/seed-C*; do
  [ -d "$d/seed_out" ] || continue
  p=$(basename $d | sed 's/seed-//')
  [ -f "$d/seed_out/1/patch.diff" ] && [ -f "$d/seed_out/2/patch.diff" ] || continue
  for i in 1 2; do
    [ -d seeded/$p-$i ] || checks/seeded.py verify $d/seed_out/$i $p-$i $p 2>&1 | grep -E "UNEXPECTED|kept|NOT KEPT" | sed "s/^/$p-$i: /"
  done
  if [ -d seeded/$p-1 ] && [ -d seeded/$p-2 ]; then git -C /repo worktree remove --force $d; fi
done
git -C /repo worktree prune
