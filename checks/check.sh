#!/bin/sh
# checks/check.sh <ID> <quick|thorough>   |   checks/check.sh --replay <file>
cd "$(dirname "$0")/.." || exit 2
exec python3 checks/check.py "$@"
