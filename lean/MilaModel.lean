-- Root of the `MilaModel` library: models, specs and property theorems.
import MilaModel.Basic
