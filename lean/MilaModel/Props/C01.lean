/-
C01 — Bin archive content survives serialize → parse, for any conforming layout.

Property theorems only (helper lemmas live in `MilaModel/Lemmas/Ser*.lean`).  The model
(`Mila.BinArchive.serialize` / `parse`, `Model/BinArchive.lean`) transcribes `src/bin_archive.rs`
`serialize` / `from_bytes`; the specification (`Mila.Spec.Image.Conforms`, `Content`) is written
from the property statement.  The tie model <-> Rust is the `binser` correspondence stream.

Vocabulary (all defined in `Lemmas/Ser*.lean`, `Spec/ArchiveImage.lean`):
* `ArchWF a`        — the quantifier: at most one pointer / string / c-string per 4-byte cell (cells
                      pairwise disjoint and inside the data), targets and label addresses `≤ size`,
                      any data length (not necessarily a multiple of 4);
* `InDomain D a`    — every string, label and c-string of `a` lies in `D`, and `c.Faithful D` says
                      the codec represents `D` losslessly and NUL-free (the Shift-JIS assumption);
* `contentPlus c a` — the content the image of `a` denotes: with pending c-strings the padded pool
                      has become data and every c-string use an internal pointer into it (this is
                      forced: `read_c_string` reads through such a pointer); without c-strings it is
                      `contentOf a`;
* `imageSize c a`   — the size of the image; the 32-bit format needs it `< 2^32`.
-/
import MilaModel.Lemmas.SerObs
import MilaModel.Lemmas.SerOracle
import MilaModel.Lemmas.SerSize
import MilaModel.Lemmas.SjisSub

namespace Mila.Props.C01
open Mila Mila.BinArchive Mila.Ser Mila.Spec.Image

/-- **The parser recovers the content of every conforming image** — whatever the order of the
pointer and label tables and wherever the strings sit (shared or duplicated) in the text section,
in either endianness.  `Parsed`: the archive's data is the image's data block, its strings and
pointers are `K`'s (as finite maps: `List.Perm`), the label list of every address is `K`'s in the
same order, there is no pending c-string; `ContentEq` restates it as equality of contents. -/
theorem parse_conforming (c : Codec) (D : Str → Prop) (e : Endian) (f : Bytes) (K : Content)
    (hf : c.Faithful D) (wf : K.WF) (hS : ∀ p ∈ K.strings, D p.2)
    (hL : ∀ p ∈ K.labels, ∀ n ∈ p.2, D n) (hc : Conforms c.enc e f K) :
    ∃ b, parse c e f = .ok b ∧ Parsed e f K b ∧ ContentEq K (contentOf b) := by
  have ctx : Ctx c D e f K := ⟨hc, wf, hf, hS, hL⟩
  obtain ⟨b, hb, hp⟩ := Ser.parse_conforming ctx
  exact ⟨b, hb, hp, parsed_contentEq ctx hp⟩

/-- **`serialize` succeeds on every archive of the domain and its image conforms to the format**,
strings and c-strings mixed, both endiannesses. -/
theorem serialize_conforms (c : Codec) (D : Str → Prop) (a : BinArchive) (wf : ArchWF a)
    (hf : c.Faithful D) (dom : InDomain D a) (small : imageSize c a < 2 ^ 32) :
    ∃ f, serialize c a = .ok f ∧ f.length = imageSize c a ∧
      Conforms c.enc a.endian f (contentPlus c a) :=
  Ser.serialize_conforms c D a wf hf dom small

/-- **The serialized image is well-formed**: header totals exact (file size; data size including
the c-string pool; number of pointer-table entries = pointers + c-string uses + strings; number of
label entries), both tables inside the file, and the pointer and label tables start at offsets
`≡ 0 (mod 4)` whenever the data length is a multiple of 4 (the pool is padded).  That every table
entry and string resolves inside the file is part of `Conforms` (`serialize_conforms`):
`wordAt … = some _` and `StrAt` only hold inside the file. -/
theorem serialize_wellformed (c : Codec) (D : Str → Prop) (a : BinArchive) (wf : ArchWF a)
    (hf : c.Faithful D) (dom : InDomain D a) (small : imageSize c a < 2 ^ 32) :
    ∃ f, serialize c a = .ok f ∧
      wordAt a.endian f 0 = some f.length ∧
      wordAt a.endian f 4 = some (a.size + (cstrPool c a).length) ∧
      wordAt a.endian f 8 = some (archCells a).length ∧
      wordAt a.endian f 12 = some ((a.labels.map (·.2.length)).sum) ∧
      0x20 + (a.size + (cstrPool c a).length) + 4 * (archCells a).length
        + 8 * (a.labels.map (·.2.length)).sum ≤ f.length ∧
      (a.size % 4 = 0 →
        (0x20 + (a.size + (cstrPool c a).length)) % 4 = 0 ∧
        (0x20 + (a.size + (cstrPool c a).length) + 4 * (archCells a).length) % 4 = 0) := by
  obtain ⟨f, hs, _, hc⟩ := Ser.serialize_conforms c D a wf hf dom small
  have hd : (contentPlus c a).data.length = a.size + (cstrPool c a).length := by
    show (a.data ++ cstrPool c a).length = _
    rw [List.length_append]; rfl
  have hn : (contentPlus c a).cells.length = (archCells a).length := (contentPlus_cells_perm c a).length_eq
  refine ⟨f, hs, hc.hSize, ?_, ?_, hc.hLbls, ?_, ?_⟩
  · rw [← hd]; exact hc.hData
  · rw [← hn]; exact hc.hPtrs
  · have := hc.fits
    unfold Content.textStart at this
    rw [hd, hn] at this
    have hl : (contentPlus c a).labelCount = (a.labels.map (·.2.length)).sum := rfl
    rw [hl] at this
    omega
  · intro h4
    have := padTo4_length_mod ((cstrKeys c a).flatMap (entry c.enc))
    unfold cstrPool
    omega

/-- **serialize → parse gives back the archive**: the image re-parses (same endianness) to an
archive of the same size plus the pool (pool empty without c-strings) with
* the same raw bytes outside annotated cells (followed by the pool),
* the same string in every cell, the same pointer in every pointer cell and no pointer in a cell
  that had neither a pointer nor a c-string,
* `read_c_string` returning each pending c-string at each of its cells,
* the same labels at every address in the same order. -/
theorem parse_serialize (c : Codec) (D : Str → Prop) (a : BinArchive) (wf : ArchWF a)
    (hf : c.Faithful D) (dom : InDomain D a) (small : imageSize c a < 2 ^ 32) :
    ∃ f b, serialize c a = .ok f ∧ parse c a.endian f = .ok b ∧ b.endian = a.endian ∧
      b.size = a.size + (cstrPool c a).length ∧
      (∀ i, (∀ x ∈ archCells a, i < x ∨ x + 4 ≤ i) → b.data[i]? = (a.data ++ cstrPool c a)[i]?) ∧
      (∀ x, UMap.get b.text x = UMap.get a.text x) ∧
      (∀ p ∈ a.pointers, UMap.get b.pointers p.1 = some p.2) ∧
      (∀ x, (∀ p ∈ a.pointers, p.1 ≠ x) → (∀ q ∈ a.cstrings, x ∉ q.2) → UMap.get b.pointers x = none) ∧
      (∀ q ∈ a.cstrings, ∀ x ∈ q.2, readCString c b x = .ok (some q.1)) ∧
      (∀ x, (UMap.get b.labels x).getD [] = (UMap.get a.labels x).getD []) := by
  obtain ⟨f, b, hs, hb, hc, hp⟩ := Ser.parse_serialize c D a wf hf dom small
  have rt : RoundTrip c D a f b := ⟨wf, hf, dom, hc, hp⟩
  exact ⟨f, b, hs, hb, hp.endian, rt_size rt, fun i hi => rt_bytes rt i hi, rt_string rt,
    fun p hp => rt_pointer rt hp, fun x h1 h2 => rt_pointer_none rt h1 h2,
    fun q hq x hx => rt_cstring rt hq hx, rt_labels rt⟩

/-- **The `Faithful` hypothesis is met by the codec the driver executes**: the sub-codec `sjisSub`
(ASCII, half-width katakana, hiragana, full-width katakana, Greek, Cyrillic) encodes every NUL-free
string over its alphabet, of any length, without error and NUL-free, and decodes it back. -/
theorem sjisSub_faithful : sjisSub.Faithful Sjis.SubDomain := Mila.sjisSub_faithful

/-- The round trip, unconditionally in the codec, for the executable sub-codec: no assumption about
the text encoding remains (strings, labels and c-strings range over `Sjis.SubDomain`). -/
theorem parse_serialize_sjisSub (a : BinArchive) (wf : ArchWF a) (dom : InDomain Sjis.SubDomain a)
    (small : imageSize sjisSub a < 2 ^ 32) :
    ∃ f b, serialize sjisSub a = .ok f ∧ parse sjisSub a.endian f = .ok b ∧ b.endian = a.endian ∧
      b.size = a.size + (cstrPool sjisSub a).length ∧
      (∀ x, UMap.get b.text x = UMap.get a.text x) ∧
      (∀ p ∈ a.pointers, UMap.get b.pointers p.1 = some p.2) ∧
      (∀ q ∈ a.cstrings, ∀ x ∈ q.2, readCString sjisSub b x = .ok (some q.1)) ∧
      (∀ x, (UMap.get b.labels x).getD [] = (UMap.get a.labels x).getD []) := by
  obtain ⟨f, b, h1, h2, h3, h4, _, h6, h7, _, h9, h10⟩ :=
    parse_serialize sjisSub Sjis.SubDomain a wf sjisSub_faithful dom small
  exact ⟨f, b, h1, h2, h3, h4, h6, h7, h9, h10⟩

/-- Without pending c-strings nothing is appended: same size, and the accessors `read_string` /
`read_pointer` answer identically on the original and the re-parsed archive at every address. -/
theorem parse_serialize_no_cstrings (c : Codec) (D : Str → Prop) (a : BinArchive) (wf : ArchWF a)
    (hf : c.Faithful D) (dom : InDomain D a) (small : imageSize c a < 2 ^ 32)
    (hC : a.cstrings = []) :
    ∃ f b, serialize c a = .ok f ∧ parse c a.endian f = .ok b ∧ b.size = a.size ∧
      (∀ x, readString b x = readString a x) ∧ (∀ x, readPointer b x = readPointer a x) := by
  obtain ⟨f, b, hs, hb, hc, hp⟩ := Ser.parse_serialize c D a wf hf dom small
  have rt : RoundTrip c D a f b := ⟨wf, hf, dom, hc, hp⟩
  have hsz : b.size = a.size := by rw [rt_size rt, cstrPool_nil c a hC]; rfl
  refine ⟨f, b, hs, hb, hsz, ?_, ?_⟩
  · intro x
    unfold readString validateCell
    rw [hsz, rt_string rt x]
  · intro x
    have hptr : UMap.get b.pointers x = UMap.get a.pointers x := by
      cases hg : UMap.get a.pointers x with
      | some v =>
        have hm : (x, v) ∈ a.pointers :=
          (mem_iff_get (List.nodup_append.mp (List.nodup_append.mp (archCells_nodup wf)).1).1 (x, v)).mpr hg
        exact rt_pointer rt hm
      | none =>
        apply rt_pointer_none rt
        · exact (get_eq_none_iff a.pointers x).mp hg
        · intro q hq; rw [hC] at hq; cases hq
    unfold readPointer validateCell
    rw [hsz, hptr]

/-- **The driver's executable conformance oracle is sound**: whenever `conformsCheck` (the
decision procedure the `binser` stream runs on the implementation's images and on the spec-side
generator's foreign images) reports no violated clause, the declarative relation `Conforms` holds
— so an accepted image is one to which `parse_conforming` applies. -/
theorem oracle_sound (enc : Bytes → Option Bytes) (e : Endian) (f : Bytes) (K : Content)
    (h : conformsCheck enc e f K = none) : Conforms enc e f K :=
  conformsCheck_sound enc e f K h

/-- **The oracle is complete**: every image that conforms is accepted (no hypothesis on `K` is
needed: `Conforms` already says that every string present is encodable). -/
theorem oracle_complete (enc : Bytes → Option Bytes) (e : Endian) (f : Bytes) (K : Content)
    (h : Conforms enc e f K) : conformsCheck enc e f K = none :=
  conformsCheck_complete enc e f K h

/-- The executable checker the driver runs on the implementation's images *is* the declarative
relation. -/
theorem oracle_iff (enc : Bytes → Option Bytes) (e : Endian) (f : Bytes) (K : Content) :
    conformsCheck enc e f K = none ↔ Conforms enc e f K :=
  ⟨conformsCheck_sound enc e f K, conformsCheck_complete enc e f K⟩

/-- The oracle never raises a false alarm on a correct implementation: it accepts the image the
model of `serialize` produces for every archive of the domain (for the content `contentPlus`). -/
theorem oracle_accepts_serialize (c : Codec) (D : Str → Prop) (a : BinArchive) (wf : ArchWF a)
    (hf : c.Faithful D) (dom : InDomain D a) (small : imageSize c a < 2 ^ 32) :
    ∃ f, serialize c a = .ok f ∧ conformsCheck c.enc a.endian f (contentPlus c a) = none := by
  obtain ⟨f, hs, _, hc⟩ := Ser.serialize_conforms c D a wf hf dom small
  exact ⟨f, hs, conformsCheck_complete _ _ _ _ hc⟩

/-- **Closed-form bound on the image size** (the hypothesis `imageSize c a < 2^32` of the theorems
above, in terms of the archive's own numbers): header, data, padded c-string pool
(`poolBytes + 3`), four bytes per annotated cell, eight per label, and `|enc s| + 1` bytes
(`encLen`) per label name and string present (`textBytes`, with repetitions). -/
theorem imageSize_le (c : Codec) (a : BinArchive) (wf : ArchWF a) :
    imageSize c a ≤ 0x20 + a.size + (poolBytes c a + 3) + 4 * (archCells a).length
      + 8 * (a.labels.map (·.2.length)).sum + textBytes c a :=
  Ser.imageSize_le c a wf

/-- Less than 256 MiB of data, fewer than 2^20 annotations (cells + labels) and less than 256 MiB
of encoded text (c-strings, label names, strings) give an image smaller than 4 GiB. -/
theorem imageSize_small (c : Codec) (a : BinArchive) (wf : ArchWF a) (hsize : a.size < 2 ^ 28)
    (hcount : (archCells a).length + (a.labels.map (·.2.length)).sum < 2 ^ 20)
    (htext : poolBytes c a + textBytes c a < 2 ^ 28) : imageSize c a < 2 ^ 32 :=
  Ser.imageSize_small c a wf hsize hcount htext

/-! ### non-vacuity: a concrete archive of the domain (string + c-string + end label, the D1 shape) -/

/-- 8 data bytes, string `"hi"` at cell 0, pending c-string `"X"` at cell 4, label `"X"` at the
end address, little-endian. -/
def ex : BinArchive :=
  ⟨List.replicate 8 0, [(0, bs ['h', 'i'])], [], [(8, [bs ['X']])], [(bs ['X'], [4])], .little⟩

def exD (s : Str) : Prop := s = bs ['h', 'i'] ∨ s = bs ['X']

private theorem ex_faithful : sjisSub.Faithful exD := by
  rintro s (rfl | rfl)
  · exact ⟨bs ['h', 'i'], by decide, by decide, by decide⟩
  · exact ⟨bs ['X'], by decide, by decide, by decide⟩

private theorem ex_wf : ArchWF ex where
  inside := by decide
  disjoint := by decide
  targets := by decide
  labelKeys := by decide
  labelAddrs := by decide

private theorem ex_dom : InDomain exD ex where
  text := by intro p hp; simp [ex] at hp; subst hp; exact Or.inl rfl
  labels := by
    intro p hp n hn; simp [ex] at hp; subst hp; simp at hn; subst hn; exact Or.inr rfl
  cstrings := by intro p hp; simp [ex] at hp; subst hp; exact Or.inr rfl

private theorem ex_small : imageSize sjisSub ex < 2 ^ 32 := by
  have hs : cstrSorted sjisSub ex = [(bs ['X'], [4])] := by simp [cstrSorted, ex]
  have hk : cstrKeys sjisSub ex = [bs ['X']] := by rw [cstrKeys, hs]; decide
  have hpool : cstrPool sjisSub ex = [0x58, 0, 0, 0] := by rw [cstrPool, hk]; decide
  have hp : cstrPointers sjisSub ex = [(4, 8)] := by rw [cstrPointers, hs, hk]; decide
  have hc : contentPlus sjisSub ex =
      ⟨List.replicate 8 0 ++ [0x58, 0, 0, 0], [(0, bs ['h', 'i'])], [(4, 8)], [(8, [bs ['X']])]⟩ := by
    rw [contentPlus, hpool, hp]; rfl
  rw [imageSize, hc]
  simp only [canonical, canonTextStart, textSection, stored, labelEntries, sortedLabels, sortedStrings,
    ptrTable, sortedPointers, stringGroups, canonData, labelTable, ex, List.mergeSort_singleton]
  decide

/-- The hypotheses of the theorems above are satisfiable by a non-trivial archive, and the
round-trip conclusion holds of it. -/
example : ∃ f b, serialize sjisSub ex = .ok f ∧ parse sjisSub .little f = .ok b ∧
    readCString sjisSub b 4 = .ok (some (bs ['X'])) := by
  obtain ⟨f, b, hs, hb, _, _, _, _, _, _, hcs, _⟩ :=
    parse_serialize sjisSub exD ex ex_wf ex_faithful ex_dom ex_small
  exact ⟨f, b, hs, hb, hcs (bs ['X'], [4]) (by simp [ex]) 4 (by simp)⟩

end Mila.Props.C01
