/-
C16 — 3DS arc extraction returns exactly the packed files; the four error branches.

Property theorems only (helper lemmas live in `MilaModel/Lemmas/Arc.lean`).  The model
(`Mila.Arc`) transcribes `src/arc.rs` on top of the bin-archive model; the specification
(`Mila.Spec.Arc`) is written from the property statement and speaks about the *content* of a bin
archive: `ArcLemmas.contentOf a` = (data bytes, string cells, (address, label) pairs).

The arc layer is proved for an **arbitrary** archive `a` whose content satisfies the layout.  The
step from an image to its archive is property C01 (`parse` of a conforming bin image yields an
archive with the image's content); `arc_conforming_image` takes exactly that as the explicit
hypothesis `hC01`.  `ArcLemmas.padOf w = if w = 0 then 0x60 else 0` is the header padding the
format derives from the first data word `w`.
-/
import MilaModel.Model.Arc
import MilaModel.Spec.ArcImage
import MilaModel.Lemmas.Arc
import MilaModel.Lemmas.ComposeArc
import MilaModel.Lemmas.SerOracle

namespace Mila.Props.C16
open Mila Mila.Arc Mila.ArcLemmas
open Mila.Spec.Arc (Content u32le LowestLabel NoLabel StringsFunctional HeaderOk RecordAt BodyAt
  RangeLeaves FileOk ConformsArcAt ConformsArc DistinctNames padding)

/-- **Extraction clause** (both arithmetic profiles `p`).  For every little-endian archive whose
content conforms to the arc layout for `files` — with or without the 0x60-byte zero header,
records in any order, bodies anywhere (shared, overlapping, empty bodies at any offset), and also
tiny arcs without any body whose data region is shorter than a header — extraction returns one entry per record, keyed by its name, holding exactly the recorded range. -/
theorem arc_conforming (p : Profile) (a : BinArchive) (hle : a.endian = .little)
    {files : List (Str × Bytes)} {padded : Bool}
    (hc : ConformsArc (contentOf a) files padded) (hN : DistinctNames files) :
    fromArchive p a = .ok files := by
  obtain ⟨ca, ia, hsf, hcount, hinfo, hhead, hn, hfiles⟩ := hc
  obtain ⟨w, padded, hw, hpad, hfiles⟩ := header_fits_word _ files padded ia hhead hfiles
  obtain ⟨r1, r2, r3, r4⟩ := files_recs a padded ia files 0 (by simpa using hfiles)
  have t : TableOk a ca ia w (recsOfFiles a ia 0 files).length :=
    ⟨hle, hsf, hcount, hinfo, hw, by rw [r4]; exact hn⟩
  rw [fromArchive_records p a _ t r1, hpad]
  have hnames : (recsOfFiles a ia 0 files).map (·.1) = files.map (·.1) := by
    have := congrArg (List.map (·.1)) r3
    simpa [List.map_map, Function.comp_def] using this
  have hp60 : padding padded ≤ 0x60 := by rw [← hpad]; exact padOf_le w
  rw [extract_ok a (padding padded) ia hp60 _ 0 [] r2 (recsAt_bounded a ia _ 0 r1)
    (by simpa [hnames, DistinctNames] using hN), r3]
  simp

/-- The same for an image: `hC01` is property C01's conclusion for this image (the bin-archive
parser returns an archive `a`, whose content is then required to conform). -/
theorem arc_conforming_image (c : Codec) (p : Profile) (img : Bytes) (a : BinArchive)
    (hC01 : BinArchive.parse c .little img = .ok a)
    {files : List (Str × Bytes)} {padded : Bool}
    (hc : ConformsArc (contentOf a) files padded) (hN : DistinctNames files) :
    fromBytes c p img = .ok files := by
  simp only [fromBytes, hC01]
  exact arc_conforming p a (parse_endian c _ img a hC01) hc hN

/-- The layout relation is unambiguous: an archive conforms to the arc layout for at most one
ordered file list (whatever the padding flag), so "the files the archive holds" is well defined
independently of the reader. -/
theorem arc_conforming_unique (a : BinArchive) (hle : a.endian = .little)
    {files files' : List (Str × Bytes)} {padded padded' : Bool}
    (hc : ConformsArc (contentOf a) files padded) (hc' : ConformsArc (contentOf a) files' padded')
    (hN : DistinctNames files) (hN' : DistinctNames files') : files = files' := by
  have h1 := arc_conforming .checked a hle hc hN
  have h2 := arc_conforming .checked a hle hc' hN'
  have := h1.symm.trans h2
  injection this

/-- **No `Count` label** ⇒ `NoCount`, whatever else the archive holds. -/
theorem arc_no_count (p : Profile) (a : BinArchive) (h : NoLabel (contentOf a) Spec.Arc.COUNT) :
    fromArchive p a = .err .NoCount := by
  have : a.findLabelAddress COUNT = none := findLabel_none a _ h
  simp [fromArchive, this]

/-- **A `Count` label but no `Info` label** ⇒ `NoInfo`. -/
theorem arc_no_info (p : Profile) (a : BinArchive) (x : Nat)
    (hcount : (x, Spec.Arc.COUNT) ∈ (contentOf a).labels) (h : NoLabel (contentOf a) Spec.Arc.INFO) :
    fromArchive p a = .err .NoInfo := by
  obtain ⟨y, hy, _⟩ := findLabel_exists a _ x hcount
  have h1 : a.findLabelAddress COUNT = some y := hy
  have h2 : a.findLabelAddress INFO = none := findLabel_none a _ h
  simp [fromArchive, h1, h2]

/-- **A record without a name** ⇒ `MissingName`: the table announces `n` records, the records
`rs` before slot `rs.length < n` are readable, and the name cell of that slot lies inside the
data but is not a string cell. -/
theorem arc_missing_name (p : Profile) (a : BinArchive) (hle : a.endian = .little)
    (hsf : StringsFunctional (contentOf a)) {ca ia w n : Nat}
    (hcount : LowestLabel (contentOf a) Spec.Arc.COUNT ca)
    (hinfo : LowestLabel (contentOf a) Spec.Arc.INFO ia)
    (hw : u32le a.data 0 = some w) (hn : u32le a.data ca = some n)
    (rs : List (Str × Nat × Nat))
    (hrs : ∀ i, (hi : i < rs.length) → RecordAt (contentOf a) ia i rs[i].1 rs[i].2.1 rs[i].2.2)
    (hlt : rs.length < n) (hcell : ia + 16 * rs.length + 4 ≤ a.data.length)
    (hno : ∀ s, (ia + 16 * rs.length, s) ∉ (contentOf a).strings) :
    fromArchive p a = .err .MissingName :=
  fromArchive_missing_name p a rs ⟨hle, hsf, hcount, hinfo, hw, hn⟩
    (recsAt_of_forall a ia rs 0 (by simpa using hrs)) hlt hcell hno

/-- **A record whose range leaves the data region** ⇒ `OutOfBounds`: all `rs.length` records
(name, size, offset) are readable, those before record `i` have their range inside the data, and
the non-empty range of record `i` — computed in unbounded arithmetic, so offsets near 2^32 do not
wrap around — ends beyond the data. -/
theorem arc_out_of_range (p : Profile) (a : BinArchive) (hle : a.endian = .little)
    (hsf : StringsFunctional (contentOf a)) {ca ia w : Nat}
    (hcount : LowestLabel (contentOf a) Spec.Arc.COUNT ca)
    (hinfo : LowestLabel (contentOf a) Spec.Arc.INFO ia)
    (hw : u32le a.data 0 = some w) (rs : List (Str × Nat × Nat))
    (hn : u32le a.data ca = some rs.length)
    (hrs : ∀ i, (hi : i < rs.length) → RecordAt (contentOf a) ia i rs[i].1 rs[i].2.1 rs[i].2.2)
    (i : Nat) (hi : i < rs.length)
    (hbefore : ∀ j, (hj : j < i) →
      rs[j].2.1 = 0 ∨ rs[j].2.2 + padOf w + rs[j].2.1 ≤ a.data.length)
    (hleave : RangeLeaves (contentOf a) (rs[i].2.2 + padOf w) rs[i].2.1) :
    fromArchive p a = .err .OutOfBounds := by
  have hrs' := recsAt_of_forall a ia rs 0 (by simpa using hrs)
  have hbd := recsAt_bounded a ia rs 0 hrs'
  rw [fromArchive_records p a rs ⟨hle, hsf, hcount, hinfo, hw, hn⟩ hrs']
  have hsplit : rs = rs.take i ++ rs[i] :: rs.drop (i + 1) := by
    rw [← List.drop_eq_getElem_cons hi, List.take_append_drop]
  have hpre : ∀ r' ∈ rs.take i, InRange a (padOf w) r' := by
    intro r' hr'
    obtain ⟨j, hj, rfl⟩ := List.mem_iff_getElem.mp hr'
    have hj' : j < i := by simp at hj; omega
    rw [List.getElem_take]
    exact hbefore j hj'
  have hpreb : ∀ r' ∈ rs.take i, Bounded r' := fun r' hr' => hbd r' (List.mem_of_mem_take hr')
  rw [hsplit]
  exact extract_err a (padOf w) ia (padOf_le w) _ 0 [] _ _ hpre hpreb hleave.1 hleave.2

/-- **Totality**: extraction never panics — for every archive, every image and both profiles. -/
theorem arc_total (p : Profile) (a : BinArchive) : fromArchive p a ≠ .panic :=
  fromArchive_total p a

theorem arc_from_bytes_total (c : Codec) (p : Profile) (bytes : Bytes) : fromBytes c p bytes ≠ .panic := by
  unfold fromBytes
  split
  · exact fromArchive_total p _
  · simp
  · rename_i h; exact absurd h (parse_total c _ bytes)

/-- **Both profiles agree**: with overflow checks on or off the result is the same for every
image (after fix D9 the offset addition is done in `usize`, where it cannot overflow). -/
theorem arc_profile_independent (c : Codec) (bytes : Bytes) :
    fromBytes c .checked bytes = fromBytes c .wrapping bytes := by
  unfold fromBytes
  cases BinArchive.parse c .little bytes with
  | ok a => exact fromArchive_profile _ _ a
  | err e => rfl
  | panic => rfl

/-! ### non-vacuity -/

/-- An unpadded archive: count cell at 0 (non-zero first word), table at 4, two records — one
with a 3-byte body at offset 36, one empty file whose offset points far outside the data. -/
private def exA : BinArchive :=
  { data := leBytes 4 2
      ++ ([0, 0, 0, 0] ++ leBytes 4 7 ++ leBytes 4 3 ++ leBytes 4 36)
      ++ ([0, 0, 0, 0] ++ leBytes 4 9 ++ leBytes 4 0 ++ leBytes 4 0xFFFFFFF0)
      ++ [0x0A, 0x0B, 0x0C, 0]
    text := [(4, bs ['a']), (20, bs ['b'])]
    pointers := []
    labels := [(4, [bs ['I', 'n', 'f', 'o']]), (0, [bs ['X'], bs ['C', 'o', 'u', 'n', 't']]),
               (36, [bs ['C', 'o', 'u', 'n', 't']])]
    cstrings := []
    endian := .little }

private def exFiles : List (Str × Bytes) := [(bs ['a'], [0x0A, 0x0B, 0x0C]), (bs ['b'], [])]

/-- The hypotheses of `arc_conforming` are satisfiable (duplicate `Count` label at a higher
address, label sharing a bucket, empty file with an out-of-data offset), and the model returns
the files. -/
example : ConformsArcAt (contentOf exA) exFiles false 0 4 ∧ DistinctNames exFiles ∧
    fromArchive .checked exA = .ok exFiles := by
  refine ⟨by decide +kernel, by decide +kernel, by decide +kernel⟩

/-- A padded archive (0x60 zero bytes, then count, table, body): offsets are relative to the end
of the header. -/
private def exP : BinArchive :=
  { data := List.replicate 0x60 0 ++ leBytes 4 1
      ++ ([0, 0, 0, 0] ++ leBytes 4 0 ++ leBytes 4 2 ++ leBytes 4 20) ++ [0x11, 0x22, 0, 0]
    text := [(100, bs ['z'])]
    pointers := []
    labels := [(96, [bs ['C', 'o', 'u', 'n', 't']]), (100, [bs ['I', 'n', 'f', 'o']])]
    cstrings := []
    endian := .little }

example : ConformsArcAt (contentOf exP) [(bs ['z'], [0x11, 0x22])] true 96 100 ∧
    fromArchive .wrapping exP = .ok [(bs ['z'], [0x11, 0x22])] := by
  refine ⟨by decide +kernel, by decide +kernel⟩

/-- The empty unpadded arc — the count word 0 alone, `Info` on the (empty) table at the end of the
data — and a 12-byte arc of one empty file behind a zero first word conform (`HeaderFits`: no
file has a body, so no 0x60-byte header is needed although the first data word is 0), and
extraction returns the files in both profiles. -/
private def exE : BinArchive :=
  { data := [0, 0, 0, 0], text := [], pointers := [],
    labels := [(0, [bs ['C', 'o', 'u', 'n', 't']]), (4, [bs ['I', 'n', 'f', 'o']])],
    cstrings := [], endian := .little }

private def exE1 : BinArchive :=
  { data := [0, 0, 0, 0] ++ leBytes 4 1 ++ ([0, 0, 0, 0] ++ leBytes 4 0x80000000 ++ leBytes 4 0 ++ leBytes 4 0xFFFFFFFF)
    text := [(8, bs ['e'])], pointers := []
    labels := [(4, [bs ['C', 'o', 'u', 'n', 't']]), (8, [bs ['I', 'n', 'f', 'o'], bs ['e']])],
    cstrings := [], endian := .little }

example : ConformsArcAt (contentOf exE) [] false 0 4 ∧ fromArchive .checked exE = .ok [] ∧
    fromArchive .wrapping exE = .ok [] ∧
    ConformsArcAt (contentOf exE1) [(bs ['e'], [])] false 4 8 ∧
    fromArchive .checked exE1 = .ok [(bs ['e'], [])] := by
  refine ⟨by decide +kernel, by decide +kernel, by decide +kernel, by decide +kernel, by decide +kernel⟩

/-- The out-of-range hypotheses are satisfiable: the same padded archive with the offset
`0xFFFFFFF0`, which a 32-bit addition of the padding would wrap to `0x50` (defect D9). -/
private def exW : BinArchive :=
  { exP with data := List.replicate 0x60 0 ++ leBytes 4 1
      ++ ([0, 0, 0, 0] ++ leBytes 4 0 ++ leBytes 4 2 ++ leBytes 4 0xFFFFFFF0) ++ [0x11, 0x22, 0, 0] }

example : RangeLeaves (contentOf exW) (0xFFFFFFF0 + padOf 0) 2 ∧
    fromArchive .checked exW = .err .OutOfBounds ∧ fromArchive .wrapping exW = .err .OutOfBounds := by
  refine ⟨by decide +kernel, by decide +kernel, by decide +kernel⟩

/-! ### composition with C01: the hypothesis `hC01` discharged

`arc_conforming_image` asks for the archive the bin-archive parser returns; by property C01
(`Ser.parse_conforming`) that archive exists for **every** image that conforms
(`Spec.Image.Conforms`: tables in any order, strings anywhere in the text section, …) to a
well-formed content `K` over a faithful codec, and it has the content `K`.  The arc layout is
carried along (`Compose.conformsArc_parsed`).  `hraw`: `Conforms` says nothing about the bytes of
`K.data` inside annotated cells, while the arc reader reads the image's data block as stored; so
`K.data` has to record the stored words there as well (i.e. `K.data` *is* the data block of the
image; `Compose.hraw_of_slice`). -/

/-- **Extraction from any conforming image** (both profiles): if `img` is a conforming little-endian
bin image of the content `K` and `K` — seen as data, string cells and `(address, label)` pairs —
has the arc layout of `files`, then `arc::from_bytes img` returns exactly `files`. -/
theorem arc_conforming_image_unconditional (c : Codec) (D : Str → Prop) (hf : c.Faithful D)
    (p : Profile) (img : Bytes) (K : Spec.Image.Content) (wf : K.WF)
    (hS : ∀ q ∈ K.strings, D q.2) (hL : ∀ q ∈ K.labels, ∀ n ∈ q.2, D n)
    (hconf : Spec.Image.Conforms c.enc .little img K)
    (hraw : ∀ i, K.covered i → img[0x20 + i]? = K.data[i]?)
    {files : List (Str × Bytes)} {padded : Bool}
    (hc : ConformsArc (Compose.arcOf K) files padded) (hN : DistinctNames files) :
    fromBytes c p img = .ok files := by
  have ctx : Ser.Ctx c D .little img K := ⟨hconf, wf, hf, hS, hL⟩
  obtain ⟨b, hb, hp⟩ := Ser.parse_conforming ctx
  exact arc_conforming_image c p img b hb (Compose.conformsArc_parsed ctx hp hraw hc) hN

/-! Non-vacuity of the composed theorem: the image the bin-archive writer produces for `exA`
(identity codec; the 129 bytes are spelled out because `List.mergeSort` does not reduce in the
kernel), its content with the data block as stored, and the arc layout of `exFiles`. -/

private def idc : Codec := ⟨fun s => some s, id⟩

private def exImg : Bytes :=
  [129, 0, 0, 0, 40, 0, 0, 0, 2, 0, 0, 0, 4, 0, 0, 0, 0, 0, 0, 0, 0, 0, 0, 0, 0, 0, 0, 0, 0, 0, 0, 0,
   -- data block (string cells 4 and 20 hold text offsets 93 and 95)
   2, 0, 0, 0, 93, 0, 0, 0, 7, 0, 0, 0, 3, 0, 0, 0, 36, 0, 0, 0, 95, 0, 0, 0, 9, 0, 0, 0, 0, 0, 0, 0,
   240, 255, 255, 255, 10, 11, 12, 0,
   -- pointer table, label table
   4, 0, 0, 0, 20, 0, 0, 0,
   0, 0, 0, 0, 0, 0, 0, 0, 0, 0, 0, 0, 2, 0, 0, 0, 4, 0, 0, 0, 8, 0, 0, 0, 36, 0, 0, 0, 2, 0, 0, 0,
   -- text: "X", "Count", "Info", "a", "b"
   88, 0, 67, 111, 117, 110, 116, 0, 73, 110, 102, 111, 0, 97, 0, 98, 0]

private def exK : Spec.Image.Content :=
  ⟨BinArchive.slice exImg 0x20 exA.data.length, exA.text, [], exA.labels⟩

example : fromBytes idc .checked exImg = .ok exFiles ∧ fromBytes idc .wrapping exImg = .ok exFiles := by
  have hf : idc.Faithful (fun s => (0 : UInt8) ∉ s) := fun s hs => ⟨s, rfl, hs, rfl⟩
  have wf : exK.WF := ⟨by decide +kernel, by decide +kernel, by decide +kernel, by decide +kernel,
    by decide +kernel⟩
  have hconf : Spec.Image.Conforms idc.enc .little exImg exK :=
    Ser.conformsCheck_sound _ _ _ _ (by decide +kernel)
  have hraw := Compose.hraw_of_slice (f := exImg) wf (by decide +kernel)
  have hc : ConformsArc (Compose.arcOf exK) exFiles false := ⟨0, 4, by decide +kernel⟩
  exact ⟨arc_conforming_image_unconditional idc _ hf .checked exImg exK wf (by decide +kernel)
      (by decide +kernel) hconf hraw hc (by decide +kernel),
    arc_conforming_image_unconditional idc _ hf .wrapping exImg exK wf (by decide +kernel)
      (by decide +kernel) hconf hraw hc (by decide +kernel)⟩

end Mila.Props.C16
