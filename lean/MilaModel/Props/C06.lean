import MilaModel.Model.TextArchive
namespace Mila.Props.C06
theorem placeholder : True := trivial
end Mila.Props.C06
