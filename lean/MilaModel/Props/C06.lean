/-
C06 — Text archive round trip preserves title, key order and every message; every message starts
on a 4-byte boundary and carries its key as the label of that address.

Model: `Mila.TextArchive` (`src/text_archive.rs:8-25,56-115`, `src/encoded_strings.rs:35-61,73-111`)
over the shared bin-archive model.  `TextArchive::serialize` = `buildArchive` (the archive handed
to `BinArchive::serialize`, `:90-112`) followed by `BinArchive.serialize`; `from_bytes` =
`BinArchive.parse` followed by `fromArchive`.

What is proved here, for all titles / ordered lists of distinct keys / messages of the property's
domain, both formats and both endiannesses (no bound on sizes):
* `utf16_decode_encode` — the UTF-16 reader inverts the UTF-16 writer on all NUL-free Unicode text;
* `text_layout` — the built archive has the layout the property states (`Laid`);
* `text_roundtrip_archive` — `fromArchive` on the built archive (or on any archive with the same
  data region and label lookups) returns the title (UTF-16 format), the keys in order and every
  message, with the dirty flag clear;
* `fromArchive_depends_on_data_and_labels` — the layering lemma;
* `text_roundtrip_given_bin_roundtrip` — the round trip through bytes, **assuming** the bin-archive
  round trip (property C01, proved by its own family) as an explicit hypothesis.
The tie model ↔ Rust is the `text` correspondence stream (`c06.*` cases), whose oracle checks
the layout and the round trip on the real bytes with an independent reference reader.
-/
import MilaModel.Model.TextArchive
import MilaModel.Lemmas.TextUtf
import MilaModel.Lemmas.TextLayout
import MilaModel.Lemmas.ComposeBin
import MilaModel.Lemmas.SjisSub

namespace Mila.Props.C06
open Mila Mila.TextArchive Mila.BinArchive
open Mila.Lemmas Mila.Lemmas.TextLayout
open Mila.Lemmas.TextIndexMap (keysOf)

/-- The property's message domain: Shift-JIS-representable (`D`) text for the legacy format, any
NUL-free Unicode text — given by its scalar values — for the UTF-16 format. -/
def MsgDomain (D : Str → Prop) (f : TextFormat) (m : Str) : Prop :=
  match f with
  | .shiftJIS => D m
  | .unicode => ∃ cs, (∀ x ∈ cs, Utf.IsScalar x ∧ x ≠ 0) ∧ m = Utf.utf8Enc cs

/-- The quantifier of C06: distinct keys (an `IndexMap` has no others), a representable title when
the format stores one, messages in the format's domain. -/
structure InDomain (D : Str → Prop) (t : TextArchive) : Prop where
  keys_distinct : (keysOf t.entries).Nodup
  title : t.format = .unicode → D t.title
  messages : ∀ p ∈ t.entries, MsgDomain D t.format p.2

/-- What re-parsing must return: same title (UTF-16 format; the legacy format stores none), same
entries in the same order, dirty flag clear. -/
def expected (t : TextArchive) : TextArchive :=
  { t with
    title := match t.format with
      | .unicode => t.title
      | .shiftJIS => []
    dirty := false }

private theorem good_of_domain {c : Codec} {D : Str → Prop} (hc : c.Faithful D) {f : TextFormat}
    {m : Str} (h : MsgDomain D f m) : GoodMsg c f m := by
  cases f with
  | shiftJIS => exact hc m h
  | unicode => exact h

/-- **`decode (encode s) = s`** for every list of NUL-free Unicode scalar values (astral planes,
U+FEFF / U+FFFE first, …): `to_utf_16` yields the little-endian code units, the reader's pair loop
stops exactly at the terminator and `decode_without_bom_handling` returns the string, no error. -/
theorem utf16_decode_encode (cs : List Nat) (h : ∀ c ∈ cs, Utf.IsScalar c ∧ c ≠ 0) (rest : Bytes) :
    Utf.toUtf16 (Utf.utf8Enc cs) = .ok (Utf.utf16Bytes cs) ∧
    Utf.utf16Raw (Utf.utf16Bytes cs ++ 0 :: 0 :: rest) = some (Utf.utf16Bytes cs) ∧
    Utf.decodeUtf16 (Utf.utf16Bytes cs) = .ok (Utf.utf8Enc cs) :=
  let ⟨h1, h2, h3, _⟩ := TextUtf.utf16_roundtrip cs h rest
  ⟨h1, h2, h3⟩

/-- Offset of the first message: the padded title block in the UTF-16 format, 0 otherwise. -/
def firstOffset (c : Codec) (t : TextArchive) : Nat :=
  match t.format with
  | .unicode => (blockOf c .shiftJIS t.title).length
  | .shiftJIS => 0

private theorem alloc_write (e : Endian) (data : Bytes) :
    (if data.isEmpty then Res.ok ((BinArchive.new e).allocateAtEnd data.length)
      else ((BinArchive.new e).allocateAtEnd data.length).writeBytes 0 data) =
    .ok { BinArchive.new e with data := data } := by
  cases data with
  | nil => rfl
  | cons x xs =>
    simp only [List.isEmpty_cons, Bool.false_eq_true, if_false, BinArchive.writeBytes,
      allocateAtEnd, BinArchive.new, BinArchive.size, List.nil_append, List.length_replicate,
      validateAddress, Nat.zero_add]
    simp [patch]

/-- The archive the writer builds from a 4-aligned prefix `pre` (the title block, or nothing). -/
private def built (c : Codec) (f : TextFormat) (e : Endian) (pre : Bytes) (es : List (Str × Str)) :
    BinArchive :=
  { BinArchive.new e with
    data := pre ++ image c f es
    labels := (labelInfo c f pre.length es).map (fun p => (p.2, [p.1])) }

private theorem build_core (c : Codec) (f : TextFormat) (e : Endian) (pre : Bytes)
    (es : List (Str × Str)) (hpre : pre.length % 4 = 0) (hg : ∀ p ∈ es, GoodMsg c f p.2) :
    (match (if (pre ++ image c f es).isEmpty then
          Res.ok ((BinArchive.new e).allocateAtEnd (pre ++ image c f es).length)
        else ((BinArchive.new e).allocateAtEnd (pre ++ image c f es).length).writeBytes 0
          (pre ++ image c f es)) with
      | .ok archive => TextArchive.writeLabels archive (labelInfo c f pre.length es)
      | .err er => .err er
      | .panic => .panic) = .ok (built c f e pre es) ∧ Laid c f (built c f e pre es) pre.length es := by
  have hnd : ((labelInfo c f pre.length es).map (·.2)).Nodup := by
    rw [List.Nodup, List.pairwise_map]
    apply (labelInfo_sorted c f es pre.length).imp
    intro p q h; exact Nat.ne_of_lt h
  constructor
  · rw [alloc_write]
    simp only
    have hwl := writeLabels_fresh (labelInfo c f pre.length es)
      { BinArchive.new e with data := pre ++ image c f es }
      (by
        intro p hp
        have := (labelInfo_bounds c f es pre.length p hp).2.1
        show p.2 ≤ (pre ++ image c f es).length
        rw [List.length_append]
        omega)
      hnd (fun p _ => rfl)
    rw [hwl]
    simp [built, BinArchive.new]
  · apply laid_of_image c f (built c f e pre es) es hg pre rfl hpre
    intro p hp
    exact umap_get_info _ hnd p hp

/-- **Layout.** For every in-domain archive, `serialize` builds (`:90-112`) a bin archive without
strings, pointers or c-strings, with one label per entry, in which — starting after the padded
title block in the UTF-16 format — every message starts on a 4-byte boundary, the labels of that
address are exactly `[key]`, the message reads back, and the next message starts where that read
ends, up to the end of the data region (`Laid`). -/
theorem text_layout (c : Codec) (D : Str → Prop) (hc : c.Faithful D) (t : TextArchive)
    (hd : InDomain D t) :
    ∃ a, buildArchive c t = .ok a ∧
      a.text = [] ∧ a.pointers = [] ∧ a.cstrings = [] ∧ a.endian = t.endian ∧
      a.labels.map (fun p => p.2) = (keysOf t.entries).map (fun k => [k]) ∧
      (t.format = .unicode →
        Reader.readSjisAligned c a ⟨0⟩ = .ok (t.title, ⟨firstOffset c t⟩)) ∧
      Laid c t.format a (firstOffset c t) t.entries := by
  obtain ⟨title, entries, dirty, format, endian⟩ := t
  obtain ⟨hk, ht, hm⟩ := hd
  simp only at hk ht hm
  have hg : ∀ p ∈ entries, GoodMsg c format p.2 := fun p hp => good_of_domain hc (hm p hp)
  have hlab : ∀ off, ((labelInfo c format off entries).map (fun p => (p.2, [p.1]))).map (fun p => p.2)
      = (keysOf entries).map (fun k => [k]) := by
    intro off
    rw [← labelInfo_keys c format entries off]
    simp [List.map_map, Function.comp_def]
  cases format with
  | shiftJIS =>
    obtain ⟨hb, hl⟩ := build_core c .shiftJIS endian [] entries rfl hg
    refine ⟨built c .shiftJIS endian [] entries, ?_, rfl, rfl, rfl, rfl, hlab _,
      (fun h => by simp at h), hl⟩
    simp only [buildArchive, buildData]
    rw [writeEntries_good c .shiftJIS entries hg [] [] rfl]
    exact hb
  | unicode =>
    have hgt : GoodMsg c .shiftJIS title := hc title (ht rfl)
    have hpre : (blockOf c .shiftJIS title).length % 4 = 0 := blockOf_length_mod _ _ _
    obtain ⟨hb, hl⟩ := build_core c .unicode endian (blockOf c .shiftJIS title) entries hpre hg
    refine ⟨built c .unicode endian (blockOf c .shiftJIS title) entries, ?_, rfl, rfl, rfl, rfl,
      hlab _, fun _ => ?_, hl⟩
    · have hw : writeSjisString c [] title = .ok ([] ++ blockOf c .shiftJIS title) :=
        writeMessage_good c .shiftJIS [] title hgt rfl
      simp only [buildArchive, buildData, hw, List.nil_append]
      rw [writeEntries_good c .unicode entries hg _ [] hpre]
      exact hb
    · have := readMessage_block c .shiftJIS
        (built c .unicode endian (blockOf c .shiftJIS title) entries)
        [] (image c .unicode entries) title hgt (by simp [built]) rfl
      simpa [readMessage, firstOffset] using this

/-- The reader follows the layout: on any archive laid out as above `from_archive` returns the
title, the keys in order and every message. -/
private theorem fromArchive_of_laid (c : Codec) (t : TextArchive) (a : BinArchive)
    (hk : (keysOf t.entries).Nodup)
    (ht : t.format = .unicode → Reader.readSjisAligned c a ⟨0⟩ = .ok (t.title, ⟨firstOffset c t⟩))
    (hl : Laid c t.format a (firstOffset c t) t.entries) :
    fromArchive c a t.format t.endian = .ok (expected t) := by
  obtain ⟨title, entries, dirty, format, endian⟩ := t
  have hloop := fromLoop_of_laid c format a entries _ [] hl hk (fun _ _ h => by cases h)
  cases format with
  | shiftJIS =>
    simp only [firstOffset] at hloop
    simp [fromArchive, hloop, expected, TextArchive.new]
  | unicode =>
    have ht := ht rfl
    simp only at ht
    simp [fromArchive, ht, hloop, expected, TextArchive.new]

/-- **Round trip on the un-serialised archive, with layering built in.**  For every in-domain text
archive `t` (both formats, both endiannesses, the empty archive and empty messages included),
`serialize` builds a bin archive `a`, and `from_archive` on **any** bin archive `a'` that has the
same data region and the same labels at every address — in particular on `a` itself, and on the
re-parsed image of `a` by C01 — returns `t`'s title (UTF-16 format), keys in order and messages,
with the dirty flag clear. -/
theorem text_roundtrip_archive (c : Codec) (D : Str → Prop) (hc : c.Faithful D) (t : TextArchive)
    (hd : InDomain D t) :
    ∃ a, buildArchive c t = .ok a ∧
      ∀ a' : BinArchive, a'.data = a.data → (∀ x, UMap.get a'.labels x = UMap.get a.labels x) →
        fromArchive c a' t.format t.endian = .ok (expected t) := by
  obtain ⟨a, hb, _, _, _, _, _, ht, hl⟩ := text_layout c D hc t hd
  refine ⟨a, hb, fun a' hda hla => ?_⟩
  apply fromArchive_of_laid c t a' hd.keys_distinct
  · intro hu
    have := ht hu
    rw [← this]
    exact readMessage_congr c .shiftJIS a a' hda ⟨0⟩
  · exact laid_congr c t.format a a' hda hla t.entries _ hl

/-- **Layering lemma.** `from_archive` depends only on the data region and the label lookup of the
bin archive (not on strings, pointers, pending c-strings, nor on the order of the label map). -/
theorem fromArchive_depends_on_data_and_labels (c : Codec) (f : TextFormat) (e : Endian)
    (a a' : BinArchive) (hd : a'.data = a.data)
    (hl : ∀ x, UMap.get a'.labels x = UMap.get a.labels x) :
    fromArchive c a' f e = fromArchive c a f e :=
  fromArchive_congr c f e a a' hd hl

/-- **Round trip through bytes, relative to the bin-archive round trip.**  Assumes, as an explicit
hypothesis, the instance of property C01 for the archive `serialize` builds: its image parses back
(same endianness) to an archive with the same data region and the same labels at every address.
Under that hypothesis `from_bytes (serialize t) = t` (title in the UTF-16 format, keys in order,
messages; dirty flag clear). -/
theorem text_roundtrip_given_bin_roundtrip (c : Codec) (D : Str → Prop) (hc : c.Faithful D)
    (t : TextArchive) (hd : InDomain D t)
    (hC01 : ∀ a, buildArchive c t = .ok a →
      ∃ bytes a', BinArchive.serialize c a = .ok bytes ∧ BinArchive.parse c t.endian bytes = .ok a' ∧
        a'.data = a.data ∧ ∀ x, UMap.get a'.labels x = UMap.get a.labels x) :
    ∃ bytes, TextArchive.serialize c t = .ok bytes ∧
      TextArchive.fromBytes c bytes t.format t.endian = .ok (expected t) := by
  obtain ⟨a, hb, hrt⟩ := text_roundtrip_archive c D hc t hd
  obtain ⟨bytes, a', hs, hp, hda, hla⟩ := hC01 a hb
  refine ⟨bytes, ?_, ?_⟩
  · simp [TextArchive.serialize, hb, hs]
  · simp only [TextArchive.fromBytes, hp]
    exact hrt a' hda hla

/-- Outside the domain the writer fails cleanly: a message (or title) the codec cannot encode makes
`serialize` return `EncodingFailed`; the data stage never panics. -/
theorem buildData_no_panic (c : Codec) (t : TextArchive) : buildData c t ≠ .panic := by
  have hw : ∀ f bytes s, writeMessage c f bytes s ≠ .panic := by
    intro f bytes s
    cases f with
    | shiftJIS => simp only [writeMessage, writeSjisString]; split <;> simp
    | unicode =>
      simp only [writeMessage, writeUtf16String, Utf.toUtf16]
      cases Utf.utf8Dec s <;> simp
  have he : ∀ f es bytes info, writeEntries c f bytes info es ≠ .panic := by
    intro f es
    induction es with
    | nil => intro bytes info; simp [writeEntries]
    | cons p ps ih =>
      intro bytes info
      obtain ⟨k, v⟩ := p
      simp only [writeEntries]
      have := hw f bytes v
      split
      · exact ih _ _
      · simp
      · rename_i h; exact absurd h this
  unfold buildData
  split
  · have := hw .shiftJIS [] t.title
    simp only [writeMessage] at this
    split
    · exact he _ _ _ _
    · simp
    · rename_i h; exact absurd h this
  · exact he _ _ _ _

/-! ### non-vacuity -/

/-- The identity codec is faithful on NUL-free strings, so the hypotheses of the theorems are
satisfiable, e.g. by an archive with a title and two entries (one empty message, one astral). -/
example :
    let c : Codec := ⟨fun s => some s, id⟩
    let D : Str → Prop := fun s => (0 : UInt8) ∉ s
    c.Faithful D ∧
    InDomain D ⟨[84], [([97], []), ([98], Utf.utf8Enc [0x1F600, 0xFEFF])], true, .unicode, .big⟩ ∧
    InDomain D ⟨[], [], false, .shiftJIS, .little⟩ := by
  refine ⟨fun s hs => ⟨s, rfl, hs, rfl⟩,
    { keys_distinct := by decide, title := fun _ => by decide, messages := ?_ },
    { keys_distinct := by decide, title := fun h => by simp at h, messages := by simp }⟩
  intro p hp
  simp only [List.mem_cons, List.mem_nil_iff, or_false] at hp
  rcases hp with rfl | rfl
  · exact ⟨[], by simp, rfl⟩
  · exact ⟨[0x1F600, 0xFEFF], by decide, rfl⟩

/-- The explicit hypothesis of `text_roundtrip_given_bin_roundtrip` is satisfiable: for concrete
one-entry archives (UTF-16 big-endian with a title; legacy little-endian) and the empty archive the bin-archive
model's `serialize` / `parse` do return an archive with the same data region and labels
(evaluated in the kernel). -/
private def binRoundTripHolds (c : Codec) (t : TextArchive) : Bool :=
  match buildArchive c t with
  | .ok a =>
    match a.serialize c with
    | .ok bytes =>
      match BinArchive.parse c t.endian bytes with
      | .ok a' => a'.data == a.data && a'.labels == a.labels
      | _ => false
    | _ => false
  | _ => false

example :
    let c : Codec := ⟨fun s => some s, id⟩
    binRoundTripHolds c ⟨[84], [([107], [104, 105])], false, .unicode, .big⟩ = true ∧
    binRoundTripHolds c ⟨[], [([107, 49], [121, 122, 122, 122])], false, .shiftJIS, .little⟩ = true ∧
    binRoundTripHolds c ⟨[], [], false, .shiftJIS, .big⟩ = true := by
  decide +kernel

/-! ### composition with C01: the hypothesis `hC01` discharged

The archive `serialize` builds consists of data and labels only (no string, pointer or c-string
cell), one single-name bucket per message address, addresses strictly ascending inside the data: it
is in C01's quantifier, so `C01.parse_serialize` applies and — no cell being annotated — the whole
data block and every label bucket survive.  Besides C06's own domain the composed theorem needs the
*keys* to be representable (they are stored as label names in the archive's Shift-JIS text section,
whatever the message format) and the 32-bit format's size limit on the image. -/

/-- The archive `serialize` builds, explicitly. -/
private theorem buildArchive_eq (c : Codec) (D : Str → Prop) (hc : c.Faithful D) (t : TextArchive)
    (hd : InDomain D t) :
    ∃ pre, pre.length % 4 = 0 ∧
      buildArchive c t = .ok (built c t.format t.endian pre t.entries) := by
  obtain ⟨title, entries, dirty, format, endian⟩ := t
  obtain ⟨hk, ht, hm⟩ := hd
  simp only at hk ht hm
  have hg : ∀ p ∈ entries, GoodMsg c format p.2 := fun p hp => good_of_domain hc (hm p hp)
  cases format with
  | shiftJIS =>
    obtain ⟨hb, _⟩ := build_core c .shiftJIS endian [] entries rfl hg
    refine ⟨[], rfl, ?_⟩
    simp only [buildArchive, buildData]
    rw [writeEntries_good c .shiftJIS entries hg [] [] rfl]
    exact hb
  | unicode =>
    have hgt : GoodMsg c .shiftJIS title := hc title (ht rfl)
    have hpre : (blockOf c .shiftJIS title).length % 4 = 0 := blockOf_length_mod _ _ _
    obtain ⟨hb, _⟩ := build_core c .unicode endian (blockOf c .shiftJIS title) entries hpre hg
    refine ⟨blockOf c .shiftJIS title, hpre, ?_⟩
    have hw : writeSjisString c [] title = .ok ([] ++ blockOf c .shiftJIS title) :=
      writeMessage_good c .shiftJIS [] title hgt rfl
    simp only [buildArchive, buildData, hw, List.nil_append]
    rw [writeEntries_good c .unicode entries hg _ [] hpre]
    exact hb

private theorem built_archWF (c : Codec) (f : TextFormat) (e : Endian) (pre : Bytes)
    (es : List (Str × Str)) : Ser.ArchWF (built c f e pre es) where
  inside := by intro x hx; simp [Ser.archCells, built, BinArchive.new] at hx
  disjoint := by simp [Ser.archCells, built, BinArchive.new]
  targets := by intro p hp; simp [built, BinArchive.new] at hp
  labelKeys := by
    show (((labelInfo c f pre.length es).map (fun p => (p.2, [p.1]))).map (·.1)).Nodup
    rw [List.map_map, List.Nodup, List.pairwise_map]
    apply (labelInfo_sorted c f es pre.length).imp
    intro p q h; exact Nat.ne_of_lt h
  labelAddrs := by
    intro p hp
    obtain ⟨q, hq, rfl⟩ := List.mem_map.mp (show p ∈ (labelInfo c f pre.length es).map _ from hp)
    have := (labelInfo_bounds c f es pre.length q hq).2.1
    show q.2 ≤ (pre ++ image c f es).length
    rw [List.length_append]; omega

private theorem built_inDomain (c : Codec) (D : Str → Prop) (f : TextFormat) (e : Endian) (pre : Bytes)
    (es : List (Str × Str)) (hkeys : ∀ k ∈ keysOf es, D k) : Ser.InDomain D (built c f e pre es) where
  text := by intro p hp; simp [built, BinArchive.new] at hp
  labels := by
    intro p hp n hn
    obtain ⟨q, hq, rfl⟩ := List.mem_map.mp (show p ∈ (labelInfo c f pre.length es).map _ from hp)
    simp only [List.mem_singleton] at hn
    subst hn
    apply hkeys
    rw [← labelInfo_keys c f es pre.length]
    exact List.mem_map_of_mem hq
  cstrings := by intro p hp; simp [built, BinArchive.new] at hp

/-- **C01 instantiated** at the archive `serialize` builds: its image parses back (same endianness)
to an archive with the same data block and the same labels at every address. -/
theorem text_bin_roundtrip (c : Codec) (D : Str → Prop) (hc : c.Faithful D) (t : TextArchive)
    (hd : InDomain D t) (hkeys : ∀ k ∈ keysOf t.entries, D k) :
    ∀ a, buildArchive c t = .ok a → Ser.imageSize c a < 2 ^ 32 →
      ∃ bytes a', BinArchive.serialize c a = .ok bytes ∧ BinArchive.parse c t.endian bytes = .ok a' ∧
        a'.data = a.data ∧ ∀ x, UMap.get a'.labels x = UMap.get a.labels x := by
  intro a ha small
  obtain ⟨pre, _, hb⟩ := buildArchive_eq c D hc t hd
  rw [ha] at hb
  cases hb
  have wf := built_archWF c t.format t.endian pre t.entries
  have dom := built_inDomain c D t.format t.endian pre t.entries hkeys
  obtain ⟨bytes, b, hs, hp, hconf, hpar⟩ :=
    Ser.parse_serialize c D _ wf hc dom small
  have rt : Ser.RoundTrip c D (built c t.format t.endian pre t.entries) bytes b :=
    ⟨wf, hc, dom, hconf, hpar⟩
  refine ⟨bytes, b, hs, hp, Compose.data_eq_of_roundTrip rt rfl rfl rfl,
    Compose.rt_labels_get rt ?_⟩
  intro p hp'
  obtain ⟨q, _, rfl⟩ := List.mem_map.mp (show p ∈ (labelInfo c t.format pre.length t.entries).map _ from hp')
  simp

/-- **Round trip through bytes, unconditional**: for every in-domain text archive whose keys are
representable and whose image stays below 4 GiB, `serialize` succeeds and
`from_bytes (serialize t) = t` (title in the UTF-16 format, keys in order, every message; dirty flag
clear) — both formats, both endiannesses. -/
theorem text_roundtrip (c : Codec) (D : Str → Prop) (hc : c.Faithful D) (t : TextArchive)
    (hd : InDomain D t) (hkeys : ∀ k ∈ keysOf t.entries, D k)
    (small : ∀ a, buildArchive c t = .ok a → Ser.imageSize c a < 2 ^ 32) :
    ∃ bytes, TextArchive.serialize c t = .ok bytes ∧
      TextArchive.fromBytes c bytes t.format t.endian = .ok (expected t) :=
  text_roundtrip_given_bin_roundtrip c D hc t hd
    (fun a ha => text_bin_roundtrip c D hc t hd hkeys a ha (small a ha))

/-- Consequently serialisation loses nothing that `from_bytes` reports: two archives of the domain
with the same format and byte order that serialise to the same bytes have the same title (UTF-16
format), the same keys in the same order and the same messages. -/
theorem text_serialize_injective (c : Codec) (D : Str → Prop) (hc : c.Faithful D)
    (t t' : TextArchive) (hd : InDomain D t) (hd' : InDomain D t')
    (hkeys : ∀ k ∈ keysOf t.entries, D k) (hkeys' : ∀ k ∈ keysOf t'.entries, D k)
    (small : ∀ a, buildArchive c t = .ok a → Ser.imageSize c a < 2 ^ 32)
    (small' : ∀ a, buildArchive c t' = .ok a → Ser.imageSize c a < 2 ^ 32)
    (hf : t.format = t'.format) (he : t.endian = t'.endian)
    (h : TextArchive.serialize c t = TextArchive.serialize c t') : expected t = expected t' := by
  obtain ⟨b, hs, hr⟩ := text_roundtrip c D hc t hd hkeys small
  obtain ⟨b', hs', hr'⟩ := text_roundtrip c D hc t' hd' hkeys' small'
  have e : b = b' := by have := hs.symm.trans (h.trans hs'); injection this
  subst e
  rw [hf, he] at hr
  have := hr.symm.trans hr'
  injection this

/-- The round trip with no assumption about the text encoding left: the executable sub-codec
`sjisSub` is faithful on its whole alphabet (`Mila.sjisSub_faithful`). -/
theorem text_roundtrip_sjisSub (t : TextArchive) (hd : InDomain Sjis.SubDomain t)
    (hkeys : ∀ k ∈ keysOf t.entries, Sjis.SubDomain k)
    (small : ∀ a, buildArchive sjisSub t = .ok a → Ser.imageSize sjisSub a < 2 ^ 32) :
    ∃ bytes, TextArchive.serialize sjisSub t = .ok bytes ∧
      TextArchive.fromBytes sjisSub bytes t.format t.endian = .ok (expected t) :=
  text_roundtrip sjisSub Sjis.SubDomain Mila.sjisSub_faithful t hd hkeys small

/-- Non-vacuity of `text_roundtrip`: all its hypotheses hold of a concrete UTF-16 big-endian archive
with a title and one entry, over the identity codec on NUL-free strings (the size of the image is
evaluated in the kernel). -/
example :
    let c : Codec := ⟨fun s => some s, id⟩
    let D : Str → Prop := fun s => (0 : UInt8) ∉ s
    let t : TextArchive := ⟨[84], [([107], [104, 105])], false, .unicode, .big⟩
    c.Faithful D ∧ InDomain D t ∧ (∀ k ∈ keysOf t.entries, D k) ∧
      ∀ a, buildArchive c t = .ok a → Ser.imageSize c a < 2 ^ 32 := by
  refine ⟨fun s hs => ⟨s, rfl, hs, rfl⟩,
    { keys_distinct := by decide, title := fun _ => by decide, messages := ?_ }, by decide, ?_⟩
  · intro p hp
    simp only [List.mem_cons, List.mem_nil_iff, or_false] at hp
    subst hp
    exact ⟨[104, 105], by decide, by decide +kernel⟩
  · intro a ha
    have h : (match buildArchive (⟨fun s => some s, id⟩ : Codec)
          ⟨[84], [([107], [104, 105])], false, .unicode, .big⟩ with
        | .ok a => decide (Ser.imageSize ⟨fun s => some s, id⟩ a < 2 ^ 32)
        | _ => false) = true := by decide +kernel
    rw [ha] at h
    simpa using h

end Mila.Props.C06
