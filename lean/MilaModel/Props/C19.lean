/-
C19 — Pixel decoding matches the hardware formats.

Model: `Mila.Pixel` / `Mila.Etc1` (`Model/Pixel.lean`, `Model/Etc1.lean`: transcriptions of
`src/texture_decoder.rs`, `src/etc1.rs`, `src/pixel_encodings.rs`, `src/texture_utils.rs` and the size
tables of `src/tpl.rs`).  Specification: `Mila.Spec.Morton` (Z-order / block placement),
`Mila.Spec.Linear` (channel layouts, linear expansion within one quantisation step),
`Mila.Spec.Etc1` (Khronos ETC1 rules) — none of them mentions the model.
Helper lemmas (loop invariants, finite tables) live in `MilaModel/Lemmas/Pixel*.lean`.
The tie model ↔ Rust is the `pixel` correspondence stream (both cargo profiles).

Domain hypotheses: sides are powers of two from 8 up (`PowerOfTwoFrom8`) and below 2^16 (the
containers store 16-bit sides; the property's own range 8…128 is inside), the payload has exactly
the size the format requires.  All statements hold for both arithmetic profiles `p`.
-/
import MilaModel.Lemmas.PixelDecode
import MilaModel.Lemmas.PixelEtcRules
import MilaModel.Lemmas.PixelCi8
import MilaModel.Spec.Linear

namespace Mila.Props.C19
open Mila Mila.Pixel Mila.Spec.Linear Mila.Spec.Morton

/-! ### placement -/

/-- The literal `TILE_ORDER` table is the Z-order (Morton) curve of the 8×8 tile: entry `i` is the
row-major position `y*8 + x` of the texel whose Morton index is `i`. -/
theorem tile_is_morton : ∀ i, i < 64 →
    TILE_ORDER.getD i 0 = mortonY i * 8 + mortonX i := by
  decide

private theorem leAt_eq (d : Buf) (pos n : Nat) : leAt d pos n = d.leN pos n := by
  induction n generalizing pos with
  | zero => rfl
  | succ n ih => simp only [leAt, Buf.leN, Buf.byteAt, ih]

private theorem layout_fixed {fmt : Nat} {l : Layout} (hl : layout fmt = some l) :
    FixedFmt fmt ∧ l.bytes = texelBytes fmt := by
  unfold layout at hl
  split at hl <;> simp only [Option.some.injEq, reduceCtorEq] at hl <;> subst hl <;>
    simp [FixedFmt, texelBytes]

private theorem pow2_mod8 {n : Nat} (h : PowerOfTwoFrom8 n) : n % 8 = 0 := Etc1.pow2_mod8 h

/-- **Pixel placement, tiled formats** (RGBA8, RGBA5551, RGB565, RGBA4, LA8, L8, A8).  For every
power-of-two size from 8 up and a payload of exactly the required size the decoder succeeds, returns
`width × height` RGBA pixels, and the pixel at `(x, y)` is the colour `decodeColor` makes of the
texel stored at the Z-order offset `tileOffset width x y` — an unbounded statement (all sizes). -/
theorem decode_pixel (p : Profile) (data : Buf) (w h fmt : Nat) (l : Layout)
    (hl : layout fmt = some l) (hw : PowerOfTwoFrom8 w) (hh : PowerOfTwoFrom8 h)
    (hwb : w < 2 ^ 16) (hhb : h < 2 ^ 16) (hd : data.size = l.bytes * (w * h)) :
    ∃ bmp, decodePixelData p data w h fmt = .ok bmp ∧ bmp.size = 4 * (w * h) ∧
      ∀ x y c, x < w → y < h → c < 4 →
        bmp.getD ((y * w + x) * 4 + c) 0 =
          chanByte (decodeColor (leAt data (tileOffset w x y * l.bytes) l.bytes) fmt) c := by
  obtain ⟨hfix, hbytes⟩ := layout_fixed hl
  have hle : fmt ≤ 11 := by rcases hfix with h | h | h | h | h | h | h | h | h <;> omega
  obtain ⟨bmp, hb, hsz, hpx⟩ := decodeRgba_ok p data w h fmt hfix (pow2_mod8 hw) (pow2_mod8 hh) hwb hhb
    (by rw [hd, hbytes])
  refine ⟨bmp, by rw [decodePixelData_tiled p _ _ _ _ hle, hb], by rw [hsz, Nat.mul_comm h w], ?_⟩
  intro x y c hx hy hc
  rw [hpx x y c hx hy hc, expByte, leAt_eq, hbytes]

/-- **Channel expansion.** Every channel that the format stores is within one quantisation step
of the linear expansion of its source bits (RGBA8/LA8/L8/A8 and RGBA4 channels are exact, 5- and
6-bit channels are off by at most 7 resp. 3); `decide` over all values of each channel width,
lifted to all texel values by the bit-field form of `decodeColor`. -/
theorem channel_linear (fmt : Nat) (l : Layout) (value : Nat) (hl : layout fmt = some l) :
    pixelOk l value (decodeColor value fmt).r (decodeColor value fmt).g (decodeColor value fmt).b
      (decodeColor value fmt).a := by
  have conv5_lin : ∀ v, v < 32 → withinStep 5 v (conv5 v) := by decide
  have exp4_lin : ∀ v, v < 16 → withinStep 4 v (exp4 v) := by decide
  have h5 : ∀ s, withinStep 5 (value / 2 ^ s % 2 ^ 5) (conv5 (value / 2 ^ s % 32)) := fun s =>
    conv5_lin _ (Nat.mod_lt _ (by decide))
  have h4 : ∀ s, withinStep 4 (value / 2 ^ s % 2 ^ 4) (exp4 (value / 2 ^ s % 16)) := fun s =>
    exp4_lin _ (Nat.mod_lt _ (by decide))
  unfold layout at hl
  split at hl <;> simp only [Option.some.injEq, reduceCtorEq] at hl <;> subst hl <;>
    simp only [decodeColor, pixelOk, chanOk]
  · simp only [withinStep, Nat.pow_zero, Nat.div_one, Nat.reducePow, Nat.reduceSub]; omega
  · refine ⟨h5 11, h5 6, h5 1, ?_⟩
    simp only [withinStep, Nat.pow_zero, Nat.div_one, Nat.reducePow, Nat.reduceSub]
    split <;> omega
  · refine ⟨h5 11, ?_, by simpa using h5 0, trivial⟩
    simp only [withinStep, Nat.reducePow, Nat.reduceSub]; omega
  · exact ⟨h4 12, h4 8, h4 4, by simpa using h4 0⟩
  · simp only [withinStep, Nat.pow_zero, Nat.div_one, Nat.reducePow, Nat.reduceSub]; omega
  · refine ⟨?_, ?_, ?_, trivial⟩ <;> (simp only [withinStep, Nat.pow_zero, Nat.div_one, Nat.reducePow, Nat.reduceSub]; omega)
  · simp only [withinStep, Nat.pow_zero, Nat.div_one, Nat.reducePow, Nat.reduceSub]; omega

private theorem chan_lt (fmt value : Nat) (l : Layout) (hl : layout fmt = some l) (c : Nat) :
    (decodeColor value fmt).chan c < 256 := by
  obtain ⟨⟨h1, _⟩, ⟨h2, _⟩, ⟨h3, _⟩, h4⟩ :
      ((decodeColor value fmt).r ≤ 255 ∧ True) ∧ ((decodeColor value fmt).g ≤ 255 ∧ True) ∧
      ((decodeColor value fmt).b ≤ 255 ∧ True) ∧ (decodeColor value fmt).a ≤ 255 := by
    have := channel_linear fmt l value hl
    unfold pixelOk at this
    obtain ⟨hr, hg, hb, ha⟩ := this
    have le_of : ∀ s c, chanOk s value c → c ≤ 255 := by
      intro s c h; cases s <;> simp only [chanOk, withinStep] at h <;> omega
    exact ⟨⟨le_of _ _ hr, trivial⟩, ⟨le_of _ _ hg, trivial⟩, ⟨le_of _ _ hb, trivial⟩, le_of _ _ ha⟩
  unfold Rgba.chan
  split <;> omega

private theorem chanByte_toNat (c : Rgba) (j : Nat) (h : c.chan j < 256) : (chanByte c j).toNat = c.chan j := by
  simp only [chanByte, UInt8.toNat_ofNat']
  omega

/-- **The property's first clause for the tiled formats**, on output bytes: the four bytes at
pixel `(x, y)` are an admissible rendering (specification `pixelOk`) of the texel value at the
Z-order offset of `(x, y)`. -/
theorem decode_pixel_spec (p : Profile) (data : Buf) (w h fmt : Nat) (l : Layout)
    (hl : layout fmt = some l) (hw : PowerOfTwoFrom8 w) (hh : PowerOfTwoFrom8 h)
    (hwb : w < 2 ^ 16) (hhb : h < 2 ^ 16) (hd : data.size = l.bytes * (w * h)) :
    ∃ bmp, decodePixelData p data w h fmt = .ok bmp ∧ bmp.size = 4 * (w * h) ∧
      ∀ x y, x < w → y < h →
        pixelOk l (leAt data (tileOffset w x y * l.bytes) l.bytes)
          (bmp.getD ((y * w + x) * 4) 0).toNat (bmp.getD ((y * w + x) * 4 + 1) 0).toNat
          (bmp.getD ((y * w + x) * 4 + 2) 0).toNat (bmp.getD ((y * w + x) * 4 + 3) 0).toNat := by
  obtain ⟨bmp, hb, hsz, hpx⟩ := decode_pixel p data w h fmt l hl hw hh hwb hhb hd
  refine ⟨bmp, hb, hsz, ?_⟩
  intro x y hx hy
  have h0 := hpx x y 0 hx hy (by omega)
  have h1 := hpx x y 1 hx hy (by omega)
  have h2 := hpx x y 2 hx hy (by omega)
  have h3 := hpx x y 3 hx hy (by omega)
  rw [Nat.add_zero] at h0
  rw [h0, h1, h2, h3, chanByte_toNat _ _ (chan_lt fmt _ l hl 0), chanByte_toNat _ _ (chan_lt fmt _ l hl 1),
    chanByte_toNat _ _ (chan_lt fmt _ l hl 2), chanByte_toNat _ _ (chan_lt fmt _ l hl 3)]
  exact channel_linear fmt l _ hl

/-! ### ETC1 -/

/-- **ETC1 rules.** On every legal block (differential sums within 0…31) and every texel the
model's colour is exactly the colour of the Khronos decoding rules: individual / differential base
colours, 3-bit signed deltas, modifier table, MSB/LSB selector meaning, flip bit, column-major
texel index, clamping. -/
theorem etc1_rules (alphas word x y : Nat) (hx : x < 4) (hy : y < 4) (hl : Spec.Etc1.Legal word)
    (ch : Nat) (hch : ch < 3) :
    (((Etc1.texel alphas word x y).chan ch : Nat) : Int) = Spec.Etc1.channel word x y ch :=
  Etc1.texel_rules alphas word x y hx hy hl ch hch

/-- **ETC1A4 alpha.** The alpha of texel `(x, y)` is its 4-bit nibble times 17 — the exact linear
expansion, in particular within one step. -/
theorem etc1a4_alpha (alphas word x y : Nat) :
    (Etc1.texel alphas word x y).a = Spec.Etc1.alphaNibble alphas x y * 17 ∧
    withinStep 4 (Spec.Etc1.alphaNibble alphas x y) (Etc1.texel alphas word x y).a := by
  have hn : Spec.Etc1.alphaNibble alphas x y < 16 := Nat.mod_lt _ (by decide)
  have he : (Etc1.texel alphas word x y).a = Spec.Etc1.alphaNibble alphas x y * 17 := by
    simp only [Etc1.texel, Spec.Etc1.alphaNibble, Nat.mul_comm (x * 4 + y) 4]
    omega
  refine ⟨he, ?_⟩
  rw [he]; unfold withinStep; omega

private theorem etc_area {w h : Nat} (hw : w % 8 = 0) (hh : h % 8 = 0) : w * h = 64 * (h / 8 * (w / 8)) := by
  have e1 : w = w / 8 * 8 := by omega
  have e2 : h = h / 8 * 8 := by omega
  calc w * h = (w / 8 * 8) * (h / 8 * 8) := by rw [← e1, ← e2]
    _ = 64 * (h / 8 * (w / 8)) := by
      rw [Nat.mul_mul_mul_comm, Nat.mul_comm (w / 8) (h / 8), Nat.mul_comm]

/-- **Pixel placement, ETC1 / ETC1A4.** For every power-of-two size from 8 up and a payload of
exactly the required size (4 resp. 8 bits per pixel) the decoder succeeds and pixel `(x, y)` is
texel `(x % 4, y % 4)` of block number `etcBlock width x y` (8×8 tiles of 2×2 blocks). -/
theorem decode_pixel_etc (p : Profile) (data : Buf) (w h : Nat) (alpha : Bool)
    (hw : PowerOfTwoFrom8 w) (hh : PowerOfTwoFrom8 h) (hwb : w < 2 ^ 16) (hhb : h < 2 ^ 16)
    (hd : data.size * 8 = (if alpha then 8 else 4) * (w * h)) :
    ∃ bmp, decodePixelData p data w h (if alpha then 13 else 12) = .ok bmp ∧ bmp.size = 4 * (w * h) ∧
      ∀ x y c, x < w → y < h → c < 4 →
        bmp.getD ((y * w + x) * 4 + c) 0 =
          chanByte (Etc1.texel (Spec.Etc1.alphaWordAt data w alpha x y) (Spec.Etc1.wordAt data w alpha x y) (x % 4) (y % 4)) c := by
  have harea := etc_area (pow2_mod8 hw) (pow2_mod8 hh)
  have hd' : data.size = (h / 8 * (w / 8) * 4) * Etc1.blockBytes alpha := by
    cases alpha <;> simp only [Etc1.blockBytes, Bool.false_eq_true, if_false, if_true] at hd ⊢ <;> omega
  obtain ⟨bmp, hb, hsz, hpx⟩ := Etc1.decode_ok p data w h alpha hw hh hwb hhb hd'
  refine ⟨bmp, ?_, by rw [hsz, Nat.mul_comm h w], ?_⟩
  · rw [decodePixelData_etc p _ _ _ _ (by cases alpha <;> simp), ← hb]
    cases alpha <;> simp
  · intro x y c hx hy hc
    rw [hpx x y c hx hy hc]
    cases alpha <;> simp [Etc1.expByte, Spec.Etc1.wordAt, Spec.Etc1.alphaWordAt, Etc1.blockBytes, leAt_eq]

private theorem texel_chan_lt (alphas word x y c : Nat) : (Etc1.texel alphas word x y).chan c < 256 := by
  have hc : ∀ b a, Etc1.clampAdd b a < 256 := by intro b a; unfold Etc1.clampAdd; omega
  unfold Rgba.chan
  split
  · exact hc _ _
  · exact hc _ _
  · exact hc _ _
  · have := (etc1a4_alpha alphas word x y).1
    have hn : Spec.Etc1.alphaNibble alphas x y < 16 := Nat.mod_lt _ (by decide)
    omega

/-- **The property's ETC1 clause on output bytes.** For every power-of-two size from 8 up and an
exact payload, the R, G, B bytes of pixel `(x, y)` equal the Khronos-rules colour of texel
`(x % 4, y % 4)` of the block holding the pixel whenever that block is legal, and the alpha byte
is within one step of (indeed exactly) the linear expansion of the pixel's alpha nibble. -/
theorem decode_etc_spec (p : Profile) (data : Buf) (w h : Nat) (alpha : Bool)
    (hw : PowerOfTwoFrom8 w) (hh : PowerOfTwoFrom8 h) (hwb : w < 2 ^ 16) (hhb : h < 2 ^ 16)
    (hd : data.size * 8 = (if alpha then 8 else 4) * (w * h)) :
    ∃ bmp, decodePixelData p data w h (if alpha then 13 else 12) = .ok bmp ∧ bmp.size = 4 * (w * h) ∧
      ∀ x y, x < w → y < h →
        (Spec.Etc1.Legal (Spec.Etc1.wordAt data w alpha x y) → ∀ ch, ch < 3 →
          (((bmp.getD ((y * w + x) * 4 + ch) 0).toNat : Nat) : Int) =
            Spec.Etc1.channel (Spec.Etc1.wordAt data w alpha x y) (x % 4) (y % 4) ch) ∧
        withinStep 4 (Spec.Etc1.alphaNibble (Spec.Etc1.alphaWordAt data w alpha x y) (x % 4) (y % 4))
          (bmp.getD ((y * w + x) * 4 + 3) 0).toNat := by
  obtain ⟨bmp, hb, hsz, hpx⟩ := decode_pixel_etc p data w h alpha hw hh hwb hhb hd
  refine ⟨bmp, hb, hsz, ?_⟩
  intro x y hx hy
  constructor
  · intro hl ch hch
    rw [hpx x y ch hx hy (by omega), chanByte_toNat _ _ (texel_chan_lt _ _ _ _ _)]
    exact etc1_rules _ _ _ _ (Nat.mod_lt _ (by decide)) (Nat.mod_lt _ (by decide)) hl ch hch
  · rw [hpx x y 3 hx hy (by omega), chanByte_toNat _ _ (texel_chan_lt _ _ _ _ _)]
    exact (etc1a4_alpha _ _ _ _).2

/-! ### RGB5A3 and CI8 -/

/-- **RGB5A3 values.** For every 16-bit value (indeed every number) the decoded colour is an
admissible rendering of the RGB5A3 layout: top bit set — 5-bit R, G, B; top bit clear — 3-bit
alpha and 4-bit R, G, B; each within one step of the linear expansion. -/
theorem rgb5a3_spec (v : Nat) :
    pixelOk (rgb5a3Layout v) v (decodeRgb5a3 v).r (decodeRgb5a3 v).g (decodeRgb5a3 v).b (decodeRgb5a3 v).a := by
  unfold rgb5a3Layout decodeRgb5a3 pixelOk
  by_cases h : v / 2 ^ 15 % 2 = 1
  · have h' : ¬ (v / 2 ^ 15 % 2 = 0) := by omega
    rw [if_pos h, if_neg h']
    simp only [chanOk, withinStep, Nat.pow_zero, Nat.div_one, Nat.reducePow, Nat.reduceSub]
    refine ⟨?_, ?_, ?_, trivial⟩ <;> omega
  · have h' : v / 2 ^ 15 % 2 = 0 := by omega
    rw [if_neg h, if_pos h']
    simp only [chanOk, withinStep, Nat.pow_zero, Nat.div_one, Nat.reducePow, Nat.reduceSub]
    refine ⟨?_, ?_, ?_, ?_⟩ <;> omega

private theorem be16At_eq (d : Buf) (o : Nat) : be16At d o = d.beN o 2 := by
  simp [be16At, Buf.beN, Buf.byteAt]

/-- `ColorFormat::RGB5A3.decode`: value `i` of the input (big-endian) becomes pixel `i`. -/
theorem rgb5a3_stream (data : Buf) (he : data.size % 2 = 0) :
    ∃ out, ColorFormat.RGB5A3.decode data = .ok out ∧ out.size = 4 * (data.size / 2) ∧
      ∀ i c, i < data.size / 2 → c < 4 →
        out.getD (4 * i + c) 0 = chanByte (decodeRgb5a3 (be16At data (2 * i))) c := by
  obtain ⟨out, h1, h2, h3⟩ := rgb5a3_decode data he
  exact ⟨out, h1, h2, fun i c hi hc => by rw [h3 i c hi hc, be16At_eq]⟩

/-- **CI8 in 8×4 blocks, cropped.** A palette image of any size ≥ 1 (the property's 1…64
included) whose visible indices are inside the palette decodes to `width × height` pixels; pixel
`(x, y)` is the RGB5A3 decoding of the palette entry whose index sits at the block position
`ci8Offset (pad8 width) x y` of the image data (8 wide, 4 high blocks of the padded image). -/
theorem ci8_block_spec (palette image : Buf) (w h : Nat) (hw : 0 < w) (hh : 0 < h)
    (hp : palette.size % 2 = 0) (hi : image.size = ((h + 3) / 4 * 4) * pad8 w)
    (hidx : ∀ x y, x < w → y < h → (image.getD (ci8Offset (pad8 w) x y) 0).toNat < palette.size / 2) :
    ∃ out, tplDecodeImage 2 palette 9 h w image = .ok out ∧ out.size = 4 * (h * w) ∧
      ∀ x y c, x < w → y < h → c < 4 →
        out.getD ((y * w + x) * 4 + c) 0 =
          chanByte (decodeRgb5a3 (be16At palette (2 * (image.getD (ci8Offset (pad8 w) x y) 0).toNat))) c := by
  obtain ⟨out, h1, h2, h3⟩ := ci8_decode palette image w h hw hh hp hi hidx
  exact ⟨out, h1, h2, fun x y c hx hy hc => by rw [h3 x y c hx hy hc, be16At_eq]⟩

private theorem rgb5a3_chan_lt (v c : Nat) : (decodeRgb5a3 v).chan c < 256 := by
  have := rgb5a3_spec v
  unfold pixelOk at this
  obtain ⟨hr, hg, hb, ha⟩ := this
  have le_of : ∀ s c, chanOk s v c → c ≤ 255 := by
    intro s c h; cases s <;> simp only [chanOk, withinStep] at h <;> omega
  unfold Rgba.chan
  split
  · exact Nat.lt_succ_of_le (le_of _ _ hr)
  · exact Nat.lt_succ_of_le (le_of _ _ hg)
  · exact Nat.lt_succ_of_le (le_of _ _ hb)
  · exact Nat.lt_succ_of_le (le_of _ _ ha)

/-- **The property's palette-image clause on output bytes**: the four bytes of pixel `(x, y)` are an
admissible rendering (RGB5A3 layout, one-step tolerance) of the palette entry selected by the
index at the 8×4 block position of `(x, y)`. -/
theorem ci8_pixel_spec (palette image : Buf) (w h : Nat) (hw : 0 < w) (hh : 0 < h)
    (hp : palette.size % 2 = 0) (hi : image.size = ((h + 3) / 4 * 4) * pad8 w)
    (hidx : ∀ x y, x < w → y < h → (image.getD (ci8Offset (pad8 w) x y) 0).toNat < palette.size / 2) :
    ∃ out, tplDecodeImage 2 palette 9 h w image = .ok out ∧ out.size = 4 * (h * w) ∧
      ∀ x y, x < w → y < h →
        let v := be16At palette (2 * (image.getD (ci8Offset (pad8 w) x y) 0).toNat)
        pixelOk (rgb5a3Layout v) v (out.getD ((y * w + x) * 4) 0).toNat (out.getD ((y * w + x) * 4 + 1) 0).toNat
          (out.getD ((y * w + x) * 4 + 2) 0).toNat (out.getD ((y * w + x) * 4 + 3) 0).toNat := by
  obtain ⟨out, h1, h2, h3⟩ := ci8_block_spec palette image w h hw hh hp hi hidx
  refine ⟨out, h1, h2, ?_⟩
  intro x y hx hy
  have e0 := h3 x y 0 hx hy (by omega)
  have e1 := h3 x y 1 hx hy (by omega)
  have e2 := h3 x y 2 hx hy (by omega)
  have e3 := h3 x y 3 hx hy (by omega)
  rw [Nat.add_zero] at e0
  simp only []
  rw [e0, e1, e2, e3, chanByte_toNat _ _ (rgb5a3_chan_lt _ 0), chanByte_toNat _ _ (rgb5a3_chan_lt _ 1),
    chanByte_toNat _ _ (rgb5a3_chan_lt _ 2), chanByte_toNat _ _ (rgb5a3_chan_lt _ 3)]
  exact rgb5a3_spec _

/-! ### arithmetic profiles -/

/-- **Profile independence.** With sides below 2^16 no `usize` computation of the decoders can
overflow: the overflow-checked and the wrapping build compute the same result, for every payload
and every format number. -/
theorem profile_independent (data : Buf) (w h fmt : Nat) (hwb : w < 2 ^ 16) (hhb : h < 2 ^ 16) :
    decodePixelData .checked data w h fmt = decodePixelData .wrapping data w h fmt := by
  have h1 : w * h < 2 ^ 32 := by
    have := Nat.mul_lt_mul'' hwb hhb
    simpa [← Nat.pow_add] using this
  have e1 : ∀ p, mulN 64 p 4 w = .ok (4 * w) := fun p => Etc1.mulN_ok p (by omega)
  have e2 : ∀ p, mulN 64 p (4 * w) h = .ok (4 * w * h) := fun p =>
    Etc1.mulN_ok p (by rw [Nat.mul_assoc]; omega)
  simp only [decodePixelData, decodeRgba, allocBmp_ok _ w h hwb hhb, Etc1.decode, e1, e2, Res.bind_ok]

/-- On the property's domain neither build panics (both succeed): tiled formats. -/
theorem no_panic_tiled (p : Profile) (data : Buf) (w h fmt : Nat) (l : Layout)
    (hl : layout fmt = some l) (hw : PowerOfTwoFrom8 w) (hh : PowerOfTwoFrom8 h)
    (hwb : w < 2 ^ 16) (hhb : h < 2 ^ 16) (hd : data.size = l.bytes * (w * h)) :
    decodePixelData p data w h fmt ≠ .panic := by
  obtain ⟨bmp, hb, _⟩ := decode_pixel p data w h fmt l hl hw hh hwb hhb hd
  simp [hb]

/-- On the property's domain neither build panics: ETC1 / ETC1A4 (D14 is this statement for the
overflow-checked build on blocks with a negative delta). -/
theorem no_panic_etc (p : Profile) (data : Buf) (w h : Nat) (alpha : Bool)
    (hw : PowerOfTwoFrom8 w) (hh : PowerOfTwoFrom8 h) (hwb : w < 2 ^ 16) (hhb : h < 2 ^ 16)
    (hd : data.size * 8 = (if alpha then 8 else 4) * (w * h)) :
    decodePixelData p data w h (if alpha then 13 else 12) ≠ .panic := by
  obtain ⟨bmp, hb, _⟩ := decode_pixel_etc p data w h alpha hw hh hwb hhb hd
  simp [hb]

/-! ### non-vacuity -/

/-- The hypotheses are satisfiable: 8, 16 and 128 are powers of two from 8 up, and an all-zero
payload of the required size exists for every format of the property. -/
example : PowerOfTwoFrom8 8 ∧ PowerOfTwoFrom8 16 ∧ PowerOfTwoFrom8 128 :=
  ⟨⟨3, by decide, by decide⟩, ⟨4, by decide, by decide⟩, ⟨7, by decide, by decide⟩⟩

example : (layout 2).isSome ∧ (Buf.zeros (2 * (16 * 8))).size = 2 * (16 * 8) := by
  simp [layout, Buf.zeros]

/-- A legal differential ETC1 block with a negative delta exists (base 5, delta −1 in every
channel): the D14 input. -/
example : Spec.Etc1.Legal (2 ^ 33 + 5 * 2 ^ 59 + 7 * 2 ^ 56 + 5 * 2 ^ 51 + 7 * 2 ^ 48 + 5 * 2 ^ 43 + 7 * 2 ^ 40) := by
  decide

end Mila.Props.C19
