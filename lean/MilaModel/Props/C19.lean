/-
C19 — Pixel decoding matches the hardware formats.
-/
import MilaModel.Model.Etc1
import MilaModel.Spec.Morton
import MilaModel.Spec.Linear
import MilaModel.Spec.Etc1Rules

namespace Mila.Props.C19
open Mila Mila.Pixel

/-- The literal `TILE_ORDER` table is the Z-order (Morton) curve of the 8×8 tile: entry `i` is the
row-major position `y*8 + x` of the texel whose Morton index is `i`. -/
theorem tile_is_morton : ∀ i, i < 64 →
    TILE_ORDER.getD i 0 = Spec.Morton.mortonY i * 8 + Spec.Morton.mortonX i := by
  decide

end Mila.Props.C19
