/-
C02 — Bin archive serialization is canonical, deterministic and byte-stable.

Property theorems only (helper lemmas live in `MilaModel/Lemmas/Ser*.lean`).  The model
(`Mila.BinArchive.serialize` / `parse`) transcribes `src/bin_archive.rs`; the specification
(`Mila.Spec.Image.canonical`, written from the property statement: header totals; data with the
pointer words patched; internal pointer cells ascending, then string cells grouped by string in
first-use order; labels by address (little-endian) or by name list then address (big-endian); text
section = label names in table order then strings in first-use order, each distinct string once)
lives in `Spec/ArchiveImage.lean`.  The tie model <-> Rust is the `binser` correspondence stream.
-/
import MilaModel.Lemmas.SerObs

namespace Mila.Props.C02
open Mila Mila.BinArchive Mila.Ser Mila.Spec.Image

/-- **`serialize` writes exactly the canonical image of the content** (no pending c-strings).
Needs only: annotated cells inside the data, every string encodable, data smaller than 4 GiB —
not even disjointness of the cells. -/
theorem serialize_eq_canonical (c : Codec) (a : BinArchive) (hC : a.cstrings = [])
    (hP : ∀ p ∈ a.pointers, p.1 + 4 ≤ a.size) (hT : ∀ p ∈ a.text, p.1 + 4 ≤ a.size)
    (encT : ∀ p ∈ a.text, ∃ b, c.enc p.2 = some b)
    (encL : ∀ p ∈ a.labels, ∀ n ∈ p.2, ∃ b, c.enc n = some b)
    (small : a.size < 2 ^ 32) :
    serialize c a = .ok (canonical c.enc a.endian (contentOf a)) := by
  rw [← contentPlus_of_no_cstrings c a hC]
  apply serialize_eq_canonical_plus
  exact {
    ptrIn := hP, textIn := hT
    cstrIn := by intro p hp; rw [hC] at hp; cases hp
    encText := encT, encLabels := encL
    encCStr := by intro p hp; rw [hC] at hp; cases hp
    small := by rw [cstrPool_nil c a hC]; exact small }

/-- With pending c-strings `serialize` writes the canonical image of `contentPlus` (the padded
c-string pool appended to the data, one internal pointer per c-string use). -/
theorem serialize_eq_canonical_cstrings (c : Codec) (D : Str → Prop) (a : BinArchive) (wf : ArchWF a)
    (hf : c.Faithful D) (dom : InDomain D a) (small : imageSize c a < 2 ^ 32) :
    serialize c a = .ok (canonical c.enc a.endian (contentPlus c a)) :=
  serialize_eq_canonical_plus c a (serDomain_of c D a wf hf dom small)

/-- **Whatever the hash state.**  Two archives that differ only in the iteration order of their
five hash maps (`PermEq`: each map a `List.Perm` of the other) serialize to the same result —
same bytes, or the same error.  Hypothesis `KeysOK`: every map has distinct keys (the `HashMap`
invariant), no cell carries two pointer-like annotations, and the codec separates the pending
c-strings.  (The proof fails exactly where a sort key is not unique: it needs the address
tie-break of the big-endian label order, fix D2.) -/
theorem serialize_perm (c : Codec) {a a' : BinArchive} (ok : KeysOK c a) (p : PermEq a a') :
    serialize c a = serialize c a' :=
  Ser.serialize_perm c ok p

/-- `serialize_perm` on the quantifier of the property: `KeysOK` follows from `ArchWF`, distinct
c-string keys (`HashMap` invariant) and a faithful codec. -/
theorem serialize_perm_domain (c : Codec) (D : Str → Prop) {a a' : BinArchive} (wf : ArchWF a)
    (ndC : (a.cstrings.map (·.1)).Nodup) (hf : c.Faithful D) (dom : InDomain D a)
    (p : PermEq a a') : serialize c a = serialize c a' :=
  Ser.serialize_perm c (keysOK_of c D a wf ndC hf dom) p

/-- **Archives with equal content serialize to identical bytes** (whatever calls built them):
equal content = same size, same raw bytes outside annotated cells, same strings / pointers as
finite maps, same label list per address (`ContentEq`); same endianness, no pending c-strings. -/
theorem serialize_content_determined (c : Codec) (D : Str → Prop) (a a' : BinArchive)
    (wf : ArchWF a) (wf' : ArchWF a') (hf : c.Faithful D) (dom : InDomain D a) (dom' : InDomain D a')
    (hC : a.cstrings = []) (hC' : a'.cstrings = []) (he : a.endian = a'.endian)
    (small : a.size < 2 ^ 32) (hK : ContentEq (contentOf a) (contentOf a')) :
    serialize c a = serialize c a' := by
  have hK' : (contentOf a).WF := by
    rw [← contentPlus_of_no_cstrings c a hC]; exact contentPlus_wf c a wf
  have in1 : ∀ x ∈ archCells a, x + 4 ≤ a.size := wf.inside
  have in2 : ∀ x ∈ archCells a', x + 4 ≤ a'.size := wf'.inside
  rw [serialize_eq_canonical c a hC
      (fun p hp => in1 _ (List.mem_append_left _ (List.mem_append_left _ (List.mem_map_of_mem hp))))
      (fun p hp => in1 _ (List.mem_append_right _ (List.mem_map_of_mem hp)))
      (fun p hp => enc_of_faithful hf (dom.text p hp))
      (fun p hp n hn => enc_of_faithful hf (dom.labels p hp n hn)) small,
    serialize_eq_canonical c a' hC'
      (fun p hp => in2 _ (List.mem_append_left _ (List.mem_append_left _ (List.mem_map_of_mem hp))))
      (fun p hp => in2 _ (List.mem_append_right _ (List.mem_map_of_mem hp)))
      (fun p hp => enc_of_faithful hf (dom'.text p hp))
      (fun p hp n hn => enc_of_faithful hf (dom'.labels p hp n hn))
      (by have := hK.size; unfold size; unfold size at small
          show a'.data.length < 2 ^ 32
          have h2 : a.data.length = a'.data.length := hK.size
          omega),
    ← he, canonical_congr c.enc a.endian hK' wf'.labelKeys hK]

/-- **Parsing any conforming image of `K` and serializing the result gives the canonical image of
`K`** (so every conforming file is normalised to the canonical one, and …) -/
theorem reserialize_conforming (c : Codec) (D : Str → Prop) (e : Endian) (f : Bytes) (K : Content)
    (hf : c.Faithful D) (wf : K.WF) (hS : ∀ p ∈ K.strings, D p.2)
    (hL : ∀ p ∈ K.labels, ∀ n ∈ p.2, D n) (hc : Conforms c.enc e f K) (small : f.length < 2 ^ 32) :
    ∃ b, parse c e f = .ok b ∧ serialize c b = .ok (canonical c.enc e K) :=
  Ser.reserialize_conforming ⟨hc, wf, hf, hS, hL⟩ small

/-- … **parsing then re-serializing a canonical file reproduces it byte for byte.** -/
theorem reserialize_canonical (c : Codec) (D : Str → Prop) (e : Endian) (K : Content)
    (hf : c.Faithful D) (wf : K.WF) (hS : ∀ p ∈ K.strings, D p.2)
    (hL : ∀ p ∈ K.labels, ∀ n ∈ p.2, D n) (small : (canonical c.enc e K).length < 2 ^ 32) :
    ∃ b, parse c e (canonical c.enc e K) = .ok b ∧ serialize c b = .ok (canonical c.enc e K) := by
  have hc : Conforms c.enc e (canonical c.enc e K) K :=
    canonical_conforms c.enc e K wf (fun p hp => enc_of_faithful hf (hS p hp))
      (fun p hp n hn => enc_of_faithful hf (hL p hp n hn)) small
  exact Ser.reserialize_conforming ⟨hc, wf, hf, hS, hL⟩ small

/-- The same for the image of an archive: serialize → parse → serialize is the identity on bytes
(strings and c-strings mixed: after the first pass the pool is ordinary data). -/
theorem reserialize_archive (c : Codec) (D : Str → Prop) (a : BinArchive) (wf : ArchWF a)
    (hf : c.Faithful D) (dom : InDomain D a) (small : imageSize c a < 2 ^ 32) :
    ∃ f b, serialize c a = .ok f ∧ parse c a.endian f = .ok b ∧ serialize c b = .ok f := by
  obtain ⟨f, hs, hlen, hc⟩ := Ser.serialize_conforms c D a wf hf dom small
  have ctx := ctx_of_archive c D a wf hf dom hc
  obtain ⟨b, hb, hsb⟩ := Ser.reserialize_conforming ctx (by rw [hlen]; exact small)
  refine ⟨f, b, hs, hb, ?_⟩
  rw [hsb]
  rw [serialize_eq_canonical_plus c a (serDomain_of c D a wf hf dom small)] at hs
  exact hs

/-! ### non-vacuity -/

/-- Big-endian, two addresses carrying the *same* label list (the D2 tie), in two hash orders. -/
def exA : BinArchive :=
  ⟨List.replicate 8 7, [], [], [(4, [bs ['X']]), (0, [bs ['X']])], [], .big⟩
def exB : BinArchive :=
  ⟨List.replicate 8 7, [], [], [(0, [bs ['X']]), (4, [bs ['X']])], [], .big⟩

private theorem ex_keys : KeysOK sjisSub exA where
  text := by decide
  labels := by decide
  sources := by decide
  cstrKeys := by intro x hx; cases hx

private theorem ex_perm : PermEq exA exB where
  data := rfl
  endian := rfl
  text := List.Perm.refl _
  pointers := List.Perm.refl _
  labels := List.Perm.swap _ _ _
  cstrings := List.Perm.refl _

/-- The hypotheses of `serialize_perm` hold for a non-trivial pair (a genuine permutation, equal
big-endian sort keys). -/
example : serialize sjisSub exA = serialize sjisSub exB := serialize_perm sjisSub ex_keys ex_perm

/-- The hypotheses of `serialize_eq_canonical` hold for an archive with a string and a label. -/
example : serialize sjisSub ⟨List.replicate 8 0, [(0, bs ['h', 'i'])], [(4, 8)], [(8, [bs ['X']])], [], .little⟩
    = .ok (canonical sjisSub.enc .little ⟨List.replicate 8 0, [(0, bs ['h', 'i'])], [(4, 8)], [(8, [bs ['X']])]⟩) := by
  apply serialize_eq_canonical sjisSub _ rfl
  · decide
  · decide
  · intro p hp; simp at hp; subst hp; exact ⟨bs ['h', 'i'], by decide⟩
  · intro p hp n hn; simp at hp; subst hp; simp at hn; subst hn; exact ⟨bs ['X'], by decide⟩
  · decide

/-- A content with a string, a pointer to the end address and an end label (big-endian). -/
def exK : Content := ⟨List.replicate 8 0, [(0, bs ['h', 'i'])], [(4, 8)], [(8, [bs ['X']])]⟩

private def exD (s : Str) : Prop := s = bs ['h', 'i'] ∨ s = bs ['X']

private theorem exD_faithful : sjisSub.Faithful exD := by
  rintro s (rfl | rfl)
  · exact ⟨bs ['h', 'i'], by decide, by decide, by decide⟩
  · exact ⟨bs ['X'], by decide, by decide, by decide⟩

/-- The hypotheses of `reserialize_canonical` hold for a non-trivial content. -/
example : ∃ b, parse sjisSub .big (canonical sjisSub.enc .big exK) = .ok b ∧
    serialize sjisSub b = .ok (canonical sjisSub.enc .big exK) := by
  apply reserialize_canonical sjisSub exD .big exK exD_faithful
  · exact ⟨by decide, by decide, by decide, by decide, by decide⟩
  · intro p hp; simp [exK] at hp; subst hp; exact Or.inl rfl
  · intro p hp n hn; simp [exK] at hp; subst hp; simp at hn; subst hn; exact Or.inr rfl
  · simp only [canonical, canonTextStart, textSection, stored, labelEntries, sortedLabels, sortedStrings,
      ptrTable, sortedPointers, stringGroups, canonData, labelTable, exK, List.mergeSort_singleton]
    decide

end Mila.Props.C02
