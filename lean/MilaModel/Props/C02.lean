/-
C02 — Bin archive serialization is canonical, deterministic and byte-stable.

Property theorems only (helper lemmas live in `MilaModel/Lemmas/Ser*.lean`).  The model
(`Mila.BinArchive.serialize` / `parse`) transcribes `src/bin_archive.rs`; the specification
(`Mila.Spec.Image.canonical`) is written from the property statement.  The tie model <-> Rust is
the `binser` correspondence stream.
-/
import MilaModel.Lemmas.SerPerm

namespace Mila.Props.C02
open Mila Mila.BinArchive Mila.Ser

/-- **Whatever the hash state.**  Two archives that differ only in the iteration order of their
five hash maps (`PermEq`: each map a `List.Perm` of the other) serialize to the same result —
same bytes, or the same error.  Hypothesis `KeysOK`: every map has distinct keys (the `HashMap`
invariant), no cell carries two pointer-like annotations, and the codec separates the pending
c-strings (true under `Codec.Faithful`). -/
theorem serialize_perm (c : Codec) {a a' : BinArchive} (ok : KeysOK c a) (p : PermEq a a') :
    serialize c a = serialize c a' :=
  Ser.serialize_perm c ok p

end Mila.Props.C02
