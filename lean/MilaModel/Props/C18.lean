/-
C18 — Asset-binary round trip preserves every field of every spec; short record form; record
length; idempotent re-serialisation.

Model: `Mila.Asset` (`MilaModel/Model/AssetBinary.lean`, a table-driven transcription of
`src/asset_binary.rs`).  Specification: `Mila.Spec.Asset` (domain `WF`, `normalizeVals`,
`extended`, `recordLen`, `announcedLen`, `dataSize`).
Layering as for C17: the reader is correct on every archive that shows the declarative layout
(`Asset.Layout`), `serialize` builds such an archive, the layout is carried along `SameContent`,
the conclusion of property C01, which enters as the named hypothesis `BinRoundTrip`.
-/
import MilaModel.Lemmas.AssetBuild
import MilaModel.Lemmas.ComposeAsset
import MilaModel.Spec.Asset
import MilaModel.Lemmas.SjisSub

namespace Mila.Props.C18
open Mila Mila.Asset Mila.Layered BinArchive

/-- The property's quantifier: 32-bit header flags; each spec has its 33 optional strings and
18 typed fields of four bytes; the data section fits the address space (`usize` = 64 bit). -/
structure WF (v : AssetBinary) : Prop where
  wf : BinaryWF v
  small : Spec.Asset.dataSize (v.specs.map (fun s => (s.strs, s.vals))) < 2 ^ 64

/-! ### short form -/

private theorem strField_of_drop (s : AssetSpec) (k : Nat) :
    strField s (32 + k) = ((s.strs.drop 31)[k]?).join := by
  unfold strField
  rw [List.getElem?_drop, show 32 + k - 1 = 31 + k by omega]

private theorem isLong_iff_extended (s : AssetSpec) (h : SpecWF s) :
    isLong s ↔ Spec.Asset.extended s.strs s.vals = true := by
  rw [isLong_iff]
  unfold Spec.Asset.extended
  rw [Bool.or_eq_true, List.any_eq_true, List.any_eq_true]
  constructor
  · intro ⟨i, h1, h2, hp⟩
    by_cases h33 : i ≤ 33
    · left
      rw [present_str s i (by omega) h33] at hp
      have hk : i = 32 + (i - 32) := by omega
      rw [hk, strField_of_drop] at hp
      cases hx : (s.strs.drop 31)[i - 32]? with
      | none => rw [hx] at hp; simp at hp
      | some x =>
        rw [hx] at hp
        exact ⟨x, List.mem_of_getElem? hx, by simpa using hp⟩
    · right
      rw [present_val s i (by omega) h2] at hp
      unfold valField at hp
      rw [List.getD_eq_getElem?_getD] at hp
      cases hx : s.vals[i - 34]? with
      | none => rw [hx] at hp; simp at hp
      | some x =>
        rw [hx] at hp
        exact ⟨x, List.mem_of_getElem? hx, by simpa using hp⟩
  · intro hor
    rcases hor with ⟨x, hx, hs⟩ | ⟨x, hx, hu⟩
    · obtain ⟨k, hk⟩ := List.getElem?_of_mem hx
      have hlt : k < (s.strs.drop 31).length := by
        apply Classical.byContradiction
        intro hn
        rw [List.getElem?_eq_none (by omega)] at hk; cases hk
      have hl : (s.strs.drop 31).length = 2 := by simp [h.1]
      refine ⟨32 + k, by omega, by omega, ?_⟩
      rw [present_str s (32 + k) (by omega) (by omega), strField_of_drop, hk]
      simpa using hs
    · obtain ⟨k, hk⟩ := List.getElem?_of_mem hx
      have hlt : k < s.vals.length := by
        apply Classical.byContradiction
        intro hn
        rw [List.getElem?_eq_none (by omega)] at hk; cases hk
      have hl := h.2.1
      refine ⟨34 + k, by omega, by omega, ?_⟩
      rw [present_val s (34 + k) (by omega) (by omega)]
      unfold valField
      rw [List.getD_eq_getElem?_getD, show 34 + k - 34 = k by omega, hk]
      simpa using hu

/-- **Short form**: a record gets 4 flag bytes exactly when no extended field (string 32, 33 or a
typed field) is present, otherwise 8 flag bytes; bit 0 of the first byte marks the long form. -/
theorem asset_short_iff (s : AssetSpec) (h : SpecWF s) :
    ((computeFlags s).1.length = Spec.Asset.flagBytes s.strs s.vals)
      ∧ ((computeFlags s).1.length = 4 ↔ Spec.Asset.extended s.strs s.vals = false)
      ∧ (Spec.Asset.marked (computeFlags s).1 = Spec.Asset.extended s.strs s.vals) := by
  have hiff := isLong_iff_extended s h
  rw [computeFlags_eq]
  simp only
  rw [finalFlags_length]
  unfold Spec.Asset.flagBytes Spec.Asset.marked Spec.Asset.flagAt
  have hm := marker_final s
  rw [Nat.and_one_is_mod] at hm
  simp only [Nat.zero_div, Nat.zero_mod, Nat.testBit_zero]
  by_cases hl : isLong s
  · have he := hiff.1 hl
    simp only [hl, if_true, he]
    refine ⟨trivial, by simp, ?_⟩
    simpa using hm.2 hl
  · have he : Spec.Asset.extended s.strs s.vals = false := by
      cases hh : Spec.Asset.extended s.strs s.vals with
      | false => rfl
      | true => exact absurd (hiff.2 hh) hl
    simp only [hl, if_false, he]
    refine ⟨by simp, by simp, ?_⟩
    have : ¬ (finalFlags s).getD 0 0 % 2 = 1 := fun e => hl (hm.1 e)
    simpa using this

/-! ### record length -/

private theorem countBits_eq_popcount8 (x : Nat) : countBits x = Spec.Asset.popcount8 x := by
  unfold countBits Spec.Asset.popcount8
  apply List.countP_congr
  intro i _
  rw [and_shift_ne_zero]

private theorem popcount8_or_one (x : Nat) (h : x.testBit 0 = false) :
    Spec.Asset.popcount8 (x ||| 1) = Spec.Asset.popcount8 x + 1 := by
  unfold Spec.Asset.popcount8
  rw [show List.range 8 = 0 :: List.range' 1 7 from by decide, List.countP_cons, List.countP_cons]
  have : (List.range' 1 7).countP (fun i => (x ||| 1).testBit i) = (List.range' 1 7).countP (fun i => x.testBit i) := by
    apply List.countP_congr
    intro i hi
    have : 1 ≤ i := (List.mem_range'_1.1 hi).1
    rw [Nat.testBit_or, testBit_one]
    have : ¬ i = 0 := by omega
    simp [this]
  rw [this, Nat.testBit_or, testBit_one, h]
  simp

private theorem announced_eq (s : AssetSpec) :
    Spec.Asset.announcedLen (finalFlags s) = (computeFlags s).2 := by
  rw [computeFlags_eq]
  simp only
  unfold Spec.Asset.announcedLen Spec.Asset.announcedFields Spec.Asset.marked Spec.Asset.flagAt
  have hm := marker_final s
  rw [Nat.and_one_is_mod] at hm
  simp only [Nat.zero_div, Nat.zero_mod, Nat.testBit_zero]
  have h0 : (flagByte s 0).testBit 0 = false := by rw [testBit_flagByte]; simp [present_zero]
  unfold countedBits
  by_cases hl : isLong s
  · have hmk : (finalFlags s).getD 0 0 % 2 = 1 := hm.2 hl
    have hf : finalFlags s = [flagByte s 0 ||| 1, flagByte s 1, flagByte s 2, flagByte s 3,
        flagByte s 4, flagByte s 5, flagByte s 6, flagByte s 7] := by simp [finalFlags, hl]
    simp only [hmk, decide_true, if_true, hl]
    rw [hf]
    simp only [List.map_cons, List.map_nil, List.sum_cons, List.sum_nil, popcount8_or_one _ h0,
      countBits_eq_popcount8]
    omega
  · have hmk : ¬ (finalFlags s).getD 0 0 % 2 = 1 := fun e => hl (hm.1 e)
    have hf : finalFlags s = [flagByte s 0, flagByte s 1, flagByte s 2, flagByte s 3] := by
      simp [finalFlags, hl]
    simp only [hmk, decide_false, Bool.false_eq_true, if_false, hl]
    rw [hf]
    simp only [List.map_cons, List.map_nil, List.sum_cons, List.sum_nil, countBits_eq_popcount8]
    omega

private theorem strs_as_map (s : AssetSpec) (h : s.strs.length = 33) :
    s.strs = (List.range' 1 33).map (strField s) := by
  have := strs_rebuild s h
  rw [← List.map_append, show List.range' 1 31 ++ [32, 33] = List.range' 1 33 from by decide] at this
  exact this.symm

private theorem vals_as_map (s : AssetSpec) (h : s.vals.length = 18) :
    s.vals = (List.range' 34 18).map (valField s) := by
  apply List.ext_getElem?
  intro k
  by_cases hk : k < 18
  · rw [List.getElem?_map, List.getElem?_range' hk]
    simp only [Option.map_some, valField]
    rw [show 34 + 1 * k - 34 = k by omega, List.getD_eq_getElem?_getD, List.getElem?_eq_getElem (by omega)]
    simp
  · rw [List.getElem?_eq_none (by omega), List.getElem?_eq_none (by simp; omega)]

private theorem presentCount_eq (s : AssetSpec) (h : SpecWF s) :
    Spec.Asset.presentCount s.strs s.vals
      = (List.range' 1 31).countP (present s)
        + (if isLong s then (List.range' 32 20).countP (present s) else 0) := by
  unfold Spec.Asset.presentCount
  have e1 : s.strs.countP (·.isSome) = (List.range' 1 33).countP (present s) := by
    conv => lhs; rw [strs_as_map s h.1]
    rw [List.countP_map]
    apply List.countP_congr
    intro i hi
    have := List.mem_range'_1.1 hi
    rw [present_str s i (by omega) (by omega)]
    rfl
  have e2 : s.vals.countP (·.1) = (List.range' 34 18).countP (present s) := by
    conv => lhs; rw [vals_as_map s h.2.1]
    rw [List.countP_map]
    apply List.countP_congr
    intro i hi
    have := List.mem_range'_1.1 hi
    rw [present_val s i (by omega) (by omega)]
    rfl
  rw [e1, e2, show List.range' 1 33 = List.range' 1 31 ++ [32, 33] from by decide,
    List.countP_append]
  have e3 : (List.range' 32 20).countP (present s)
      = [32, 33].countP (present s) + (List.range' 34 18).countP (present s) := by
    rw [show List.range' 32 20 = [32, 33] ++ List.range' 34 18 from by decide, List.countP_append]
  by_cases hl : isLong s
  · simp only [hl, if_true]; omega
  · simp only [hl, if_false]
    have z : (List.range' 32 20).countP (present s) = 0 := by
      rw [List.countP_eq_zero]
      intro i hi
      have := List.mem_range'_1.1 hi
      simp [present_of_short s hl i (by omega)]
    omega

private theorem recordLen_eq (s : AssetSpec) (h : SpecWF s) :
    Spec.Asset.announcedLen (finalFlags s) = Spec.Asset.recordLen s.strs s.vals := by
  rw [announced_eq, computeFlags_eq]
  simp only
  unfold Spec.Asset.recordLen
  have hfb := (asset_short_iff s h).1
  rw [computeFlags_eq] at hfb
  simp only at hfb
  rw [presentCount_eq s h, countedBits_eq, ← hfb]

/-- **Record length**: appending a spec (in the course of `serialize`) grows the data by exactly
the bytes the record's own flag bytes announce — flag bytes, name cell, one word per announced
field — which is the specification's `recordLen` (so a present field costs one word, an absent
one nothing). -/
theorem asset_len (s : AssetSpec) (h : SpecWF s) (a : BinArchive) (cs : List Cell)
    (hinv : WInv a a.size cs) :
    ∃ a', append s a = .ok a'
      ∧ a'.size = a.size + Spec.Asset.announcedLen (computeFlags s).1
      ∧ Spec.Asset.announcedLen (computeFlags s).1 = Spec.Asset.recordLen s.strs s.vals := by
  obtain ⟨a', ha, _, hs⟩ := append_layout s h a cs hinv
  have hfl : (computeFlags s).1 = finalFlags s := by rw [computeFlags_eq]
  refine ⟨a', ha, ?_, ?_⟩
  · rw [hs, hfl, announced_eq, recordCells_size]
  · rw [hfl]; exact recordLen_eq s h

private theorem fileCells_size (v : AssetBinary) (hw : ∀ s ∈ v.specs, SpecWF s) :
    4 * (fileCells v).length = Spec.Asset.dataSize (v.specs.map (fun s => (s.strs, s.vals))) := by
  unfold Spec.Asset.dataSize
  simp only [fileCells, List.length_append, List.length_cons, List.length_nil, List.map_map]
  have : 4 * (specsCells v.specs).length
      = (v.specs.map ((fun s => Spec.Asset.recordLen s.1 s.2) ∘ fun s => (s.strs, s.vals))).sum := by
    generalize v.specs = specs at hw
    induction specs with
    | nil => rfl
    | cons s rest ih =>
      simp only [specsCells, List.flatMap_cons, List.length_append, List.map_cons, List.sum_cons,
        Function.comp] at ih ⊢
      rw [← ih (fun t ht => hw t (by simp [ht]))]
      have hs := hw s (by simp)
      have e : 4 * (recordCells s).length = Spec.Asset.recordLen s.strs s.vals := by
        rw [← recordCells_size, ← announced_eq, recordLen_eq s hs]
      omega
  omega

private theorem small_cells {v : AssetBinary} (h : WF v) : 4 * (fileCells v).length < 2 ^ 64 := by
  rw [fileCells_size v h.wf.2]; exact h.small

/-- **Size of the data section**: header flags, the records, the terminator. -/
theorem asset_size (v : AssetBinary) (h : WF v) {a : BinArchive} (ha : build v = .ok a) :
    a.size = Spec.Asset.dataSize (v.specs.map (fun s => (s.strs, s.vals))) := by
  obtain ⟨a', ha', hl, _⟩ := build_layout v h.wf.2 (small_cells h)
  rw [ha] at ha'
  cases ha'
  rw [hl.size, fileCells_size v h.wf.2]

/-! ### round trip -/

theorem asset_build_ok (v : AssetBinary) (h : WF v) : ∃ a, build v = .ok a := by
  obtain ⟨a, ha, _, _⟩ := build_layout v h.wf.2 (small_cells h)
  exact ⟨a, ha⟩

/-- **Round trip on the un-serialised archive**: header flags and every spec come back, each
string field exactly, each typed field with its presence flag and — when present — its four bytes
(bit for bit); a typed field that is not in use comes back as the default (`normalize`). -/
theorem asset_roundtrip (v : AssetBinary) (h : WF v) :
    ∃ a, build v = .ok a ∧ fromArchive a = .ok (normalizeBinary v) := by
  obtain ⟨a, ha, hl, _⟩ := build_layout v h.wf.2 (small_cells h)
  exact ⟨a, ha, fromArchive_layout v h.wf a hl⟩

/-- Consequently two well-formed asset files that build the same archive agree up to the reset of
their unused typed fields (`normalizeBinary`): nothing that `from_archive` reports is lost. -/
theorem asset_build_injective (v w : AssetBinary) (hv : WF v) (hw : WF w)
    (h : build v = build w) : normalizeBinary v = normalizeBinary w := by
  obtain ⟨a, ha, ra⟩ := asset_roundtrip v hv
  obtain ⟨b, hb, rb⟩ := asset_roundtrip w hw
  have e : a = b := by have := ha.symm.trans (h.trans hb); injection this
  subst e
  have := ra.symm.trans rb
  injection this

/-- `normalize` is the identity on values whose unused typed fields hold the default. -/
theorem normalize_id (v : AssetBinary)
    (h : ∀ s ∈ v.specs, ∀ t ∈ s.vals, t.1 = false → t.2 = zero4) : normalizeBinary v = v := by
  unfold normalizeBinary
  have : v.specs.map normalize = v.specs := by
    have hid : ∀ s ∈ v.specs, normalize s = s := by
      intro s hs
      unfold normalize
      have : Spec.Asset.normalizeVals s.vals = s.vals := by
        unfold Spec.Asset.normalizeVals
        have : ∀ t ∈ s.vals, (if t.1 = true then t else (false, [0, 0, 0, 0])) = t := by
          intro t ht
          by_cases hu : t.1 = true
          · simp [hu]
          · have hf : t.1 = false := by simpa using hu
            have := h s hs t ht hf
            rw [if_neg hu]
            cases t; simp_all [zero4]
        rw [List.map_congr_left this, List.map_id']
      rw [this]
    rw [List.map_congr_left hid, List.map_id']
  rw [this]

/-- **Layering**: `from_archive` depends only on the archive's content. -/
theorem asset_layering (v : AssetBinary) (h : WF v) {a b : BinArchive} (ha : build v = .ok a)
    (hab : SameContent a b) : fromArchive b = fromArchive a := by
  obtain ⟨a', ha', hl, hp⟩ := build_layout v h.wf.2 (small_cells h)
  rw [ha] at ha'
  cases ha'
  rw [fromArchive_layout v h.wf b (hl.transfer hp hab), fromArchive_layout v h.wf a hl]

/-- **File-level round trip**, given the bin-archive round trip (property C01) for the archive
that `serialize` builds. -/
theorem asset_file_roundtrip (c : Codec) (v : AssetBinary) (h : WF v)
    (hC01 : ∀ a, build v = .ok a → BinRoundTrip c a) :
    ∀ bytes, Asset.serialize c v = .ok bytes →
      ∃ b, BinArchive.parse c .little bytes = .ok b ∧ fromArchive b = .ok (normalizeBinary v) := by
  intro bytes hs
  obtain ⟨a, ha, hl, hp⟩ := build_layout v h.wf.2 (small_cells h)
  unfold Asset.serialize at hs
  rw [ha] at hs
  obtain ⟨b, hb, hab⟩ := hC01 a ha bytes hs
  rw [hl.little] at hb
  exact ⟨b, hb, fromArchive_layout v h.wf b (hl.transfer hp hab)⟩

/-! ### idempotent re-serialisation -/

private theorem normVal_fst (t : Bool × Bytes) : (normVal t).1 = t.1 := by
  unfold normVal; by_cases h : t.1 = true <;> simp [h]

private theorem valField_normalize (s : AssetSpec) (i : Nat) :
    valField (normalize s) i = normVal (valField s i) := by
  unfold valField normalize
  simp only [normalizeVals_eq]
  rw [List.getD_eq_getElem?_getD, List.getD_eq_getElem?_getD, List.getElem?_map]
  cases s.vals[i - 34]? with
  | none => simp [normVal]
  | some t => simp

private theorem present_normalize (s : AssetSpec) : present (normalize s) = present s := by
  funext i
  unfold present
  have : strField (normalize s) i = strField s i := rfl
  rw [this, valField_normalize, normVal_fst]

private theorem computeFlags_normalize (s : AssetSpec) : computeFlags (normalize s) = computeFlags s := by
  have hb : flagByte (normalize s) = flagByte s := by
    funext b; unfold flagByte; rw [present_normalize]
  unfold computeFlags
  rw [hb]

private theorem writeField_normalize (s : AssetSpec) (w : Writer) (i : Nat) :
    writeField (normalize s) w i = writeField s w i := by
  unfold writeField
  have hstr : strField (normalize s) i = strField s i := rfl
  rw [hstr, valField_normalize]
  cases hk : kindOf i with
  | str => rfl
  | color =>
    simp only [normVal_fst]
    by_cases hu : (valField s i).1 = true
    · simp [hu, normVal]
    · simp [hu]
  | f32 =>
    simp only [normVal_fst]
    by_cases hu : (valField s i).1 = true
    · simp [hu, normVal]
    · simp [hu]
  | u32 =>
    simp only [normVal_fst]
    by_cases hu : (valField s i).1 = true
    · simp [hu, normVal]
    · simp [hu]

private theorem writeFields_normalize (s : AssetSpec) :
    ∀ (is : List Nat) (w : Writer), writeFields (normalize s) is w = writeFields s is w := by
  intro is
  induction is with
  | nil => intro w; rfl
  | cons i is ih =>
    intro w
    unfold writeFields
    rw [writeField_normalize]
    cases writeField s w i with
    | ok w1 => exact ih w1
    | err e => rfl
    | panic => rfl

private theorem append_normalize (s : AssetSpec) (a : BinArchive) :
    append (normalize s) a = append s a := by
  unfold append
  simp only [computeFlags_normalize, writeFields_normalize]
  rfl

private theorem appendAll_normalize :
    ∀ (specs : List AssetSpec) (a : BinArchive),
      appendAll (specs.map normalize) a = appendAll specs a := by
  intro specs
  induction specs with
  | nil => intro a; rfl
  | cons s rest ih =>
    intro a
    simp only [List.map_cons, appendAll, append_normalize]
    cases append s a with
    | ok a1 => exact ih a1
    | err e => rfl
    | panic => rfl

/-- Unused typed fields are never written: the normalised value serialises to the same archive. -/
theorem build_normalize (v : AssetBinary) : build (normalizeBinary v) = build v := by
  unfold build normalizeBinary
  simp only [appendAll_normalize]

/-- **Idempotence**: re-serialising the value re-read from the serialised file gives the same
bytes (given C01 for the built archive). -/
theorem asset_idempotent (c : Codec) (v : AssetBinary) (h : WF v)
    (hC01 : ∀ a, build v = .ok a → BinRoundTrip c a) :
    ∀ bytes, Asset.serialize c v = .ok bytes →
      ∃ b v', BinArchive.parse c .little bytes = .ok b ∧ fromArchive b = .ok v'
        ∧ Asset.serialize c v' = .ok bytes := by
  intro bytes hs
  obtain ⟨b, hb, hf⟩ := asset_file_roundtrip c v h hC01 bytes hs
  refine ⟨b, normalizeBinary v, hb, hf, ?_⟩
  unfold Asset.serialize at hs ⊢
  rw [build_normalize]; exact hs

/-! ### non-vacuity -/

/-- A non-trivial binary: one long record (string 2, string 33, a colour, a NaN-payload f32 and a
u32 present; an unused typed field carrying a stale value), one all-absent record. -/
def sample : AssetBinary :=
  ⟨0xFFFFFFFF,
   [⟨some (bs ['n']),
     [none, some (bs ['x'])] ++ List.replicate 30 none ++ [some []],
     [(true, [1, 2, 3, 4]), (false, [9, 9, 9, 9]), (false, zero4), (true, [1, 0, 0xC0, 0x7F])]
       ++ List.replicate 13 (false, zero4) ++ [(true, [0xEF, 0xBE, 0xAD, 0xDE])]⟩,
    ⟨none, List.replicate 33 none, List.replicate 18 (false, zero4)⟩]⟩

instance (s : AssetSpec) : Decidable (SpecWF s) := by unfold SpecWF; exact inferInstance
instance (v : AssetBinary) : Decidable (BinaryWF v) := by unfold BinaryWF; exact inferInstance

example : WF sample := ⟨by decide +kernel, by decide +kernel⟩

example : normalizeBinary sample ≠ sample := by decide +kernel

example : Spec.Asset.dataSize (sample.specs.map (fun s => (s.strs, s.vals))) = 4 + (8 + 4 + 4 * 5) + (4 + 4) + 4 := by
  decide +kernel

/-! ### composition with C01: the hypothesis `hC01` discharged

`BinRoundTrip c a` is a theorem for every archive `serialize` builds: the built archive is in C01's
quantifier (one string per 4-aligned cell inside the data; no pointers, pending c-strings or
labels: `Compose.tidy_asset_build` + `build_layout`), so `C01.parse_serialize` applies.  What
remains are the property's own domain hypotheses: the codec is faithful on `D`, every name and
optional string of every spec is in `D` (`Compose.AssetStrsIn`), the shapes (`WF`), and the 32-bit
format's size limit on the image (`Ser.imageSize`). -/

/-- **C01 instantiated**: the bin-archive round trip holds of every archive `serialize` builds. -/
theorem asset_bin_roundtrip (c : Codec) (D : Str → Prop) (hf : c.Faithful D) (v : AssetBinary)
    (h : WF v) (hD : Compose.AssetStrsIn D v) :
    ∀ a, build v = .ok a → Ser.imageSize c a < 2 ^ 32 → BinRoundTrip c a := by
  intro a ha small
  obtain ⟨ht, hp⟩ := Compose.asset_build_tidy_plain v h.wf.2 (small_cells h) hD ha
  exact ht.binRoundTrip hp c hf small

/-- `serialize` succeeds on the whole domain, with an image of the prescribed size. -/
theorem asset_serialize_ok (c : Codec) (D : Str → Prop) (hf : c.Faithful D) (v : AssetBinary)
    (h : WF v) (hD : Compose.AssetStrsIn D v)
    (small : ∀ a, build v = .ok a → Ser.imageSize c a < 2 ^ 32) :
    ∃ a bytes, build v = .ok a ∧ Asset.serialize c v = .ok bytes ∧
      bytes.length = Ser.imageSize c a := by
  obtain ⟨a, ha⟩ := asset_build_ok v h
  obtain ⟨ht, hp⟩ := Compose.asset_build_tidy_plain v h.wf.2 (small_cells h) hD ha
  obtain ⟨bytes, hs, hl⟩ := ht.serialize_ok hp c hf (small a ha)
  refine ⟨a, bytes, ha, ?_, hl⟩
  unfold Asset.serialize
  rw [ha]; exact hs

/-- **File-level round trip, unconditional**: `serialize` succeeds and
`from_archive(from_bytes(serialize(v)))` is `v` with its unused typed fields at their default. -/
theorem asset_file_roundtrip_unconditional (c : Codec) (D : Str → Prop) (hf : c.Faithful D)
    (v : AssetBinary) (h : WF v) (hD : Compose.AssetStrsIn D v)
    (small : ∀ a, build v = .ok a → Ser.imageSize c a < 2 ^ 32) :
    ∃ bytes b, Asset.serialize c v = .ok bytes ∧ BinArchive.parse c .little bytes = .ok b ∧
      fromArchive b = .ok (normalizeBinary v) := by
  obtain ⟨_, bytes, _, hs, _⟩ := asset_serialize_ok c D hf v h hD small
  obtain ⟨b, hb, hfa⟩ := asset_file_roundtrip c v h
    (fun a ha => asset_bin_roundtrip c D hf v h hD a ha (small a ha)) bytes hs
  exact ⟨bytes, b, hs, hb, hfa⟩

/-- **Idempotence, unconditional**: re-serialising the value re-read from the serialised file gives
the same bytes. -/
theorem asset_idempotent_unconditional (c : Codec) (D : Str → Prop) (hf : c.Faithful D)
    (v : AssetBinary) (h : WF v) (hD : Compose.AssetStrsIn D v)
    (small : ∀ a, build v = .ok a → Ser.imageSize c a < 2 ^ 32) :
    ∃ bytes b v', Asset.serialize c v = .ok bytes ∧ BinArchive.parse c .little bytes = .ok b ∧
      fromArchive b = .ok v' ∧ Asset.serialize c v' = .ok bytes := by
  obtain ⟨_, bytes, _, hs, _⟩ := asset_serialize_ok c D hf v h hD small
  obtain ⟨b, v', hb, hfa, hs'⟩ := asset_idempotent c v h
    (fun a ha => asset_bin_roundtrip c D hf v h hD a ha (small a ha)) bytes hs
  exact ⟨bytes, b, v', hs, hb, hfa, hs'⟩

/-- The file-level round trip with no assumption about the text encoding left (`Mila.sjisSub_faithful`). -/
theorem asset_file_roundtrip_sjisSub (v : AssetBinary) (h : WF v) (hD : Compose.AssetStrsIn Sjis.SubDomain v)
    (small : ∀ a, build v = .ok a → Ser.imageSize sjisSub a < 2 ^ 32) :
    ∃ bytes b, Asset.serialize sjisSub v = .ok bytes ∧ BinArchive.parse sjisSub .little bytes = .ok b ∧
      fromArchive b = .ok (normalizeBinary v) :=
  asset_file_roundtrip_unconditional sjisSub Sjis.SubDomain Mila.sjisSub_faithful v h hD small

/-- Non-vacuity of the composed theorems: the identity codec is faithful on NUL-free strings and
every string of `sample` is NUL-free. -/
example : (⟨fun s => some s, id⟩ : Codec).Faithful (fun s => (0 : UInt8) ∉ s) ∧
    Compose.AssetStrsIn (fun s => (0 : UInt8) ∉ s) sample := by
  refine ⟨fun s hs => ⟨s, rfl, hs, rfl⟩, ?_⟩
  intro spec hspec
  simp only [sample, List.mem_cons, List.mem_nil_iff, or_false] at hspec
  rcases hspec with rfl | rfl
  · refine ⟨fun s hs => (by cases hs; decide), fun s hs => ?_⟩
    simp only [List.mem_cons, List.mem_append, List.mem_replicate, List.mem_nil_iff, or_false,
      Option.some.injEq, reduceCtorEq, and_false, false_or, or_false] at hs
    rcases hs with rfl | rfl <;> decide
  · refine ⟨fun s hs => (by cases hs), fun s hs => ?_⟩
    simp only [List.mem_replicate] at hs
    cases hs.2

/-- All hypotheses of the composed theorems together, the size limit included, hold of a concrete
binary (one short record with a name) over the identity codec; the image size is evaluated in the
kernel. -/
example :
    let c : Codec := ⟨fun s => some s, id⟩
    let D : Str → Prop := fun s => (0 : UInt8) ∉ s
    let v : AssetBinary := ⟨7, [⟨some (bs ['n']), List.replicate 33 none, List.replicate 18 (false, zero4)⟩]⟩
    c.Faithful D ∧ WF v ∧ Compose.AssetStrsIn D v ∧
      ∀ a, build v = .ok a → Ser.imageSize c a < 2 ^ 32 := by
  refine ⟨fun s hs => ⟨s, rfl, hs, rfl⟩, ⟨by decide +kernel, by decide +kernel⟩, ?_, ?_⟩
  · intro spec hspec
    simp only [List.mem_singleton] at hspec
    subst hspec
    refine ⟨fun s hs => (by cases hs; decide), fun s hs => ?_⟩
    simp only [List.mem_replicate] at hs; cases hs.2
  · intro a ha
    have h : (match build ⟨7, [⟨some (bs ['n']), List.replicate 33 none, List.replicate 18 (false, zero4)⟩]⟩ with
        | .ok a => decide (Ser.imageSize ⟨fun s => some s, id⟩ a < 2 ^ 32)
        | _ => false) = true := by decide +kernel
    rw [ha] at h
    simpa using h

end Mila.Props.C18
