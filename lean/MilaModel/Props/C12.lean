/-
C12 — Layered filesystem: top layer wins, writes stay on top, read-after-write
(+ the filesystem clause of C14: every operation applies the same path mapping).

Property theorems only.  Model: `Mila.LayeredFs` (transcribes `src/layered_filesystem.rs` over a
modelled POSIX tree; LZ and the typed codecs are abstract parameters `Env`).  Specification:
`Mila.Spec.Overlay` (directory walks, top-down search, frame predicates, configuration table),
written from the property statement.  Path strings range over the specification's domain
`Spec.Overlay.locOf p = some q` (relative paths of plain components, optional trailing slash,
empty string = layer root).  The tie model <-> Rust is the `fs` correspondence stream.
-/
import MilaModel.Model.LayeredFs
import MilaModel.Spec.OverlayFs
import MilaModel.Lemmas.FsPath
import MilaModel.Lemmas.FsLayer
import MilaModel.Lemmas.FsBridge
import MilaModel.Lemmas.FsSuffix
import MilaModel.Lemmas.FsClosed
import MilaModel.Props.C14
import MilaModel.Lemmas.ComposeLz

namespace Mila.Props.C12
open Mila Mila.LayeredFs Mila.Spec.Overlay

/-! ### configuration table -/

def gid : Spec.Loc.Game → GameId
  | .FE9 => .FE9 | .FE10 => .FE10 | .FE13 => .FE13 | .FE14 => .FE14 | .FE15 => .FE15
def mEndian : Endianness → Endian
  | .big => .big | .little => .little
def mText : TextEnc → TextFormat
  | .shiftJis => .shiftJis | .utf16 => .unicode
def mLz : LzFormat → LzKind
  | .lz10 => .lz10 | .lz13 => .lz13

/-- **Configuration table** (`:173-229`), decided completely: every supported game gets the
localizer of C14 and the endianness / text encoding / LZ format the property states; FE11 and FE12
are rejected. -/
theorem config_table :
    (∀ g : Spec.Loc.Game, LayeredFs.config (gid g) =
      some ⟨mLz (Spec.Overlay.config g).lz, C14.mg g, mEndian (Spec.Overlay.config g).endian,
            mText (Spec.Overlay.config g).text⟩) ∧
    LayeredFs.config .FE11 = none ∧ LayeredFs.config .FE12 = none := by
  refine ⟨?_, rfl, rfl⟩
  intro g; cases g <;> rfl

/-- The suffix test of the code is the specification's "path has the game's compressed suffix"
(`.cms`/`.cmp` for LZ10 games, `.lz` for LZ13 games), for every path. -/
theorem suffix_table (g : Spec.Loc.Game) (path : Bytes) :
    isCompressed (mLz (Spec.Overlay.config g).lz) path = hasCompressedSuffix g path := by
  cases g <;> simp [isCompressed, hasCompressedSuffix, Spec.Overlay.config, mLz, suffixes]

/-- `new` installs exactly that configuration, keeps the layers, and fails without layers. -/
theorem new_spec (layers : List Layer) (lang : Localize.Language) (g : Spec.Loc.Game) (h : layers ≠ []) :
    ∃ fs, LayeredFs.new layers lang (gid g) = .ok fs ∧ fs.layers = layers ∧ fs.lang = lang ∧
      fs.cfg = ⟨mLz (Spec.Overlay.config g).lz, C14.mg g, mEndian (Spec.Overlay.config g).endian,
                mText (Spec.Overlay.config g).text⟩ := by
  have hc := config_table.1 g
  have he : layers.isEmpty = false := by cases layers <;> simp_all
  unfold LayeredFs.new
  simp only [he, hc]
  exact ⟨_, rfl, rfl, rfl, rfl⟩

theorem new_rejects (lang : Localize.Language) (game : GameId) (layers : List Layer) :
    LayeredFs.new [] lang game = .err .Other ∧
    LayeredFs.new layers lang .FE11 ≠ .ok fs ∧ LayeredFs.new layers lang .FE12 ≠ .ok fs := by
  refine ⟨rfl, ?_, ?_⟩ <;> (unfold LayeredFs.new; cases layers <;> simp [LayeredFs.config])

/-! ### read: the top layer wins -/

/-- The reference search is the declarative "highest layer holding the file". -/
theorem topFile_isTop (ws : List Walk) (q : Loc) (b : Bytes) :
    topFile ws q = some b ↔ IsTopFile ws q b := by
  unfold topFile IsTopFile
  rw [List.findSome?_eq_some_iff]
  constructor
  · rintro ⟨l1, a, l2, hrev, hfa, hnone⟩
    refine ⟨l2.reverse, a, l1.reverse, ?_, hfa, ?_⟩
    · have := congrArg List.reverse hrev
      simpa using this
    · intro w hw; exact hnone w (List.mem_reverse.mp hw)
  · rintro ⟨lo, w, hi, rfl, hfa, hnone⟩
    refine ⟨hi.reverse, w, lo.reverse, by simp, hfa, ?_⟩
    intro x hx; exact hnone x (List.mem_reverse.mp hx)

theorem topFile_none (ws : List Walk) (q : Loc) :
    topFile ws q = none ↔ ∀ w ∈ ws, w.fileAt q = none := by
  unfold topFile
  rw [List.findSome?_eq_none_iff]
  simp

private theorem readAt_top (E : Env) (fs : Fs) (z : Bool) {p : Bytes} {q : Loc} (h : locOf p = some q) :
    fs.readAt E p z =
      match topFile (walksOf fs) q with
      | none => .err .NotFound
      | some s => if z then reclass .Decoding ((E.lz fs.cfg.lz).decompress s) else .ok s := by
  unfold Fs.readAt topFile walksOf
  rw [← List.map_reverse, findSome_fileAt _ h]
  cases hf : fs.layers.reverse.find? (fun l => l.fileExists p) with
  | none => rfl
  | some l =>
    have hfe : l.fileExists p = true := by simpa using List.find?_some hf
    rw [fileExists_eq l h] at hfe
    simp only [read_eq l h]
    cases hfa : (walkOf l).fileAt q with
    | none => simp [hfa] at hfe
    | some s => rfl

/-- **read_top.** Reading a path of the domain returns the stored bytes of the highest-priority
layer in which the path is a regular file — decoded with the game's LZ format iff the path has the
compressed suffix — and `NotFound` if no layer has the file. -/
theorem read_top (E : Env) (fs : Fs) {p : Bytes} {q : Loc} (h : locOf p = some q) :
    fs.read E p false =
      match topFile (walksOf fs) q with
      | none => .err .NotFound
      | some s =>
        if isCompressed fs.cfg.lz p then reclass .Decoding ((E.lz fs.cfg.lz).decompress s) else .ok s := by
  unfold Fs.read Fs.actualPath
  simp only [Bool.false_eq_true, if_false]
  exact readAt_top E fs _ h

/-- Declarative form: the bytes of layer `w` are returned whenever no higher layer has the file;
a file in no layer is `NotFound`. -/
theorem read_top_declarative (E : Env) (fs : Fs) {p : Bytes} {q : Loc} (h : locOf p = some q)
    (hz : isCompressed fs.cfg.lz p = false) :
    (∀ b, IsTopFile (walksOf fs) q b → fs.read E p false = .ok b) ∧
    ((∀ w ∈ walksOf fs, w.fileAt q = none) → fs.read E p false = .err .NotFound) := by
  constructor
  · intro b hb
    rw [read_top E fs h, (topFile_isTop _ _ _).mpr hb]
    simp [hz]
  · intro hn
    rw [read_top E fs h, (topFile_none _ _).mpr hn]

/-- Localized read: the same search at the localized location; the suffix decision is taken on
the *unlocalised* path (`:274`). -/
theorem read_top_localized (E : Env) (fs : Fs) (g : Spec.Loc.Game) (lang : Spec.Loc.Language)
    (hg : fs.cfg.localizer = C14.mg g) (hl : fs.lang = C14.ml lang)
    (dir : List Bytes) (l : Bytes) (hd : ∀ c ∈ dir, Spec.Loc.Plain c) (hlp : Spec.Loc.Plain l) :
    fs.read E (joinWith Localize.slash (dir ++ [l])) true =
      match Spec.Loc.expected g lang dir l with
      | none => .err .Unsupported
      | some qs =>
        match locOf qs with
        | none => fs.readAt E qs (isCompressed fs.cfg.lz (joinWith Localize.slash (dir ++ [l])))
        | some q =>
          match topFile (walksOf fs) q with
          | none => .err .NotFound
          | some s =>
            if isCompressed fs.cfg.lz (joinWith Localize.slash (dir ++ [l]))
            then reclass .Decoding ((E.lz fs.cfg.lz).decompress s) else .ok s := by
  unfold Fs.read Fs.actualPath
  simp only [if_true, hg, hl, C14.localize_plain g lang dir l hd hlp]
  cases Spec.Loc.expected g lang dir l with
  | none => rfl
  | some qs =>
    simp only
    cases hq : locOf qs with
    | none => rfl
    | some q => exact readAt_top E fs _ hq

/-! ### existence queries and resolve: the same top-down search -/

private theorem anyLayer_any (fs : Fs) (f : Layer → Bool) : fs.anyLayer f = fs.layers.any f :=
  find_isSome_reverse fs.layers f

/-- **exists_same_search.** `exists`, `file_exists`, `directory_exists` hold iff some layer has the
path (as anything / a file / a directory); `resolve` names the highest layer in which it exists. -/
theorem exists_same_search (fs : Fs) {p : Bytes} {q : Loc} (h : locOf p = some q) :
    fs.exists_ p false = .ok (anyExists (walksOf fs) q) ∧
    fs.fileExists p false = .ok (anyFile (walksOf fs) q) ∧
    fs.directoryExists p false = .ok (anyDir (walksOf fs) q) ∧
    fs.resolve p false = (topExists (walksOf fs) q).map (fun i => (i, p)) := by
  refine ⟨?_, ?_, ?_, ?_⟩
  · simp only [Fs.exists_, Fs.query, Fs.actualPath, Bool.false_eq_true, if_false, anyLayer_any,
      anyExists, walksOf, List.any_map]
    have : (fun l : Layer => l.exists_ p) = ((fun w : Walk => w.existsAt q) ∘ walkOf) := by
      funext l; simp [exists_eq l h]
    rw [this]
  · simp only [Fs.fileExists, Fs.query, Fs.actualPath, Bool.false_eq_true, if_false, anyLayer_any,
      anyFile, walksOf, List.any_map]
    have : (fun l : Layer => l.fileExists p) = ((fun w : Walk => (w.fileAt q).isSome) ∘ walkOf) := by
      funext l; simp [fileExists_eq l h]
    rw [this]
  · simp only [Fs.directoryExists, Fs.query, Fs.actualPath, Bool.false_eq_true, if_false, anyLayer_any,
      anyDir, walksOf, List.any_map]
    have : (fun l : Layer => l.directoryExists p) = ((fun w : Walk => w.dirAt q) ∘ walkOf) := by
      funext l; simp [dirExists_eq l h]
    rw [this]
  · simp only [Fs.resolve, Fs.actualPath, Bool.false_eq_true, if_false, walksOf,
      topIndex_eq_topExists fs.layers h]

/-! ### write: only the top layer, read-after-write -/

private theorem writeAt_cases (fs : Fs) (a c : Bytes) :
    (fs.layers = [] ∧ fs.writeAt a c = (fs, .err .Other)) ∨
    ∃ top, fs.layers.getLast? = some top ∧
      (fs.writeAt a c).1 = fs.setTop (top.write a c).1 ∧
      ((fs.writeAt a c).2 = .ok () ↔ (top.write a c).2 = .ok ()) := by
  unfold Fs.writeAt
  cases hl : fs.layers.getLast? with
  | none => left; exact ⟨List.getLast?_eq_none_iff.mp hl, rfl⟩
  | some top =>
    right
    refine ⟨top, rfl, ?_, ?_⟩
    · dsimp only
      generalize top.write a c = r
      obtain ⟨t, o⟩ := r
      cases o with
      | ok u => cases u; rfl
      | err e => rfl
      | panic => rfl
    · dsimp only
      generalize top.write a c = r
      obtain ⟨t, o⟩ := r
      cases o with
      | ok u => cases u; simp
      | err e => simp
      | panic => simp

private theorem writeAt_frame (fs : Fs) (a c : Bytes) :
    (fs.writeAt a c).1.layers.dropLast = fs.layers.dropLast ∧
    (fs.writeAt a c).1.layers.length = fs.layers.length ∧
    (fs.writeAt a c).1.cfg = fs.cfg ∧ (fs.writeAt a c).1.lang = fs.lang := by
  rcases writeAt_cases fs a c with ⟨_, h⟩ | ⟨top, htop, h, _⟩
  · rw [h]; exact ⟨rfl, rfl, rfl, rfl⟩
  · have hne : fs.layers ≠ [] := by intro e; simp [e] at htop
    rw [h]
    obtain ⟨h1, h2, _, h4, h5⟩ := setTop_frame fs (top.write a c).1 hne
    exact ⟨h1, h2, h4, h5⟩

/-- The stored form of a payload: compressed with the game's format iff the (unlocalised) path has
the compressed suffix. -/
def encoded (E : Env) (fs : Fs) (path b : Bytes) : Res Bytes :=
  if isCompressed fs.cfg.lz path then reclass .Decoding ((E.lz fs.cfg.lz).compress b) else .ok b

private theorem write_unfold (E : Env) (fs : Fs) (p b : Bytes) (loc : Bool) :
    fs.write E p b loc =
      match fs.actualPath p loc with
      | .err e => (fs, .err e)
      | .panic => (fs, .panic)
      | .ok a =>
        match encoded E fs p b with
        | .err e => (fs, .err e)
        | .panic => (fs, .panic)
        | .ok c => fs.writeAt a c := rfl

/-- **write_frame** (lower layers). Whatever the path, payload and outcome, a write leaves every
layer below the top one exactly as it was, and never adds or removes layers. -/
theorem write_frame (E : Env) (fs : Fs) (p b : Bytes) (loc : Bool) :
    (fs.write E p b loc).1.layers.dropLast = fs.layers.dropLast ∧
    (fs.write E p b loc).1.layers.length = fs.layers.length ∧
    (fs.write E p b loc).1.cfg = fs.cfg ∧ (fs.write E p b loc).1.lang = fs.lang := by
  rw [write_unfold]
  cases fs.actualPath p loc with
  | err e => exact ⟨rfl, rfl, rfl, rfl⟩
  | panic => exact ⟨rfl, rfl, rfl, rfl⟩
  | ok a =>
    cases encoded E fs p b with
    | err e => exact ⟨rfl, rfl, rfl, rfl⟩
    | panic => exact ⟨rfl, rfl, rfl, rfl⟩
    | ok c => exact writeAt_frame fs a c

/-- **write_frame** (top layer). In the top layer a write of a domain path changes the entry at
that path only — to the file holding the encoded payload, and only if the write reports success —
except that missing ancestors of the path may have become directories (also when the write is then
rejected: `create_dir_all` has already run). -/
theorem write_frame_top (E : Env) (fs : Fs) {p : Bytes} {q : Loc} (h : locOf p = some q) (b : Bytes)
    (top : Layer) (htop : fs.layers.getLast? = some top) :
    ∃ top', (fs.write E p b false).1.layers.getLast? = some top' ∧
      ∀ x : Path,
        ((fs.write E p b false).2 = .ok () ∧ x = q.comps ∧
          ∃ s, encoded E fs p b = .ok s ∧ (walkOf top').at x = some (.file s)) ∨
        (walkOf top').at x = (walkOf top).at x ∨
        ((walkOf top).at x = none ∧ (walkOf top').at x = some .dir ∧ x ∈ properPrefixes q.comps) := by
  have hne : fs.layers ≠ [] := by intro e; simp [e] at htop
  rw [write_unfold]
  simp only [Fs.actualPath, Bool.false_eq_true, if_false]
  cases henc : encoded E fs p b with
  | err e => exact ⟨top, htop, fun x => Or.inr (Or.inl rfl)⟩
  | panic => exact ⟨top, htop, fun x => Or.inr (Or.inl rfl)⟩
  | ok c =>
    simp only
    rcases writeAt_cases fs p c with ⟨he, _⟩ | ⟨top0, htop0, hw, hok⟩
    · exact absurd he hne
    · have : top0 = top := by rw [htop] at htop0; exact (Option.some.inj htop0).symm
      subst this
      refine ⟨(top0.write p c).1, ?_, ?_⟩
      · rw [hw]; exact (setTop_frame fs _ hne).2.2.1
      · intro x
        have hpp := parsePath_of_locOf h
        rcases Layer.write_get top0 p c x with ⟨h1, h2, _, _, h5⟩ | h2 | ⟨h1, h2, h3⟩
        · left
          refine ⟨hok.mpr h1, by simpa [hpp] using h2, c, rfl, ?_⟩
          rw [at_walkOf, h5]; rfl
        · right; left
          rw [at_walkOf, at_walkOf, h2]
        · right; right
          refine ⟨by rw [at_walkOf, h1]; rfl, by rw [at_walkOf, h2]; rfl, ?_⟩
          rw [hpp] at h3
          exact (properPrefixes_eq q.comps x).mp h3

/-- **When a write succeeds.** For a path of the domain whose payload can be encoded, the write
reports success exactly when the specification says the top layer can take the file: the path
names a file position (not the root, no trailing slash), no ancestor is a regular file in the top
layer, and the position is not a directory there.  Lower layers play no role. -/
theorem write_succeeds_iff (E : Env) (fs : Fs) {p : Bytes} {q : Loc} (h : locOf p = some q) (b s : Bytes)
    (top : Layer) (htop : fs.layers.getLast? = some top) (henc : encoded E fs p b = .ok s) :
    (fs.write E p b false).2 = .ok () ↔ writable (walkOf top) q = true := by
  have hne : fs.layers ≠ [] := by intro e; simp [e] at htop
  rw [write_unfold]
  simp only [Fs.actualPath, Bool.false_eq_true, if_false, henc]
  rcases writeAt_cases fs p s with ⟨he, _⟩ | ⟨top0, htop0, _, hok⟩
  · exact absurd he hne
  · have : top0 = top := by rw [htop] at htop0; exact (Option.some.inj htop0).symm
    subst this
    rw [hok, Layer.write_ok_iff, parsePath_of_locOf h]
    unfold writable
    simp only [Bool.and_eq_true, Bool.not_eq_true', List.isEmpty_eq_false_iff, List.all_eq_true,
      decide_eq_true_eq, notFile_walkOf, ne_eq, at_dir_iff]
    constructor
    · rintro ⟨h1, h2, h3, h4⟩
      refine ⟨⟨⟨h3, h2⟩, ?_⟩, h4⟩
      intro a ha
      exact h1 a ((properPrefixes_eq q.comps a).mpr ha)
    · rintro ⟨⟨⟨h3, h2⟩, h1⟩, h4⟩
      refine ⟨?_, h2, h3, h4⟩
      intro a ha
      exact h1 a ((properPrefixes_eq q.comps a).mp ha)

/-- **When `create_dir` succeeds**: exactly when no component on the way (the path itself
included) is a regular file in the top layer. -/
theorem createDir_succeeds_iff (fs : Fs) {p : Bytes} {q : Loc} (h : locOf p = some q)
    (top : Layer) (htop : fs.layers.getLast? = some top) :
    (fs.createDir p false).2 = .ok () ↔ dirCreatable (walkOf top) q = true := by
  have hlhs : (fs.createDir p false).2 = .ok () ↔ (top.createDir p).2 = .ok () := by
    unfold Fs.createDir Fs.actualPath
    simp only [Bool.false_eq_true, if_false, htop]
    generalize top.createDir p = r
    obtain ⟨t, o⟩ := r
    cases o with
    | ok u => cases u; simp
    | err e => simp
    | panic => simp
  rw [hlhs, Layer.createDir_ok_iff, parsePath_of_locOf h]
  unfold dirCreatable
  simp only [List.all_eq_true, notFile_walkOf, Bool.not_eq_true', List.mem_append, List.mem_singleton]
  constructor
  · intro h1 a ha
    rcases ha with ha | ha
    · exact h1 a (mem_prefixes.mpr ⟨(mem_properPrefixes.mp ha).1, (mem_properPrefixes.mp ha).2.1⟩)
    · subst ha
      by_cases hc : q.comps = []
      · rw [hc]; simp [Layer.isFileNode]
      · exact h1 q.comps (mem_prefixes.mpr ⟨hc, List.prefix_refl _⟩)
  · intro h1 a ha
    obtain ⟨hne', hp⟩ := mem_prefixes.mp ha
    by_cases hl : a.length < q.comps.length
    · exact h1 a (Or.inl (mem_properPrefixes.mpr ⟨hne', hp, hl⟩))
    · have : a = q.comps := hp.eq_of_length (by have := hp.length_le; omega)
      exact h1 a (Or.inr this)

/-- The LZ round trip the filesystem relies on for compressed suffixes: properties C08/C09 (the
compressor's output decodes to its input) and C11 (the decoder), proved in their own modules. -/
def LzRoundTrip (z : Lz) : Prop := ∀ b c, z.compress b = .ok c → z.decompress c = .ok b

private theorem write_ok_cases (E : Env) (fs fs' : Fs) (p b : Bytes) (loc : Bool)
    (h : fs.write E p b loc = (fs', .ok ())) :
    ∃ a c top top', fs.actualPath p loc = .ok a ∧ encoded E fs p b = .ok c ∧
      fs.layers.getLast? = some top ∧ top.write a c = (top', .ok ()) ∧ fs' = fs.setTop top' := by
  rw [write_unfold] at h
  cases ha : fs.actualPath p loc with
  | err e => simp [ha] at h
  | panic => simp [ha] at h
  | ok a =>
    simp only [ha] at h
    cases hc : encoded E fs p b with
    | err e => simp [hc] at h
    | panic => simp [hc] at h
    | ok c =>
      simp only [hc] at h
      rcases writeAt_cases fs a c with ⟨_, he⟩ | ⟨top, htop, hw, hok⟩
      · rw [he] at h; simp at h
      · have h2 : (fs.writeAt a c).2 = .ok () := by rw [h]
        have h1 : (fs.writeAt a c).1 = fs' := by rw [h]
        have hwok := hok.mp h2
        refine ⟨a, c, top, (top.write a c).1, rfl, rfl, htop, ?_, ?_⟩
        · rw [← hwok]
        · rw [← h1, hw]

/-- **read_after_write.** After a successful write, reading the same path with the same
localisation choice returns exactly the written bytes; for paths with the compressed suffix this
rests on the LZ round trip (named hypothesis; C08/C09/C11).  No domain restriction on the path. -/
theorem read_after_write (E : Env) (fs fs' : Fs) (p b : Bytes) (loc : Bool)
    (hrt : isCompressed fs.cfg.lz p = true → LzRoundTrip (E.lz fs.cfg.lz))
    (h : fs.write E p b loc = (fs', .ok ())) :
    fs'.read E p loc = .ok b := by
  obtain ⟨a, c, top, top', ha, hc, htop, hw, rfl⟩ := write_ok_cases E fs fs' p b loc h
  have hne : fs.layers ≠ [] := by intro e; simp [e] at htop
  obtain ⟨_, _, hlast, hcfg, hlang⟩ := setTop_frame fs top' hne
  have hstat := Layer.stat_after_write top top' a c hw
  unfold Fs.read
  have ha' : (fs.setTop top').actualPath p loc = .ok a := by
    unfold Fs.actualPath at ha ⊢; rw [hcfg, hlang]; exact ha
  simp only [ha']
  rw [readAt_top_file E (fs.setTop top') top' a c _ hlast hstat, hcfg]
  unfold encoded at hc
  by_cases hz : isCompressed fs.cfg.lz p = true
  · simp only [hz, if_true] at hc ⊢
    cases hcomp : (E.lz fs.cfg.lz).compress b with
    | ok c0 =>
      simp only [hcomp, reclass] at hc
      have hcc : c0 = c := Res.ok.inj hc
      subst hcc
      simp [hrt hz b c0 hcomp, reclass]
    | err e => simp [hcomp, reclass] at hc
    | panic => simp [hcomp, reclass] at hc
  · simp only [hz] at hc ⊢
    have hcc : b = c := Res.ok.inj hc
    subst hcc; rfl

/-- For a path with the compressed suffix the stored file is the compressor's output for the
payload (a valid compressed stream by C08/C09), in the top layer, at the localised location. -/
theorem stored_is_compressed (E : Env) (fs fs' : Fs) (p b : Bytes) (loc : Bool)
    (hz : isCompressed fs.cfg.lz p = true) (h : fs.write E p b loc = (fs', .ok ())) :
    ∃ a c top', fs.actualPath p loc = .ok a ∧ (E.lz fs.cfg.lz).compress b = .ok c ∧
      fs'.layers.getLast? = some top' ∧ top'.read a = .ok c := by
  obtain ⟨a, c, top, top', ha, hc, htop, hw, rfl⟩ := write_ok_cases E fs fs' p b loc h
  have hne : fs.layers ≠ [] := by intro e; simp [e] at htop
  have hstat := Layer.stat_after_write top top' a c hw
  refine ⟨a, c, top', ha, ?_, (setTop_frame fs top' hne).2.2.1, by simp [Layer.read, hstat]⟩
  unfold encoded at hc
  simp only [hz, if_true] at hc
  cases hcomp : (E.lz fs.cfg.lz).compress b with
  | ok c0 =>
    simp only [hcomp, reclass] at hc
    have hcc : c0 = c := Res.ok.inj hc
    subst hcc; rfl
  | err e => simp [hcomp, reclass] at hc
  | panic => simp [hcomp, reclass] at hc

/-! ### create_dir -/

theorem createDir_frame (fs : Fs) (p : Bytes) (loc : Bool) :
    (fs.createDir p loc).1.layers.dropLast = fs.layers.dropLast ∧
    (fs.createDir p loc).1.layers.length = fs.layers.length ∧
    (fs.createDir p loc).1.cfg = fs.cfg ∧ (fs.createDir p loc).1.lang = fs.lang := by
  unfold Fs.createDir
  cases fs.actualPath p loc with
  | err e => exact ⟨rfl, rfl, rfl, rfl⟩
  | panic => exact ⟨rfl, rfl, rfl, rfl⟩
  | ok a =>
    simp only
    cases htop : fs.layers.getLast? with
    | none => exact ⟨rfl, rfl, rfl, rfl⟩
    | some top =>
      have hne : fs.layers ≠ [] := by intro e; simp [e] at htop
      simp only
      generalize top.createDir a = r
      obtain ⟨t, o⟩ := r
      obtain ⟨h1, h2, _, h4, h5⟩ := setTop_frame fs t hne
      cases o with
      | ok u => cases u; exact ⟨h1, h2, h4, h5⟩
      | err e => exact ⟨h1, h2, h4, h5⟩
      | panic => exact ⟨h1, h2, h4, h5⟩

/-! ### typed helpers = byte-level call ∘ configured codec -/

/-- Sequential composition of a byte-level read with a codec (`?` after `read`, then the parser). -/
def thenParse {α : Type} (r : Res Bytes) (parse : Bytes → Res α) : Res α :=
  match r with
  | .ok bytes => reclass .Invalid (parse bytes)
  | .err e => .err e
  | .panic => .panic

/-- **typed_helpers.** For a filesystem configured for game `g`, every typed reader is the
byte-level `read` followed by the codec the property names for that game (big-endian / Shift-JIS
for FE9/FE10, little-endian / UTF-16 for FE13–FE15; pack, arc and texture parsers are
game-independent), and the archive writers are `serialize` followed by the byte-level `write`. -/
theorem typed_helpers (E : Env) (fs : Fs) (g : Spec.Loc.Game)
    (hcfg : fs.cfg = ⟨mLz (Spec.Overlay.config g).lz, C14.mg g, mEndian (Spec.Overlay.config g).endian,
                      mText (Spec.Overlay.config g).text⟩)
    (p : Bytes) (loc : Bool) :
    fs.readArchive E p loc = thenParse (fs.read E p loc) (E.binParse (mEndian (Spec.Overlay.config g).endian)) ∧
    fs.readTextArchive E p loc = thenParse (fs.read E p loc)
      (E.txtParse (mText (Spec.Overlay.config g).text) (mEndian (Spec.Overlay.config g).endian)) ∧
    fs.readFe9Arc E p loc = thenParse (fs.read E p loc) E.packParse ∧
    fs.readArc E p loc = thenParse (fs.read E p loc) E.arcParse ∧
    fs.readTplTextures E p loc = thenParse (fs.read E p loc) E.tplParse ∧
    fs.readBchTextures E p loc = thenParse (fs.read E p loc) E.bchParse ∧
    fs.readCtpkTextures E p loc = thenParse (fs.read E p loc) E.ctpkParse ∧
    fs.readCgfxTextures E p loc = thenParse (fs.read E p loc) E.cgfxParse ∧
    (∀ a bytes, E.binSer a = .ok bytes → fs.writeArchive E p a loc = fs.write E p bytes loc) ∧
    (∀ t bytes, E.txtSer t = .ok bytes → fs.writeTextArchive E p t loc = fs.write E p bytes loc) ∧
    (∀ a, E.binSer a ≠ .panic → (∀ bytes, E.binSer a ≠ .ok bytes) → fs.writeArchive E p a loc = (fs, .err .Invalid)) := by
  have he : fs.cfg.endian = mEndian (Spec.Overlay.config g).endian := by rw [hcfg]
  have ht : fs.cfg.text = mText (Spec.Overlay.config g).text := by rw [hcfg]
  refine ⟨?_, ?_, rfl, rfl, rfl, rfl, rfl, rfl, ?_, ?_, ?_⟩
  · unfold Fs.readArchive; rw [he]; rfl
  · unfold Fs.readTextArchive; rw [he, ht]; rfl
  · intro a bytes h; simp [Fs.writeArchive, Fs.serThenWrite, h, reclass]
  · intro t bytes h; simp [Fs.writeTextArchive, Fs.serThenWrite, h, reclass]
  · intro a h1 h2
    unfold Fs.writeArchive Fs.serThenWrite
    cases hs : E.binSer a with
    | ok bytes => exact absurd hs (h2 bytes)
    | err e => rfl
    | panic => exact absurd hs h1

/-! ### C14, filesystem clause: every operation applies the same path mapping -/

/-- **ops_commute.** When the localizer maps `p` to `a`, every operation with `localized = true`
on `p` is the unlocalised operation on `a` — existence queries, `resolve`, `create_dir`, listings
and sub-directory listings unconditionally; `read` and `write` address the same on-disk location
and differ from the unlocalised call only in that the compressed-suffix decision is taken on the
unlocalised name (`:274`, `:415`), so they coincide whenever `p` and `a` agree on the suffix. -/
theorem ops_commute (E : Env) (fs : Fs) (p a : Bytes)
    (h : Localize.localize fs.cfg.localizer fs.lang p = .ok a) :
    fs.exists_ p true = fs.exists_ a false ∧
    fs.fileExists p true = fs.fileExists a false ∧
    fs.directoryExists p true = fs.directoryExists a false ∧
    fs.resolve p true = fs.resolve a false ∧
    fs.createDir p true = fs.createDir a false ∧
    (∀ pat, fs.list p pat true = fs.list a pat false) ∧
    fs.subdirectories p true = fs.subdirectories a false ∧
    fs.read E p true = fs.readAt E a (isCompressed fs.cfg.lz p) ∧
    fs.read E a false = fs.readAt E a (isCompressed fs.cfg.lz a) ∧
    (∀ b, fs.write E p b true =
      match encoded E fs p b with
      | .ok c => fs.writeAt a c
      | .err e => (fs, .err e)
      | .panic => (fs, .panic)) ∧
    (isCompressed fs.cfg.lz p = isCompressed fs.cfg.lz a →
      fs.read E p true = fs.read E a false ∧ ∀ b, fs.write E p b true = fs.write E a b false) := by
  have hT : fs.actualPath p true = .ok a := by simp [Fs.actualPath, h]
  have hF : fs.actualPath a false = .ok a := by simp [Fs.actualPath]
  refine ⟨?_, ?_, ?_, ?_, ?_, ?_, ?_, ?_, ?_, ?_, ?_⟩
  · simp [Fs.exists_, Fs.query, hT, hF]
  · simp [Fs.fileExists, Fs.query, hT, hF]
  · simp [Fs.directoryExists, Fs.query, hT, hF]
  · simp [Fs.resolve, hT, hF]
  · simp [Fs.createDir, hT, hF]
  · intro pat; simp [Fs.list, hT, hF]
  · simp [Fs.subdirectories, hT, hF]
  · simp [Fs.read, hT]
  · simp [Fs.read, hF]
  · intro b; rw [write_unfold]; simp only [hT]; cases encoded E fs p b <;> rfl
  · intro hz
    refine ⟨by simp [Fs.read, hT, hF, hz], ?_⟩
    intro b
    rw [write_unfold, write_unfold]
    simp only [hT, hF, encoded, hz]

/-- A path the localizer rejects (unsupported language, no final component) makes every localized
operation fail with that error — `resolve` answers `None` — and changes nothing. -/
theorem ops_localize_error (E : Env) (fs : Fs) (p : Bytes) (e : Err)
    (h : Localize.localize fs.cfg.localizer fs.lang p = .err e) :
    fs.read E p true = .err e ∧ fs.exists_ p true = .err e ∧ fs.fileExists p true = .err e ∧
    fs.directoryExists p true = .err e ∧ fs.resolve p true = none ∧
    (∀ b, fs.write E p b true = (fs, .err e)) ∧ fs.createDir p true = (fs, .err e) ∧
    (∀ pat, fs.list p pat true = .err e) ∧ fs.subdirectories p true = .err e := by
  have hT : fs.actualPath p true = .err e := by simp [Fs.actualPath, h]
  refine ⟨?_, ?_, ?_, ?_, ?_, ?_, ?_, ?_, ?_⟩
  · simp [Fs.read, hT]
  · simp [Fs.exists_, Fs.query, hT]
  · simp [Fs.fileExists, Fs.query, hT]
  · simp [Fs.directoryExists, Fs.query, hT]
  · simp [Fs.resolve, hT]
  · intro b; rw [write_unfold]; simp [hT]
  · simp [Fs.createDir, hT]
  · intro pat; simp [Fs.list, hT]
  · simp [Fs.subdirectories, hT]

/-- For every supported game and language and every path `dir/…/l` of plain components with a
non-empty directory part, the localised path keeps the compressed-suffix decision; hence (with
`ops_commute`) localized `read`/`write` *are* the unlocalised calls on the localised path. -/
theorem read_write_localized (E : Env) (fs : Fs) (g : Spec.Loc.Game) (lang : Spec.Loc.Language)
    (hg : fs.cfg.localizer = C14.mg g) (hl : fs.lang = C14.ml lang)
    (dir : List Bytes) (l qs : Bytes) (hdir : dir ≠ [])
    (hd : ∀ c ∈ dir, Spec.Loc.Plain c) (hlp : Spec.Loc.Plain l)
    (hq : Spec.Loc.expected g lang dir l = some qs) :
    fs.read E (joinWith Localize.slash (dir ++ [l])) true = fs.read E qs false ∧
    ∀ b, fs.write E (joinWith Localize.slash (dir ++ [l])) b true = fs.write E qs b false := by
  have hloc : Localize.localize fs.cfg.localizer fs.lang (joinWith Localize.slash (dir ++ [l])) = .ok qs := by
    rw [hg, hl, C14.localize_plain g lang dir l hd hlp, hq]
  have hz := isCompressed_localized fs.cfg.lz g lang dir l qs hdir hq
  exact (ops_commute E fs _ qs hloc).2.2.2.2.2.2.2.2.2.2 hz.symm

/-! ### histories -/

/-- The state-changing operations of the API. -/
inductive Op (E : Env)
  | write (p b : Bytes) (loc : Bool)
  | createDir (p : Bytes) (loc : Bool)
  | writeArchive (p : Bytes) (a : E.Bin) (loc : Bool)
  | writeTextArchive (p : Bytes) (t : E.Txt) (loc : Bool)

def step (E : Env) (fs : Fs) : Op E → Fs
  | .write p b loc => (fs.write E p b loc).1
  | .createDir p loc => (fs.createDir p loc).1
  | .writeArchive p a loc => (fs.writeArchive E p a loc).1
  | .writeTextArchive p t loc => (fs.writeTextArchive E p t loc).1

def run (E : Env) (fs : Fs) (ops : List (Op E)) : Fs := ops.foldl (step E) fs

private theorem serThenWrite_frame (E : Env) (fs : Fs) (p : Bytes) (ser : Res Bytes) (loc : Bool) :
    (fs.serThenWrite E p ser loc).1.layers.dropLast = fs.layers.dropLast ∧
    (fs.serThenWrite E p ser loc).1.layers.length = fs.layers.length ∧
    (fs.serThenWrite E p ser loc).1.cfg = fs.cfg ∧ (fs.serThenWrite E p ser loc).1.lang = fs.lang := by
  unfold Fs.serThenWrite
  cases reclass Err.Invalid ser with
  | ok bytes => exact write_frame E fs p bytes loc
  | err e => exact ⟨rfl, rfl, rfl, rfl⟩
  | panic => exact ⟨rfl, rfl, rfl, rfl⟩

private theorem step_frame (E : Env) (fs : Fs) (op : Op E) :
    (step E fs op).layers.dropLast = fs.layers.dropLast ∧
    (step E fs op).layers.length = fs.layers.length ∧
    (step E fs op).cfg = fs.cfg ∧ (step E fs op).lang = fs.lang := by
  cases op with
  | write p b loc => exact write_frame E fs p b loc
  | createDir p loc => exact createDir_frame fs p loc
  | writeArchive p a loc => exact serThenWrite_frame E fs p _ loc
  | writeTextArchive p t loc => exact serThenWrite_frame E fs p _ loc

/-- **write_frame over histories.** No sequence of writes, directory creations and archive writes
(successful or rejected, localized or not, any paths and payloads) ever modifies, creates or
deletes anything in a layer below the top one; the configuration never changes. -/
theorem history_frame (E : Env) (fs : Fs) (ops : List (Op E)) :
    (run E fs ops).layers.dropLast = fs.layers.dropLast ∧
    (run E fs ops).layers.length = fs.layers.length ∧
    (run E fs ops).cfg = fs.cfg ∧ (run E fs ops).lang = fs.lang := by
  induction ops generalizing fs with
  | nil => exact ⟨rfl, rfl, rfl, rfl⟩
  | cons op rest ih =>
    obtain ⟨h1, h2, h3, h4⟩ := step_frame E fs op
    obtain ⟨i1, i2, i3, i4⟩ := ih (step E fs op)
    exact ⟨i1.trans h1, i2.trans h2, i3.trans h3, i4.trans h4⟩

/-- Where an operation looks in the top layer (components of its localised path). -/
def Op.target (E : Env) (fs : Fs) : Op E → Option Comps
  | .write p _ loc => (fs.actualPath p loc).toOption.map (fun a => (parsePath a).comps)
  | .createDir p loc => (fs.actualPath p loc).toOption.map (fun a => (parsePath a).comps)
  | .writeArchive p _ loc => (fs.actualPath p loc).toOption.map (fun a => (parsePath a).comps)
  | .writeTextArchive p _ loc => (fs.actualPath p loc).toOption.map (fun a => (parsePath a).comps)

private theorem writeAt_keeps (fs : Fs) (a c : Bytes) (top : Layer) (x : Comps) (n : Bytes)
    (htop : fs.layers.getLast? = some top) (hx : top.get x = some (.file n))
    (hne : (parsePath a).comps ≠ x) :
    ∃ top', (fs.writeAt a c).1.layers.getLast? = some top' ∧ top'.get x = some (.file n) := by
  have hnl : fs.layers ≠ [] := by intro e; simp [e] at htop
  rcases writeAt_cases fs a c with ⟨he, _⟩ | ⟨top0, htop0, hw, _⟩
  · exact absurd he hnl
  · have : top0 = top := by rw [htop] at htop0; exact (Option.some.inj htop0).symm
    subst this
    refine ⟨(top0.write a c).1, by rw [hw]; exact (setTop_frame fs _ hnl).2.2.1, ?_⟩
    rcases Layer.write_get top0 a c x with ⟨_, h2, _⟩ | h2 | ⟨h1, _, _⟩
    · exact absurd h2.symm hne
    · rw [h2]; exact hx
    · rw [hx] at h1; cases h1

private theorem write_keeps (E : Env) (fs : Fs) (p b : Bytes) (loc : Bool) (top : Layer) (x : Comps) (n : Bytes)
    (htop : fs.layers.getLast? = some top) (hx : top.get x = some (.file n))
    (hne : (fs.actualPath p loc).toOption.map (fun a => (parsePath a).comps) ≠ some x) :
    ∃ top', (fs.write E p b loc).1.layers.getLast? = some top' ∧ top'.get x = some (.file n) := by
  rw [write_unfold]
  cases ha : fs.actualPath p loc with
  | err e => exact ⟨top, htop, hx⟩
  | panic => exact ⟨top, htop, hx⟩
  | ok a =>
    simp only
    cases encoded E fs p b with
    | err e => exact ⟨top, htop, hx⟩
    | panic => exact ⟨top, htop, hx⟩
    | ok c =>
      apply writeAt_keeps fs a c top x n htop hx
      intro e; apply hne; simp [ha, Res.toOption, e]

private theorem step_keeps (E : Env) (fs : Fs) (op : Op E) (top : Layer) (x : Comps) (n : Bytes)
    (htop : fs.layers.getLast? = some top) (hx : top.get x = some (.file n))
    (hne : Op.target E fs op ≠ some x) :
    ∃ top', (step E fs op).layers.getLast? = some top' ∧ top'.get x = some (.file n) := by
  have hnl : fs.layers ≠ [] := by intro e; simp [e] at htop
  cases op with
  | write p b loc => exact write_keeps E fs p b loc top x n htop hx hne
  | writeArchive p a loc =>
    simp only [step, Fs.writeArchive, Fs.serThenWrite]
    cases reclass Err.Invalid (E.binSer a) with
    | ok bytes => exact write_keeps E fs p bytes loc top x n htop hx hne
    | err e => exact ⟨top, htop, hx⟩
    | panic => exact ⟨top, htop, hx⟩
  | writeTextArchive p t loc =>
    simp only [step, Fs.writeTextArchive, Fs.serThenWrite]
    cases reclass Err.Invalid (E.txtSer t) with
    | ok bytes => exact write_keeps E fs p bytes loc top x n htop hx hne
    | err e => exact ⟨top, htop, hx⟩
    | panic => exact ⟨top, htop, hx⟩
  | createDir p loc =>
    simp only [step, Fs.createDir]
    cases ha : fs.actualPath p loc with
    | err e => exact ⟨top, htop, hx⟩
    | panic => exact ⟨top, htop, hx⟩
    | ok a =>
      simp only [htop]
      rcases Layer.createDir_get top a x with ⟨h1, h2⟩ | ⟨h1, h2⟩
      · generalize hr : top.createDir a = r at h1 h2
        obtain ⟨t, o⟩ := r
        simp only at h1 h2
        subst h2
        cases o with
        | ok u => cases u; exact absurd rfl h1
        | err e => exact ⟨t, (setTop_frame fs t hnl).2.2.1, hx⟩
        | panic => exact ⟨t, (setTop_frame fs t hnl).2.2.1, hx⟩
      · generalize hr : top.createDir a = r at h1 h2
        obtain ⟨t, o⟩ := r
        simp only at h1 h2
        subst h1
        refine ⟨t, (setTop_frame fs t hnl).2.2.1, ?_⟩
        rw [h2, hx]; simp

/-- **read_after_write over histories.** After a successful write of `b` at `p`, any further
history of state-changing operations that does not target the same location (the components of
its localised path differ) leaves the read result unchanged: reading `p` still returns `b`.
Read-only operations do not change the state at all (they return no state). -/
theorem read_after_write_history (E : Env) (fs fs1 : Fs) (p b : Bytes) (loc : Bool) (ops : List (Op E))
    (hrt : isCompressed fs.cfg.lz p = true → LzRoundTrip (E.lz fs.cfg.lz))
    (h : fs.write E p b loc = (fs1, .ok ()))
    (hops : ∀ op ∈ ops, Op.target E fs op ≠ (fs.actualPath p loc).toOption.map (fun a => (parsePath a).comps)) :
    (run E fs1 ops).read E p loc = .ok b := by
  obtain ⟨a, c, top, top', ha, hc, htop, hw, rfl⟩ := write_ok_cases E fs fs1 p b loc h
  have hnl : fs.layers ≠ [] := by intro e; simp [e] at htop
  obtain ⟨hne, hmd, hget⟩ := Layer.write_ok top top' a c hw
  obtain ⟨_, _, hlast, hcfg, hlang⟩ := setTop_frame fs top' hnl
  -- invariant along the history: same configuration, the top layer still holds the file
  have inv : ∀ (ops : List (Op E)) (s : Fs), s.cfg = fs.cfg → s.lang = fs.lang →
      (∃ t, s.layers.getLast? = some t ∧ t.get (parsePath a).comps = some (.file c)) →
      (∀ op ∈ ops, Op.target E fs op ≠ some (parsePath a).comps) →
      (run E s ops).cfg = fs.cfg ∧ (run E s ops).lang = fs.lang ∧
      ∃ t, (run E s ops).layers.getLast? = some t ∧ t.get (parsePath a).comps = some (.file c) := by
    intro ops
    induction ops with
    | nil => intro s h1 h2 h3 _; exact ⟨h1, h2, h3⟩
    | cons op rest ih =>
      intro s h1 h2 ⟨t, ht1, ht2⟩ hall
      obtain ⟨_, _, f3, f4⟩ := step_frame E s op
      have htgt : Op.target E s op = Op.target E fs op := by
        cases op <;> simp only [Op.target, Fs.actualPath, h1, h2]
      have hne' : Op.target E s op ≠ some (parsePath a).comps := by
        rw [htgt]; exact hall op (by simp)
      obtain ⟨t', ht1', ht2'⟩ := step_keeps E s op t _ c ht1 ht2 hne'
      exact ih (step E s op) (f3.trans h1) (f4.trans h2) ⟨t', ht1', ht2'⟩
        (fun o ho => hall o (by simp [ho]))
  have hops' : ∀ op ∈ ops, Op.target E fs op ≠ some (parsePath a).comps := by
    intro op hop; have := hops op hop; simpa [ha, Res.toOption] using this
  obtain ⟨c1, c2, t, ht1, ht2⟩ := inv ops (fs.setTop top') hcfg hlang ⟨top', hlast, hget⟩ hops'
  have hstat : t.stat a = some (.file c) := by simp [Layer.stat, ht2, hmd]
  unfold Fs.read
  have ha' : (run E (fs.setTop top') ops).actualPath p loc = .ok a := by
    unfold Fs.actualPath at ha ⊢; rw [c1, c2]; exact ha
  simp only [ha']
  rw [readAt_top_file E _ t a c _ ht1 hstat, c1]
  unfold encoded at hc
  by_cases hz : isCompressed fs.cfg.lz p = true
  · simp only [hz, if_true] at hc ⊢
    cases hcomp : (E.lz fs.cfg.lz).compress b with
    | ok c0 =>
      simp only [hcomp, reclass] at hc
      have hcc : c0 = c := Res.ok.inj hc
      subst hcc
      simp [hrt hz b c0 hcomp, reclass]
    | err e => simp [hcomp, reclass] at hc
    | panic => simp [hcomp, reclass] at hc
  · simp only [hz] at hc ⊢
    have hcc : b = c := Res.ok.inj hc
    subst hcc; rfl

/-! ### non-vacuity: the hypotheses are satisfiable by concrete, non-trivial objects -/

/-- A toy LZ: "compression" prepends a tag byte. -/
private def demoLz : Lz :=
  ⟨fun b => .ok (0x13 :: b), fun c => match c with | 0x13 :: b => .ok b | _ => .err .Decoding⟩

private def demoEnv : Env where
  lz10 := demoLz
  lz13 := demoLz
  Bin := Bytes
  Txt := Bytes
  Pack := Bytes
  Arc := Bytes
  Tex := Bytes
  binParse := fun _ b => .ok b
  binSer := fun b => .ok b
  txtParse := fun _ _ b => .ok b
  txtSer := fun b => .ok b
  packParse := fun b => .ok b
  arcParse := fun b => .ok b
  tplParse := fun b => .ok b
  bchParse := fun b => .ok b
  ctpkParse := fun b => .ok b
  cgfxParse := fun b => .ok b

/-- Two layers: the lower one holds `m/@E/x.lz` (compressed `[1]`) and `f`; the top one holds a
directory `f` and nothing else. FE14, English (NA). -/
private def demoFs : Fs :=
  ⟨[[([bs ['m']], .dir), ([bs ['m'], bs ['@', 'E']], .dir),
     ([bs ['m'], bs ['@', 'E'], bs ['x', '.', 'l', 'z']], .file [0x13, 1]), ([bs ['f']], .file [9])],
    [([bs ['f']], .dir)]],
   .FE14, ⟨.lz13, .FE14, .little, .unicode⟩, .EnglishNA⟩

example : LzRoundTrip demoLz := by
  intro b c h
  simp only [demoLz, Res.ok.injEq] at h
  subst h; rfl

example : locOf (bs ['m', '/', '@', 'E', '/', 'x', '.', 'l', 'z']) =
    some ⟨[bs ['m'], bs ['@', 'E'], bs ['x', '.', 'l', 'z']], false⟩ := by decide

/-- `read_top` / `read_top_localized` in action: the lower layer's file is found and decoded; the
path `f` is a directory on top and a file below, and the file is read. -/
example : demoFs.read demoEnv (bs ['m', '/', 'x', '.', 'l', 'z']) true = .ok [1] ∧
    demoFs.read demoEnv (bs ['f']) false = .ok [9] ∧
    demoFs.read demoEnv (bs ['n', 'o']) false = .err .NotFound := by decide

/-- `read_after_write` / `write_frame` in action: a localized write of a compressed name goes to
the top layer (creating `m/@E` there), the lower layer is untouched, reading returns the payload. -/
example :
    let r := demoFs.write demoEnv (bs ['m', '/', 'x', '.', 'l', 'z']) [7, 7] true
    r.2 = .ok () ∧ r.1.layers.dropLast = demoFs.layers.dropLast ∧
    r.1.layers.getLast? = some [([bs ['f']], .dir), ([bs ['m']], .dir), ([bs ['m'], bs ['@', 'E']], .dir),
      ([bs ['m'], bs ['@', 'E'], bs ['x', '.', 'l', 'z']], .file [0x13, 7, 7])] ∧
    r.1.read demoEnv (bs ['m', '/', 'x', '.', 'l', 'z']) true = .ok [7, 7] := by decide

/-! ### composition with C08 / C09 / C10 / C11: the LZ hypothesis discharged

`read_after_write` takes the LZ round trip of the abstract environment as a hypothesis over *all*
payloads.  The real formats store the length in 24 bits, so the round trip holds for payloads
shorter than 16 MiB (C08 `lz10_roundtrip`, C09 `lz13_roundtrip`; the empty payload included) — the
theorems are therefore first restated with the round trip required of the written payload only, and
then instantiated with the concrete LZ models (`Compose.realLz`: `Model/Lz.lean` behind a
`List`/`Array` adapter), where the hypothesis becomes "the payload is shorter than 16 MiB". -/

/-- `read_after_write` with the LZ round trip required of the written payload only. -/
theorem read_after_write_payload (E : Env) (fs fs' : Fs) (p b : Bytes) (loc : Bool)
    (hrt : isCompressed fs.cfg.lz p = true →
      ∀ c, (E.lz fs.cfg.lz).compress b = .ok c → (E.lz fs.cfg.lz).decompress c = .ok b)
    (h : fs.write E p b loc = (fs', .ok ())) :
    fs'.read E p loc = .ok b := by
  obtain ⟨a, c, top, top', ha, hc, htop, hw, rfl⟩ := write_ok_cases E fs fs' p b loc h
  have hne : fs.layers ≠ [] := by intro e; simp [e] at htop
  obtain ⟨_, _, hlast, hcfg, hlang⟩ := setTop_frame fs top' hne
  have hstat := Layer.stat_after_write top top' a c hw
  unfold Fs.read
  have ha' : (fs.setTop top').actualPath p loc = .ok a := by
    unfold Fs.actualPath at ha ⊢; rw [hcfg, hlang]; exact ha
  simp only [ha']
  rw [readAt_top_file E (fs.setTop top') top' a c _ hlast hstat, hcfg]
  unfold encoded at hc
  by_cases hz : isCompressed fs.cfg.lz p = true
  · simp only [hz, if_true] at hc ⊢
    cases hcomp : (E.lz fs.cfg.lz).compress b with
    | ok c0 =>
      simp only [hcomp, reclass] at hc
      have hcc : c0 = c := Res.ok.inj hc
      subst hcc
      simp [hrt hz c0 hcomp, reclass]
    | err e => simp [hcomp, reclass] at hc
    | panic => simp [hcomp, reclass] at hc
  · simp only [hz] at hc ⊢
    have hcc : b = c := Res.ok.inj hc
    subst hcc; rfl

/-- `read_after_write_history` with the LZ round trip required of the written payload only. -/
theorem read_after_write_history_payload (E : Env) (fs fs1 : Fs) (p b : Bytes) (loc : Bool)
    (ops : List (Op E))
    (hrt : isCompressed fs.cfg.lz p = true →
      ∀ c, (E.lz fs.cfg.lz).compress b = .ok c → (E.lz fs.cfg.lz).decompress c = .ok b)
    (h : fs.write E p b loc = (fs1, .ok ()))
    (hops : ∀ op ∈ ops, Op.target E fs op ≠ (fs.actualPath p loc).toOption.map (fun a => (parsePath a).comps)) :
    (run E fs1 ops).read E p loc = .ok b := by
  obtain ⟨a, c, top, top', ha, hc, htop, hw, rfl⟩ := write_ok_cases E fs fs1 p b loc h
  have hnl : fs.layers ≠ [] := by intro e; simp [e] at htop
  obtain ⟨hne, hmd, hget⟩ := Layer.write_ok top top' a c hw
  obtain ⟨_, _, hlast, hcfg, hlang⟩ := setTop_frame fs top' hnl
  -- invariant along the history: same configuration, the top layer still holds the file
  have inv : ∀ (ops : List (Op E)) (s : Fs), s.cfg = fs.cfg → s.lang = fs.lang →
      (∃ t, s.layers.getLast? = some t ∧ t.get (parsePath a).comps = some (.file c)) →
      (∀ op ∈ ops, Op.target E fs op ≠ some (parsePath a).comps) →
      (run E s ops).cfg = fs.cfg ∧ (run E s ops).lang = fs.lang ∧
      ∃ t, (run E s ops).layers.getLast? = some t ∧ t.get (parsePath a).comps = some (.file c) := by
    intro ops
    induction ops with
    | nil => intro s h1 h2 h3 _; exact ⟨h1, h2, h3⟩
    | cons op rest ih =>
      intro s h1 h2 ⟨t, ht1, ht2⟩ hall
      obtain ⟨_, _, f3, f4⟩ := step_frame E s op
      have htgt : Op.target E s op = Op.target E fs op := by
        cases op <;> simp only [Op.target, Fs.actualPath, h1, h2]
      have hne' : Op.target E s op ≠ some (parsePath a).comps := by
        rw [htgt]; exact hall op (by simp)
      obtain ⟨t', ht1', ht2'⟩ := step_keeps E s op t _ c ht1 ht2 hne'
      exact ih (step E s op) (f3.trans h1) (f4.trans h2) ⟨t', ht1', ht2'⟩
        (fun o ho => hall o (by simp [ho]))
  have hops' : ∀ op ∈ ops, Op.target E fs op ≠ some (parsePath a).comps := by
    intro op hop; have := hops op hop; simpa [ha, Res.toOption] using this
  obtain ⟨c1, c2, t, ht1, ht2⟩ := inv ops (fs.setTop top') hcfg hlang ⟨top', hlast, hget⟩ hops'
  have hstat : t.stat a = some (.file c) := by simp [Layer.stat, ht2, hmd]
  unfold Fs.read
  have ha' : (run E (fs.setTop top') ops).actualPath p loc = .ok a := by
    unfold Fs.actualPath at ha ⊢; rw [c1, c2]; exact ha
  simp only [ha']
  rw [readAt_top_file E _ t a c _ ht1 hstat, c1]
  unfold encoded at hc
  by_cases hz : isCompressed fs.cfg.lz p = true
  · simp only [hz, if_true] at hc ⊢
    cases hcomp : (E.lz fs.cfg.lz).compress b with
    | ok c0 =>
      simp only [hcomp, reclass] at hc
      have hcc : c0 = c := Res.ok.inj hc
      subst hcc
      simp [hrt hz c0 hcomp, reclass]
    | err e => simp [hcomp, reclass] at hc
    | panic => simp [hcomp, reclass] at hc
  · simp only [hz] at hc ⊢
    have hcc : b = c := Res.ok.inj hc
    subst hcc; rfl

/-- **The concrete LZ instance round-trips** (C08, C09, C11 on byte lists): for either format and
every payload shorter than 16 MiB, the empty one included, decompressing what the compressor
returned gives the payload back. -/
theorem lz_roundtrip_real (k : LzKind) (b : Bytes) (hb : b.length < 2 ^ 24) :
    ∀ c, (Compose.realLz k).compress b = .ok c → (Compose.realLz k).decompress c = .ok b :=
  Compose.realLz_roundtrip k b hb

/-- **read_after_write, LZ discharged.**  In every environment whose LZ slots are the concrete LZ10 /
LZ13 models, after a successful write reading the same path with the same localisation choice
returns exactly the written bytes — for a path with the compressed suffix provided the payload is
shorter than 16 MiB; no condition otherwise. -/
theorem read_after_write_lz (E : Env) (hE : ∀ k, E.lz k = Compose.realLz k) (fs fs' : Fs)
    (p b : Bytes) (loc : Bool) (hb : isCompressed fs.cfg.lz p = true → b.length < 2 ^ 24)
    (h : fs.write E p b loc = (fs', .ok ())) :
    fs'.read E p loc = .ok b :=
  read_after_write_payload E fs fs' p b loc
    (fun hz => by rw [hE]; exact Compose.realLz_roundtrip _ b (hb hz)) h

/-- **read_after_write over histories, LZ discharged.** -/
theorem read_after_write_history_lz (E : Env) (hE : ∀ k, E.lz k = Compose.realLz k) (fs fs1 : Fs)
    (p b : Bytes) (loc : Bool) (ops : List (Op E))
    (hb : isCompressed fs.cfg.lz p = true → b.length < 2 ^ 24)
    (h : fs.write E p b loc = (fs1, .ok ()))
    (hops : ∀ op ∈ ops, Op.target E fs op ≠ (fs.actualPath p loc).toOption.map (fun a => (parsePath a).comps)) :
    (run E fs1 ops).read E p loc = .ok b :=
  read_after_write_history_payload E fs fs1 p b loc ops
    (fun hz => by rw [hE]; exact Compose.realLz_roundtrip _ b (hb hz)) h hops

/-- With the concrete compressors the encoding stage of `write` never fails (C08 `lz10_total`,
C09 `lz13_total`): a write of a domain path succeeds exactly when the top layer can take the file. -/
theorem write_succeeds_iff_lz (E : Env) (hE : ∀ k, E.lz k = Compose.realLz k) (fs : Fs) {p : Bytes}
    {q : Loc} (h : locOf p = some q) (b : Bytes) (top : Layer) (htop : fs.layers.getLast? = some top) :
    (fs.write E p b false).2 = .ok () ↔ writable (walkOf top) q = true := by
  have henc : ∃ s, encoded E fs p b = .ok s := by
    unfold encoded
    by_cases hz : isCompressed fs.cfg.lz p = true
    · obtain ⟨c, hc⟩ := Compose.realLz_compress_total fs.cfg.lz b
      simp only [hz, if_true, hE, hc, reclass]
      exact ⟨c, rfl⟩
    · simp only [hz]; exact ⟨b, rfl⟩
  obtain ⟨s, hs⟩ := henc
  exact write_succeeds_iff E fs h b s top htop hs

/-- **Stored size (C10 ∘ `stored_is_compressed`).**  After a successful write on a path with the
compressed suffix, the file stored in the top layer (at the localised location) is at most the
format's header (`Compose.lzHeaderLen`: 4 bytes for LZ10; 8 for LZ13, 12 for the empty payload),
the payload length `n` and one flag byte per eight payload bytes. -/
theorem stored_size_bound_lz (E : Env) (hE : ∀ k, E.lz k = Compose.realLz k) (fs fs' : Fs)
    (p b : Bytes) (loc : Bool) (hz : isCompressed fs.cfg.lz p = true)
    (h : fs.write E p b loc = (fs', .ok ())) :
    ∃ a c top', fs.actualPath p loc = .ok a ∧ fs'.layers.getLast? = some top' ∧ top'.read a = .ok c ∧
      c.length ≤ Compose.lzHeaderLen fs.cfg.lz b.length + b.length + (b.length + 7) / 8 := by
  obtain ⟨a, c, top', ha, hc, htop, hr⟩ := stored_is_compressed E fs fs' p b loc hz h
  rw [hE] at hc
  exact ⟨a, c, top', ha, htop, hr, Compose.realLz_size_bound _ b c hc⟩

/-! Non-vacuity: an environment with the concrete LZ instance, and a write on a compressed path
whose success follows from `write_succeeds_iff_lz`; the composed theorems then apply. -/

example : ∀ k, (Compose.withRealLz demoEnv).lz k = Compose.realLz k := Compose.withRealLz_lz demoEnv

example : ∃ fs', demoFs.write (Compose.withRealLz demoEnv) (bs ['y', '.', 'l', 'z']) [7, 7, 7, 7, 7] false
      = (fs', .ok ()) ∧
    fs'.read (Compose.withRealLz demoEnv) (bs ['y', '.', 'l', 'z']) false = .ok [7, 7, 7, 7, 7] := by
  have hE := Compose.withRealLz_lz demoEnv
  have hloc : locOf (bs ['y', '.', 'l', 'z']) = some ⟨[bs ['y', '.', 'l', 'z']], false⟩ := by decide
  have hok := (write_succeeds_iff_lz (Compose.withRealLz demoEnv) hE demoFs hloc [7, 7, 7, 7, 7]
    [([bs ['f']], .dir)] (by decide)).mpr (by decide)
  refine ⟨(demoFs.write (Compose.withRealLz demoEnv) (bs ['y', '.', 'l', 'z']) [7, 7, 7, 7, 7] false).1,
    Prod.ext rfl hok, ?_⟩
  exact read_after_write_lz _ hE demoFs _ _ _ false (fun _ => by decide) (Prod.ext rfl hok)

/-! ### the tree invariant: layers stay directory trees, and `stat` is the kernel's path walk -/

/-- **Initial layers.** A layer whose directory walk is the walk of a real tree (no path twice, root
not listed, the parent of every entry listed as a directory — what the harness' walks and initial
trees satisfy; decidable, `Layer.isTreeB`) satisfies the tree invariant `Layer.Closed`: every stored
path's proper prefixes are stored directories, no path is stored twice, nothing below a file. -/
theorem initial_closed (layers : List Layer) (h : ∀ l ∈ layers, (walkOf l).IsTree) :
    ∀ l ∈ layers, l.Closed := fun l hl => Layer.closed_of_isTree l (h l hl)

private theorem closed_setTop (fs : Fs) (t : Layer) (hwf : ∀ l ∈ fs.layers, l.Closed) (ht : t.Closed) :
    ∀ l ∈ (fs.setTop t).layers, l.Closed := by
  intro l hl
  rw [setTop_layers] at hl
  rcases List.mem_append.mp hl with h | h
  · exact hwf l (List.dropLast_subset _ h)
  · simp at h; subst h; exact ht

private theorem closed_writeAt (fs : Fs) (a c : Bytes) (hwf : ∀ l ∈ fs.layers, l.Closed) :
    ∀ l ∈ (fs.writeAt a c).1.layers, l.Closed := by
  rcases writeAt_cases fs a c with ⟨_, h⟩ | ⟨top, htop, h, _⟩
  · rw [h]; exact hwf
  · rw [h]
    exact closed_setTop fs _ hwf (Layer.closed_write (hwf top (List.mem_of_getLast? htop)) a c)

/-- **One operation keeps the invariant**: `write` (also a rejected write that has already created
leading directories), `create_dir`, the archive writers — any path, payload, localisation flag. -/
theorem step_closed (E : Env) (fs : Fs) (op : Op E) (hwf : ∀ l ∈ fs.layers, l.Closed) :
    ∀ l ∈ (step E fs op).layers, l.Closed := by
  have hwrite : ∀ p b loc, ∀ l ∈ (fs.write E p b loc).1.layers, l.Closed := by
    intro p b loc
    rw [write_unfold]
    cases fs.actualPath p loc with
    | err e => exact hwf
    | panic => exact hwf
    | ok a =>
      simp only
      cases encoded E fs p b with
      | err e => exact hwf
      | panic => exact hwf
      | ok c => exact closed_writeAt fs a c hwf
  cases op with
  | write p b loc => exact hwrite p b loc
  | writeArchive p a loc =>
    simp only [step, Fs.writeArchive, Fs.serThenWrite]
    cases reclass Err.Invalid (E.binSer a) with
    | ok bytes => exact hwrite p bytes loc
    | err e => exact hwf
    | panic => exact hwf
  | writeTextArchive p t loc =>
    simp only [step, Fs.writeTextArchive, Fs.serThenWrite]
    cases reclass Err.Invalid (E.txtSer t) with
    | ok bytes => exact hwrite p bytes loc
    | err e => exact hwf
    | panic => exact hwf
  | createDir p loc =>
    simp only [step, Fs.createDir]
    cases fs.actualPath p loc with
    | err e => exact hwf
    | panic => exact hwf
    | ok a =>
      simp only
      cases htop : fs.layers.getLast? with
      | none => exact hwf
      | some top =>
        have hnew := Layer.closed_createDir (hwf top (List.mem_of_getLast? htop)) a
        dsimp only
        generalize top.createDir a = r at hnew
        obtain ⟨t, o⟩ := r
        cases o with
        | ok u => cases u; exact closed_setTop fs t hwf hnew
        | err e => exact closed_setTop fs t hwf hnew
        | panic => exact closed_setTop fs t hwf hnew

/-- **history_closed.** Every history of state-changing operations (read-only operations return no
state) keeps every layer a directory tree.  No domain restriction on paths. -/
theorem history_closed (E : Env) (fs : Fs) (ops : List (Op E)) (hwf : ∀ l ∈ fs.layers, l.Closed) :
    ∀ l ∈ (run E fs ops).layers, l.Closed := by
  induction ops generalizing fs with
  | nil => exact hwf
  | cons op rest ih => exact ih (step E fs op) (step_closed E fs op hwf)

/-- From real directory walks, along any history. -/
theorem history_closed_of_walks (E : Env) (fs : Fs) (ops : List (Op E))
    (h : ∀ l ∈ fs.layers, (walkOf l).IsTree) : ∀ l ∈ (run E fs ops).layers, l.Closed :=
  history_closed E fs ops (initial_closed fs.layers h)

/-- `stat` with the kernel's component-wise path walk (every ancestor must be a directory). -/
def statPosix (l : Layer) (path : Bytes) : Option Node :=
  match l.posixGet (parsePath path).comps with
  | some .dir => some .dir
  | some (.file b) => if (parsePath path).mustDir then none else some (.file b)
  | none => none

/-- **stat_is_path_walk.** The model's `stat` looks a path up in one step in the flat map; on a
layer satisfying the tree invariant this *is* the kernel's path walk, for every path string.  This
is the only place the model relies on the invariant; `history_closed` supplies it for every
reachable state. -/
theorem stat_is_path_walk (l : Layer) (hc : l.Closed) (path : Bytes) : l.stat path = statPosix l path := by
  unfold Layer.stat statPosix
  rw [Layer.posixGet_eq_get hc]
  dsimp only
  cases l.get (parsePath path).comps with
  | none => rfl
  | some n => cases n <;> rfl

private theorem posixFileAt_walkOf {l : Layer} (hc : l.Closed) (q : Loc) :
    (walkOf l).posixFileAt q = (walkOf l).fileAt q := by
  unfold Walk.posixFileAt Walk.fileAt
  rw [posixAt_walkOf hc]

/-- **read_top with the kernel's reading of the walks.** On closed layers (every reachable state,
`history_closed`) `read` returns the bytes of the highest layer in which the *path walk* reaches a
regular file. -/
theorem read_top_posix (E : Env) (fs : Fs) (hwf : ∀ l ∈ fs.layers, l.Closed)
    {p : Bytes} {q : Loc} (h : locOf p = some q) :
    fs.read E p false =
      match topFilePosix (walksOf fs) q with
      | none => .err .NotFound
      | some s =>
        if isCompressed fs.cfg.lz p then reclass .Decoding ((E.lz fs.cfg.lz).decompress s) else .ok s := by
  have hcongr : ∀ (ws : List Walk) (f g : Walk → Option Bytes), (∀ w ∈ ws, f w = g w) →
      ws.findSome? f = ws.findSome? g := by
    intro ws f g hfg
    induction ws with
    | nil => rfl
    | cons w rest ih =>
      simp only [List.findSome?_cons, hfg w (by simp)]
      cases g w with
      | none => exact ih (fun x hx => hfg x (by simp [hx]))
      | some b => rfl
  have : topFilePosix (walksOf fs) q = topFile (walksOf fs) q := by
    unfold topFilePosix topFile
    apply hcongr
    intro w hw
    obtain ⟨l, hl, rfl⟩ := List.mem_map.mp (List.mem_reverse.mp hw)
    exact posixFileAt_walkOf (hwf l hl) q
  rw [this]
  exact read_top E fs h

/-- A layer that is *not* a tree: a regular file `a` and a stale entry `a/b` below it. -/
private def brokenLayer : Layer :=
  [([bs ['a']], .file [1]), ([bs ['a'], bs ['b']], .file [2])]

/-- **The dependence is real.** On a non-closed layer the model's one-step lookup finds `a/b`
although the kernel's path walk stops at the regular file `a` (ENOTDIR): `stat` and `statPosix`
disagree, and `read` returns bytes where the path-walk reading of the same walk says NotFound.
Such layers are unreachable (`history_closed`); `Layer.isTreeB` rejects this one. -/
example :
    ¬ brokenLayer.Closed ∧ brokenLayer.isTreeB = false ∧
    brokenLayer.stat (bs ['a', '/', 'b']) = some (.file [2]) ∧
    statPosix brokenLayer (bs ['a', '/', 'b']) = none ∧
    (⟨[brokenLayer], .FE14, ⟨.lz13, .FE14, .little, .unicode⟩, .EnglishNA⟩ : Fs).read demoEnv (bs ['a', '/', 'b']) false = .ok [2] ∧
    topFilePosix [walkOf brokenLayer] ⟨[bs ['a'], bs ['b']], false⟩ = none := by
  refine ⟨?_, by decide, by decide, by decide, by decide, by decide⟩
  intro hc
  have := hc.parents ([bs ['a'], bs ['b']], .file [2]) (by simp [brokenLayer]) [bs ['a']]
    ⟨by simp, by simp [bs], by simp⟩
  revert this; decide

/-- Non-vacuity of the invariant: the demo filesystem's layers are trees (checked by the executable
test), and stay so after a write that creates `m/@E` in the top layer. -/
example : (∀ l ∈ demoFs.layers, l.Closed) ∧
    ∀ l ∈ (run demoEnv demoFs [.write (bs ['m', '/', 'x', '.', 'l', 'z']) [7, 7] true,
                               .createDir (bs ['f', '/', 'g']) false]).layers, l.Closed := by
  have h0 : ∀ l ∈ demoFs.layers, l.Closed := by
    intro l hl
    apply Layer.closed_of_isTreeB
    simp only [demoFs, List.mem_cons, List.mem_nil_iff, or_false] at hl
    rcases hl with rfl | rfl <;> decide
  exact ⟨h0, history_closed demoEnv demoFs _ h0⟩

end Mila.Props.C12
