/-
C14 — Path localisation inserts the game's language marker and nothing else.

Property theorems only (helper lemmas live in `MilaModel/Lemmas`).  The model
(`Mila.Localize`) transcribes `src/localization.rs`; the specification (`Mila.Spec.Loc`) is
written from the property statement.  The tie model <-> Rust is the `loc` correspondence stream.
-/
import MilaModel.Model.Localize
import MilaModel.Spec.LocalizeTable
import MilaModel.Lemmas.Split

namespace Mila.Props.C14
open Mila Mila.Localize

def mg : Spec.Loc.Game → Game
  | .FE9 => .FE9 | .FE10 => .FE10 | .FE13 => .FE13 | .FE14 => .FE14 | .FE15 => .FE15
def ml : Spec.Loc.Language → Language
  | .EnglishNA => .EnglishNA | .EnglishEU => .EnglishEU | .Japanese => .Japanese
  | .Spanish => .Spanish | .French => .French | .Italian => .Italian | .German => .German
  | .Dutch => .Dutch

/-- The code's inserted text is `/` followed by the specification's marker, for all 5 × 8 pairs
(a finite table, decided by evaluation in the kernel). -/
theorem marker_table : ∀ g lang,
    infixStr (mg g) (ml lang) = (Spec.Loc.langDir g lang).map (fun m => slash :: m) := by
  intro g lang; cases g <;> cases lang <;> rfl

private theorem plain_isComp {c : Bytes} (h : Spec.Loc.Plain c) (i : Nat) : isComp false i c = true := by
  obtain ⟨hne, _, hdot, _⟩ := h
  unfold isComp
  have : c ≠ [dot] := hdot
  simp [this]
  cases c <;> simp_all

private theorem lastComp_snoc (ps : List Bytes) (l : Bytes) (hl : Spec.Loc.Plain l) :
    lastComp false (ps ++ [l]) (ps ++ [l]).length = some ps.length := by
  simp [lastComp, plain_isComp hl]

private theorem lastComp_prefix' (ps t : List Bytes) (h : ∀ c ∈ ps, Spec.Loc.Plain c) :
    lastComp false (ps ++ t) ps.length = if ps = [] then none else some (ps.length - 1) := by
  cases hps : ps.reverse with
  | nil => simp at hps; simp [hps, lastComp]
  | cons q qs =>
    have hps' : ps = qs.reverse ++ [q] := by
      have := congrArg List.reverse hps; simpa using this
    subst hps'
    have hq : Spec.Loc.Plain q := h q (by simp)
    simp [lastComp, plain_isComp hq]

private theorem lastComp_prefix (ps : List Bytes) (l : Bytes) (h : ∀ c ∈ ps, Spec.Loc.Plain c) :
    lastComp false (ps ++ [l]) ps.length = if ps = [] then none else some (ps.length - 1) := by
  cases hps : ps.reverse with
  | nil => simp at hps; simp [hps, lastComp]
  | cons q qs =>
    have hps' : ps = qs.reverse ++ [q] := by
      have := congrArg List.reverse hps; simpa using this
    subst hps'
    have hq : Spec.Loc.Plain q := h q (by simp)
    simp [lastComp, plain_isComp hq]

private theorem head_not_slash (ps : List Bytes) (l : Bytes)
    (h : ∀ c ∈ ps ++ [l], Spec.Loc.Plain c) :
    (joinWith slash (ps ++ [l])).head? ≠ some slash := by
  cases ps with
  | nil =>
    obtain ⟨hne, hs, _, _⟩ := h l (by simp)
    cases l with
    | nil => exact absurd rfl hne
    | cons x xs =>
      simp [joinWith]; intro e; apply hs; simp [e, Spec.Loc.slash, slash]
  | cons p ps =>
    obtain ⟨hne, hs, _, _⟩ := h p (by simp)
    cases p with
    | nil => exact absurd rfl hne
    | cons x xs =>
      have : joinWith slash ((x :: xs) :: ps ++ [l]) = (x :: xs) ++ slash :: joinWith slash (ps ++ [l]) := by
        cases ps <;> simp [joinWith]
      rw [List.cons_append] at *
      simp [this]; intro e; apply hs; simp [e, Spec.Loc.slash, slash]

private theorem join_plain_ne_nil (ps : List Bytes) (l : Bytes)
    (h : ∀ c ∈ ps ++ [l], Spec.Loc.Plain c) : joinWith slash (ps ++ [l]) ≠ [] := by
  intro e
  have hs := splitOn'_joinWith slash (ps ++ [l]) (by simp) (fun p hp => (h p hp).2.1)
  rw [e] at hs
  have hl := (h l (by simp)).1
  cases ps with
  | nil => simp [splitOn'] at hs; exact hl hs
  | cons p ps => simp [splitOn'] at hs

/-- `Path::parent` / `Path::file_name` on a relative path of plain components. -/
theorem pathSplit_plain (dir : List Bytes) (l : Bytes)
    (hd : ∀ c ∈ dir, Spec.Loc.Plain c) (hl : Spec.Loc.Plain l) :
    pathSplit (joinWith slash (dir ++ [l])) = ⟨some (joinWith slash dir), some l⟩ := by
  have hall : ∀ c ∈ dir ++ [l], Spec.Loc.Plain c := by
    intro c hc; simp at hc; rcases hc with hc | hc
    · exact hd c hc
    · exact hc ▸ hl
  have hsplit : splitOn' slash (joinWith slash (dir ++ [l])) = dir ++ [l] :=
    splitOn'_joinWith slash _ (by simp) (fun p hp => (hall p hp).2.1)
  have hroot : ((joinWith slash (dir ++ [l])).head? = some slash) = False := by
    simp [head_not_slash dir l hall]
  obtain ⟨_, _, hdot, hdd⟩ := hl
  unfold pathSplit
  simp only [hsplit, hroot, decide_false]
  rw [lastComp_snoc dir l ⟨‹_›, ‹_›, hdot, hdd⟩]
  simp only []
  have hget : (dir ++ [l]).getD dir.length [] = l := by simp
  rw [hget, lastComp_prefix dir l hd]
  have h1 : (l = [dot, dot]) = False := by simpa [dot] using hdd
  have h2 : (l = [dot]) = False := by simpa [dot] using hdot
  simp only [h1, h2, if_false]
  by_cases hdir : dir = []
  · simp [hdir, joinWith]
  · have : dir.length - 1 + 1 = dir.length := by
      have : 0 < dir.length := List.length_pos_iff.mpr hdir
      omega
    simp [hdir, this]

/-- The same with one trailing slash (`d/l/`): std ignores the empty last piece. -/
theorem pathSplit_plain_trailing (dir : List Bytes) (l : Bytes)
    (hd : ∀ c ∈ dir, Spec.Loc.Plain c) (hl : Spec.Loc.Plain l) :
    pathSplit (joinWith slash (dir ++ [l]) ++ [slash]) = ⟨some (joinWith slash dir), some l⟩ := by
  have hall : ∀ c ∈ dir ++ [l], Spec.Loc.Plain c := by
    intro c hc; simp at hc; rcases hc with hc | hc
    · exact hd c hc
    · exact hc ▸ hl
  have hpath : joinWith slash (dir ++ [l]) ++ [slash] = joinWith slash ((dir ++ [l]) ++ [[]]) := by
    rw [joinWith_append_singleton slash (dir ++ [l]) [] (by simp)]
  have hsplit : splitOn' slash (joinWith slash (dir ++ [l]) ++ [slash]) = dir ++ [l] ++ [[]] := by
    rw [hpath]
    exact splitOn'_joinWith slash _ (by simp) (fun p hp => by
      simp at hp
      rcases hp with hp | hp | hp
      · exact (hd p hp).2.1
      · exact hp ▸ hl.2.1
      · simp [hp])
  have hroot : ((joinWith slash (dir ++ [l]) ++ [slash]).head? = some slash) = False := by
    have h0 := head_not_slash dir l hall
    have hne : joinWith slash (dir ++ [l]) ≠ [] := join_plain_ne_nil dir l hall
    cases hj : joinWith slash (dir ++ [l]) with
    | nil => exact absurd hj hne
    | cons x xs => rw [hj] at h0; simpa using h0
  obtain ⟨hne, hns, hdot, hdd⟩ := hl
  unfold pathSplit
  simp only [hsplit, hroot, decide_false]
  have hlc : lastComp false (dir ++ [l] ++ [[]]) (dir ++ [l] ++ [[]]).length = some dir.length := by
    have : (dir ++ [l] ++ [[]]).length = dir.length + 1 + 1 := by simp
    rw [this]
    have e1 : (dir ++ [l] ++ [[]]).getD (dir.length + 1) [] = [] := by simp [List.getD]
    have e2 : (dir ++ [l] ++ [[]]).getD dir.length [] = l := by simp [List.getD]
    simp only [lastComp, e1, e2, plain_isComp ⟨hne, hns, hdot, hdd⟩]
    simp [isComp, dot]
  rw [hlc]
  simp only []
  have hget : (dir ++ [l] ++ [[]]).getD dir.length [] = l := by simp [List.getD]
  have hpre : lastComp false (dir ++ [l] ++ [[]]) dir.length = if dir = [] then none else some (dir.length - 1) := by
    rw [List.append_assoc]; exact lastComp_prefix' dir _ hd
  rw [hget, hpre]
  have h1 : (l = [dot, dot]) = False := by simpa [dot] using hdd
  have h2 : (l = [dot]) = False := by simpa [dot] using hdot
  simp only [h1, h2, if_false]
  by_cases hdir : dir = []
  · simp [hdir, joinWith]
  · have : dir.length - 1 + 1 = dir.length := by
      have : 0 < dir.length := List.length_pos_iff.mpr hdir
      omega
    simp [hdir, this]

/-- **Main clause.** For every supported game and language and every relative path of plain
components, the model returns exactly the specified path: directory part kept, marker inserted,
last component kept; a single component gets the marker appended; unsupported pairs are
`UnsupportedLanguage` errors. -/
theorem localize_plain (g : Spec.Loc.Game) (lang : Spec.Loc.Language) (dir : List Bytes) (l : Bytes)
    (hd : ∀ c ∈ dir, Spec.Loc.Plain c) (hl : Spec.Loc.Plain l) :
    localize (mg g) (ml lang) (joinWith slash (dir ++ [l])) =
      match Spec.Loc.expected g lang dir l with
      | some e => .ok e
      | none => .err .Unsupported := by
  have hs := pathSplit_plain dir l hd hl
  have hmk := marker_table g lang
  have hloc : localize (mg g) (ml lang) (joinWith slash (dir ++ [l])) =
      match infixStr (mg g) (ml lang) with
      | none => .err .Unsupported
      | some m => if joinWith slash dir = [] then .ok (l ++ m ++ []) else .ok (joinWith slash dir ++ m ++ l) := by
    by_cases hj : joinWith slash dir = [] <;> cases g <;>
      simp only [localize, mg, parentAndFileName, hs, List.isEmpty_iff, hj, if_true, if_false] <;>
      cases infixStr _ (ml lang) <;> rfl
  rw [hloc, hmk]
  unfold Spec.Loc.expected
  cases Spec.Loc.langDir g lang with
  | none => rfl
  | some m =>
    by_cases hdir : dir = []
    · subst hdir; simp [joinWith, Spec.Loc.slash, slash]
    · have hj : joinWith slash dir ≠ [] := by
        cases dir with
        | nil => exact absurd rfl hdir
        | cons p ps =>
          have hp := (hd p (by simp)).1
          cases ps <;> cases p <;> simp_all [joinWith]
      simp only [Option.map, if_neg hj, List.isEmpty_iff, if_neg hdir]
      simp [Spec.Loc.slash, slash]

/-- A trailing slash changes nothing (`localize (p ++ "/") = localize p` on the domain). -/
theorem localize_plain_trailing (g : Spec.Loc.Game) (lang : Spec.Loc.Language) (dir : List Bytes) (l : Bytes)
    (hd : ∀ c ∈ dir, Spec.Loc.Plain c) (hl : Spec.Loc.Plain l) :
    localize (mg g) (ml lang) (joinWith slash (dir ++ [l]) ++ [slash]) =
      localize (mg g) (ml lang) (joinWith slash (dir ++ [l])) := by
  have h1 := pathSplit_plain dir l hd hl
  have h2 := pathSplit_plain_trailing dir l hd hl
  cases g <;> simp only [localize, mg, parentAndFileName, h1, h2]

/-- Degenerate paths are errors (never a panic): the empty path and `/` have no parent,
`..` and `d/..` have no final component. -/
theorem localize_degenerate (g : Spec.Loc.Game) (lang : Spec.Loc.Language) :
    localize (mg g) (ml lang) [] = .err .MissingParent ∧
    localize (mg g) (ml lang) [slash] = .err .MissingParent ∧
    localize (mg g) (ml lang) [dot, dot] = .err .MissingFileName ∧
    localize (mg g) (ml lang) [0x61, slash, dot, dot] = .err .MissingFileName := by
  cases g <;> (refine ⟨?_, ?_, ?_, ?_⟩ <;> rfl)

/-- The localiser never panics, whatever the path bytes. -/
theorem localize_total (g : Game) (lang : Language) (path : Bytes) :
    localize g lang path ≠ .panic := by
  have hp : parentAndFileName path ≠ .panic := by
    unfold parentAndFileName
    generalize pathSplit path = sp
    cases sp with
    | mk par fn =>
      cases par with
      | none => simp
      | some d =>
        cases fn with
        | none => simp
        | some f => by_cases hd : d.isEmpty <;> simp [hd]
  cases h : parentAndFileName path with
  | panic => exact absurd h hp
  | err e => cases g <;> simp [localize, h]
  | ok df => cases g <;> simp [localize, h] <;> cases infixStr _ lang <;> simp

/-- Non-vacuity: a concrete three-component path meets the hypotheses, and the theorem's
right-hand side evaluates to the FE14 language directory form. -/
example : (∀ c ∈ [bs ['m'], bs ['a', ' ', 'b']], Spec.Loc.Plain c) ∧ Spec.Loc.Plain (bs ['G', '.', 'l', 'z']) ∧
    localize .FE14 .EnglishNA (bs ['m', '/', 'a', ' ', 'b', '/', 'G', '.', 'l', 'z']) =
      .ok (bs ['m', '/', 'a', ' ', 'b', '/', '@', 'E', '/', 'G', '.', 'l', 'z']) := by
  refine ⟨by decide, by decide, by decide⟩

end Mila.Props.C14
