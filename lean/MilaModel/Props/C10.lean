/-
C10 — Compressed size is bounded and repetition is actually exploited.

Model: `compress10`, `compress13`, `occurrence`.  Lemmas: `LzBound` (length of a flag-group
encoding; completeness of the match search on periodic data; potential-function invariant along
the greedy steps), `LzCompress10/13` (output = header ++ flag groups of the greedy tokens).
`ceil(a/b)` is written `(a + b - 1) / b`.
-/
import MilaModel.Model.Lz
import MilaModel.Spec.LzStream
import MilaModel.Lemmas.LzCompress10
import MilaModel.Lemmas.LzCompress13
import MilaModel.Lemmas.LzBound

namespace Mila.Props.C10
open Mila Mila.Lz Mila.Spec.Lz

private theorem lenOk10 : ∀ len, 3 ≤ len → len ≤ 0x12 → lenOk false len := by
  intro len h1 h2; simp [lenOk]; omega
private theorem lenOk11 : ∀ len, 3 ≤ len → len ≤ 0x1000 → lenOk true len := by
  intro len h1 h2; simp [lenOk]; omega

private theorem size_of_post {ext : Bool} {cap : Nat} {hdr : Bytes} {x : BA} {r : Res BA}
    (h : Post ext cap hdr x r) :
    ∃ out toks, r = .ok out ∧ out.size = hdr.length + cost ext toks + (toks.length + 7) / 8 ∧
      StepsTo x cap toks x.size := by
  obtain ⟨out, toks, body, h1, h2, h3, h4⟩ := h
  refine ⟨out, toks, h1, ?_, h4⟩
  have : out.size = out.toList.length := by simp
  rw [this, h2, List.length_append, groups_length h3]
  omega

/-- LZ10 output never exceeds the 4-byte header plus the input length plus one flag byte per
eight input bytes. -/
theorem expansion_bound10 (x : BA) :
    ∃ out, compress10 x = .ok out ∧ out.size ≤ 4 + x.size + (x.size + 7) / 8 := by
  obtain ⟨out, toks, h1, h2, h3⟩ := size_of_post (compress10_post x)
  obtain ⟨v, _, sz, _⟩ := stepsTo_sound x 0x12 false lenOk10 toks x.size h3
  have hc := cost_le_tsize toks 0 v
  have hts : tsize toks = x.size := by simpa [expand] using sz
  have hh : (header false x.size).length = 4 := by simp [header, leBytes]
  exact ⟨out, h1, by rw [h2, hh]; omega⟩

/-- LZ13 output never exceeds the 8-byte header (wrapper + LZ11 header; 12 bytes for the empty
input, which needs the extended length word) plus the input length plus one flag byte per eight
input bytes. -/
theorem expansion_bound13 (x : BA) :
    ∃ out, (compress13 x).1 = .ok out ∧
      out.size ≤ (if x.size = 0 then 12 else 8) + x.size + (x.size + 7) / 8 := by
  obtain ⟨hdr, hh, hp⟩ := compress13_post' x
  obtain ⟨out, toks, h1, h2, h3⟩ := size_of_post hp
  obtain ⟨v, _, sz, _⟩ := stepsTo_sound x 0x1000 true lenOk11 toks x.size h3
  have hc := cost_le_tsize toks 0 v
  have hts : tsize toks = x.size := by simpa [expand] using sz
  exact ⟨out, h1, by rw [h2, hh]; omega⟩

private theorem periodic_two {x : BA} (h : Periodic x 1) : Periodic x 2 := by
  intro i hi
  rw [h i (by omega), h (i + 1) (by omega)]

private def Φ (r L rem : Nat) : Nat := if rem < 3 then rem else r * ((rem + L - 1) / L)
private def Ψ (L rem : Nat) : Nat := if rem < 3 then rem else (rem + L - 1) / L + 1

private theorem tb10_le (len disp : Nat) : (tokBytes false (.ref len disp)).length ≤ 2 := by
  simp [tokBytes]
private theorem tb10_len (len disp : Nat) (h : 3 ≤ len) : (tokBytes false (.ref len disp)).length ≤ len := by
  simp [tokBytes]; omega
private theorem tb11_le (len disp : Nat) : (tokBytes true (.ref len disp)).length ≤ 4 := by
  simp only [tokBytes, Bool.not_true, Bool.false_eq_true, ↓reduceIte]
  split
  · simp
  · split <;> simp
private theorem tb11_len (len disp : Nat) (h : 3 ≤ len) : (tokBytes true (.ref len disp)).length ≤ len := by
  simp only [tokBytes, Bool.not_true, Bool.false_eq_true, ↓reduceIte]
  split
  · simp; omega
  · split <;> simp <;> omega

/-- An input of `n` bytes that repeats with a period `p ≤ 4096` compresses with LZ10 to at most the
header, `p + 2` literals, `ceil((n-p)/18) + 1` back-references of 2 bytes and one flag byte per
eight tokens: the whole 4096-byte window and the full 18-byte match length are used. -/
theorem periodic_bound10 (x : BA) (p : Nat) (hp1 : 1 ≤ p) (hp : p ≤ 4096) (hper : Periodic x p) :
    ∃ out, compress10 x = .ok out ∧
      out.size ≤ 4 + (p + 2) + 2 * ((x.size - p + 17) / 18 + 1) +
        ((p + 2) + ((x.size - p + 17) / 18 + 1) + 7) / 8 := by
  obtain ⟨out, toks, h1, h2, h3⟩ := size_of_post (compress10_post x)
  have hh : (header false x.size).length = 4 := by simp [header, leBytes]
  refine ⟨out, h1, ?_⟩
  rw [h2, hh]
  -- the period used by the search argument: max p 2
  obtain ⟨q, hq2, hq, hperq, hqp1, hqp2⟩ : ∃ q, 2 ≤ q ∧ q ≤ 4096 ∧ Periodic x q ∧ p ≤ q ∧ q ≤ p + 1 := by
    by_cases h : p = 1
    · subst h; exact ⟨2, by omega, by omega, periodic_two hper, by omega, by omega⟩
    · exact ⟨p, by omega, hp, hper, by omega, by omega⟩
  have key := stepsTo_periodic x false 18 2 q hq2 hq hperq (by omega) (by omega) tb10_le tb10_len
    (Φ 2 18) (Ψ 18)
    (by intro rem h; unfold Φ Ψ; constructor <;> (repeat' split) <;> omega)
    (by intro rem h1 h2; unfold Φ Ψ; constructor <;> (repeat' split) <;> omega)
    (by intro a b h; unfold Φ Ψ; constructor <;> (repeat' split) <;> omega)
    toks x.size h3
  by_cases hn : x.size < q
  · have := key.1 hn
    omega
  · have := key.2 (by omega)
    unfold Φ Ψ at this
    simp only [Nat.sub_self, Nat.zero_lt_succ, ↓reduceIte, Nat.add_zero] at this
    obtain ⟨k1, k2⟩ := this
    split at k1 <;> split at k2 <;> omega

/-- The same for LZ13: back-references of at most 4 bytes covering up to 4096 bytes each. -/
theorem periodic_bound13 (x : BA) (p : Nat) (hp1 : 1 ≤ p) (hp : p ≤ 4096) (hper : Periodic x p) :
    ∃ out, (compress13 x).1 = .ok out ∧
      out.size ≤ 8 + (p + 2) + 4 * ((x.size - p + 4095) / 4096 + 1) +
        ((p + 2) + ((x.size - p + 4095) / 4096 + 1) + 7) / 8 := by
  obtain ⟨hdr, hh, hpost⟩ := compress13_post' x
  obtain ⟨out, toks, h1, h2, h3⟩ := size_of_post hpost
  refine ⟨out, h1, ?_⟩
  rw [h2, hh]
  obtain ⟨q, hq2, hq, hperq, hqp1, hqp2⟩ : ∃ q, 2 ≤ q ∧ q ≤ 4096 ∧ Periodic x q ∧ p ≤ q ∧ q ≤ p + 1 := by
    by_cases h : p = 1
    · subst h; exact ⟨2, by omega, by omega, periodic_two hper, by omega, by omega⟩
    · exact ⟨p, by omega, hp, hper, by omega, by omega⟩
  have key := stepsTo_periodic x true 4096 4 q hq2 hq hperq (by omega) (by omega) tb11_le tb11_len
    (Φ 4 4096) (Ψ 4096)
    (by intro rem h; unfold Φ Ψ; constructor <;> (repeat' split) <;> omega)
    (by intro rem h1 h2; unfold Φ Ψ; constructor <;> (repeat' split) <;> omega)
    (by intro a b h; unfold Φ Ψ; constructor <;> (repeat' split) <;> omega)
    toks x.size h3
  by_cases hn : x.size < q
  · have := key.1 hn
    split <;> omega
  · have := key.2 (by omega)
    unfold Φ Ψ at this
    simp only [Nat.sub_self, Nat.zero_lt_succ, ↓reduceIte, Nat.add_zero] at this
    obtain ⟨k1, k2⟩ := this
    split <;> split at k1 <;> split at k2 <;> omega

/-- **The bounds hold through every public entry point**: the dispatching wrapper
`CompressionFormat::compress` (used by `LayeredFilesystem::write*`) returns exactly what the format
struct returns, so the expansion bound holds for what is written to disk (a wrapper that pads or
re-frames the stream breaks this statement). -/
theorem expansion_bound_wrapper (x : BA) :
    (∃ out, Format.compress .lz10 x = .ok out ∧ out.size ≤ 4 + x.size + (x.size + 7) / 8) ∧
    (∃ out, Format.compress .lz13 x = .ok out ∧
      out.size ≤ (if x.size = 0 then 12 else 8) + x.size + (x.size + 7) / 8) :=
  ⟨expansion_bound10 x, expansion_bound13 x⟩

/-- The effectiveness bounds through the wrapper. -/
theorem periodic_bound_wrapper (x : BA) (p : Nat) (hp1 : 1 ≤ p) (hp : p ≤ 4096) (hper : Periodic x p) :
    (∃ out, Format.compress .lz10 x = .ok out ∧
      out.size ≤ 4 + (p + 2) + 2 * ((x.size - p + 17) / 18 + 1) +
        ((p + 2) + ((x.size - p + 17) / 18 + 1) + 7) / 8) ∧
    (∃ out, Format.compress .lz13 x = .ok out ∧
      out.size ≤ 8 + (p + 2) + 4 * ((x.size - p + 4095) / 4096 + 1) +
        ((p + 2) + ((x.size - p + 4095) / 4096 + 1) + 7) / 8) :=
  ⟨periodic_bound10 x p hp1 hp hper, periodic_bound13 x p hp1 hp hper⟩

/-! Non-vacuity: a concrete periodic input. -/
example : Periodic #[1, 2, 3, 1, 2, 3, 1, 2, 3, 1, 2] 3 := by
  intro i hi
  have : i < 8 := by simp at hi; omega
  match i, this with
  | 0, _ | 1, _ | 2, _ | 3, _ | 4, _ | 5, _ | 6, _ | 7, _ => rfl

end Mila.Props.C10
