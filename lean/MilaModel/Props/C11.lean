/-
C11 — Decompression is correct on every conforming stream and errors on the rest.

Model: `Mila.Lz.decompressLz` (transcription of `decompress_lz`, src/lz13.rs:44-108) and the
entry points `decompress10`, `decompress13`, `Format.decompress`.  Specification:
`Mila.Spec.Lz` (tokens, `expand`, `Valid`, the byte grammar `Encodes`, `Conforms`).
Helper lemmas: `Lemmas/LzBasic`, `Lemmas/LzDecode`, `Lemmas/LzDecodeErr`.
-/
import MilaModel.Model.Lz
import MilaModel.Spec.LzStream
import MilaModel.Lemmas.LzDecode
import MilaModel.Lemmas.LzDecodeErr
import MilaModel.Lemmas.LzParse
import MilaModel.Lemmas.LzEncode

namespace Mila.Props.C11
open Mila Mila.Lz Mila.Spec.Lz

private theorem tsize_eq_expand_size (toks : List Tok) : tsize toks = (expand toks).size := by
  simp [expand]

/-- Every conforming LZ10 (`ext = false`) or LZ11 (`ext = true`) stream — any valid token list:
overlapping copies, displacement 1, window edge, every LZ11 length form, arbitrary unused flag
bits, 32-bit extended header — is decoded to exactly the data it encodes. -/
theorem decode_conforming (ext : Bool) (toks : List Tok) (s : Bytes) (h : Conforms ext toks s) :
    decompressLz s = .ok (expand toks) :=
  decompressLz_encodes ext _ toks s h.2.1 h.1 (tsize_eq_expand_size toks) h.2.2

/-- Stated with the specification's encoder: for every valid token list and every choice of the
unused flag bits, the decoder returns the expansion of the encoded stream (so `decode_conforming`
is not vacuous for any valid token list). -/
theorem decode_encode (ext : Bool) (junk : UInt8) (toks : List Tok) (hv : Valid ext toks)
    (hb : (expand toks).size < (if ext then 2 ^ 32 else 2 ^ 24)) :
    decompressLz (encode ext junk toks) = .ok (expand toks) :=
  decode_conforming ext toks _ (encode_conforms ext junk toks hv hb)

/-- The LZ10 entry point and `CompressionFormat::LZ10` decode every conforming stream. -/
theorem lz10_decompress_conforming (ext : Bool) (toks : List Tok) (s : Bytes)
    (h : Conforms ext toks s) :
    decompress10 s = .ok (expand toks) ∧ Format.decompress .lz10 s = .ok (expand toks) := by
  simp [Format.decompress, decompress10, decode_conforming ext toks s h]

private theorem header_shape (ext : Bool) (n : Nat) :
    ∃ t a b c rest, header ext n = t :: a :: b :: c :: rest ∧ (t = 0x10 ∨ t = 0x11) := by
  unfold header
  split
  · split
    · exact ⟨0x11, _, _, _, _, rfl, Or.inr rfl⟩
    · exact ⟨0x11, _, _, _, _, rfl, Or.inr rfl⟩
  · exact ⟨0x10, _, _, _, _, rfl, Or.inl rfl⟩

private theorem conforms_shape {ext : Bool} {toks : List Tok} {s : Bytes} (h : Conforms ext toks s) :
    ∃ t a b c rest, s = t :: a :: b :: c :: rest ∧ (t = 0x10 ∨ t = 0x11) := by
  obtain ⟨_, ⟨body, rfl, _⟩, _⟩ := h
  obtain ⟨t, a, b, c, rest, hh, ht⟩ := header_shape ext (expand toks).size
  exact ⟨t, a, b, c, rest ++ body, by rw [hh]; simp, ht⟩

/-- The LZ13 entry point accepts a conforming stream bare … -/
theorem lz13_decompress_bare (ext : Bool) (toks : List Tok) (s : Bytes) (h : Conforms ext toks s) :
    decompress13 s = .ok (expand toks) ∧ Format.decompress .lz13 s = .ok (expand toks) := by
  obtain ⟨t, a, b, c, rest, rfl, ht⟩ := conforms_shape h
  have hd := decode_conforming ext toks _ h
  have h0 : t ≠ 0 := by rcases ht with rfl | rfl <;> decide
  have h13 : t ≠ 0x13 := by rcases ht with rfl | rfl <;> decide
  simp [Format.decompress, decompress13, h0, h13, hd]

/-- … behind the 4-byte `0x13` wrapper (whatever its three length bytes) … -/
theorem lz13_decompress_wrapped (ext : Bool) (toks : List Tok) (s : Bytes) (a b c : UInt8)
    (h : Conforms ext toks s) :
    decompress13 (0x13 :: a :: b :: c :: s) = .ok (expand toks) ∧
      Format.decompress .lz13 (0x13 :: a :: b :: c :: s) = .ok (expand toks) := by
  have hd := decode_conforming ext toks _ h
  simp [Format.decompress, decompress13, hd]

/-- … and the type-0 stored form. -/
theorem lz13_decompress_stored (a b c : UInt8) (data : Bytes) :
    decompress13 (0 :: a :: b :: c :: data) = .ok data.toArray := by
  simp [decompress13]

/-- Empty input and input shorter than a header are errors at every entry point. -/
theorem decode_rejects_short (s : Bytes) (h : s.length < 4) :
    decompressLz s = .err .Invalid ∧ decompress10 s = .err .Invalid ∧ decompress13 s = .err .Invalid ∧
      ∀ fmt, Format.decompress fmt s = .err .Invalid := by
  have h1 := decompressLz_short s h
  have h2 : decompress10 s = .err .Invalid := by simp [decompress10, h1]
  have h3 : decompress13 s = .err .Invalid := by simp [decompress13, h]
  exact ⟨h1, h2, h3, fun fmt => by cases fmt <;> simp [Format.decompress, h2, h3]⟩

theorem decode_rejects_empty :
    decompress10 [] = .err .Invalid ∧ decompress13 [] = .err .Invalid :=
  ⟨(decode_rejects_short [] (by simp)).2.1, (decode_rejects_short [] (by simp)).2.2.1⟩

/-- An unknown type byte is an error: for the LZ10 entry point anything but 0x10/0x11, for the
LZ13 entry point anything but 0x00/0x10/0x11/0x13, and a 0x13 wrapper around an unknown type. -/
theorem decode_rejects_unknown_type (t : UInt8) (s : Bytes) (h10 : t ≠ 0x10) (h11 : t ≠ 0x11) :
    decompress10 (t :: s) = .err .Invalid ∧
      (t ≠ 0 → t ≠ 0x13 → decompress13 (t :: s) = .err .Invalid) ∧
      (∀ a b c, decompress13 (0x13 :: a :: b :: c :: t :: s) = .err .Invalid) := by
  have h1 := decompressLz_unknown_type t s h10 h11
  refine ⟨by simp [decompress10, h1], ?_, ?_⟩
  · intro h0 h13
    by_cases hs : (t :: s).length < 4
    · exact (decode_rejects_short _ hs).2.2.1
    · simp [decompress13, h0, h13, h1]
  · intro a b c
    simp [decompress13, h1]

/-- Every strict prefix of a conforming stream (bare or wrapped) is an error. -/
theorem decode_rejects_truncated (ext : Bool) (toks : List Tok) (s : Bytes) (h : Conforms ext toks s)
    (k : Nat) (hk : k < s.length) :
    decompress10 (s.take k) = .err .Invalid ∧ decompress13 (s.take k) = .err .Invalid ∧
      (∀ a b c j, j < 4 + s.length →
        decompress13 ((0x13 :: a :: b :: c :: s).take j) = .err .Invalid) := by
  have ht : ∀ k, k < s.length → decompressLz (s.take k) = .err .Invalid := fun k hk =>
    decompressLz_trunc ext _ toks s h.2.1 h.1 (tsize_eq_expand_size toks) h.2.2 k hk
  refine ⟨by simp [decompress10, ht k hk], ?_, ?_⟩
  · by_cases hk4 : (s.take k).length < 4
    · exact (decode_rejects_short _ hk4).2.2.1
    · obtain ⟨t, a, b, c, rest, rfl, htt⟩ := conforms_shape h
      have h0 : t ≠ 0 := by rcases htt with rfl | rfl <;> decide
      have h13 : t ≠ 0x13 := by rcases htt with rfl | rfl <;> decide
      have hd := ht k hk
      obtain ⟨k', rfl⟩ : ∃ k', k = k' + 4 := ⟨k - 4, by simp at hk4; omega⟩
      simp only [List.take_succ_cons] at hd ⊢
      simp [decompress13, h0, h13, hd]
  · intro a b c j hj
    by_cases hj4 : j < 4
    · exact (decode_rejects_short _ (by simp; omega)).2.2.1
    · obtain ⟨j', rfl⟩ : ∃ j', j = j' + 4 := ⟨j - 4, by omega⟩
      have hd := ht j' (by omega)
      simp only [List.take_succ_cons]
      simp [decompress13, hd]

/-- A stream whose next token, after valid ones and before the announced length is reached, is a
reference that reaches back before the start of the output is an error (whatever follows it). -/
theorem decode_rejects_ref_before_start (ext : Bool) (n : Nat) (toks : List Tok) (len disp : Nat)
    (s : Bytes) (he : Encodes ext n (toks ++ [.ref len disp]) s) (hv : Valid ext toks)
    (hl : lenOk ext len) (hd1 : 1 ≤ disp) (hd2 : disp ≤ 4096)
    (hn : (expand toks).size < n) (hbad : (expand toks).size < disp)
    (hb : n < (if ext then 2 ^ 32 else 2 ^ 24)) :
    decompress10 s = .err .Invalid ∧
      (∀ a b c, decompress13 (0x13 :: a :: b :: c :: s) = .err .Invalid) := by
  rw [← tsize_eq_expand_size] at hn hbad
  have hd := decompressLz_badref ext n toks len disp s he hv hl hd1 hd2 hn hbad hb
  exact ⟨by simp [decompress10, hd], fun a b c => by simp [decompress13, hd]⟩

/-- No byte string makes any decompress entry point panic. -/
theorem decode_total (s : Bytes) :
    decompressLz s ≠ .panic ∧ decompress10 s ≠ .panic ∧ decompress13 s ≠ .panic ∧
      ∀ fmt, Format.decompress fmt s ≠ .panic := by
  have h1 : ∀ s, decompressLz s ≠ .panic := decompressLz_ne_panic
  have h2 : decompress10 s ≠ .panic := by
    unfold decompress10
    have := h1 s
    split <;> simp_all
  have h3 : decompress13 s ≠ .panic := by
    unfold decompress13
    split
    · simp
    · cases s with
      | nil => rename_i h; simp at h
      | cons b0 r =>
        dsimp only
        split
        · simp
        · have := h1 (if b0 = 0x13 then List.drop 4 (b0 :: r) else b0 :: r)
          split <;> simp_all
  exact ⟨h1 s, h2, h3, fun fmt => by cases fmt <;> simp [Format.decompress, h2, h3]⟩

/-- The independent parser used as oracle by the correspondence stream is sound for the grammar:
whatever it accepts is a conforming stream of the tokens it returns, and therefore the decoder
model returns exactly the parser's own expansion on it. -/
theorem parser_accepts_conforming (s : Bytes) (ext : Bool) (n : Nat) (toks : List Tok)
    (h : parse s = .ok (ext, n, toks)) :
    Conforms ext toks s ∧ (expand toks).size = n ∧ decompressLz s = .ok (expand toks) := by
  obtain ⟨hc, hn⟩ := parse_sound s ext n toks h
  exact ⟨hc, hn, decode_conforming ext toks s hc⟩

/-! Non-vacuity: a concrete conforming LZ10 stream (literal `a`, then an overlapping reference of
length 3 at displacement 1, junk in the unused flag bits) and a concrete bad reference. -/
example : Conforms false [.lit 0x61, .ref 3 1] [0x10, 4, 0, 0, 0x5F, 0x61, 0x00, 0x00] := by
  refine ⟨by unfold Valid; decide, ⟨[0x5F, 0x61, 0x00, 0x00], by decide, ?_⟩, by decide⟩
  have := Groups.group (ext := false) 0x5F [.lit 0x61, .ref 3 1] [] [] (by simp) (by simp) (by simp)
    (by intro i h; match i, h with | 0, _ => rfl | 1, _ => rfl) Groups.nil
  simpa [tokBytes] using this

example : decompress10 [0x10, 4, 0, 0, 0x5F, 0x61, 0x00, 0x00] = .ok #[0x61, 0x61, 0x61, 0x61] := by
  have h : Conforms false [.lit 0x61, .ref 3 1] [0x10, 4, 0, 0, 0x5F, 0x61, 0x00, 0x00] := by
    refine ⟨by unfold Valid; decide, ⟨[0x5F, 0x61, 0x00, 0x00], by decide, ?_⟩, by decide⟩
    have := Groups.group (ext := false) 0x5F [.lit 0x61, .ref 3 1] [] [] (by simp) (by simp) (by simp)
      (by intro i h; match i, h with | 0, _ => rfl | 1, _ => rfl) Groups.nil
    simpa [tokBytes] using this
  rw [(lz10_decompress_conforming false _ _ h).1]; decide

end Mila.Props.C11
