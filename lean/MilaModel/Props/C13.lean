/-
C13 — Layered filesystem listings are the sorted, de-duplicated union of layers.

Property theorems only.  Model: `Mila.LayeredFs` (`FileSystemLayer::list/subdirectories`, the
`glob` model on the pattern family, the `HashSet` + `sort()` union of `LayeredFilesystem::list`).
Specification: `Mila.Spec.Overlay` (`IsListing`, `IsSubdirListing`, `Pat`).  Directories range over
the specification's domain `locOf d = some q`; patterns over the family `Pat` with literal
extension / directory texts (`Pat.Ok`: no glob metacharacters, no `/`).
-/
import MilaModel.Model.LayeredFs
import MilaModel.Spec.OverlayFs
import MilaModel.Lemmas.FsList
import MilaModel.Lemmas.FsClosed
import MilaModel.Props.C12

namespace Mila.Props.C13
open Mila Mila.LayeredFs Mila.Spec.Overlay

/-- **list_spec.** Listing a domain directory with a pattern of the family succeeds and returns
exactly the entries found under that directory in any layer (files and directories, recursively
for no pattern / `**/…`, those matching otherwise), as layer-relative paths in strictly ascending
byte order — hence without duplicates. -/
theorem list_spec (fs : Fs) {d : Bytes} {q : Loc} (h : locOf d = some q)
    (pt : Pat) (hok : Pat.Ok pt) (pat : Option Bytes) (hp : pat ∈ pt.glob) :
    ∃ r, fs.list d pat false = .ok r ∧ IsListing (walksOf fs) q.comps pt r := by
  obtain ⟨g, hc, hm⟩ := family_compiles pt hok pat hp
  unfold Fs.list Fs.actualPath IsListing walksOf
  simp only [Bool.false_eq_true, if_false]
  exact sortedUnion_of_layers fs.layers (fun l => l.list d pat) (fun w => entriesUnder w q.comps pt)
    (fun l _ => layer_list_eq l h pt pat g hc hm)

/-- **subdirs_spec.** `subdirectories` returns exactly the immediate child directories present in
any layer, sorted and duplicate-free. -/
theorem subdirs_spec (fs : Fs) {d : Bytes} {q : Loc} (h : locOf d = some q) :
    ∃ r, fs.subdirectories d false = .ok r ∧ IsSubdirListing (walksOf fs) q.comps r := by
  unfold Fs.subdirectories Fs.actualPath IsSubdirListing walksOf
  simp only [Bool.false_eq_true, if_false]
  exact sortedUnion_of_layers fs.layers (fun l => l.subdirectories d) (fun w => childDirs w q.comps)
    (fun l _ => layer_subdirs_eq l h)

/-- The specification determines the result: two strictly ascending enumerations of the same
union are equal.  In particular the iteration order of the `HashSet` cannot show. -/
theorem listing_unique (per : List (List Path)) (r1 r2 : List Bytes)
    (h1 : IsSortedUnion per r1) (h2 : IsSortedUnion per r2) : r1 = r2 :=
  Fs.strict_unique r1 r2 h1.1 h2.1 (fun x => (h1.2 x).trans (h2.2 x).symm)

/-- **missing_empty.** A path that no layer has lists as empty, whatever the pattern string; a path
that is a directory in no layer (missing, or a regular file) lists as empty for the family. -/
theorem missing_empty (fs : Fs) {d : Bytes} {q : Loc} (h : locOf d = some q) :
    ((∀ w ∈ walksOf fs, w.at q.comps = none) →
      (∀ pat, fs.list d pat false = .ok []) ∧ fs.subdirectories d false = .ok []) ∧
    ((∀ w ∈ walksOf fs, w.at q.comps ≠ some .dir) →
      (∀ pt, Pat.Ok pt → ∀ pat ∈ pt.glob, fs.list d pat false = .ok []) ∧
      fs.subdirectories d false = .ok []) := by
  have hnil : ∀ r per, (∀ es ∈ per, es = ([] : List Path)) → IsSortedUnion per r → r = [] := by
    intro r per hper hr
    cases r with
    | nil => rfl
    | cons x xs =>
      obtain ⟨es, hes, c, hc, _⟩ := (hr.2 x).mp (by simp)
      rw [hper es hes] at hc; cases hc
  have hflat : ∀ ls : List Layer, List.flatMap (fun _ => ([] : List Bytes)) ls = [] := by
    intro ls; induction ls with
    | nil => rfl
    | cons a rest ih => simp
  constructor
  · intro hmiss
    have hstat : ∀ l ∈ fs.layers, l.stat d = none := by
      intro l hl
      have := hmiss (walkOf l) (List.mem_map.mpr ⟨l, hl, rfl⟩)
      rw [at_walkOf] at this
      rw [stat_of_locOf l h]
      cases hg : l.get q.comps with
      | none => rfl
      | some n => simp [hg] at this
    constructor
    · intro pat
      unfold Fs.list Fs.actualPath
      simp only [Bool.false_eq_true, if_false]
      rw [collect_ok (fun l => l.list d pat) (fun _ => []) fs.layers
        (fun l hl => by simp [Layer.list, hstat l hl])]
      rw [hflat]; rfl
    · unfold Fs.subdirectories Fs.actualPath
      simp only [Bool.false_eq_true, if_false]
      rw [collect_ok (fun l => l.subdirectories d) (fun _ => []) fs.layers
        (fun l hl => by simp [Layer.subdirectories, hstat l hl])]
      rw [hflat]; rfl
  · intro hnd
    constructor
    · intro pt hok pat hp
      obtain ⟨r, hr, hl⟩ := list_spec fs h pt hok pat hp
      rw [hr]
      congr 1
      apply hnil r _ _ hl
      intro es hes
      obtain ⟨w, hw, rfl⟩ := List.mem_map.mp hes
      simp [entriesUnder, hnd w hw]
    · obtain ⟨r, hr, hl⟩ := subdirs_spec fs h
      rw [hr]
      congr 1
      apply hnil r _ _ hl
      intro es hes
      obtain ⟨w, hw, rfl⟩ := List.mem_map.mp hes
      simp [childDirs, hnd w hw]

/-! ### listed ⇒ exists -/

/-- Layer contents inside the domain: every stored path consists of plain components. -/
def PlainLayer (l : Layer) : Prop := ∀ e ∈ l, e.1 ≠ [] ∧ ∀ c ∈ e.1, Spec.Loc.Plain c

private theorem at_of_mem (l : Layer) (e : Comps × Node) (he : e ∈ l) (hne : e.1 ≠ []) :
    ∃ k, (walkOf l).at e.1 = some k := by
  rw [at_walkOf]
  unfold Layer.get
  simp only [hne, if_false]
  cases hf : l.find? (fun x => decide (x.1 = e.1)) with
  | none =>
    have := List.find?_eq_none.mp hf e he
    simp at this
  | some x => exact ⟨kindOf x.2, rfl⟩

private theorem exists_of_entry (fs : Fs) (hwf : ∀ l ∈ fs.layers, PlainLayer l)
    (l : Layer) (hl : l ∈ fs.layers) (e : Comps × Node) (he : e ∈ l) :
    fs.exists_ (showPath e.1) false = .ok true := by
  obtain ⟨hne, hpl⟩ := hwf l hl e he
  have hloc := locOf_render e.1 hne hpl
  rw [showPath_eq_render, (C12.exists_same_search fs hloc).1]
  congr 1
  unfold anyExists
  apply List.any_eq_true.mpr
  refine ⟨walkOf l, List.mem_map.mpr ⟨l, hl, rfl⟩, ?_⟩
  obtain ⟨k, hk⟩ := at_of_mem l e he hne
  unfold Walk.existsAt Walk.fileAt Walk.dirAt
  simp only [Bool.false_eq_true, if_false, hk]
  cases k <;> simp

/-- **listed_exists.** Every path returned by `list` or `subdirectories` exists according to the
filesystem's own `exists` query (layers inside the domain, see `plain_history`). -/
theorem listed_exists (fs : Fs) (hwf : ∀ l ∈ fs.layers, PlainLayer l)
    {d : Bytes} {q : Loc} (h : locOf d = some q) :
    (∀ pt, Pat.Ok pt → ∀ pat ∈ pt.glob, ∀ r, fs.list d pat false = .ok r →
      ∀ x ∈ r, fs.exists_ x false = .ok true) ∧
    (∀ r, fs.subdirectories d false = .ok r → ∀ x ∈ r, fs.exists_ x false = .ok true) := by
  constructor
  · intro pt hok pat hp r hr x hx
    obtain ⟨r', hr', hl⟩ := list_spec fs h pt hok pat hp
    rw [hr] at hr'
    have hrr : r = r' := Res.ok.inj hr'
    subst hrr
    obtain ⟨es, hes, c, hc, rfl⟩ := (hl.2 x).mp hx
    obtain ⟨w, hw, rfl⟩ := List.mem_map.mp hes
    obtain ⟨l, hl', rfl⟩ := List.mem_map.mp hw
    unfold entriesUnder at hc
    split at hc
    · obtain ⟨e, he, rfl⟩ := List.mem_map.mp hc
      have hew : e ∈ walkOf l := (List.mem_filter.mp he).1
      obtain ⟨e0, he0, rfl⟩ := List.mem_map.mp hew
      exact exists_of_entry fs hwf l hl' e0 he0
    · cases hc
  · intro r hr x hx
    obtain ⟨r', hr', hl⟩ := subdirs_spec fs h
    rw [hr] at hr'
    have hrr : r = r' := Res.ok.inj hr'
    subst hrr
    obtain ⟨es, hes, c, hc, rfl⟩ := (hl.2 x).mp hx
    obtain ⟨w, hw, rfl⟩ := List.mem_map.mp hes
    obtain ⟨l, hl', rfl⟩ := List.mem_map.mp hw
    unfold childDirs at hc
    split at hc
    · obtain ⟨e, he, rfl⟩ := List.mem_map.mp hc
      have hew : e ∈ walkOf l := (List.mem_filter.mp he).1
      obtain ⟨e0, he0, rfl⟩ := List.mem_map.mp hew
      exact exists_of_entry fs hwf l hl' e0 he0
    · cases hc

/-! ### the domain invariant along histories ("after arbitrary prior writes") -/

/-- The operation's path and localisation flag. -/
def opPath {E : Env} : C12.Op E → Bytes × Bool
  | .write p _ loc => (p, loc)
  | .createDir p loc => (p, loc)
  | .writeArchive p _ loc => (p, loc)
  | .writeTextArchive p _ loc => (p, loc)

/-- The operation stays inside the domain: its (localised) path is a path string of the domain. -/
def InDomain {E : Env} (fs : Fs) (op : C12.Op E) : Prop :=
  ∀ a, fs.actualPath (opPath op).1 (opPath op).2 = .ok a → ∃ q, locOf a = some q

private theorem plain_of_prefix {x c : Comps} (hx : x <+: c) (hc : ∀ y ∈ c, Spec.Loc.Plain y) :
    ∀ y ∈ x, Spec.Loc.Plain y := fun y hy => hc y (hx.subset hy)

private theorem plain_setTop (fs : Fs) (t : Layer) (hwf : ∀ l ∈ fs.layers, PlainLayer l) (ht : PlainLayer t) :
    ∀ l ∈ (fs.setTop t).layers, PlainLayer l := by
  intro l hl
  rw [setTop_layers] at hl
  rcases List.mem_append.mp hl with h | h
  · exact hwf l (List.dropLast_subset _ h)
  · simp at h; subst h; exact ht

private theorem plain_writeAt (fs : Fs) (a c : Bytes) (hwf : ∀ l ∈ fs.layers, PlainLayer l)
    (hdom : ∃ q, locOf a = some q) : ∀ l ∈ (fs.writeAt a c).1.layers, PlainLayer l := by
  unfold Fs.writeAt
  cases htop : fs.layers.getLast? with
  | none => exact hwf
  | some top =>
    obtain ⟨q, hq⟩ := hdom
    have hpl : ∀ y ∈ (parsePath a).comps, Spec.Loc.Plain y := by
      rw [parsePath_of_locOf hq]; exact plain_of_locOf hq
    have htopwf : PlainLayer top := hwf top (List.mem_of_getLast? htop)
    have hnew : PlainLayer (top.write a c).1 := by
      intro e he
      rcases Layer.mem_write top a c e he with h | ⟨h1, h2⟩
      · exact htopwf e h
      · exact ⟨h1, plain_of_prefix h2 hpl⟩
    dsimp only
    generalize hr : top.write a c = r at hnew
    obtain ⟨t, o⟩ := r
    cases o with
    | ok u => cases u; exact plain_setTop fs t hwf hnew
    | err e => exact plain_setTop fs t hwf hnew
    | panic => exact plain_setTop fs t hwf hnew

private theorem plain_write (E : Env) (fs : Fs) (p b : Bytes) (loc : Bool)
    (hwf : ∀ l ∈ fs.layers, PlainLayer l)
    (hdom : ∀ a, fs.actualPath p loc = .ok a → ∃ q, locOf a = some q) :
    ∀ l ∈ (fs.write E p b loc).1.layers, PlainLayer l := by
  unfold Fs.write
  cases ha : fs.actualPath p loc with
  | err e => exact hwf
  | panic => exact hwf
  | ok a =>
    simp only
    split
    · exact hwf
    · exact hwf
    · exact plain_writeAt fs a _ hwf (hdom a ha)

private theorem plain_step (E : Env) (fs : Fs) (op : C12.Op E) (hwf : ∀ l ∈ fs.layers, PlainLayer l)
    (hdom : InDomain fs op) : ∀ l ∈ (C12.step E fs op).layers, PlainLayer l := by
  cases op with
  | write p b loc => exact plain_write E fs p b loc hwf hdom
  | writeArchive p a loc =>
    simp only [C12.step, Fs.writeArchive, Fs.serThenWrite]
    cases reclass Err.Invalid (E.binSer a) with
    | ok bytes => exact plain_write E fs p bytes loc hwf hdom
    | err e => exact hwf
    | panic => exact hwf
  | writeTextArchive p t loc =>
    simp only [C12.step, Fs.writeTextArchive, Fs.serThenWrite]
    cases reclass Err.Invalid (E.txtSer t) with
    | ok bytes => exact plain_write E fs p bytes loc hwf hdom
    | err e => exact hwf
    | panic => exact hwf
  | createDir p loc =>
    simp only [C12.step, Fs.createDir]
    cases ha : fs.actualPath p loc with
    | err e => exact hwf
    | panic => exact hwf
    | ok a =>
      simp only
      cases htop : fs.layers.getLast? with
      | none => exact hwf
      | some top =>
        obtain ⟨q, hq⟩ := hdom a ha
        have hpl : ∀ y ∈ (parsePath a).comps, Spec.Loc.Plain y := by
          rw [parsePath_of_locOf hq]; exact plain_of_locOf hq
        have htopwf : PlainLayer top := hwf top (List.mem_of_getLast? htop)
        have hnew : PlainLayer (top.createDir a).1 := by
          intro e he
          rcases Layer.mem_createDir top a e he with h | ⟨h1, h2⟩
          · exact htopwf e h
          · exact ⟨h1, plain_of_prefix h2 hpl⟩
        dsimp only
        generalize hr : top.createDir a = r at hnew
        obtain ⟨t, o⟩ := r
        cases o with
        | ok u => cases u; exact plain_setTop fs t hwf hnew
        | err e => exact plain_setTop fs t hwf hnew
        | panic => exact plain_setTop fs t hwf hnew

/-- **Domain invariant over histories.** Starting from layers whose stored paths consist of plain
components, any history of writes / directory creations / archive writes on paths of the domain
keeps every layer inside the domain — so `list_spec`, `listed_exists` … apply after arbitrary
prior writes. -/
theorem plain_history (E : Env) (fs : Fs) (ops : List (C12.Op E))
    (hwf : ∀ l ∈ fs.layers, PlainLayer l) (hdom : ∀ op ∈ ops, InDomain fs op) :
    ∀ l ∈ (C12.run E fs ops).layers, PlainLayer l := by
  induction ops generalizing fs with
  | nil => exact hwf
  | cons op rest ih =>
    have h1 := plain_step E fs op hwf (hdom op (by simp))
    have hf := (C12.history_frame E fs [op])
    have hcfg : (C12.step E fs op).cfg = fs.cfg := hf.2.2.1
    have hlang : (C12.step E fs op).lang = fs.lang := hf.2.2.2
    apply ih (C12.step E fs op) h1
    intro o ho a ha
    apply hdom o (by simp [ho]) a
    unfold Fs.actualPath at ha ⊢
    rw [hcfg, hlang] at ha
    exact ha

/-! ### localized listing law -/

/-- **list_localized.** A localized listing (of entries or of sub-directories) is the unlocalised
listing of the localised directory; a directory the localizer rejects is an error. -/
theorem list_localized (fs : Fs) (d : Bytes) (pat : Option Bytes) :
    fs.list d pat true =
      (match Localize.localize fs.cfg.localizer fs.lang d with
       | .ok a => fs.list a pat false
       | .err e => .err e
       | .panic => .panic) ∧
    fs.subdirectories d true =
      (match Localize.localize fs.cfg.localizer fs.lang d with
       | .ok a => fs.subdirectories a false
       | .err e => .err e
       | .panic => .panic) := by
  constructor
  · unfold Fs.list Fs.actualPath
    cases Localize.localize fs.cfg.localizer fs.lang d <;> simp
  · unfold Fs.subdirectories Fs.actualPath
    cases Localize.localize fs.cfg.localizer fs.lang d <;> simp

/-- With the C14 table: for every supported game and language, the localized listing of a
directory `dir/…/l` of plain components is the unlocalised listing of `dir/… ++ marker ++ l`
(of `l ++ marker` for a single component). -/
theorem list_localized_table (fs : Fs) (g : Spec.Loc.Game) (lang : Spec.Loc.Language)
    (hg : fs.cfg.localizer = C14.mg g) (hl : fs.lang = C14.ml lang)
    (dir : List Bytes) (l : Bytes) (hd : ∀ c ∈ dir, Spec.Loc.Plain c) (hlp : Spec.Loc.Plain l)
    (pat : Option Bytes) :
    fs.list (joinWith Localize.slash (dir ++ [l])) pat true =
      (match Spec.Loc.expected g lang dir l with
       | some qs => fs.list qs pat false
       | none => .err .Unsupported) := by
  rw [(list_localized fs _ pat).1, hg, hl, C14.localize_plain g lang dir l hd hlp]
  cases Spec.Loc.expected g lang dir l <;> rfl

/-! ### non-vacuity -/

/-- Three layers: `d` is a directory in layers 0 and 1 and a *file* in layer 2; `d/x.txt` exists
in two layers; a hidden directory; an empty directory. -/
private def demoFs : Fs :=
  ⟨[[([bs ['d']], .dir), ([bs ['d'], bs ['x', '.', 't', 'x', 't']], .file [1]),
     ([bs ['d'], bs ['.', 'h']], .dir), ([bs ['d'], bs ['.', 'h'], bs ['y', '.', 't', 'x', 't']], .file [])],
    [([bs ['d']], .dir), ([bs ['d'], bs ['x', '.', 't', 'x', 't']], .file [2]), ([bs ['d'], bs ['a']], .file [3]),
     ([bs ['e']], .dir)],
    [([bs ['d']], .file [4])]],
   .FE14, ⟨.lz13, .FE14, .little, .unicode⟩, .EnglishNA⟩

example : (∀ l ∈ demoFs.layers, PlainLayer l) ∧ locOf (bs ['d']) = some ⟨[bs ['d']], false⟩ ∧
    Pat.Ok (.allExt (bs ['t', 'x', 't'])) := by
  refine ⟨?_, by decide, ?_⟩
  · intro l hl
    simp only [demoFs, List.mem_cons, List.mem_nil_iff, or_false] at hl
    rcases hl with rfl | rfl | rfl <;> (intro e he; simp only [List.mem_cons, List.mem_nil_iff, or_false] at he) <;>
      (rcases he with rfl | rfl | rfl | rfl <;> decide) <;> skip
    all_goals (subst he; decide)
  · intro b hb
    simp only [bs, List.map_cons, List.map_nil, List.mem_cons, List.mem_nil_iff, or_false] at hb
    unfold LitByte
    rcases hb with rfl | rfl | rfl <;> decide

/-- `list_spec` in action: union of two layers (the third has `d` as a file), duplicates merged,
ascending byte order (`.` < `a` < `x`), hidden entries included; `**/*.txt` and sub-directories. -/
example :
    demoFs.list (bs ['d']) none false =
      .ok [bs ['d', '/', '.', 'h'], bs ['d', '/', '.', 'h', '/', 'y', '.', 't', 'x', 't'], bs ['d', '/', 'a'],
           bs ['d', '/', 'x', '.', 't', 'x', 't']] ∧
    demoFs.list (bs ['d']) (some (bs ['*', '*', '/', '*', '.', 't', 'x', 't'])) false =
      .ok [bs ['d', '/', '.', 'h', '/', 'y', '.', 't', 'x', 't'], bs ['d', '/', 'x', '.', 't', 'x', 't']] ∧
    demoFs.subdirectories (bs ['d']) false = .ok [bs ['d', '/', '.', 'h']] ∧
    demoFs.list (bs ['n', 'o']) none false = .ok [] ∧
    demoFs.list (bs ['e']) none false = .ok [] := by
  refine ⟨?_, ?_, ?_, ?_, ?_⟩ <;> decide

/-! ### listings and the tree invariant -/

/-- **listed_reachable.** A listing is computed from the flat map of each layer (entries with the
directory as a prefix).  On layers satisfying the tree invariant (`C12.history_closed`: every
reachable state) each listed path is reached by the kernel's path walk in the layer it comes from —
as a directory for `subdirectories` — which is what `glob`'s descent through real directories
yields.  Without the invariant this fails (see the `example` below). -/
theorem listed_reachable (fs : Fs) (hwf : ∀ l ∈ fs.layers, l.Closed)
    {d : Bytes} {q : Loc} (h : locOf d = some q) :
    (∀ pt, Pat.Ok pt → ∀ pat ∈ pt.glob, ∀ r, fs.list d pat false = .ok r →
      ∀ x ∈ r, ∃ w ∈ walksOf fs, ∃ c, x = showPath c ∧ (w.posixAt c).isSome) ∧
    (∀ r, fs.subdirectories d false = .ok r →
      ∀ x ∈ r, ∃ w ∈ walksOf fs, ∃ c, x = showPath c ∧ w.posixAt c = some .dir) := by
  constructor
  · intro pt hok pat hp r hr x hx
    obtain ⟨r', hr', hl⟩ := list_spec fs h pt hok pat hp
    rw [hr] at hr'
    have hrr : r = r' := Res.ok.inj hr'
    subst hrr
    obtain ⟨es, hes, c, hc, rfl⟩ := (hl.2 x).mp hx
    obtain ⟨w, hw, rfl⟩ := List.mem_map.mp hes
    obtain ⟨l, hl', rfl⟩ := List.mem_map.mp hw
    refine ⟨walkOf l, hw, c, rfl, ?_⟩
    unfold entriesUnder at hc
    split at hc
    · obtain ⟨e, he, rfl⟩ := List.mem_map.mp hc
      have hew : e ∈ walkOf l := (List.mem_filter.mp he).1
      obtain ⟨e0, he0, rfl⟩ := List.mem_map.mp hew
      rw [posixAt_walkOf (hwf l hl')]
      obtain ⟨k, hk⟩ := at_of_mem l e0 he0 ((hwf l hl').noRoot e0 he0)
      simp [hk]
    · cases hc
  · intro r hr x hx
    obtain ⟨r', hr', hl⟩ := subdirs_spec fs h
    rw [hr] at hr'
    have hrr : r = r' := Res.ok.inj hr'
    subst hrr
    obtain ⟨es, hes, c, hc, rfl⟩ := (hl.2 x).mp hx
    obtain ⟨w, hw, rfl⟩ := List.mem_map.mp hes
    obtain ⟨l, hl', rfl⟩ := List.mem_map.mp hw
    refine ⟨walkOf l, hw, c, rfl, ?_⟩
    unfold childDirs at hc
    split at hc
    · obtain ⟨e, he, rfl⟩ := List.mem_map.mp hc
      obtain ⟨hew, hpred⟩ := List.mem_filter.mp he
      obtain ⟨e0, he0, rfl⟩ := List.mem_map.mp hew
      have hdir : kindOf e0.2 = .dir := by
        simp only [Bool.and_eq_true, decide_eq_true_eq] at hpred
        exact hpred.2
      rw [posixAt_walkOf (hwf l hl'), at_walkOf,
        Layer.get_of_mem (hwf l hl').nodup he0 ((hwf l hl').noRoot e0 he0)]
      simp [hdir]
    · cases hc

/-- A layer that is not a tree: a regular file `a` with a stale entry `a/b` below it. -/
private def brokenFs : Fs :=
  ⟨[[([bs ['a']], .file [1]), ([bs ['a'], bs ['b']], .file [2])]],
   .FE14, ⟨.lz13, .FE14, .little, .unicode⟩, .EnglishNA⟩

/-- **The dependence is real**: on the non-closed layer the root listing contains `a/b`, which no
path walk reaches (its parent `a` is a regular file) — a real `glob` would not return it. -/
example :
    brokenFs.list [] none false = .ok [bs ['a'], bs ['a', '/', 'b']] ∧
    (walkOf [([bs ['a']], .file [1]), ([bs ['a'], bs ['b']], .file [2])]).posixAt [bs ['a'], bs ['b']] = none := by
  refine ⟨by decide, by decide⟩

end Mila.Props.C13
