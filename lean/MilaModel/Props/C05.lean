/-
C05 — archive-family parsers are total on arbitrary bytes.

Property theorems only (helper lemmas: `Lemmas/ParsersTotal.lean`, `ParsersSer.lean`,
`ParsersReject.lean`; `ParsersFuel.lean` serves the examples).  The ten entry points are the model
definitions the `parsers` correspondence stream runs (`Driver/Parsers.lean`):

  binLE / binBE                `BinArchive.parse c e bytes`
  textSjis{LE,BE}, textUni{LE,BE}   `TextArchive.fromBytes c bytes f e`
  arc                          `Arc.fromBytes c p bytes`            (both arithmetic profiles `p`)
  pack                         `Fe9Arc.parse c bytes`
  aset                         `(BinArchive.parse c .little bytes).bind Aset.fromArchive`
  asset                        `(BinArchive.parse c .little bytes).bind Asset.fromArchive`

Every theorem quantifies over **all** byte strings (no size bound) and over an **arbitrary** codec
`c` (no faithfulness assumption: the bytes are untrusted, so is whatever the decoder makes of them).

Arithmetic profiles: the only profile-dependent operation left in the family after the `fix:`
commits is the `usize` addition `offset + header_padding` of `arc.rs`, modelled with the
profile-aware `add64`; `arc_total` holds in both profiles and `arc_profiles_agree` shows they
coincide.  The bin header sum (fix D6) and the pack range `start + size` (fix D8) are sums of `u32`
values in `u64` / `usize`: they are natural-number sums in the model, the theorems
`bin_header_sum_no_overflow` / `pack_range_no_overflow` show they stay far below `2^64` (so the
machine sums equal the model's in either profile), and `bin_rejects_overdeclared`,
`pack_rejects_overdeclared_file` are about exactly those sums.

Termination: `TextArchive.fromLoop`, `Aset.readSets`, `Asset.readSpecs` — the three `while` loops —
are well-founded recursions on the number of bytes that remain, accepted by Lean with the progress
lemmas `readMessage_progress`, `readSet_pos`, `fromStream_pos`; every other loop is a structural
recursion over a count or a list.  All model functions are total Lean functions (no `partial`, no
fuel), so "fails to terminate" is excluded by the definitions themselves; what is left to prove is
that the outcome is never `panic`.
-/
import MilaModel.Lemmas.ParsersTotal
import MilaModel.Lemmas.ParsersSer
import MilaModel.Lemmas.ParsersReject
import MilaModel.Lemmas.ParsersFuel
import MilaModel.Props.C06
import MilaModel.Props.C15
import MilaModel.Props.C16

namespace Mila.Props.C05
open Mila Mila.BinArchive Mila.ParsersLemmas
open Mila.Spec.Pack (word)

/-! ## 1. Totality: no entry point ever produces the `panic` outcome

(Termination of the reader loops is Lean totality — see the header.) -/

/-- `BinArchive::from_bytes`, either endianness: `Ok` or `Err` for every byte string. -/
theorem bin_total (c : Codec) (e : Endian) (bytes : Bytes) : BinArchive.parse c e bytes ≠ .panic :=
  ArcLemmas.parse_total c e bytes

/-- `TextArchive::from_bytes`, both formats × both endiannesses.  The message loop terminates by
definition (well-founded on the remaining bytes). -/
theorem text_total (c : Codec) (f : TextFormat) (e : Endian) (bytes : Bytes) :
    TextArchive.fromBytes c bytes f e ≠ .panic :=
  text_fromBytes_total c bytes f e

/-- `arc::from_bytes` in **both** arithmetic profiles (overflow checks on / off). -/
theorem arc_total (c : Codec) (p : Profile) (bytes : Bytes) : Arc.fromBytes c p bytes ≠ .panic :=
  Props.C16.arc_from_bytes_total c p bytes

/-- The two profiles of `arc::from_bytes` return the same result on every byte string (after fix
D9 the offset addition is done in `usize` and cannot wrap). -/
theorem arc_profiles_agree (c : Codec) (bytes : Bytes) :
    Arc.fromBytes c .checked bytes = Arc.fromBytes c .wrapping bytes :=
  Props.C16.arc_profile_independent c bytes

/-- `fe9_arc::parse`: wrong magic (fix D7), truncation, over-declared counts / sizes / addresses
all end in `Err`. -/
theorem pack_total (c : Codec) (bytes : Bytes) : Fe9Arc.parse c bytes ≠ .panic :=
  Props.C15.pack_parse_total c bytes

/-- `BinArchive::from_bytes` then `ASetFile::from_archive`.  The set loop terminates by definition
(every iteration consumes at least the main flag word). -/
theorem aset_total (c : Codec) (bytes : Bytes) :
    (BinArchive.parse c .little bytes).bind Aset.fromArchive ≠ .panic :=
  bind_ne_panic _ _ (bin_total c .little bytes) aset_fromArchive_total

/-- `BinArchive::from_bytes` then `AssetBinary::from_archive`.  The record loop terminates by
definition (every record read starts inside the data and is not empty). -/
theorem asset_total (c : Codec) (bytes : Bytes) :
    (BinArchive.parse c .little bytes).bind Asset.fromArchive ≠ .panic :=
  bind_ne_panic _ _ (bin_total c .little bytes) asset_fromArchive_total

/-- The readers layered on a bin archive are total on **every** archive value, not only on those
`from_bytes` can produce. -/
theorem layered_readers_total (c : Codec) (p : Profile) (a : BinArchive) :
    (∀ f e, TextArchive.fromArchive c a f e ≠ .panic) ∧ Arc.fromArchive p a ≠ .panic ∧
      Aset.fromArchive a ≠ .panic ∧ Asset.fromArchive a ≠ .panic :=
  ⟨fun f e => text_fromArchive_total c a f e, ArcLemmas.fromArchive_total p a,
    aset_fromArchive_total a, asset_fromArchive_total a⟩

/-! ## 2. Explicitly sized requests are bounded by the input -/

/-- **No entry point requests a buffer larger than its input** on the strength of a header or table
field: every logged request (`resize(data_size)`, the only one left after fixes D6/D8) is at most
`bytes.length` — for every entry name of the stream, every byte string. -/
theorem requests_bounded (entry : String) (bytes : Bytes) :
    ∀ r ∈ Parsers.requests entry bytes, r ≤ bytes.length :=
  requests_le entry bytes

/-- The request log of the bin parser in closed form: nothing when the header check fails,
otherwise the declared data size. -/
theorem bin_requests_eq (e : Endian) (bytes : Bytes) :
    Parsers.binRequests e bytes =
      if bytes.length < 0x20 ∨ hdrDeclared e bytes > bytes.length then [] else [hdrDataSize e bytes] :=
  binRequests_eq e bytes

/-- No request is logged only when `parse` stops at the size check, before sizing anything. -/
theorem bin_no_request_is_too_small (c : Codec) (e : Endian) (bytes : Bytes)
    (h : Parsers.binRequests e bytes = []) : BinArchive.parse c e bytes = .err .TooSmall :=
  parse_of_binRequests_nil c e bytes h

/-- **The request is the `resize(data_size)` of the code**: when `parse` gets past the header check
the single logged request `n` is the header's data size, the data region `parse` goes on with has
exactly that length, and it lies inside the input after the 0x20-byte header. -/
theorem bin_request_is_resize (e : Endian) (bytes : Bytes) (n : Nat)
    (h : Parsers.binRequests e bytes = [n]) :
    n = hdrDataSize e bytes ∧ (slice bytes 0x20 n).length = n ∧ n + 0x20 ≤ bytes.length :=
  binRequests_resize e bytes n h

/-- For an accepted buffer the request is the length of the returned archive's data. -/
theorem bin_request_of_accepted (c : Codec) (e : Endian) (bytes : Bytes) (a : BinArchive)
    (h : BinArchive.parse c e bytes = .ok a) : Parsers.binRequests e bytes = [a.data.length] :=
  binRequests_of_ok h

/-! ## 3. Over-declared headers and entries are rejected -/

/-- **Bin header**: if `data_size + 4·pointer_count + 8·label_count + 0x20` exceeds the buffer the
result is `ArchiveTooSmall` (the sum is exact: no 32-bit wrap, fix D6). -/
theorem bin_rejects_overdeclared (c : Codec) (e : Endian) (bytes : Bytes)
    (h : hdrDataSize e bytes + 4 * hdrPointerCount e bytes + 8 * hdrLabelCount e bytes + 0x20
      > bytes.length) : BinArchive.parse c e bytes = .err .TooSmall :=
  parse_too_small c e bytes h

/-- … the data size alone exceeding what is left after the header, -/
theorem bin_rejects_data_size (c : Codec) (e : Endian) (bytes : Bytes)
    (h : hdrDataSize e bytes + 0x20 > bytes.length) : BinArchive.parse c e bytes = .err .TooSmall :=
  parse_too_small c e bytes (by unfold hdrDeclared; omega)

/-- … the pointer table alone, -/
theorem bin_rejects_pointer_count (c : Codec) (e : Endian) (bytes : Bytes)
    (h : 4 * hdrPointerCount e bytes + 0x20 > bytes.length) :
    BinArchive.parse c e bytes = .err .TooSmall :=
  parse_too_small c e bytes (by unfold hdrDeclared; omega)

/-- … the label table alone. -/
theorem bin_rejects_label_count (c : Codec) (e : Endian) (bytes : Bytes)
    (h : 8 * hdrLabelCount e bytes + 0x20 > bytes.length) :
    BinArchive.parse c e bytes = .err .TooSmall :=
  parse_too_small c e bytes (by unfold hdrDeclared; omega)

/-- A buffer shorter than the header is `ArchiveTooSmall`. -/
theorem bin_rejects_short (c : Codec) (e : Endian) (bytes : Bytes) (h : bytes.length < 0x20) :
    BinArchive.parse c e bytes = .err .TooSmall :=
  parse_short c e bytes h

/-- Conversely, whatever is accepted declared no more than the buffer holds, and the archive's
data region has exactly the declared size. -/
theorem bin_accepted_fits (c : Codec) (e : Endian) (bytes : Bytes) (a : BinArchive)
    (h : BinArchive.parse c e bytes = .ok a) :
    hdrDataSize e bytes + 4 * hdrPointerCount e bytes + 8 * hdrLabelCount e bytes + 0x20
        ≤ bytes.length ∧ a.data.length = hdrDataSize e bytes :=
  ⟨(parse_ok_header h).2.1, (parse_ok_header h).2.2.2⟩

/-- **No overflow in the size check**: the three header words are 32-bit values, so the sum the
code forms in `u64` (fix D6) is below `2^36` — it is the natural-number sum of the model in either
arithmetic profile. -/
theorem bin_header_sum_no_overflow (e : Endian) (bytes : Bytes) :
    hdrDataSize e bytes < 2 ^ 32 ∧ hdrPointerCount e bytes < 2 ^ 32 ∧ hdrLabelCount e bytes < 2 ^ 32 ∧
      hdrDataSize e bytes + 4 * hdrPointerCount e bytes + 8 * hdrLabelCount e bytes + 0x20 < 2 ^ 64 := by
  have := hdrDeclared_lt e bytes
  unfold hdrDeclared at this
  exact ⟨dec_slice4_lt e bytes 4, dec_slice4_lt e bytes 8, dec_slice4_lt e bytes 12, by omega⟩

/-- **Propagation**: the layered entry points return the bin parser's error unchanged — whenever
`from_bytes` rejects the buffer, so do text archive (same endianness), arc (both profiles), aset and
asset. -/
theorem layered_propagate_bin_error (c : Codec) (bytes : Bytes) (x : Err) :
    (∀ f e, BinArchive.parse c e bytes = .err x → TextArchive.fromBytes c bytes f e = .err x) ∧
    (BinArchive.parse c .little bytes = .err x →
      (∀ p, Arc.fromBytes c p bytes = .err x) ∧
      (BinArchive.parse c .little bytes).bind Aset.fromArchive = .err x ∧
      (BinArchive.parse c .little bytes).bind Asset.fromArchive = .err x) := by
  refine ⟨fun f e h => ?_, fun h => ⟨fun p => ?_, bind_err _ h, bind_err _ h⟩⟩
  · unfold TextArchive.fromBytes; rw [h]
  · unfold Arc.fromBytes; rw [h]

/-- Hence an over-declared bin header is rejected by **every** entry point built on the bin
parser. -/
theorem layered_reject_overdeclared (c : Codec) (bytes : Bytes) :
    (∀ f e, hdrDeclared e bytes > bytes.length →
      TextArchive.fromBytes c bytes f e = .err .TooSmall) ∧
    (hdrDeclared .little bytes > bytes.length →
      (∀ p, Arc.fromBytes c p bytes = .err .TooSmall) ∧
      (BinArchive.parse c .little bytes).bind Aset.fromArchive = .err .TooSmall ∧
      (BinArchive.parse c .little bytes).bind Asset.fromArchive = .err .TooSmall) :=
  ⟨fun f e h => (layered_propagate_bin_error c bytes .TooSmall).1 f e (parse_too_small c e bytes h),
   fun h => (layered_propagate_bin_error c bytes .TooSmall).2 (parse_too_small c .little bytes h)⟩

/-- **Pack, accepted ⇒ everything declared fits**: the entry table of `file_count` records and the
range `file_address .. file_address + size` of every record are inside the buffer. -/
theorem pack_accepted_fits (c : Codec) (bytes : Bytes) (m : Fe9Arc.Files)
    (h : Fe9Arc.parse c bytes = .ok m) :
    ∃ n, word bytes 4 2 = some n ∧ (n = 0 ∨ 8 + 16 * n ≤ bytes.length) ∧
      ∀ i, i < n → ∀ fa sz, word bytes (8 + 16 * i + 8) 4 = some fa →
        word bytes (8 + 16 * i + 12) 4 = some sz → fa + sz ≤ bytes.length := by
  obtain ⟨n, hn, hfit, hall⟩ := pack_ok_bounds h
  refine ⟨n, hn, hfit, fun i hi fa sz hfa hsz => ?_⟩
  have := hall i hi
  simp only [PackLemmas.entryOf, Nat.add_assoc] at this
  simp only [Nat.add_assoc] at hfa hsz
  rw [hfa, hsz] at this
  exact this

/-- **No overflow in the pack range**: `file_address + size` is a sum of two 32-bit words formed
in `usize` (fix D8); it cannot wrap in either profile. -/
theorem pack_range_no_overflow (bytes : Bytes) (o1 o2 fa sz : Nat)
    (hfa : word bytes o1 4 = some fa) (hsz : word bytes o2 4 = some sz) : fa + sz < 2 ^ 64 := by
  have := word4_lt hfa
  have := word4_lt hsz
  omega

private theorem err_of_not_ok {α : Type} {r : Res α} (hp : r ≠ .panic) (hk : ∀ v, r ≠ .ok v) :
    ∃ x, r = .err x := by
  cases r with
  | ok v => exact absurd rfl (hk v)
  | err x => exact ⟨x, rfl⟩
  | panic => exact absurd rfl hp

/-- **Pack entry**: a record (among the declared `file_count`) whose `file_address + size` exceeds
the buffer makes `parse` return an error (fix D8: nothing is allocated for it either — see
`requests_bounded`, the pack parser makes no sized request at all). -/
theorem pack_rejects_overdeclared_file (c : Codec) (bytes : Bytes) (n i fa sz : Nat)
    (hn : word bytes 4 2 = some n) (hi : i < n)
    (hfa : word bytes (8 + 16 * i + 8) 4 = some fa) (hsz : word bytes (8 + 16 * i + 12) 4 = some sz)
    (h : fa + sz > bytes.length) : ∃ x, Fe9Arc.parse c bytes = .err x := by
  apply err_of_not_ok (pack_total c bytes)
  intro m hm
  obtain ⟨n', hn', _, hall⟩ := pack_accepted_fits c bytes m hm
  rw [hn] at hn'
  cases hn'
  have := hall i hi fa sz hfa hsz
  omega

/-- **Pack file count**: a declared (non-zero) file count whose 16-byte-per-record entry table does
not fit in the buffer makes `parse` return an error. -/
theorem pack_rejects_overdeclared_count (c : Codec) (bytes : Bytes) (n : Nat)
    (hn : word bytes 4 2 = some n) (h0 : 0 < n) (h : 8 + 16 * n > bytes.length) :
    ∃ x, Fe9Arc.parse c bytes = .err x := by
  apply err_of_not_ok (pack_total c bytes)
  intro m hm
  obtain ⟨n', hn', hfit, _⟩ := pack_accepted_fits c bytes m hm
  rw [hn] at hn'
  cases hn'
  omega

/-! ## 4. Accepted values re-serialise without panicking -/

/-- `BinArchive::serialize` never panics — on **any** archive value, with any codec. -/
theorem bin_serialize_total (c : Codec) (a : BinArchive) : BinArchive.serialize c a ≠ .panic :=
  ParsersLemmas.bin_serialize_total c a

/-- … in particular on whatever `from_bytes` accepted. -/
theorem bin_reserialize (c c' : Codec) (e : Endian) (bytes : Bytes) (a : BinArchive)
    (_h : BinArchive.parse c e bytes = .ok a) : BinArchive.serialize c' a ≠ .panic :=
  bin_serialize_total c' a

/-- `TextArchive::serialize` never panics on any value (an unencodable title or message is
`EncodingFailed`). -/
theorem text_serialize_total (c : Codec) (t : TextArchive) : TextArchive.serialize c t ≠ .panic :=
  ParsersLemmas.text_serialize_total c t (Props.C06.buildData_no_panic c t)

theorem text_reserialize (c c' : Codec) (f : TextFormat) (e : Endian) (bytes : Bytes) (t : TextArchive)
    (_h : TextArchive.fromBytes c bytes f e = .ok t) : TextArchive.serialize c' t ≠ .panic :=
  text_serialize_total c' t

/-- `fe9_arc::serialize` never panics on any file list; moreover its two indexed reads
`text_addresses[i]`, `file_info[i]` (fe9_arc.rs:95-97) are in range for every `i < len`: the name
loop and the file loop each produce exactly one element per file (the model's `getD` defaults are
never used). -/
theorem pack_serialize_total (c : Codec) (m : Fe9Arc.Files) :
    Fe9Arc.serialize c m ≠ .panic ∧
    (∀ hl rt addrs, Fe9Arc.nameLoop c hl m [] [] = .ok (rt, addrs) → addrs.length = m.length) ∧
    (∀ base next, (Fe9Arc.fileLoop base m next [] []).2.2.length = m.length) :=
  ⟨ParsersLemmas.pack_serialize_total c m,
   fun hl rt addrs h => by simpa using nameLoop_length c hl m [] [] h,
   fun base next => by simpa using fileLoop_length base m next [] []⟩

theorem pack_reserialize (c c' : Codec) (bytes : Bytes) (m : Fe9Arc.Files)
    (_h : Fe9Arc.parse c bytes = .ok m) : Fe9Arc.serialize c' m ≠ .panic :=
  (pack_serialize_total c' m).1

/-- **What the aset reader accepts**: every set has exactly 257 entries (label + 8 groups of 32
slots) — so `set[0]` exists. -/
theorem aset_accepted_shape (a : BinArchive) (f : Aset.ASetFile) (h : Aset.fromArchive a = .ok f) :
    ∀ s ∈ f.sets, s.length = 257 :=
  aset_fromArchive_shape h

/-- `ASetFile::serialize` does not panic on a file without an empty set.  (It **does** panic on an
empty set — `&set[0]`, aset.rs:472 — and the model says so: `aset_serialize_empty_set_panics`.) -/
theorem aset_serialize_total_of_nonempty (c : Codec) (f : Aset.ASetFile) (h : ∀ s ∈ f.sets, s ≠ []) :
    Aset.serialize c f ≠ .panic :=
  ParsersLemmas.aset_serialize_total c f h

/-- The guard of the previous theorem is needed: a hand-made value with an empty set makes the
model's `serialize` panic, as the Rust does.  (Not reachable from bytes: `aset_accepted_shape`.) -/
theorem aset_serialize_empty_set_panics (c : Codec) (m : Option Str) :
    Aset.serialize c ⟨m, [], [[]]⟩ = .panic := by
  cases m <;> rfl

/-- **Aset**: whatever the reader accepted re-serialises without panicking. -/
theorem aset_reserialize (c c' : Codec) (bytes : Bytes) (f : Aset.ASetFile)
    (h : (BinArchive.parse c .little bytes).bind Aset.fromArchive = .ok f) :
    Aset.serialize c' f ≠ .panic := by
  apply aset_serialize_total_of_nonempty
  cases hp : BinArchive.parse c .little bytes with
  | ok a =>
    rw [hp] at h
    intro s hs
    have := aset_fromArchive_shape (show Aset.fromArchive a = .ok f from h) s hs
    intro h0
    rw [h0] at this
    simp at this
  | err x => rw [hp] at h; simp [Res.bind] at h
  | panic => rw [hp] at h; simp [Res.bind] at h

/-- `AssetBinary::serialize` never panics on any value. -/
theorem asset_serialize_total (c : Codec) (b : Asset.AssetBinary) : Asset.serialize c b ≠ .panic :=
  ParsersLemmas.asset_serialize_total c b

theorem asset_reserialize (c c' : Codec) (bytes : Bytes) (b : Asset.AssetBinary)
    (_h : (BinArchive.parse c .little bytes).bind Asset.fromArchive = .ok b) :
    Asset.serialize c' b ≠ .panic :=
  asset_serialize_total c' b

/-! ## Non-vacuity

Concrete accepted files for every entry point (so the hypotheses `… = .ok v` above are satisfiable
by non-trivial values) and concrete over-declared headers / entries (so are the rejection
hypotheses), evaluated in the kernel.  The codec is the identity (`enc = some`, `dec = id`). -/

private def idc : Codec := ⟨some, id⟩

/-- An 8-byte data region with a pointer `0 → 4`, the string "hi" at cell 4, label "L" at 0 and
label "M" at the end of the data; 71 bytes as `BinArchive::serialize` writes them. -/
private def binLE : Bytes :=
  [71, 0, 0, 0, 8, 0, 0, 0, 2, 0, 0, 0, 2, 0, 0, 0, 0, 0, 0, 0, 0, 0, 0, 0, 0, 0, 0, 0, 0, 0, 0, 0,
   4, 0, 0, 0, 36, 0, 0, 0,  0, 0, 0, 0, 4, 0, 0, 0,  0, 0, 0, 0, 0, 0, 0, 0, 8, 0, 0, 0, 2, 0, 0, 0,
   76, 0, 77, 0, 104, 105, 0]

private def binBE : Bytes :=
  [0, 0, 0, 71, 0, 0, 0, 8, 0, 0, 0, 2, 0, 0, 0, 2, 0, 0, 0, 0, 0, 0, 0, 0, 0, 0, 0, 0, 0, 0, 0, 0,
   0, 0, 0, 4, 0, 0, 0, 36,  0, 0, 0, 0, 0, 0, 0, 4,  0, 0, 0, 0, 0, 0, 0, 0, 0, 0, 0, 8, 0, 0, 0, 2,
   76, 0, 77, 0, 104, 105, 0]

private def binShows (r : Res BinArchive) : Bool :=
  match r with
  | .ok a => a.data == [4, 0, 0, 0, 36, 0, 0, 0] && a.pointers == [(0, 4)] && a.text == [(4, bs ['h', 'i'])]
      && a.labels == [(0, [bs ['L']]), (8, [bs ['M']])]
  | _ => false

/-- Both files are accepted with the expected content, the logged request is the data size 8, and
the header declares exactly the 64 bytes before the text pool. -/
example : binShows (BinArchive.parse idc .little binLE) = true ∧
    (BinArchive.parse idc .big binBE).isOk = true ∧
    Parsers.binRequests .little binLE = [8] ∧ Parsers.binRequests .big binBE = [8] ∧
    hdrDeclared .little binLE = 64 ∧ binLE.length = 71 := by
  refine ⟨by decide +kernel, by decide +kernel, by decide +kernel, by decide +kernel,
    by decide +kernel, by decide +kernel⟩

/-- Over-declared headers (the inputs of defect D6): `data_size = 0xFFFFFFF0, pointer_count = 4`
— the 32-bit sum wraps to 0 — and `pointer_count = 0x40000000` — `4·count` wraps to 0.  Both
satisfy the rejection hypotheses, in a 32-byte buffer; no request is logged. -/
private def hdrD6a : Bytes := leBytes 4 0x20 ++ leBytes 4 0xFFFFFFF0 ++ leBytes 4 4 ++ List.replicate 20 0
private def hdrD6b : Bytes := leBytes 4 0x20 ++ leBytes 4 0 ++ leBytes 4 0x40000000 ++ List.replicate 20 0

example : BinArchive.parse idc .little hdrD6a = .err .TooSmall ∧
    BinArchive.parse idc .little hdrD6b = .err .TooSmall ∧
    Parsers.requests "aset" hdrD6a = [] ∧ Parsers.binRequests .little hdrD6b = [] :=
  ⟨bin_rejects_data_size idc .little hdrD6a (by decide +kernel),
   bin_rejects_pointer_count idc .little hdrD6b (by decide +kernel),
   by decide +kernel, by decide +kernel⟩

/-- A label count alone that does not fit (big-endian header, 40-byte buffer). -/
example : BinArchive.parse idc .big
    (beBytes 4 40 ++ beBytes 4 4 ++ beBytes 4 0 ++ beBytes 4 2 ++ List.replicate 24 0) = .err .TooSmall :=
  bin_rejects_label_count idc .big _ (by decide +kernel)

open ParsersFuel in
/-- Text archives: a legacy little-endian file with two entries (`k1 ↦ "abcd"`, `k2 ↦ ""`) and a
UTF-16 big-endian file with a title and one entry are accepted with that content. -/
example :
    (∃ t, TextArchive.fromBytes idc
        [66, 0, 0, 0, 12, 0, 0, 0, 0, 0, 0, 0, 2, 0, 0, 0, 0, 0, 0, 0, 0, 0, 0, 0, 0, 0, 0, 0, 0, 0, 0, 0,
         97, 98, 99, 100, 0, 0, 0, 0, 0, 0, 0, 0,  0, 0, 0, 0, 0, 0, 0, 0, 8, 0, 0, 0, 3, 0, 0, 0,
         107, 49, 0, 107, 50, 0] .shiftJIS .little = .ok t ∧
      (t.entries == [(bs ['k', '1'], bs ['a', 'b', 'c', 'd']), (bs ['k', '2'], [])]) = true) ∧
    (∃ t, TextArchive.fromBytes idc
        [0, 0, 0, 54, 0, 0, 0, 12, 0, 0, 0, 0, 0, 0, 0, 1, 0, 0, 0, 0, 0, 0, 0, 0, 0, 0, 0, 0, 0, 0, 0, 0,
         84, 0, 0, 0, 104, 0, 105, 0, 0, 0, 0, 0,  0, 0, 0, 4, 0, 0, 0, 0, 107, 0] .unicode .big = .ok t ∧
      (t.title == bs ['T'] && t.entries == [(bs ['k'], bs ['h', 'i'])]) = true) :=
  ⟨accepted_of_fuel_lit (textFuel_sound idc .shiftJIS .little 4) _ (by decide +kernel),
   accepted_of_fuel_lit (textFuel_sound idc .unicode .big 4) _ (by decide +kernel)⟩

/-- Arc: an unpadded archive with a `Count` cell (2), an `Info` table of two records — file `a`
with a 3-byte body, the empty file `b` — is accepted in both profiles. -/
private def arcImg : Bytes :=
  [111, 0, 0, 0, 40, 0, 0, 0, 2, 0, 0, 0, 2, 0, 0, 0, 0, 0, 0, 0, 0, 0, 0, 0, 0, 0, 0, 0, 0, 0, 0, 0,
   2, 0, 0, 0,  75, 0, 0, 0, 7, 0, 0, 0, 3, 0, 0, 0, 36, 0, 0, 0,  77, 0, 0, 0, 9, 0, 0, 0, 0, 0, 0, 0, 0, 0, 0, 0,
   10, 11, 12, 0,  4, 0, 0, 0, 20, 0, 0, 0,  0, 0, 0, 0, 0, 0, 0, 0, 4, 0, 0, 0, 6, 0, 0, 0,
   67, 111, 117, 110, 116, 0, 73, 110, 102, 111, 0, 97, 0, 98, 0]

example : Arc.fromBytes idc .checked arcImg = .ok [(bs ['a'], [10, 11, 12]), (bs ['b'], [])] ∧
    Arc.fromBytes idc .wrapping arcImg = .ok [(bs ['a'], [10, 11, 12]), (bs ['b'], [])] ∧
    Parsers.requests "arc" arcImg = [40] := by
  refine ⟨by decide +kernel, by decide +kernel, by decide +kernel⟩

/-- Pack: the library's image of two files parses back; a record declaring the size `0xFFFFFFFF`
(defect D8's input) and a file count of 3 in a 24-byte buffer satisfy the rejection hypotheses. -/
example :
    (∃ img, Fe9Arc.serialize idc [(bs ['a'], [1, 2, 3]), (bs ['b'], [])] = .ok img ∧
      Fe9Arc.parse idc img = .ok [(bs ['a'], [1, 2, 3]), (bs ['b'], [])]) ∧
    (∃ x, Fe9Arc.parse idc (beBytes 4 Fe9Arc.MAGIC ++ beBytes 2 1 ++ [0, 0]
        ++ [0, 0, 0, 0] ++ beBytes 4 24 ++ beBytes 4 26 ++ beBytes 4 0xFFFFFFFF ++ [97, 0, 1, 2]) = .err x) ∧
    (∃ x, Fe9Arc.parse idc (beBytes 4 Fe9Arc.MAGIC ++ beBytes 2 3 ++ [0, 0]
        ++ List.replicate 16 0) = .err x) :=
  ⟨⟨_, rfl, by decide +kernel⟩,
   pack_rejects_overdeclared_file idc _ 1 0 26 0xFFFFFFFF (by decide +kernel) (by decide)
     (by decide +kernel) (by decide +kernel) (by decide +kernel),
   pack_rejects_overdeclared_count idc _ 3 (by decide +kernel) (by decide) (by decide +kernel)⟩

/-- Aset: a file with two sets — one carrying a string in slot 32 (second group), one all-empty —
as the library writes it (1 120 bytes) is accepted, with both sets. -/
private def asetSample : Aset.ASetFile :=
  ⟨none, List.replicate 257 none,
   [none :: (List.replicate 31 none ++ [some (bs ['s'])] ++ List.replicate 224 none),
    List.replicate 257 none]⟩

open ParsersFuel in
example : ∃ img f, Aset.serialize idc asetSample = .ok img ∧
    (BinArchive.parse idc .little img).bind Aset.fromArchive = .ok f ∧ (f == asetSample) = true :=
  accepted_of_fuel (asetFuel_sound idc 3) _ (by decide +kernel)

/-- Asset binary: one long record (strings 2 and 33, a colour, a NaN-payload f32, a u32) and one
all-absent record, 97 bytes as the library writes them, are accepted as two records. -/
private def assetImg : Bytes :=
  [97, 0, 0, 0, 48, 0, 0, 0, 3, 0, 0, 0, 0, 0, 0, 0, 0, 0, 0, 0, 0, 0, 0, 0, 0, 0, 0, 0, 0, 0, 0, 0,
   255, 255, 255, 255,  5, 0, 0, 0, 38, 0, 8, 0,  60, 0, 0, 0, 62, 0, 0, 0, 64, 0, 0, 0,
   3, 2, 1, 4, 1, 0, 192, 127, 239, 190, 173, 222,  0, 0, 0, 0, 0, 0, 0, 0,  0, 0, 0, 0,
   12, 0, 0, 0, 16, 0, 0, 0, 20, 0, 0, 0,  110, 0, 120, 0, 0]

open ParsersFuel in
example : ∃ b, (BinArchive.parse idc .little assetImg).bind Asset.fromArchive = .ok b ∧
    (b.flags == 0xFFFFFFFF && b.specs.length == 2 &&
      (b.specs.map (·.name)) == [some (bs ['n']), none]) = true :=
  accepted_of_fuel_lit (assetFuel_sound idc 4) _ (by decide +kernel)

end Mila.Props.C05
