/-
C09 — LZ13 compression emits a valid wrapped LZ11 stream that expands to the input; compression
is total.

Model: `Mila.Lz.compress13` (src/lz13.rs:173-241), `lz13Header` (`calculate_lz13_header`,
:111-163), `occurrence` (:7-38); library decoder model `decompress13`.  Specification:
`Mila.Spec.Lz` (`Encodes true`, `Valid true`, `expand`).  Lemmas: `LzSearch`, `LzSteps`,
`LzCompress`/`LzCompress13`, `LzDecode`.
-/
import MilaModel.Model.Lz
import MilaModel.Spec.LzStream
import MilaModel.Lemmas.LzCompress13
import MilaModel.Lemmas.LzDecode

namespace Mila.Props.C09
open Mila Mila.Lz Mila.Spec.Lz

private theorem lenOk11 : ∀ len, 3 ≤ len → len ≤ 0x1000 → lenOk true len := by
  intro len h1 h2; simp [lenOk]; omega

/-- For every input shorter than 16 MiB (the statement also covers the empty input, whose stream
uses the 32-bit extended length word) LZ13 compression returns a 4-byte `0x13` wrapper followed by
a well-formed LZ11 stream whose header carries the input length, whose back-references (any of
the three length forms) have displacement 1–4096 inside the data already produced, with nothing
left over, and whose expansion by the independent reference expander is the input. -/
theorem lz13_correct (x : BA) (hx : x.size < 2 ^ 24) :
    ∃ (out : BA) (l0 l1 l2 : UInt8) (s : Bytes) (toks : List Tok), (compress13 x).1 = .ok out ∧
      out.toList = 0x13 :: l0 :: l1 :: l2 :: s ∧
      Encodes true x.size toks s ∧ Valid true toks ∧ expand toks = x := by
  obtain ⟨l0, l1, l2, out, toks, body, h1, h2, h3, h4⟩ := compress13_post x hx
  obtain ⟨v, ag, sz, _⟩ := stepsTo_sound x 0x1000 true lenOk11 toks x.size h4
  exact ⟨out, l0, l1, l2, header true x.size ++ body, toks, h1, by simpa using h2,
    ⟨body, rfl, h3⟩, v, agree_eq ag sz⟩

/-- The library's own decompressor (LZ13 entry point and `CompressionFormat::LZ13`) gives back the
input. -/
theorem lz13_roundtrip (x : BA) (hx : x.size < 2 ^ 24) :
    ∃ out, (compress13 x).1 = .ok out ∧ decompress13 out.toList = .ok x ∧
      Format.decompress .lz13 out.toList = .ok x := by
  obtain ⟨out, l0, l1, l2, s, toks, h1, h2, h3, h4, h5⟩ := lz13_correct x hx
  have hd := decompressLz_encodes true _ toks s h3 h4 (by rw [← h5]; simp [expand])
    (by simp; omega)
  rw [h5] at hd
  refine ⟨out, h1, ?_, ?_⟩ <;> simp [Format.decompress, decompress13, h2, hd]

/-- For every input, the empty one included, compression returns `Ok` — it neither fails nor
panics — and the buffer it reserves up front is at most `13 + n + n/8` bytes. -/
theorem lz13_total (x : BA) :
    (∃ out, (compress13 x).1 = .ok out) ∧ (compress13 x).2 ≤ 13 + x.size + x.size / 8 := by
  refine ⟨compress13_ok x, ?_⟩
  obtain ⟨l, hl⟩ := lz13Header_ok x
  unfold compress13
  simp only [hl, reserve13]
  omega

/-- `calculate_lz13_header` never returns its error (nor panics). -/
theorem lz13_header_total (x : BA) : ∃ l, lz13Header x = .ok l := lz13Header_ok x

/-- Consequently LZ13 compression is injective below 16 MiB. -/
theorem lz13_injective (x y : BA) (hx : x.size < 2 ^ 24) (hy : y.size < 2 ^ 24)
    (h : (compress13 x).1 = (compress13 y).1) : x = y := by
  obtain ⟨ox, hx1, hx2, _⟩ := lz13_roundtrip x hx
  obtain ⟨oy, hy1, hy2, _⟩ := lz13_roundtrip y hy
  have : ox = oy := by
    have := hx1.symm.trans (h.trans hy1)
    injection this
  subst this
  have := hx2.symm.trans hy2
  injection this

/-! Non-vacuity. -/
example : ∃ out, (compress13 #[7, 7, 7, 7, 7, 7, 7, 7, 7, 7, 7, 7, 7, 7, 7, 7, 7, 7, 7, 7, 7, 9]).1 = .ok out ∧
    decompress13 out.toList = .ok #[7, 7, 7, 7, 7, 7, 7, 7, 7, 7, 7, 7, 7, 7, 7, 7, 7, 7, 7, 7, 7, 9] :=
  let ⟨out, h1, h2, _⟩ := lz13_roundtrip _ (by decide)
  ⟨out, h1, h2⟩
example : ∃ out, (compress13 #[]).1 = .ok out ∧ decompress13 out.toList = .ok #[] :=
  let ⟨out, h1, h2, _⟩ := lz13_roundtrip #[] (by decide)
  ⟨out, h1, h2⟩

end Mila.Props.C09
