/-
C20 — Texture containers yield the packed textures and fail cleanly when truncated.

Model: `Mila.Containers` (`Model/Containers.lean`, readers of `src/ctpk.rs`, `src/bch.rs`, `src/cgfx.rs`,
`src/tpl.rs` in a small reader language).  Specification: `Mila.Spec.Tex` (`Spec/TexContainers.lean`,
decidable conformance predicates written from the format documentation).  `unpack p t` is the
texture a reader must return for the packed texture `t`: its name, its dimensions, and the pixels
the decoder makes of `t`'s own payload (`packed_pixels`; C19 says what those are).
The tie model ↔ Rust is the `texc` correspondence stream.
-/
import MilaModel.Lemmas.TexCtpk
import MilaModel.Lemmas.TexBch
import MilaModel.Lemmas.TexCgfx

namespace Mila.Props.C20
open Mila Mila.Containers Mila.Spec.Tex

/-- A packed texture of the property's domain decodes (both profiles), and `unpack` carries
exactly that decoding. -/
theorem packed_pixels (p : Profile) (t : Tex) (h : valid3ds t = true) :
    Pixel.decodePixelData p t.payload t.width t.height t.format = .ok (unpack p t).pixels := by
  obtain ⟨_, b, hb⟩ := valid3ds_decodes p t h
  simp [unpack, pixelsOf, hb]

private theorem reader_of_full {prog : Prog (List Raw)} {f : Buf} {raws : List Raw} {sf : St} {want : List Texture}
    (h : run prog f ⟨0, [], 0⟩ = .ok (raws, sf)) (ha : assemble sf.names.reverse raws = want) :
    runReader prog f = .ok want := by
  simp [runReader, h, ha]

private theorem reader_prefix {prog : Prog (List Raw)} {f : Buf} {raws : List Raw} {sf : St} (k : Nat)
    (hk : k ≤ f.size) (h : run prog f ⟨0, [], 0⟩ = .ok (raws, sf)) :
    runReader prog (f.extract 0 k) ≠ .panic ∧ (k < sf.hi → ∃ e, runReader prog (f.extract 0 k) = .err e) := by
  obtain ⟨h1, h2⟩ := prefix_outcome prog f k hk raws sf h
  simp only [pre] at h1 h2
  constructor
  · intro hp
    apply h1
    simp only [runReader] at hp
    split at hp <;> simp_all
  · intro hlt
    obtain ⟨e, he⟩ := h2 hlt
    exact ⟨e, by simp [runReader, he]⟩

/-- **CTPK.** A conforming file is read as the packed textures: same number, same order, the
stored names as decoded by Shift-JIS, the stored dimensions, the decoding of each payload. -/
theorem ctpk_read_conforming (p : Profile) (f : Buf) (texs : List Tex)
    (hc : ConformsCtpk (decodeName .sjis) f texs = true) :
    ctpkRead p f = .ok (texs.map (unpack p)) := by
  obtain ⟨raws, sf, h, ha, _⟩ := ctpk_full p f texs hc
  exact reader_of_full h ha

/-- **CTPK, truncation.** Every strict prefix of a conforming file is read without a panic, and
with an error whenever the cut removes part of a texture payload. -/
theorem ctpk_prefix_safe (p : Profile) (f : Buf) (texs : List Tex)
    (hc : ConformsCtpk (decodeName .sjis) f texs = true) (k : Nat) (hk : k < f.size) :
    ctpkRead p (f.extract 0 k) ≠ .panic ∧
    ∀ i t, texs[i]? = some t → cuts k (ctpkPayloadAt f i) t.payload.size = true →
      ∃ e, ctpkRead p (f.extract 0 k) = .err e := by
  obtain ⟨raws, sf, h, _, hhi⟩ := ctpk_full p f texs hc
  obtain ⟨h1, h2⟩ := reader_prefix k (by omega) h
  refine ⟨h1, fun i t ht hcut => h2 ?_⟩
  have := hhi i t ht
  simp only [cuts, Bool.and_eq_true, decide_eq_true_eq] at hcut
  omega

/-- **BCH.** A conforming file (compatibility byte ≤ 20 or > 0x20, N2) is read as the packed
textures, names being the stored UTF-8 strings verbatim. -/
theorem bch_read_conforming (p : Profile) (f : Buf) (texs : List Tex) (hc : ConformsBch f texs = true) :
    bchRead p f = .ok (texs.map (unpack p)) := by
  obtain ⟨raws, sf, h, ha, _⟩ := bch_full p f texs hc
  exact reader_of_full h ha

/-- **BCH, wrong magic.** Input that does not start with `BCH\0` is rejected with an error. -/
theorem bch_bad_magic (p : Profile) (f : Buf) (h : f.size < 4 ∨ u32At f 0 ≠ 0x484342) :
    ∃ e, bchRead p f = .err e := by
  obtain ⟨e, he⟩ := Containers.bch_bad_magic p f h
  exact ⟨e, by simp [bchRead, runReader, he]⟩

/-- **BCH, truncation.** -/
theorem bch_prefix_safe (p : Profile) (f : Buf) (texs : List Tex) (hc : ConformsBch f texs = true)
    (k : Nat) (hk : k < f.size) :
    bchRead p (f.extract 0 k) ≠ .panic ∧
    ∀ i t, texs[i]? = some t → cuts k (bchPayloadAt f i) t.payload.size = true →
      ∃ e, bchRead p (f.extract 0 k) = .err e := by
  obtain ⟨raws, sf, h, _, hhi⟩ := bch_full p f texs hc
  obtain ⟨h1, h2⟩ := reader_prefix k (by omega) h
  refine ⟨h1, fun i t ht hcut => h2 ?_⟩
  have := hhi i t ht
  simp only [cuts, Bool.and_eq_true, decide_eq_true_eq] at hcut
  omega

/-- **CGFX.** A conforming file is read as the packed textures (DATA → DICT → TXOB chain with
self-relative offsets), names being the stored UTF-8 strings verbatim. -/
theorem cgfx_read_conforming (p : Profile) (f : Buf) (texs : List Tex) (hc : ConformsCgfx f texs = true) :
    cgfxRead p f = .ok (texs.map (unpack p)) := by
  obtain ⟨raws, sf, h, ha, _⟩ := cgfx_full p f texs hc
  exact reader_of_full h ha

/-- **CGFX, wrong magic.** Input that does not start with `CGFX` is rejected with an error. -/
theorem cgfx_bad_magic (p : Profile) (f : Buf) (h : f.size < 4 ∨ u32At f 0 ≠ 0x58464743) :
    ∃ e, cgfxRead p f = .err e := by
  obtain ⟨e, he⟩ := Containers.cgfx_bad_magic p f h
  exact ⟨e, by simp [cgfxRead, runReader, he]⟩

/-- **CGFX, truncation.** -/
theorem cgfx_prefix_safe (p : Profile) (f : Buf) (texs : List Tex) (hc : ConformsCgfx f texs = true)
    (k : Nat) (hk : k < f.size) :
    cgfxRead p (f.extract 0 k) ≠ .panic ∧
    ∀ i t, texs[i]? = some t → cuts k (cgfxPayloadAt f i) t.payload.size = true →
      ∃ e, cgfxRead p (f.extract 0 k) = .err e := by
  obtain ⟨raws, sf, h, _, hhi⟩ := cgfx_full p f texs hc
  obtain ⟨h1, h2⟩ := reader_prefix k (by omega) h
  refine ⟨h1, fun i t ht hcut => h2 ?_⟩
  have := hhi i t ht
  simp only [cuts, Bool.and_eq_true, decide_eq_true_eq] at hcut
  omega

end Mila.Props.C20
