/-
C20 — Texture containers yield the packed textures and fail cleanly when truncated.
-/
import MilaModel.Model.Containers
import MilaModel.Spec.TexContainers

namespace Mila.Props.C20
open Mila Mila.Containers

/-- placeholder while the framework is brought up -/
theorem placeholder : (1 : Nat) = 1 := rfl

end Mila.Props.C20
