/-
C20 — Texture containers yield the packed textures and fail cleanly when truncated.

Model: `Mila.Containers` (`Model/Containers.lean`, readers of `src/ctpk.rs`, `src/bch.rs`, `src/cgfx.rs`,
`src/tpl.rs` in a small reader language).  Specification: `Mila.Spec.Tex` (`Spec/TexContainers.lean`,
decidable conformance predicates written from the format documentation).  `unpack p t` is the
texture a reader must return for the packed texture `t`: its name, its dimensions, and the pixels
the decoder makes of `t`'s own payload (`packed_pixels`; C19 says what those are).
The tie model ↔ Rust is the `texc` correspondence stream.
-/
import MilaModel.Lemmas.TexCtpk
import MilaModel.Lemmas.TexBch
import MilaModel.Lemmas.TexCgfx
import MilaModel.Lemmas.TexTpl

namespace Mila.Props.C20
open Mila Mila.Containers Mila.Spec.Tex

/-- A packed texture of the property's domain decodes (both profiles), and `unpack` carries
exactly that decoding. -/
theorem packed_pixels (p : Profile) (t : Tex) (h : valid3ds t = true) :
    Pixel.decodePixelData p t.payload t.width t.height t.format = .ok (unpack p t).pixels := by
  obtain ⟨_, b, hb⟩ := valid3ds_decodes p t h
  simp [unpack, pixelsOf, hb]

private theorem reader_of_full {prog : Prog (List Raw)} {f : Buf} {raws : List Raw} {sf : St} {want : List Texture}
    (h : run prog f ⟨0, [], 0⟩ = .ok (raws, sf)) (ha : assemble sf.names.reverse raws = want) :
    runReader prog f = .ok want := by
  simp [runReader, h, ha]

private theorem reader_prefix {prog : Prog (List Raw)} {f : Buf} {raws : List Raw} {sf : St} (k : Nat)
    (hk : k ≤ f.size) (h : run prog f ⟨0, [], 0⟩ = .ok (raws, sf)) :
    runReader prog (f.extract 0 k) ≠ .panic ∧ (k < sf.hi → ∃ e, runReader prog (f.extract 0 k) = .err e) := by
  obtain ⟨h1, h2⟩ := prefix_outcome prog f k hk raws sf h
  simp only [pre] at h1 h2
  constructor
  · intro hp
    apply h1
    simp only [runReader] at hp
    split at hp <;> simp_all
  · intro hlt
    obtain ⟨e, he⟩ := h2 hlt
    exact ⟨e, by simp [runReader, he]⟩

/-- **CTPK.** A conforming file is read as the packed textures: same number, same order, the
stored names as decoded by Shift-JIS, the stored dimensions, the decoding of each payload. -/
theorem ctpk_read_conforming (p : Profile) (f : Buf) (texs : List Tex)
    (hc : ConformsCtpk (decodeName .sjis) f texs = true) :
    ctpkRead p f = .ok (texs.map (unpack p)) := by
  obtain ⟨raws, sf, h, ha, _⟩ := ctpk_full p f texs hc
  exact reader_of_full h ha

/-- **CTPK, truncation.** Every strict prefix of a conforming file is read without a panic, and
with an error whenever the cut removes part of a texture payload. -/
theorem ctpk_prefix_safe (p : Profile) (f : Buf) (texs : List Tex)
    (hc : ConformsCtpk (decodeName .sjis) f texs = true) (k : Nat) (hk : k < f.size) :
    ctpkRead p (f.extract 0 k) ≠ .panic ∧
    ∀ i t, texs[i]? = some t → cuts k (ctpkPayloadAt f i) t.payload.size = true →
      ∃ e, ctpkRead p (f.extract 0 k) = .err e := by
  obtain ⟨raws, sf, h, _, hhi⟩ := ctpk_full p f texs hc
  obtain ⟨h1, h2⟩ := reader_prefix k (by omega) h
  refine ⟨h1, fun i t ht hcut => h2 ?_⟩
  have := hhi i t ht
  simp only [cuts, Bool.and_eq_true, decide_eq_true_eq] at hcut
  omega

/-- **BCH.** A conforming file (compatibility byte ≤ 20 or > 0x20, N2) is read as the packed
textures, names being the stored UTF-8 strings verbatim. -/
theorem bch_read_conforming (p : Profile) (f : Buf) (texs : List Tex) (hc : ConformsBch f texs = true) :
    bchRead p f = .ok (texs.map (unpack p)) := by
  obtain ⟨raws, sf, h, ha, _⟩ := bch_full p f texs hc
  exact reader_of_full h ha

/-- **BCH, wrong magic.** Input that does not start with `BCH\0` is rejected with an error. -/
theorem bch_bad_magic (p : Profile) (f : Buf) (h : f.size < 4 ∨ u32At f 0 ≠ 0x484342) :
    ∃ e, bchRead p f = .err e := by
  obtain ⟨e, he⟩ := Containers.bch_bad_magic p f h
  exact ⟨e, by simp [bchRead, runReader, he]⟩

/-- **BCH, truncation.** -/
theorem bch_prefix_safe (p : Profile) (f : Buf) (texs : List Tex) (hc : ConformsBch f texs = true)
    (k : Nat) (hk : k < f.size) :
    bchRead p (f.extract 0 k) ≠ .panic ∧
    ∀ i t, texs[i]? = some t → cuts k (bchPayloadAt f i) t.payload.size = true →
      ∃ e, bchRead p (f.extract 0 k) = .err e := by
  obtain ⟨raws, sf, h, _, hhi⟩ := bch_full p f texs hc
  obtain ⟨h1, h2⟩ := reader_prefix k (by omega) h
  refine ⟨h1, fun i t ht hcut => h2 ?_⟩
  have := hhi i t ht
  simp only [cuts, Bool.and_eq_true, decide_eq_true_eq] at hcut
  omega

/-- **CGFX.** A conforming file is read as the packed textures (DATA → DICT → TXOB chain with
self-relative offsets), names being the stored UTF-8 strings verbatim. -/
theorem cgfx_read_conforming (p : Profile) (f : Buf) (texs : List Tex) (hc : ConformsCgfx f texs = true) :
    cgfxRead p f = .ok (texs.map (unpack p)) := by
  obtain ⟨raws, sf, h, ha, _⟩ := cgfx_full p f texs hc
  exact reader_of_full h ha

/-- **CGFX, wrong magic.** Input that does not start with `CGFX` is rejected with an error. -/
theorem cgfx_bad_magic (p : Profile) (f : Buf) (h : f.size < 4 ∨ u32At f 0 ≠ 0x58464743) :
    ∃ e, cgfxRead p f = .err e := by
  obtain ⟨e, he⟩ := Containers.cgfx_bad_magic p f h
  exact ⟨e, by simp [cgfxRead, runReader, he]⟩

/-- **CGFX, truncation.** -/
theorem cgfx_prefix_safe (p : Profile) (f : Buf) (texs : List Tex) (hc : ConformsCgfx f texs = true)
    (k : Nat) (hk : k < f.size) :
    cgfxRead p (f.extract 0 k) ≠ .panic ∧
    ∀ i t, texs[i]? = some t → cuts k (cgfxPayloadAt f i) t.payload.size = true →
      ∃ e, cgfxRead p (f.extract 0 k) = .err e := by
  obtain ⟨raws, sf, h, _, hhi⟩ := cgfx_full p f texs hc
  obtain ⟨h1, h2⟩ := reader_prefix k (by omega) h
  refine ⟨h1, fun i t ht hcut => h2 ?_⟩
  have := hhi i t ht
  simp only [cuts, Bool.and_eq_true, decide_eq_true_eq] at hcut
  omega

/-- A packed CI8 image of the property's domain decodes, and `unpackTpl` carries exactly that
decoding (C19 `ci8_block_spec` says what it is). -/
theorem packed_pixels_tpl (t : Tex) (h : validTpl t = true) :
    Pixel.tplDecodeImage 2 t.palette 9 t.height t.width t.payload = .ok (unpackTpl t).pixels :=
  (validTpl_spec h).2.2.2.2

private theorem tpl_of_full {f : Buf} {raws : List Raw} {sf : St} {want : List Texture}
    (h : run tplProg f ⟨0, [], 0⟩ = .ok (raws, sf))
    (ha : raws.map (fun r => (⟨[], r.1, r.2.1, r.2.2⟩ : Texture)) = want) : tplRead f = .ok want := by
  simp [tplRead, h, ha]

/-- **TPL.** A conforming file (CI8 images with RGB5A3 palettes, all pointers absolute) is read as
the packed images, in order, with their dimensions and empty names. -/
theorem tpl_read_conforming (f : Buf) (texs : List Tex) (hc : ConformsTpl f texs = true) :
    tplRead f = .ok (texs.map unpackTpl) := by
  obtain ⟨raws, sf, h, ha, _⟩ := tpl_full f texs hc
  exact tpl_of_full h ha

/-- **TPL, wrong magic.** Input that does not start with `00 20 AF 30` is rejected with an error. -/
theorem tpl_bad_magic (f : Buf) (h : f.size < 4 ∨ be32 f 0 ≠ 0x0020AF30) : ∃ e, tplRead f = .err e := by
  obtain ⟨e, he⟩ := Containers.tpl_bad_magic f h
  exact ⟨e, by simp [tplRead, he]⟩

/-- **TPL, truncation.** No panic on any strict prefix; an error whenever the cut removes part of
an image's data or of its palette. -/
theorem tpl_prefix_safe (f : Buf) (texs : List Tex) (hc : ConformsTpl f texs = true) (k : Nat) (hk : k < f.size) :
    tplRead (f.extract 0 k) ≠ .panic ∧
    ∀ i t, texs[i]? = some t →
      (cuts k (tplPayloadAt f i) t.payload.size = true ∨ cuts k (tplPaletteAt f i) t.palette.size = true) →
      ∃ e, tplRead (f.extract 0 k) = .err e := by
  obtain ⟨raws, sf, h, _, hhi⟩ := tpl_full f texs hc
  obtain ⟨h1, h2⟩ := prefix_outcome tplProg f k (by omega) raws sf h
  simp only [pre] at h1 h2
  constructor
  · intro hp
    apply h1
    simp only [tplRead] at hp
    split at hp <;> simp_all
  · intro i t ht hcut
    obtain ⟨hp, hq⟩ := hhi i t ht
    have hlt : k < sf.hi := by
      simp only [cuts, Bool.and_eq_true, decide_eq_true_eq] at hcut
      omega
    obtain ⟨e, he⟩ := h2 hlt
    exact ⟨e, by simp [tplRead, he]⟩

/-! ### non-vacuity: concrete files satisfy the conformance predicates -/

private def le (k n : Nat) : Mila.Buf := (leBytes k n).toArray
private def be (k n : Nat) : Mila.Buf := (beBytes k n).toArray

/-- A CTPK file with one 8×8 L8 texture named "p" (payload after the name). -/
private def sampleCtpk : Mila.Buf :=
  le 4 0x4B505443 ++ le 2 1 ++ le 2 1 ++ le 4 0x44 ++ le 4 64 ++ le 4 0 ++ le 4 0 ++ le 8 0 ++
  le 4 0x40 ++ le 4 64 ++ le 4 0 ++ le 4 7 ++ le 2 8 ++ le 2 8 ++ le 1 1 ++ le 1 0 ++ le 2 0 ++
  le 4 0 ++ le 4 0 ++ #[0x70, 0, 0, 0] ++ Array.replicate 64 0x55

example : ConformsCtpk (decodeName .sjis) sampleCtpk
    [⟨[0x70], [0x70], 8, 8, 7, Array.replicate 64 0x55, #[]⟩] = true := by decide +kernel

/-- A 60-byte BCH file without textures whose content table overlaps the header tail
(compatibility byte 20: short header). -/
private def sampleBch : Mila.Buf :=
  le 4 0x484342 ++ #[20, 0] ++ le 2 0 ++ le 4 16 ++ le 4 0 ++ le 4 0 ++ le 4 0 ++
  Array.replicate 28 0 ++ le 4 0 ++ le 4 0 ++ le 4 0

example : ConformsBch sampleBch [] = true := by decide +kernel

/-- A CGFX file without textures: header, DATA with entry 1 pointing at an empty DICT. -/
private def sampleCgfx : Mila.Buf :=
  le 4 0x58464743 ++ Array.replicate 16 0 ++ le 4 0x41544144 ++ le 4 0 ++
  le 4 0 ++ le 4 0 ++ le 4 0 ++ le 4 0x74 ++ Array.replicate 112 0 ++
  le 4 0x54434944 ++ le 4 0 ++ le 4 0 ++ Array.replicate 16 0

example : ConformsCgfx sampleCgfx [] = true := by decide +kernel

/-- A TPL file with one 3×2 CI8 image (padded to 8×4) and a two-entry palette. -/
private def sampleTpl : Mila.Buf :=
  be 4 0x0020AF30 ++ be 4 1 ++ be 4 12 ++          -- header; table at 12
  be 4 20 ++ be 4 56 ++                            -- image header at 20, palette header at 56
  be 2 2 ++ be 2 3 ++ be 4 9 ++ be 4 68 ++ Array.replicate 24 0 ++   -- image header (36 bytes), data at 68
  be 2 2 ++ #[0, 0] ++ be 4 2 ++ be 4 100 ++       -- palette header (12 bytes), data at 100
  Array.replicate 32 1 ++ #[0x80, 0x1F, 0x7F, 0xFF]

example : ConformsTpl sampleTpl
    [⟨[], [], 3, 2, 9, Array.replicate 32 1, #[0x80, 0x1F, 0x7F, 0xFF]⟩] = true := by decide +kernel

end Mila.Props.C20
