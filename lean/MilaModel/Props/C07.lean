/-
C07 — Text archive is an insertion-ordered map with symmetric newline escaping.

Model: `Mila.TextArchive` (`src/text_archive.rs:33-54,117-146`; `IndexMap` = ordered association
list, `str::replace` = `strReplace`).  Specification: `Mila.Spec.TextMap` (history-defined `birth`,
`lastSet`, `KeysSpec`, `escape`/`unescape`, written from the property statement).  The theorems
quantify over **all histories** of `set_message` / `delete_message` / `set_title` / `has_message` /
`get_message` calls starting from `TextArchive::new`, all keys and all messages (byte strings).
The tie model ↔ Rust is the `text` correspondence stream (`c07.*` cases).
-/
import MilaModel.Model.TextArchive
import MilaModel.Spec.TextMap
import MilaModel.Lemmas.TextEscape
import MilaModel.Lemmas.TextIndexMap

namespace Mila.Props.C07
open Mila Mila.TextArchive Mila.Spec.TextMap
open Mila.Lemmas.TextEscape Mila.Lemmas.TextIndexMap

/-- One API call on the model. -/
def step (t : TextArchive) : Op → TextArchive
  | .set k m => t.setMessage k m
  | .del k => t.deleteMessage k
  | .title s => t.setTitle s
  | .has _ => t
  | .get _ => t

/-- The model state after the history `h`, starting from `TextArchive::new(f, e)`. -/
def run (f : TextFormat) (e : Endian) (h : List Op) : TextArchive :=
  h.foldl step (TextArchive.new f e)

private def runR (f : TextFormat) (e : Endian) (hr : List Op) : TextArchive :=
  hr.foldr (fun op t => step t op) (TextArchive.new f e)

private theorem run_eq (f : TextFormat) (e : Endian) (h : List Op) : run f e h = runR f e h.reverse := by
  simp [run, runR, List.foldr_reverse]

private theorem runR_cons (f : TextFormat) (e : Endian) (op : Op) (hr : List Op) :
    runR f e (op :: hr) = step (runR f e hr) op := rfl

private abbrev Before (hr : List Op) (a b : Bytes) : Prop :=
  ∃ i j, birthR hr a = some i ∧ birthR hr b = some j ∧ i < j

private theorem keysR (f : TextFormat) (e : Endian) (hr : List Op) :
    (∀ k, k ∈ keysOf (runR f e hr).entries ↔ (birthR hr k).isSome) ∧
    (keysOf (runR f e hr).entries).Pairwise (Before hr) := by
  induction hr with
  | nil => simp [runR, TextArchive.new, birthR]
  | cons op older ih =>
    obtain ⟨ihm, ihp⟩ := ih
    rw [runR_cons]
    generalize runR f e older = t at ihm ihp
    cases op with
    | set k m =>
      simp only [step, setMessage, keysOf_imSet]
      by_cases hk : k ∈ keysOf t.entries
      · -- re-setting a present key keeps its place and its birth
        have hbk := (ihm k).mp hk
        have hsame : ∀ k', birthR (.set k m :: older) k' = birthR older k' := by
          intro k'
          simp only [birthR]
          by_cases e1 : k = k'
          · subst e1
            cases hb : birthR older k with
            | none => rw [hb] at hbk; cases hbk
            | some i => simp
          · simp [e1]
        simp only [hk, if_true]
        refine ⟨fun k' => by rw [hsame]; exact ihm k', ?_⟩
        apply ihp.imp
        rintro a b ⟨i, j, ha, hb, hij⟩
        exact ⟨i, j, by rw [hsame]; exact ha, by rw [hsame]; exact hb, hij⟩
      · -- a new (or re-added) key is appended with the latest birth
        have hbk : birthR older k = none := by
          cases hb : birthR older k with
          | none => rfl
          | some i => exact absurd ((ihm k).mpr (by rw [hb]; rfl)) hk
        have hnew : birthR (.set k m :: older) k = some older.length := by simp [birthR, hbk]
        have hold : ∀ k', k' ≠ k → birthR (.set k m :: older) k' = birthR older k' := by
          intro k' hne
          have : ¬ k = k' := fun e1 => hne e1.symm
          simp [birthR, this]
        simp only [hk, if_false]
        constructor
        · intro k'
          by_cases e1 : k' = k
          · subst e1; simp [hnew]
          · rw [hold k' e1, ← ihm k']; simp [e1]
        · rw [List.pairwise_append]
          refine ⟨?_, by simp, ?_⟩
          · apply ihp.imp_of_mem
            intro a b ha hb ⟨i, j, hia, hjb, hij⟩
            have ha' : a ≠ k := fun e1 => hk (e1 ▸ ha)
            have hb' : b ≠ k := fun e1 => hk (e1 ▸ hb)
            exact ⟨i, j, by rw [hold a ha']; exact hia, by rw [hold b hb']; exact hjb, hij⟩
          · intro a ha b hb
            simp only [List.mem_singleton] at hb
            subst hb
            have ha' : a ≠ b := fun e1 => hk (e1 ▸ ha)
            have hsome := (ihm a).mp ha
            cases hba : birthR older a with
            | none => rw [hba] at hsome; cases hsome
            | some i =>
              exact ⟨i, older.length, by rw [hold a ha']; exact hba, hnew, birthR_lt hba⟩
    | del k =>
      simp only [step, deleteMessage, keysOf_imRemove]
      have hb : ∀ k', birthR (.del k :: older) k' = if k = k' then none else birthR older k' := by
        intro k'; simp [birthR]
      constructor
      · intro k'
        rw [hb, List.mem_filter]
        by_cases e1 : k = k'
        · subst e1; simp
        · have : ¬ k' = k := fun e2 => e1 e2.symm
          simp [e1, this, ihm k']
      · apply (ihp.filter _).imp_of_mem
        intro a b ha hb' ⟨i, j, hia, hjb, hij⟩
        simp only [List.mem_filter, decide_eq_true_eq] at ha hb'
        have h1 : ¬ k = a := fun e1 => ha.2 e1.symm
        have h2 : ¬ k = b := fun e1 => hb'.2 e1.symm
        exact ⟨i, j, by rw [hb, if_neg h1]; exact hia, by rw [hb, if_neg h2]; exact hjb, hij⟩
    | title s => exact ⟨ihm, ihp⟩
    | has k => exact ⟨ihm, ihp⟩
    | get k => exact ⟨ihm, ihp⟩

private theorem valueR (f : TextFormat) (e : Endian) (hr : List Op) (k : Bytes) :
    imGet (runR f e hr).entries k = (lastSetR hr k).map Spec.TextMap.unescape := by
  induction hr with
  | nil => rfl
  | cons op older ih =>
    rw [runR_cons]
    generalize runR f e older = t at ih
    cases op with
    | set k' m =>
      simp only [step, setMessage, imGet_imSet, lastSetR, unescape_eq]
      by_cases e1 : k' = k
      · subst e1; simp
      · have : ¬ k = k' := fun e2 => e1 e2.symm
        simp [e1, this, ih]
    | del k' =>
      simp only [step, deleteMessage, imGet_imRemove, lastSetR]
      by_cases e1 : k' = k
      · subst e1; simp
      · have : ¬ k = k' := fun e2 => e1 e2.symm
        simp [e1, this, ih]
    | title s => exact ih
    | has k' => exact ih
    | get k' => exact ih

/-! ### the property's clauses -/

/-- **Key order.** After any history the archive lists exactly the surviving keys, in order of
first insertion of their current incarnation (strictly increasing `birth`): re-setting keeps the
place, deleting never reorders the others, re-adding appends. -/
theorem keys_sorted_by_birth (f : TextFormat) (e : Endian) (h : List Op) :
    KeysSpec h ((run f e h).entries.map (·.1)) := by
  rw [run_eq]
  exact keysR f e h.reverse

/-- `KeysSpec` determines the key list: any two lists satisfying it for the same history are equal
(so `keys_sorted_by_birth` pins the order down completely). -/
theorem keysSpec_unique (h : List Op) (l₁ l₂ : List Bytes) (h₁ : KeysSpec h l₁) (h₂ : KeysSpec h l₂) :
    l₁ = l₂ := by
  have irrefl : ∀ a, ¬ (∃ i j, birth h a = some i ∧ birth h a = some j ∧ i < j) := by
    rintro a ⟨i, j, hi, hj, hij⟩
    rw [hi] at hj; cases hj; omega
  have nd : ∀ l, KeysSpec h l → l.Nodup := by
    intro l hl
    apply hl.2.imp
    intro a b hab e1
    subst e1
    exact irrefl a hab
  apply List.Perm.eq_of_pairwise (le := fun a b => ∃ i j, birth h a = some i ∧ birth h b = some j ∧ i < j)
  · rintro a b _ _ ⟨i, j, hi, hj, hij⟩ ⟨i', j', hi', hj', hij'⟩
    rw [hi] at hj'; rw [hj] at hi'
    cases hj'; cases hi'; omega
  · exact h₁.2
  · exact h₂.2
  · rw [List.perm_ext_iff_of_nodup (nd l₁ h₁) (nd l₂ h₂)]
    intro a
    rw [h₁.1 a, h₂.1 a]

/-- `has_message` answers whether the key is alive after the history. -/
theorem has_message_spec (f : TextFormat) (e : Endian) (h : List Op) (k : Bytes) :
    (run f e h).hasMessage k = (birth h k).isSome := by
  have := (keys_sorted_by_birth f e h).1 k
  unfold hasMessage
  cases hb : (birth h k).isSome
  · cases hc : imContains (run f e h).entries k
    · rfl
    · rw [imContains_iff] at hc
      rw [hb] at this
      exact absurd (this.mp hc) (by simp)
  · rw [hb] at this
    exact (imContains_iff _ _).mpr (this.mpr rfl)

/-- **Stored value.** The value stored under a key is the last message set for its current
incarnation with every escape sequence turned into a newline; absent keys have none. -/
theorem stored_value_spec (f : TextFormat) (e : Endian) (h : List Op) (k : Bytes) :
    imGet (run f e h).entries k = valueOf h k := by
  rw [run_eq]
  exact valueR f e h.reverse k

/-- **Lookup.** `get_message` returns the stored value with every newline escaped. -/
theorem get_message_spec (f : TextFormat) (e : Endian) (h : List Op) (k : Bytes) :
    (run f e h).getMessage k = lookupOf h k := by
  unfold getMessage lookupOf
  rw [stored_value_spec]
  cases valueOf h k with
  | none => rfl
  | some v => simp [escape_eq]

/-- The model's `str::replace` instances are the specification's escaping functions, and they are
symmetric on stored messages: a stored message has no escape sequence, and unescaping the escaped
form of such a message gives it back. -/
theorem escaping_symmetric (m : Bytes) :
    TextArchive.unescape m = Spec.TextMap.unescape m ∧
    TextArchive.escape m = Spec.TextMap.escape m ∧
    NoSeq (Spec.TextMap.unescape m) ∧
    (NoSeq m → Spec.TextMap.unescape (Spec.TextMap.escape m) = m) :=
  ⟨unescape_eq m, escape_eq m, noSeq_unescape m, unescape_escape m⟩

/-- Every value stored after a history is free of escape sequences. -/
theorem stored_noSeq (f : TextFormat) (e : Endian) (h : List Op) (k v : Bytes)
    (hv : imGet (run f e h).entries k = some v) : NoSeq v := by
  rw [stored_value_spec] at hv
  unfold valueOf at hv
  cases hl : lastSet h k with
  | none => rw [hl] at hv; cases hv
  | some m =>
    rw [hl] at hv
    simp only [Option.map_some, Option.some.injEq] at hv
    rw [← hv]
    exact noSeq_unescape m

/-- **Storing a looked-up message back changes nothing** (entries: keys, order and values). -/
theorem set_get_id (f : TextFormat) (e : Endian) (h : List Op) (k m : Bytes)
    (hg : (run f e h).getMessage k = some m) :
    ((run f e h).setMessage k m).entries = (run f e h).entries := by
  unfold getMessage at hg
  cases hv : imGet (run f e h).entries k with
  | none => rw [hv] at hg; cases hg
  | some v =>
    rw [hv] at hg
    simp only [Option.map_some, Option.some.injEq] at hg
    have hns := stored_noSeq f e h k v hv
    have hu : TextArchive.unescape m = v := by
      rw [← hg, escape_eq, unescape_eq]
      exact unescape_escape v hns
    have hnd : (keysOf (run f e h).entries).Nodup := by
      apply (keys_sorted_by_birth f e h).2.imp
      rintro a b ⟨i, j, hi, hj, hij⟩ e1
      subst e1
      rw [hi] at hj; cases hj; omega
    simp only [setMessage, hu]
    exact imSet_same _ k v hnd hv

/-- **Dirty flag**: clear on a new archive, and after a history it is set iff some `set_message`
happened (in particular it is set after any set; deletions and title changes do not set it). -/
theorem dirty_spec (f : TextFormat) (e : Endian) (h : List Op) :
    (TextArchive.new f e).isDirty = false ∧ (run f e h).isDirty = anySet h := by
  refine ⟨rfl, ?_⟩
  rw [run_eq]
  have : anySet h = anySet h.reverse := by simp [anySet]
  rw [this]
  generalize h.reverse = hr
  induction hr with
  | nil => rfl
  | cons op older ih =>
    rw [runR_cons]
    simp only [anySet, List.any_cons, isDirty] at ih ⊢
    cases op <;> simp [step, setMessage, deleteMessage, setTitle, isSet, ih]

/-- The dirty flag is set right after any `set_message`. -/
theorem dirty_after_set (t : TextArchive) (k m : Bytes) : (t.setMessage k m).isDirty = true := rfl

/-- The dirty flag is clear on a parsed archive (`from_archive`, hence `from_bytes`). -/
theorem dirty_parsed (c : Codec) (a : BinArchive) (f : TextFormat) (e : Endian) (t : TextArchive)
    (h : TextArchive.fromArchive c a f e = .ok t) : t.isDirty = false := by
  unfold TextArchive.fromArchive at h
  cases f <;> simp only at h
  · split at h
    · cases h; rfl
    · cases h
    · cases h
  · split at h
    · split at h
      · cases h; rfl
      · cases h
      · cases h
    · cases h
    · cases h

/-- The same through the other parsing constructor: `from_bytes` = `BinArchive::from_bytes` then
`from_archive`, so its result is not dirty either — whatever public constructor produced the archive. -/
theorem dirty_parsed_bytes (c : Codec) (raw : Bytes) (f : TextFormat) (e : Endian) (t : TextArchive)
    (h : TextArchive.fromBytes c raw f e = .ok t) : t.isDirty = false := by
  unfold TextArchive.fromBytes at h
  split at h
  · exact dirty_parsed c _ f e t h
  · cases h
  · cases h

/-- The title is the last one set. -/
theorem title_spec (f : TextFormat) (e : Endian) (h : List Op) : (run f e h).getTitle = titleOf h := by
  rw [run_eq]
  unfold titleOf
  generalize h.reverse = hr
  induction hr with
  | nil => rfl
  | cons op older ih =>
    rw [runR_cons]
    cases op <;> simp_all [step, setMessage, deleteMessage, setTitle, getTitle, titleR]

/-! ### the oracle's executable test is sound for the declarative key-order specification -/

private theorem strictlyIncreasing_pairwise :
    ∀ l : List Nat, strictlyIncreasing l = true → l.Pairwise (· < ·)
  | [], _ => List.Pairwise.nil
  | [_], _ => by simp
  | a :: b :: rest, h => by
    simp only [strictlyIncreasing, Bool.and_eq_true, decide_eq_true_eq] at h
    obtain ⟨hab, hr⟩ := h
    have ih := strictlyIncreasing_pairwise (b :: rest) hr
    rw [List.pairwise_cons]
    refine ⟨?_, ih⟩
    intro x hx
    rw [List.pairwise_cons] at ih
    simp only [List.mem_cons] at hx
    rcases hx with rfl | hx
    · exact hab
    · exact Nat.lt_trans hab (ih.1 x hx)

private theorem pairwise_of_filterMap (b : Bytes → Option Nat) :
    ∀ l : List Bytes, (∀ k ∈ l, (b k).isSome) → (l.filterMap b).Pairwise (· < ·) →
      l.Pairwise (fun x y => ∃ i j, b x = some i ∧ b y = some j ∧ i < j)
  | [], _, _ => List.Pairwise.nil
  | x :: xs, hs, hp => by
    have hx := hs x (by simp)
    cases hbx : b x with
    | none => rw [hbx] at hx; cases hx
    | some i =>
      rw [List.filterMap_cons, hbx, List.pairwise_cons] at hp
      rw [List.pairwise_cons]
      refine ⟨?_, pairwise_of_filterMap b xs (fun k hk => hs k (by simp [hk])) hp.2⟩
      intro y hy
      have hyb := hs y (by simp [hy])
      cases hby : b y with
      | none => rw [hby] at hyb; cases hyb
      | some j =>
        exact ⟨i, j, hbx, rfl, hp.1 j (List.mem_filterMap.mpr ⟨y, hy, hby⟩)⟩

private theorem birthR_mem_ops (hr : List Op) (k : Bytes) (h : (birthR hr k).isSome) :
    k ∈ hr.filterMap opKey := by
  induction hr with
  | nil => simp [birthR] at h
  | cons op older ih =>
    cases op with
    | set k' m =>
      by_cases e1 : k' = k
      · simp [opKey, e1]
      · simp only [birthR, e1, if_false] at h
        rw [List.filterMap_cons]; simp only [opKey]; exact List.mem_cons_of_mem _ (ih h)
    | del k' =>
      by_cases e1 : k' = k
      · simp [opKey, e1]
      · simp only [birthR, e1, if_false] at h
        rw [List.filterMap_cons]; simp only [opKey]; exact List.mem_cons_of_mem _ (ih h)
    | title t =>
      simp only [birthR] at h
      rw [List.filterMap_cons]; simp only [opKey]; exact ih h
    | has k' =>
      simp only [birthR] at h
      rw [List.filterMap_cons]; simp only [opKey]; exact List.mem_cons_of_mem _ (ih h)
    | get k' =>
      simp only [birthR] at h
      rw [List.filterMap_cons]; simp only [opKey]; exact List.mem_cons_of_mem _ (ih h)

/-- The test the oracle runs on the implementation's key list (`Spec.TextMap.checkKeys`) accepts
only lists that satisfy the declarative specification `KeysSpec` — i.e., with `keysSpec_unique`,
only the one list `keys_sorted_by_birth` describes. -/
theorem checkKeys_sound (h : List Op) (keys : List Bytes) (hc : checkKeys h keys = true) :
    KeysSpec h keys := by
  simp only [checkKeys, Bool.and_eq_true, List.all_eq_true, Bool.or_eq_true, Bool.not_eq_true',
    List.contains_eq_mem, decide_eq_true_eq] at hc
  obtain ⟨⟨hall, hinc⟩, hcov⟩ := hc
  constructor
  · intro k
    constructor
    · exact hall k
    · intro hb
      have hm : k ∈ h.filterMap opKey := by
        have := birthR_mem_ops h.reverse k hb
        rw [List.mem_filterMap] at this ⊢
        obtain ⟨op, hop, hk⟩ := this
        exact ⟨op, List.mem_reverse.mp hop, hk⟩
      rcases hcov k (List.mem_eraseDups.mpr hm) with hn | hin
      · rw [hn] at hb; cases hb
      · exact hin
  · exact pairwise_of_filterMap (birth h) keys hall (strictlyIncreasing_pairwise _ hinc)

/-! ### non-vacuity -/

/-- A concrete history: set a, set b, re-set a (keeps first place), delete a, re-add a (appended). -/
example :
    let h : List Op := [.set [97] [120], .set [98] [92, 110], .set [97] [121], .del [97], .set [97] [10]]
    (run .unicode .little h).entries = [([98], [10]), ([97], [10])] ∧
    (run .unicode .little h).getMessage [98] = some [92, 110] ∧
    birth h [98] = some 1 ∧ birth h [97] = some 4 := by decide

end Mila.Props.C07
